"""C20 - output is a pure function of the input text and the target option.

Proof:   lean/CprocVerif/Props/C20.lean: any client that uses a table only through mapput/mapget
         computes the same result under every hash function and initial capacity
         (client_refines, output_hash_independent: for all client programs, no bound); identifiers
         come from creation-order counters (ids_pure, ids_injective); and three facts about the
         sources that are REGENERATED from /repo on every run by tools/gen_c20.py and re-proved:
         no file but map.c touches the table representation, mapfree callbacks are NULL/free, no
         use of getenv/setlocale/time/rand/clock/getpid/.../%p in the compiler proper.
Tie:     perturbation runs of the freshly built cproc-qbe on corpus and generated inputs:
         environment (LC_ALL/LANG/TZ), allocator (MALLOC_PERTURB_, mmap threshold, arena/top pad),
         address-space layout (setarch -R vs randomised, repeated runs), working directory, stdin vs
         path, -o vs stdout; outputs and statuses must be byte-identical; valgrind memcheck
         (uninitialised-value errors) on a sample.  Reads of uninitialised memory cannot be expressed
         in the model; they are only sampled here.
"""
import glob
import os
import shutil
import subprocess

from . import common, progrun


def run_one(cmd, stdin=None, env=None, cwd=None, timeout=60):
    try:
        p = subprocess.run(cmd, input=stdin, stdout=subprocess.PIPE, stderr=subprocess.PIPE, env=env, cwd=cwd, timeout=timeout)
    except subprocess.TimeoutExpired:
        return ("timeout", b"", b"")
    return (p.returncode, p.stdout, p.stderr)


def decl_zoo(rng, n):
    """small units made of randomly derived declarators (arrays of constant / variable / unspecified length in every
    nesting order, pointers, function pointers, typedefs of variably modified types, compound literals, bit-fields,
    flexible members): every type/decl/expr node constructor of the front end is reached with unusual field
    combinations, which is where a field left uninitialised would matter"""
    bases = ["int", "char", "long", "double", "unsigned short", "struct P", "union U", "float", "_Bool"]
    units = []
    for u in range(n):
        lines = ["struct P { int a; char b[3]; unsigned f : 5; }; union U { long l; float g; };",
                 "struct F { int n; short tail[]; };", "void use(void *, unsigned long);",
                 "void f%d(int n, int m)" % u, "{"]
        for k in range(rng.randrange(2, 7)):
            b = rng.choice(bases)
            name = "v%d" % k
            d = name
            vm = False
            for _ in range(rng.randrange(0, 4)):
                c = rng.random()
                if c < 0.30:
                    d = "%s[%d]" % (d, rng.choice([1, 2, 3, 7]))
                elif c < 0.62:
                    d = "%s[%s]" % (d, rng.choice(["n", "m", "n + 1", "m * 2", "n + m", "(n)"]))
                    vm = True
                elif c < 0.85:
                    d = "(*%s%s)" % (rng.choice(["", "const ", "restrict ", "volatile "]) if "[" not in d else "", d)
                else:
                    d = "(*%s)(%s)" % (d, rng.choice(["void", "int", "int, char *", "int k, int (*)[k]"]))
            form = rng.random()
            if form < 0.2:
                lines.append("\ttypedef %s %s;" % (b, d.replace(name, "T%d" % k)))
                lines.append("\tT%d %s%s;" % (k, rng.choice(["", "*"]), name) if not d.startswith("(*") or True else "")
                lines.append("\tuse(&%s, sizeof(T%d));" % (name, k))
            elif form < 0.3 and not vm:
                lines.append("\tstatic %s %s;" % (b, d))
                lines.append("\tuse(&%s, sizeof %s);" % (name, name))
            else:
                lines.append("\t%s %s;" % (b, d))
                lines.append("\tuse(&%s, sizeof %s);" % (name, name))
            if rng.random() < 0.3:
                lines.append("\tuse((%s[]){0}, sizeof(%s[n]));" % (rng.choice(["int", "long", "char"]), rng.choice(["int", "char", "double"])))
            if rng.random() < 0.2:
                lines.append("\tuse(&(struct P){.f = n}, _Alignof(%s));" % b)
        lines.append("}")
        if rng.random() < 0.5:
            lines.append("void g%d(int n, int a[n][3], int b[3][n], int c[*][*]);" % u if False else
                         "void g%d(int n, int a[n][3], int b[3][n], int (*c)[n]);" % u)
        units.append("\n".join(lines) + "\n")
    return units


def build_msan(ck):
    """cproc-qbe built from the scratch copy with clang -fsanitize=memory (uninitialised reads that decide a branch,
    an address or an output byte).  None when clang/MSan is not usable here."""
    if not shutil.which("clang"):
        return None
    flags = ["-O1", "-g", "-fsanitize=memory", "-fno-omit-frame-pointer", "-std=c11", "-w"]
    src = ck.repo_src()
    try:
        objs = ck.compile_objs([os.path.join(src, u + ".c") for u in common.REPO_UNITS + ["main"]], flags, cc="clang")
        exe = ck.link(objs, "cproc-qbe-msan", flags=["-fsanitize=memory"], cc="clang")
    except common.CompileError as e:
        ck.notes.append("MSan build not available: %s" % str(e)[-200:])
        return None
    r = subprocess.run([exe], input=b"int x;\n", stdout=subprocess.PIPE, stderr=subprocess.PIPE)
    if r.returncode != 0 or b"MemorySanitizer" in r.stderr:
        ck.notes.append("MSan build does not run cleanly on a trivial input: %s" % r.stderr[-200:])
        return None
    return exe


def run(ck):
    rng = ck.rng
    ck.lean_build()
    cc = ck.build_cproc_qbe()
    d = os.path.join(ck.scratch(), "c20")
    os.makedirs(d)
    other = os.path.join(d, "elsewhere")
    os.makedirs(other)
    # inputs
    inputs = []
    corpus = sorted(glob.glob(os.path.join(common.REPO, "test", "*.c")))
    rng.shuffle(corpus)
    for f in corpus[: (60 if ck.quick else len(corpus))]:
        name = os.path.basename(f)[:-2]
        targ = name.split("+")[1] if "+" in name else rng.choice(progrun.TARGETS)[0]
        flags = ["-E"] if os.path.exists(f[:-2] + ".pp") else []
        inputs.append((f, ["-t", targ] + flags))
    for i in range(25 if ck.quick else 400):
        targ, cs = progrun.TARGETS[i % 3]
        text, _ = progrun.gen_program(ck.seed * 104729 + i, cs, size=rng.choice([0.6, 1.0, 1.5]))
        if i % 5 == 4:   # a diagnosed input: the status and stdout-so-far must be reproducible too
            text = text.replace("int main(void)", "int main(void) { return undeclared_%d; }\nint main2(void)" % i, 1)
        p = os.path.join(d, "g%d.c" % i)
        open(p, "w").write(text)
        inputs.append((p, ["-t", targ]))
    nzoo = 0
    for i, text in enumerate(decl_zoo(rng, 60 if ck.quick else 1200)):
        g = subprocess.run(["gcc", "-std=c11", "-w", "-fsyntax-only", "-x", "c", "-"], input=text.encode(),
                           stdout=subprocess.PIPE, stderr=subprocess.PIPE)
        if g.returncode != 0:
            continue
        p = os.path.join(d, "z%d.c" % i)
        open(p, "w").write(text)
        inputs.append((p, ["-t", rng.choice(progrun.TARGETS)[0]]))
        nzoo += 1
    # string literals repeated inside function bodies (the string pool outlives the expressions that mention them)
    for i in range(6 if ck.quick else 60):
        pool = ["".join(rng.choice("abcdefgh ") for _ in range(rng.choice([1, 3, 8, 15, 24, 39, 40, 64, 200]))) for _ in range(rng.randint(2, 6))]
        lines = ["int puts(const char *); void use(const void *);"]
        for fnum in range(rng.randint(1, 4)):
            lines.append("void sf%d_%d(int c) {" % (i, fnum))
            for _ in range(rng.randint(3, 12)):
                lit = rng.choice(pool)
                pf = rng.choice(["", "", "", "L", "u", "U", "u8"])
                lines.append('\t%s(%s"%s");' % ("puts" if pf in ("", "u8") else "use", pf, lit) if rng.random() < 0.7 else
                             '\tif (c) { const void *p = %s"%s"; use(p); }' % (pf, lit))
            lines.append("}")
        p = os.path.join(d, "str%d.c" % i)
        open(p, "w").write("\n".join(lines) + "\n")
        inputs.append((p, ["-t", rng.choice(progrun.TARGETS)[0]]))
    # several input files in one invocation (the scanner chain: state of a freshly opened scanner)
    multi = set()
    for i in range(4 if ck.quick else 30):
        a = os.path.join(d, "mf%da.c" % i)
        b = os.path.join(d, "mf%db.c" % i)
        open(a, "w").write("int mfa%d = %d;%s" % (i, i, rng.choice(["\n", "", " ", "\n\n", "/* c */"])))
        open(b, "w").write("%sint mfb%d = %d;\n#define M%d (mfb%d + 1)\nint mfc%d(void) { return M%d; }\n"
                           % (rng.choice(["", " ", "\n", "\t"]), i, i, i, i, i, i))
        for fl in (["-E"], [], ["-t", "aarch64", "-E"]):
            inputs.append((b, fl + [a]))
            multi.add((b, tuple(fl + [a])))
    base_env = {"PATH": os.environ.get("PATH", "/usr/bin:/bin")}
    msan = build_msan(ck)
    setarch = shutil.which("setarch")
    perturbations = [
        ("env-locale-de", dict(base_env, LC_ALL="de_DE.UTF-8", LANG="de_DE.UTF-8", TZ="Asia/Kolkata"), None, False),
        ("env-locale-C", dict(base_env, LC_ALL="C", LANG="C", TZ="UTC", FOO="bar" * 50), None, False),
        ("malloc-perturb-55", dict(base_env, MALLOC_PERTURB_="85"), None, False),
        ("malloc-perturb-aa", dict(base_env, MALLOC_PERTURB_="170", MALLOC_MMAP_THRESHOLD_="0"), None, False),
        ("malloc-toppad", dict(base_env, MALLOC_TOP_PAD_="1048576", MALLOC_ARENA_MAX="1"), None, False),
        ("cwd-elsewhere", base_env, other, False),
        ("repeat", base_env, None, False),
    ]
    if setarch:
        perturbations.append(("aslr-off", base_env, None, True))
    stats = {"inputs": len(inputs), "declarator-zoo-inputs": nzoo, "msan-build": bool(msan), "msan-runs": 0, "runs": 0, "ok-status": 0, "diagnosed-status": 0, "perturbations": [p[0] for p in perturbations] +
             ["stdin-vs-path", "-o-vs-stdout"], "valgrind-runs": 0}

    def work(item):
        path, flags = item
        path = os.path.abspath(path)
        res = []
        ref = run_one([cc] + flags + [path], env=base_env)
        res.append(("reference", ref))
        for name, env, cwd, noaslr in perturbations:
            cmd = ([setarch, "x86_64", "-R"] if noaslr else []) + [cc] + flags + [path]
            res.append((name, run_one(cmd, env=env, cwd=cwd)))
        if (item[0], tuple(flags)) not in multi:
            data = open(path, "rb").read()
            r = run_one([cc] + flags, stdin=data, env=base_env)
            res.append(("stdin-vs-path", (r[0], r[1], b"")))
        outp = os.path.join(d, "%s.%s.out" % (common.sha(path, " ".join(flags))[:10], os.path.basename(path)))   # never inside /repo
        r = run_one([cc, "-o", outp] + flags + [path], env=base_env)      # options precede the file operands
        body = open(outp, "rb").read() if os.path.exists(outp) else b""
        res.append(("-o-vs-stdout", (r[0], body if r[0] == 0 else ref[1], b"")))
        if msan:
            r = run_one([msan] + flags + [path], env=dict(base_env, MSAN_OPTIONS="exit_code=97:halt_on_error=1"), timeout=120)
            res.append(("msan-build", r))
        return item, res

    for item, res in progrun.run_many(work, inputs):
        ref = res[0][1]
        if ref[0] == "timeout":
            ck.notes.append("timeout on %s (C19's business)" % item[0])
            continue
        stats["ok-status" if ref[0] == 0 else "diagnosed-status"] += 1
        ck.count((os.path.basename(item[0]), ref[0], len(ref[1])))
        for name, r in res[1:]:
            stats["runs"] += 1
            if name == "msan-build":
                stats["msan-runs"] += 1
                if b"MemorySanitizer" in r[2]:
                    ck.violation({"kind": "uninitialised-value", "input": open(item[0], errors="replace").read()[:6000], "flags": item[1],
                                  "msan": r[2].decode(errors="replace")[-2500:],
                                  "what": "a branch, address or output byte depends on uninitialised memory (MemorySanitizer build of /repo)"})
                    break
                r = (r[0], r[1], ref[2])
            same = r[0] == ref[0] and r[1] == ref[1]
            if same and name not in ("stdin-vs-path", "-o-vs-stdout", "cwd-elsewhere"):
                same = r[2] == ref[2]       # diagnostics too
            if not same:
                ck.violation({"kind": "output-depends-on-" + name, "input": open(item[0], errors="replace").read()[:6000],
                              "flags": item[1], "perturbation": name,
                              "reference": {"status": ref[0], "stdout_len": len(ref[1]), "stdout_head": ref[1][:400].decode(errors="replace")},
                              "perturbed": {"status": r[0], "stdout_len": len(r[1]), "stdout_head": r[1][:400].decode(errors="replace"),
                                            "stderr": r[2][:400].decode(errors="replace")},
                              "what": "cproc-qbe's output or status changed under a perturbation that must not matter"})
                break
        if ck.violations:
            break
    # valgrind: uninitialised-value-dependent behaviour on the plain build
    vg = shutil.which("valgrind")
    if vg and not ck.violations:
        sample = inputs[:(6 if ck.quick else 80)] + inputs[-(10 if ck.quick else 120):]

        def vrun(item):
            path, flags = item
            return item, run_one([vg, "-q", "--error-exitcode=97", "--undef-value-errors=yes", "--track-origins=no", cc] + flags + [path],
                                 env=base_env, timeout=300)
        for item, r in progrun.run_many(vrun, sample):
            stats["valgrind-runs"] += 1
            if r[0] == 97:
                txt = r[2].decode(errors="replace")
                if "uninitialised" in txt or "Uninitialised" in txt:
                    ck.violation({"kind": "uninitialised-value", "input": open(item[0], errors="replace").read()[:6000], "flags": item[1],
                                  "valgrind": txt[-2500:], "what": "a branch or output byte depends on uninitialised memory"})
                    break
                ck.notes.append("valgrind reported a non-uninitialised error on %s (C19's business): %s" % (item[0], txt[-200:]))
    ck.cov["stats"] = stats
    ck.cov["rule"] = ("each input (corpus incl. -E tests, generated programs, every 5th generated input made to fail with a diagnostic) is "
                      "compiled under %d perturbations and compared byte-for-byte with the reference run; distinct_nontrivial = distinct inputs"
                      % (len(perturbations) + 2))
    ck.sample({"input": inputs[-1][0], "flags": inputs[-1][1]})
    if ck.gen_error and not ck.violations:
        ck.violation({"kind": "translator-broken", "what": ck.gen_error}, nofail=True)
    if not ck.proofs_ok and not ck.violations:
        # a regenerated purity obligation no longer holds and no perturbation exhibited a difference
        gen = open(os.path.join(common.LEAN, "CprocVerif", "Gen", "Purity.lean")).read()
        ck.violation({"kind": "proof-broken", "theorem": "CprocVerif.C20.map_clients_abstract / mapfree_callbacks_pure / no_impure_calls",
                      "generated_facts": gen, "log": ck.build_log[-2500:]}, nofail=True)
    ck.assumptions = ["reads of uninitialised memory and allocator-dependent branches are only sampled (valgrind, MALLOC_PERTURB_)",
                      "glibc honours MALLOC_PERTURB_/MALLOC_* tunables; setarch -R disables ASLR"]


META = {
    "category": "proof",
    "text": ("Lean theorems: every client of the hash table that uses it only through mapput/mapget computes the same result "
             "under every hash function and initial capacity (for all client programs and histories), identifiers are a function of "
             "creation order, and -- regenerated from /repo on every run -- no file but map.c touches the table representation, "
             "mapfree callbacks are NULL/free, and the compiler proper calls no environment-, clock-, locale- or address-dependent "
             "facility.  Tied to the binary by byte-for-byte comparison of outputs under environment, allocator, ASLR, cwd, "
             "stdin/-o perturbations and valgrind's uninitialised-value check.  Partial: uninitialised reads and address-dependent "
             "branches are runtime behaviour the model cannot exhibit; they are sampled, not proved."),
    "design_ref": "DESIGN.md section 4, C20",
    "note": ("Trusted: Lean kernel + standard axioms; tools/gen_c20.py (token-level scan of the sources); the Map model (tied to "
             "map.c by C16's correspondence).  Not modelled: memory initialisation, the allocator, libc's printf."),
    "technique": "Lean 4 proof (hash-function independence of table clients; regenerated source-purity facts) + perturbation differential",
}

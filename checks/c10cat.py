"""C10 catalogue machinery: load catalogue/c10.json, wrap a violating template as a stand-alone unit,
instantiate it at a position of an otherwise-valid host program, run cproc-qbe / gcc / clang on it.

Template (one JSON object inside an entry's "templates"):
  kind    "file-scope declaration" | "block statement" | "expression" | "directive/line" | "whole-unit"
  code    the fragment.  Names it introduces start with c10_ (the hosts never use that prefix).
          whole-unit: may contain the placeholder {HOST} (replaced by the host program, or by nothing
          when the template is run alone).
  decls   (optional) file-scope declarations the fragment needs (valid C; placed before the fragment's function)
  msg     regex the diagnostic of cproc-qbe must match (re.search on stderr)
  diag    "error" (default: `file:line:col: error: ...`) or "fatal" (`cproc-qbe: ...`, sites calling fatal())
  oracle  "gcc" (default): gcc -std=c11 -pedantic-errors -fsyntax-only or clang must reject the stand-alone
          unit too; "cproc-only": the platform compilers accept it (unsupported feature, C23 reading, ...),
          "reason" says why
  skip    (optional) {position: reason} positions that are not feasible for this fragment
"""
import json
import os
import re
import subprocess

VERIF = os.path.dirname(os.path.dirname(os.path.abspath(__file__)))
CATALOGUE = os.path.join(VERIF, "catalogue", "c10.json")

KINDS = {"file-scope declaration": "decl", "block statement": "stmt", "expression": "expr",
         "directive/line": "line", "whole-unit": "unit"}
DIAG_ERROR = re.compile(r"^[^:\n]+:\d+:\d+: error: ", re.M)
DIAG_FATAL = re.compile(r"^[^:\n]+: \S", re.M)

# positions per kind (the first one is the base position: the expected message is required there)
POSITIONS = {
    "decl": ["file", "block", "nested", "macro", "late"],
    "stmt": ["block", "nested", "macro", "late"],
    "expr": ["block", "nested", "unevaluated", "file", "macro", "late"],
    "line": ["file", "block", "late"],
    "unit": ["alone", "host"],
}


def load(path=CATALOGUE):
    cat = json.load(open(path))
    for e in cat["entries"]:
        e["site"] = tuple(e["site"])
        for t in e.get("templates", []):
            if t["kind"] not in KINDS:
                raise ValueError("template of %s has unknown kind %r" % (e["site"], t["kind"]))
    return cat


def key_str(site):
    return "|".join(site)


# --------------------------------------------------------------------------- stand-alone units
def standalone(t):
    """the template as a minimal translation unit"""
    k = KINDS[t["kind"]]
    pre = (t.get("decls", "") + "\n") if t.get("decls") else ""
    c = t["code"]
    if k == "decl":
        return pre + c + "\n"
    if k == "stmt":
        return pre + "void c10_host(void)\n{\n\t" + c + "\n}\n"
    if k == "expr":
        return pre + "void c10_host(void)\n{\n\t(void)(" + c + ");\n}\n"
    if k == "line":
        return pre + "int c10_before;\n" + c + "\nint c10_after;\n"
    return pre + c.replace("{HOST}", "")


# --------------------------------------------------------------------------- hosts
class Host:
    """An otherwise-valid program (gen/cprog.py style: one statement per line, function bodies between
    column-0 '{' and '}' lines) with its insertion points."""

    def __init__(self, text):
        self.text = text
        self.lines = text.split("\n")
        if self.lines and self.lines[-1] == "":
            self.lines.pop()
        self.file_pts, self.block_pts, self.nested_pts, self.expr_pts = [], [], [], []
        infunc = False
        instruct = False
        sw_depth = None
        for i, ln in enumerate(self.lines):
            if not infunc:
                if ln == "{":
                    infunc = True
                    continue
                if ln.startswith("struct ") and ln.endswith("{"):
                    instruct = True
                    self.file_pts.append(i)
                    continue
                if instruct:
                    if ln.startswith("}"):
                        instruct = False
                    continue
                if ln == "" or (ln[0] not in " \t}" and i + 1 < len(self.lines) and self.lines[i + 1] != "{") \
                        or (ln and ln[0] not in " \t}{" and i + 1 < len(self.lines) and self.lines[i + 1] == "{"):
                    # before a declaration, an empty line, or a function header
                    self.file_pts.append(i)
            else:
                if ln == "}":
                    infunc = False
                    sw_depth = None
                    self.block_pts.append(i)       # just before the closing brace of the body
                    continue
                depth = len(ln) - len(ln.lstrip("\t"))
                st = ln.strip()
                # the labels and statements of a generated `switch` sit at the depth of the switch itself:
                # they are nested statements (a `break;` or `case 1:;` there is valid)
                if sw_depth is not None and depth == sw_depth and st.startswith("}"):
                    sw_depth = None
                    self.nested_pts.append(i)
                    continue
                if sw_depth is None and depth <= 1 and re.match(r"^switch \(.*\{$", st):
                    self.block_pts.append(i)
                    sw_depth = depth
                    continue
                # a line starting with '}' closes a nested statement: inserting before it lands inside that one
                (self.block_pts if depth <= 1 and sw_depth is None and not st.startswith("}")
                 else self.nested_pts).append(i)
                if re.match(r"^\t+out\(\(long\)\(.*\)\);$", ln):
                    self.expr_pts.append(i)
        self.file_pts.append(len(self.lines))       # end of file

    def insert(self, i, new_lines):
        return "\n".join(self.lines[:i] + new_lines + self.lines[i:]) + "\n"


NEST_SHAPES = [           # evaluated contexts inside a generated expression e (of type long)
    "((%(f)s), %(e)s)",
    "((%(e)s) + ((%(f)s), 0))",
    "((%(e)s) ? ((%(f)s), 1L) : ((%(f)s), 2L))",     # both arms: a constant condition drops one of them
    "(c10_id(((%(f)s), (long)(%(e)s))))",
    "((long)c10_arr[((%(f)s), 1)] + (%(e)s))",
]
UNEVAL_SHAPES = [         # unevaluated operand inside a generated expression
    "(1 ? (%(e)s) : (long)(0 * sizeof(int[1 + !((%(f)s), 1)])))",
    "((%(e)s) + (long)(0 * sizeof((%(f)s), 0)))",
    "((%(e)s) + (long)(0 * _Alignof(typeof((%(f)s), 0))))",
]
NEST_DECLS = ["static long c10_id(long c10_v) { return c10_v; }", "static int c10_arr[4];"]
MACRO_FN = "#define C10_M(...) __VA_ARGS__"
LATE_LINES = 500


def late_prefix(n=LATE_LINES):
    """n lines of valid code (declarations and small functions)"""
    out = []
    i = 0
    while len(out) < n:
        out += ["static int c10_l%d = %d;" % (i, i), "static int c10_lf%d(int c10_a)" % i, "{",
                "\treturn c10_a + c10_l%d * %d;" % (i, i % 7), "}"]
        i += 1
    return out


def positions_of(t):
    return [p for p in POSITIONS[KINDS[t["kind"]]] if p not in t.get("skip", {})]


def instantiate(t, host, pos, rng):
    """The template placed at `pos` of `host`.  Returns (program text, description of the place) or None
    when the position does not apply to this template/host."""
    k = KINDS[t["kind"]]
    code = t["code"]
    head = [t["decls"]] if t.get("decls") else []
    base = POSITIONS[k][0]
    macro = late = False
    if pos == "macro":
        macro, pos = True, base
    elif pos == "late":
        late, pos = True, base
    if k == "unit":
        if pos == "alone":
            return code.replace("{HOST}", ""), "alone"
        if "{HOST}" not in code:
            return None
        return code.replace("{HOST}", host.text), "host"
    frag = code
    if macro:
        if k == "line" or "#" in code:
            return None
        if rng.random() < 0.5:
            head = [MACRO_FN] + head
            frag = "C10_M(" + code + ")"
        else:
            head = ["#define C10_O " + " ".join(code.split("\n"))] + head
            frag = "C10_O"
    h = host
    if k == "expr":
        if pos in ("nested", "unevaluated"):
            if not h.expr_pts:
                return None
            i = rng.choice(h.expr_pts)
            m = re.match(r"^(\t+)out\(\(long\)\((.*)\)\);$", h.lines[i])
            shape = rng.choice(NEST_SHAPES if pos == "nested" else UNEVAL_SHAPES)
            e = shape % {"f": frag, "e": "(long)(" + m.group(2) + ")"}
            body = h.lines[:i] + ["%sout((long)(%s));" % (m.group(1), e)] + h.lines[i + 1:]
            head = head + NEST_DECLS
            where = "%s@%d" % (pos, i)
            return _finish(head, body, late, macro, where)
        if pos == "block":
            frag = "(void)(%s);" % frag
        elif pos == "file":
            frag = "unsigned long c10_sz = sizeof((%s), 0);" % frag
        else:
            return None
    pts = {"file": h.file_pts, "block": h.block_pts, "nested": h.nested_pts or h.block_pts}.get(pos)
    if not pts:
        return None
    i = rng.choice(pts)
    new = frag.split("\n")
    if pos != "file" and k != "line":
        new = [x if x.startswith(("\t", "#")) else "\t" + x for x in new]
    body = h.lines[:i] + new + h.lines[i:]
    return _finish(head, body, late, macro, "%s@%d" % (pos, i))


def _finish(head, body, late, macro, where):
    if late:
        head = late_prefix() + head
    return "\n".join(head + body) + "\n", where + ("+macro" if macro else "") + ("+late" if late else "")


# --------------------------------------------------------------------------- running compilers
def run_cproc(cc, text, path, target=None, timeout=20):
    open(path, "w").write(text)
    cmd = [cc] + (["-t", target] if target else []) + [path]
    try:
        r = subprocess.run(cmd, stdout=subprocess.DEVNULL, stderr=subprocess.PIPE, timeout=timeout)
    except subprocess.TimeoutExpired:
        return -9, "timeout"
    return r.returncode, r.stderr.decode("utf-8", "replace")


def run_cproc_bytes(cc, data, path, timeout=20):
    open(path, "wb").write(data)
    try:
        r = subprocess.run([cc, path], stdout=subprocess.DEVNULL, stderr=subprocess.PIPE, timeout=timeout)
    except subprocess.TimeoutExpired:
        return -9, "timeout"
    return r.returncode, r.stderr.decode("utf-8", "replace")


def text_of(t, s):
    """templates may carry raw bytes (NUL, invalid UTF-8) as \\xNN escapes when "raw": true"""
    if t.get("raw"):
        return s.encode("latin-1").decode("unicode_escape").encode("latin-1")
    return s.encode("utf-8")


def oracle_rejects(text, path, compilers=("gcc", "clang")):
    """{compiler: (rejected?, first error line)} for gcc/clang -std=c11 -pedantic-errors -fsyntax-only"""
    if isinstance(text, bytes):
        open(path, "wb").write(text)
    else:
        open(path, "w").write(text)
    out = {}
    for c in compilers:
        exe = "clang-14" if c == "clang" else c
        r = subprocess.run([exe, "-std=c11", "-pedantic-errors", "-fsyntax-only", "-x", "c", path],
                           stdout=subprocess.PIPE, stderr=subprocess.STDOUT, text=True, errors="replace")
        first = ""
        for ln in r.stdout.splitlines():
            if "error" in ln:
                first = ln.split("error:", 1)[-1].strip()[:120]
                break
        out[c] = (r.returncode != 0, first)
    return out


def diag_ok(t, stderr):
    return bool((DIAG_FATAL if t.get("diag") == "fatal" else DIAG_ERROR).search(stderr))

"""C02 - cproc compiled by cproc (stage 2) is indistinguishable from cproc compiled by the host compiler.

There is no qbe/as/ld in the sandbox, so stage 2 exists only as IL: the stage-1 IL of cproc's own 18
translation units (preprocessed with the system headers, compiled by the freshly built native
cproc-qbe for x86_64-sysv) is LINKED (`Spec/QbeLink.lean`: per-module scopes for non-exported
symbols, aggregate types identified structurally) and EXECUTED under the formal IL semantics
(`Spec/Qbe.lean`) with a mini C library written in Lean (`Spec/QbeLibc.lean`: heap with
use-after-free detection, string/ctype functions, strtoull/strtod/strtof correctly rounded, stdio on
an in-memory file system, printf family with exact %g/%.17g, perror, exit, abort, __assert_fail).
For every input the standard output, the diagnostics and the exit status of stage 2 must be
byte-identical to those of the native stage-1 binary; compiling cproc's own preprocessed sources
with stage 2 must reproduce the stage-1 IL byte for byte (bootstrap fixed point).

Not a proof about cproc: what Lean proves (Props/C02.lean) is that the executed comparison is
meaningful - the semantics is deterministic, the step-counting runner of the driver computes exactly
`Qbe.runFunc`, and (wf_sound of C03 applied to the linked stage-2 program, whose `wf` is evaluated
on every run) stage 2 can never get stuck on an undefined temporary / unknown label / unmatched phi
/ falling off a function.

Level 1 (quick): wf of the 18 modules + of the linked program, list of externals, stage 2 vs stage 1
on a sample of corpus files (incl. -E tests), generated programs, invalid inputs, special
invocations, three small bootstrap units.  Level 2 (thorough): the whole corpus for its targets,
more generated/invalid inputs, the bootstrap fixed point for all 18 units.
"""
import glob
import os
import re
import subprocess
import time

from . import common, progrun

UNITS = ["attr", "decl", "eval", "expr", "init", "main", "map", "pp", "scan", "scope", "stmt", "targ",
         "token", "tree", "type", "utf", "util", "qbe"]
CPPFLAGS = ["-P", "-U__GNUC__", "-U__GNUC_MINOR__", "-D__STDC_NO_ATOMICS__", "-D__STDC_NO_COMPLEX__",
            "-U__SIZEOF_INT128__", "-U__PIC__", "-D__extension__="]
SIGNAL_KIND = {-6: "trap abort", -8: "trap division", -11: "oob"}

# stage-2 memory errors (native stage 1 survives them silently) that are recorded findings of
# other properties; ids are looked up among the C02 entries of known_findings.json
MEMORY_FINDINGS = [
    (re.compile(r"\$expandfunc"), "uaf-macro-undefined-during-invocation"),
]

INVALID = [
    "int f(void) { return x; }\n",
    "int a = 1 +;\n",
    "struct S { int a; } s; int g(void){ return s.b; }\n",
    "#include \"nonexist.h\"\nint x;\n",
    "int x = 0x1ffffffffffffffffff;\n",
    "#define F(x) x x\nF(1 F(2\n",
    "char *s = \"abc\n",
    "int f(int a){ switch(a){ case 1: case 1: return 2; } return 0; }\n",
    "#error stop here\n",
    "void f(void){ int x; x = \"a\" * 2; }\n",
    "_Static_assert(sizeof(int)==8, \"int is not 8\");\n",
    "int \xc3\xa9 = 1; char *u = \"\xe2\x82\xac \\u20ac\"; int w = L'\\x7f';\n",
    "long x = (long)(0.0/0.0);\n",
    "int x = 1/0;\n",
    "void f(void){a: a: ;}\n",
    "int f(int x){ return x +* ; }\n",
    "typedef int T; T T;\n",
    "int f(void){ break; }\n",
    "enum E { A = 1.5 };\n",
    "int x; float x;\n",
    "int x = {1, 2};\n",                                   # stage 1 aborts on an assertion: stage 2 must too
    "struct F {int n; int a[];} f = {1, {1,2,3}};\n",      # likewise
]

VALID_EXTRA = [
    # constant folding in eval.c with negative / boundary operands (signed >>, %, /, comparisons, conversions)
    "int a = -8 >> 1; int b = -7 % 3; int c = -7 / 2; long d = -9223372036854775807L % 10; long e = -1L >> 63;\n"
    "int f = (-5 < 3) + (-5 < 3u) * 2; unsigned g = -1 / 2u; long h = (int)0x80000000u >> 4; int i = (char)200 + (short)70000;\n"
    "unsigned long j = -1UL % 7; int k = -2147483647 - 1 < 0; long l = 1L << 62 >> 3; double m = -7 / 2 + (-7.0 / 2);\n"
    "int n = (unsigned char)-1 >> 3; long o = -17 / -5 * (-17 % -5); int p[-3 % 2 + 2]; int q = (-1 ^ 5) >> 1 | -16 >> 2;\n"
    # every relational operator of eval.c's signed cases with operands of different sign, at each width
    "int r1 = (-1 >= 0) + 2 * (0 >= -1) + 4 * (-1 <= 0) + 8 * (0 <= -1) + 16 * (-1 > 0) + 32 * (0 > -1) + 64 * (-1 < 0) + 128 * (0 < -1);\n"
    "int r2 = (-1L >= 0L) + 2 * (0L >= -1L) + 4 * (-1L <= 0L) + 8 * (0L <= -1L) + 16 * (-1L > 0L) + 32 * (0L > -1L) + 64 * (-1L < 0L) + 128 * (0L < -1L);\n"
    "int r3 = (-9223372036854775807LL >= 5) + 2 * (5 >= -9223372036854775807LL) + 4 * (-2 == -2LL) + 8 * (-2 != 4294967294u) + 16 * (-2 < 1u);\n"
    "enum R { R1 = -1 >= 0, R2 = 7 >= -7, R3 = -7 >= 7, R4 = -7 <= 7 }; int r4[(-1 >= 0) + (0 >= -1) + 1];\n",
    # float formatting / parsing paths of the compiler (%.17g, strtod, strtof, strtoull)
    "float f = 1e999; double d = 0x1.8p3; float g = 1.5e-50f; double h = 4.9e-324; int i = 077; int j = 0b101;\n"
    "long k = 18446744073709551615u; double arr[] = {1.0/3, 2.5e10, 1e22, 1e23, 5e-324, 1.7976931348623157e308,\n"
    " 0.1f, 100.0, 123456789.0, 1e-5, 0.0001, -0.0, 1e-7f, 16777217.0f, 0x1p-1074, 3.4028235e38f};\n"
    "float n = __builtin_nanf(\"\"); float inf = __builtin_inff(); double q = 0.0/0.0 == 0.0/0.0;\n",
    "int printf(const char *, ...);\nstruct S { char c[3]; long l; double d; };\n"
    "static struct S tab[] = { {\"ab\", -1, 2.5}, {{1, 2, 3}, 0x7fffffffffffffff, -1e-3} };\n"
    "int main(int argc, char **argv) { const char *s = \"a\\tb\\\"\\\\\\377\\0z\"; unsigned short w[] = u\"h\\u00e9\";\n"
    " int n = 0; for (int i = 0; i < argc; i++) n += argv[i][0]; switch (n) { case 1: n *= 2; break; default: n--; }\n"
    " return printf(\"%s %d %g\\n\", s, n + (int)sizeof tab + w[1], tab[1].d) > 0 ? n : 1; }\n",
]


def const_unit(rng, n):
    """a unit of static initialisers whose values eval.c must fold: integers with up to 64 significant bits converted to
    float/double, float/double mixes in binary operators and ?:, float<->integer casts at the precision limits, integer
    folding at the type limits.  Only forms that are defined for every operand value drawn here."""
    def big():
        k = rng.choice([24, 25, 31, 32, 33, 52, 53, 54, 62, 63])
        v = rng.getrandbits(k) | (1 << (k - 1)) | rng.choice([0, 1])
        return v
    def flt():
        return rng.choice(["0.1", "0.2", "1.5", "2.25", "16777217.0", "1e10", "3.0e-5", "123456789.125", "0.333333333333",
                           "1e-3", "7.0", "9007199254740993.0", "4294967297.0"])
    def sflt():
        return rng.choice(["0.1", "0.2", "1.5", "2.25", "1677.7217", "3.0e-5", "12345.125", "0.333333333333", "1e-3", "7.0"])
    lines = []
    for i in range(n):
        k = rng.randrange(17)
        a, b = big(), big()
        if k == 0:
            e, t = "%d" % a, rng.choice(["double", "float"])
        elif k == 1:
            e, t = "(double)%dL" % (a >> 1), "double"
        elif k == 2:
            e, t = "-%dLL" % (a >> 1), rng.choice(["double", "float"])
        elif k == 3:
            e, t = "%duLL + %s" % (a, flt()), "double"
        elif k == 4:
            e, t = "%sf + %s" % (flt(), flt()), rng.choice(["double", "float"])
        elif k == 5:
            e, t = "%d ? %sf : %s" % (rng.choice([0, 1]), flt(), flt()), "double"
        elif k == 6:
            e, t = "%s * %sf - %d" % (flt(), flt(), a % 1000), "double"
        elif k == 7:
            e, t = "(long)%s + (int)%sf" % (sflt(), sflt()), "long"
        elif k == 8:
            e, t = "%d == %s" % (rng.choice([16777217, 9007199254740993, 33554433]), rng.choice(["16777217.0f", "9007199254740993.0", "33554433.0f", "16777216.0f"])), "int"
        elif k == 9:
            e, t = "(float)%d < (double)%d" % (a, a), "int"
        elif k == 10:
            e, t = "%duLL %s %duLL" % (a, rng.choice(["+", "-", "*", "/", "%", "&", "|", "^"]), b | 1), rng.choice(["unsigned long", "int", "unsigned char"])
        elif k == 11:
            e, t = "(%s)%duLL >> %d" % (rng.choice(["int", "long", "short", "unsigned"]), a, rng.randrange(0, 15)), "long"
        elif k == 12:
            e, t = "(unsigned long)(%s * 1e6) + (unsigned)(%sf * 100)" % (sflt(), sflt()), "unsigned long"
        elif k == 14:
            # relational/equality operators on signed constants of either sign and of every width (eval.c's TLESS|S ... cases)
            sv = lambda: "%s%d%s" % (rng.choice(["-", "-", ""]), rng.choice([0, 1, 2, 7, 2147483647, 4294967296, 9223372036854775807, a >> 2]), rng.choice(["", "L", "LL"]))  # noqa: E731
            e, t = "(%s %s %s) + 2 * (%s %s %s)" % (sv(), rng.choice(["<", ">", "<=", ">=", "==", "!="]), sv(), sv(), rng.choice(["<", ">", "<=", ">="]), sv()), "int"
        elif k == 15:
            e, t = "(-%dLL %s %duLL) + (-%d %s %du)" % (a >> 3, rng.choice(["<", ">", "<=", ">="]), b, a % 1000, rng.choice(["<", ">=", "/", "%"]), (b % 1000) + 1), "long"
        elif k == 16:
            e, t = "-%dLL %s %dLL" % (a >> 2, rng.choice(["/", "%", ">>", "*", "-", "+"]), rng.choice([1, 2, 3, 7, 31])), "long long"
        else:
            e, t = "%s / %s + (float)%d / %d" % (flt(), flt(), a % 100000, (b % 1000) + 1), rng.choice(["double", "float"])
        lines.append("%s c%d = %s;" % (t, i, e))
    return "\n".join(lines) + "\n"


def preprocess(ck, src, unit, out):
    path = os.path.join(src, unit + ".c")
    r = subprocess.run(["cpp"] + CPPFLAGS + ["-I", src, path, "-o", out], stdout=subprocess.PIPE,
                       stderr=subprocess.PIPE, text=True)
    if r.returncode != 0:
        raise common.Broken("cpp failed on %s: %s" % (unit, r.stderr[-500:]))


def drv02():
    return os.path.join(common.LEAN, ".lake", "build", "bin", "drv_c02")


class Stage2:
    """stage 1 = native binary, stage 2 = its IL for cproc's sources under the IL semantics"""

    def __init__(self, ck, cc, modules, workdir):
        self.ck, self.cc, self.modules, self.wd = ck, cc, modules, workdir
        self.margs = []
        for m in modules:
            self.margs += ["--module", m]
        self.n = 0

    def run(self, args, files, stdin=None, fuel=3000000000, timeout=1500):
        """files: {virtual name: host path}.  Returns dict with both behaviours."""
        self.n += 1
        tag = "%d-%d" % (os.getpid(), self.n)
        d = os.path.join(self.wd, "run" + tag)
        os.makedirs(d)
        for v, h in files.items():
            os.symlink(h, os.path.join(d, v))
        t0 = time.time()
        try:
            n = subprocess.run([self.cc] + args, cwd=d, stdout=subprocess.PIPE, stderr=subprocess.PIPE,
                               stdin=open(stdin, "rb") if stdin else subprocess.DEVNULL, timeout=60)
            nat = {"status": n.returncode, "out": n.stdout, "err": n.stderr}
        except subprocess.TimeoutExpired:
            return {"skip": "native stage 1 timed out (C19's business)"}
        so, se = os.path.join(d, "s2.out"), os.path.join(d, "s2.err")
        cmd = [drv02(), "run"] + self.margs
        for v, h in files.items():
            cmd += ["--file", "%s=%s" % (v, h)]
        if stdin:
            cmd += ["--stdin", stdin]
        cmd += ["--stdout-to", so, "--stderr-to", se, "--fuel", str(fuel), "--", "cproc-qbe"] + args
        t1 = time.time()
        try:
            r = subprocess.run(cmd, stdout=subprocess.PIPE, stderr=subprocess.PIPE, text=True, timeout=timeout)
        except subprocess.TimeoutExpired:
            raise common.Broken("drv_c02 timed out on %s" % args)
        lines = r.stdout.splitlines()
        if r.returncode != 0 or not lines:
            raise common.Broken("drv_c02 failed rc=%d: %s %s" % (r.returncode, r.stdout[-300:], r.stderr[-300:]))
        steps = 0
        where = ""
        for ln in lines[1:]:
            if ln.startswith("steps "):
                steps = int(ln.split()[1])
            if ln.startswith("at "):
                where = ln[3:]
        s2 = {"end": lines[0], "out": open(so, "rb").read() if os.path.exists(so) else b"",
              "err": open(se, "rb").read() if os.path.exists(se) else b"", "steps": steps, "where": where,
              "seconds": time.time() - t1}
        return {"native": nat, "stage2": s2, "args": args, "native_seconds": t1 - t0}


def first_diff(a, b):
    n = min(len(a), len(b))
    for i in range(n):
        if a[i] != b[i]:
            return i
    return n if len(a) != len(b) else None


def near(b, k):
    return b[max(0, k - 60):k + 60].decode("latin-1")


def judge(ck, res, label, source_text, stats):
    """Compare one run; returns True when the run counts as agreeing."""
    if "skip" in res:
        ck.notes.append("%s: %s" % (label, res["skip"]))
        return True
    nat, s2 = res["native"], res["stage2"]
    end = s2["end"]
    stats["steps"] += s2["steps"]
    stats["stage2_seconds"] += s2["seconds"]
    base = {"input": label, "args": res["args"], "source": source_text[:6000], "native_status": nat["status"],
            "stage2_end": end, "stage2_where": s2["where"]}
    if end.startswith(("unknown-extern", "unsupported", "fuel", "broken")):
        raise common.Broken("interpreter limitation on %s %s: %s (%s)" % (label, res["args"], end, s2["where"]))
    if nat["status"] < 0:
        # stage 1 died of a signal: stage 2 must end the corresponding way with the same diagnostics
        want = SIGNAL_KIND.get(nat["status"])
        stats["both-abnormal"] += 1
        # __FILE__ in an assertion message names the scratch directory the (cached) object was compiled in
        canon = lambda b: re.sub(rb"/[^\s:]*/cvf-C\d\d-[^/]+/src/", b"<src>/", b)   # noqa: E731
        if want and end.startswith(want) and (nat["status"] != -6 or canon(s2["err"]) == canon(nat["err"])):
            return True
        ck.violation(dict(base, kind="abnormal-end-differs", native_stderr=nat["err"][-400:].decode("latin-1"),
                          stage2_stderr=s2["err"][-400:].decode("latin-1"),
                          what="stage 1 was killed by signal %d; stage 2 ends differently" % -nat["status"]))
        return False
    if not end.startswith("status "):
        # stage 2 trapped / went out of bounds / got stuck where the native binary went on
        fid = None
        for pat, f in MEMORY_FINDINGS:
            if pat.search(s2["where"]):
                fid = f
        stats["stage2-abnormal"] += 1
        ck.report(dict(base, kind="stage2-abnormal-end", native_stderr=nat["err"][-400:].decode("latin-1"),
                       what="stage 2 under the IL semantics ends with '%s' at %s while the native stage 1 exits with "
                            "status %d: a memory error / undefined behaviour in cproc that the native build survives, "
                            "or a miscompilation of cproc by itself" % (end, s2["where"], nat["status"])), fid=fid)
        return False
    st = int(end.split()[1])
    for what, a, b in (("stdout", nat["out"], s2["out"]), ("stderr", nat["err"], s2["err"])):
        k = first_diff(a, b)
        if k is not None:
            ck.violation(dict(base, kind="output-differs", stream=what, first_difference_at_byte=k,
                              stage1_near=near(a, k), stage2_near=near(b, k), stage1_len=len(a), stage2_len=len(b),
                              what="stage 2 (cproc compiled by cproc, run under the IL semantics) and stage 1 (native) "
                                   "produce different %s" % what))
            return False
    if st != nat["status"]:
        ck.violation(dict(base, kind="status-differs", stage2_status=st,
                          what="stage 2 and stage 1 exit with different statuses"))
        return False
    return True


def run(ck):
    rng = ck.rng
    ck.cov["rule"] = ("one evaluation = one invocation (arguments + input files) run by the native stage 1 and by stage 2 under "
                      "the IL semantics, compared on stdout, stderr and status byte for byte; distinct_nontrivial = distinct "
                      "(input, arguments) pairs whose stage-2 run executed at least 1000 IL instructions")
    ck.lean_build()
    theorems = list(ck.discharged)
    ck.level = "translation_validation"
    progrun.ensure_drv03(ck)
    if not os.path.exists(drv02()):
        raise common.Broken("drv_c02 was not built: " + getattr(ck, "build_log", "")[-800:])
    cc = ck.build_cproc_qbe()
    src = ck.repo_src()
    d = os.path.join(ck.scratch(), "c02")
    os.makedirs(os.path.join(d, "pp"))
    os.makedirs(os.path.join(d, "il"))

    # ---- stage-1 IL of the 18 translation units
    t0 = time.time()

    def build_unit(u):
        pp = os.path.join(d, "pp", u + ".c")
        preprocess(ck, src, u, pp)
        il = os.path.join(d, "il", u + ".ssa")
        try:
            rc, err = progrun.compile_c(cc, "x86_64-sysv", pp, il, timeout=120)
        except subprocess.TimeoutExpired:
            rc, err = "timeout", "cproc-qbe did not finish within 120 s"
        return (u, pp, il, rc, err)
    units = progrun.run_many(build_unit, UNITS)
    for u, pp, il, rc, err in units:
        if rc != 0:
            ck.violation({"kind": "own-source-rejected", "unit": u, "stderr": err[-800:],
                          "what": "cproc-qbe cannot compile its own (preprocessed) source"})
            return
    modules = [il for _, _, il, _, _ in units]
    il_lines = sum(open(m).read().count("\n") for m in modules)

    # ---- wf of each module and of the linked program; externals
    for path, res in progrun.wf(modules):
        if not res.startswith("ok"):
            ck.violation({"kind": "stage1-IL-ill-formed", "module": os.path.basename(path), "wf": res,
                          "what": "the stage-1 IL of one of cproc's own units is rejected by the proved-sound validator"})
            return
    margs = []
    for m in modules:
        margs += ["--module", m]
    r = subprocess.run([drv02(), "wf"] + margs, stdout=subprocess.PIPE, stderr=subprocess.PIPE, text=True)
    linked_wf = r.stdout.strip()
    if not linked_wf.startswith("ok"):
        ck.violation({"kind": "linked-stage2-ill-formed", "wf": linked_wf,
                      "what": "the linked stage-2 program (18 modules + library environment) is rejected by `wf` "
                              "(cross-module call signatures included)"})
        return
    r = subprocess.run([drv02(), "externs"] + margs, stdout=subprocess.PIPE, stderr=subprocess.PIPE, text=True)
    ext = {ln.split()[0]: ln.split()[1:] for ln in r.stdout.splitlines() if ln.split()}
    if ext.get("missing"):
        raise common.Broken("externals not provided by Spec/QbeLibc.lean: %s" % ext["missing"])
    ck.cov["stage1_il"] = {"modules": len(modules), "lines": il_lines, "linked_wf": linked_wf,
                           "externals": sorted(ext.get("externs", [])), "build_seconds": round(time.time() - t0, 2)}

    s2 = Stage2(ck, cc, modules, d)
    stats = {"steps": 0, "stage2_seconds": 0.0, "both-abnormal": 0, "stage2-abnormal": 0, "agree": 0,
             "streams": {}}
    jobs = []   # (stream, label, args, files, stdin, source_text)

    def add(stream, label, args, files, stdin=None, text=None):
        if text is None and files:
            text = open(list(files.values())[0], "rb").read().decode("latin-1")
        jobs.append((stream, label, args, files, stdin, text or ""))

    def tmpfile(name, text):
        p = os.path.join(d, name)
        open(p, "wb").write(text.encode("utf-8", "surrogateescape") if isinstance(text, str) else text)
        return p

    # ---- corpus
    corpus = sorted(glob.glob(os.path.join(common.REPO, "test", "*.c")))
    pick = corpus
    if ck.quick:
        ppt = [f for f in corpus if os.path.exists(f[:-2] + ".pp")]
        rest = [f for f in corpus if f not in ppt]
        pick = rng.sample(ppt, min(4, len(ppt))) + rng.sample(rest, min(12, len(rest)))
    for f in pick:
        name = os.path.basename(f)
        arch = name[:-2].split("+")[1] if "+" in name else "x86_64-sysv"
        e = ["-E"] if os.path.exists(f[:-2] + ".pp") else []
        add("corpus", name, ["-t", arch] + e + [name], {name: f})
        if not ck.quick and "+" not in name and not e:
            for arch2 in ("aarch64", "riscv64"):
                add("corpus", name, ["-t", arch2, name], {name: f})
    # ---- generated valid programs
    ngen = 5 if ck.quick else 60
    for i in range(ngen):
        targ, cs = progrun.TARGETS[i % 3]
        text, _ = progrun.gen_program(ck.seed * 104729 + i, cs, size=rng.choice([0.5, 1.0, 1.5]))
        p = tmpfile("g%d.c" % i, text)
        add("generated", "g%d.c" % i, ["-t", targ, "g%d.c" % i], {"g%d.c" % i: p})
    for i in range(3 if ck.quick else 40):
        p = tmpfile("k%d.c" % i, const_unit(rng, 60))
        add("generated", "k%d.c" % i, ["-t", progrun.TARGETS[i % 3][0], "k%d.c" % i], {"k%d.c" % i: p})
    for i, text in enumerate(VALID_EXTRA):
        p = tmpfile("v%d.c" % i, text)
        add("generated", "v%d.c" % i, ["v%d.c" % i], {"v%d.c" % i: p})
        add("generated", "v%d.c" % i, ["-t", "riscv64", "-E", "v%d.c" % i], {"v%d.c" % i: p})
    # ---- invalid inputs: fixed list + token mutants of corpus files
    inv = list(INVALID) if not ck.quick else rng.sample(INVALID, 5)
    from .c03 import token_mutants
    nm = 3 if ck.quick else 120
    while nm > 0:
        f = rng.choice(corpus)
        for m in token_mutants(rng, open(f).read(), 2):
            inv.append(m + "\n")
            nm -= 1
    for i, text in enumerate(inv):
        p = tmpfile("i%d.c" % i, text)
        targ = rng.choice(progrun.TARGETS)[0]
        add("invalid", "i%d.c" % i, ["-t", targ, "i%d.c" % i], {"i%d.c" % i: p})
        if not ck.quick and i % 3 == 0:
            add("invalid", "i%d.c" % i, ["-E", "i%d.c" % i], {"i%d.c" % i: p})
    # ---- special invocations
    v0 = tmpfile("s0.c", VALID_EXTRA[0])
    v1 = tmpfile("s1.c", "int y = 2;\n")
    add("invocation", "usage", ["-x"], {})
    add("invocation", "missing-optarg", ["-t"], {})
    add("invocation", "unknown-target", ["-t", "nosuch", "s0.c"], {"s0.c": v0})
    add("invocation", "missing-file", ["missing.c"], {})
    add("invocation", "stdin", [], {}, stdin=v0)
    add("invocation", "stdin -E", ["-E", "-t", "aarch64"], {}, stdin=v0)
    add("invocation", "two-files", ["s0.c", "s1.c"], {"s0.c": v0, "s1.c": v1})
    # ---- bootstrap fixed point
    boot = ["tree", "utf", "map"] if ck.quick else UNITS
    for u, pp, il, _, _ in units:
        if u in boot:
            add("bootstrap", u + ".c", ["-t", "x86_64-sysv", u + ".c"], {u + ".c": pp})

    def one(job):
        stream, label, args, files, stdin, text = job
        return (job, s2.run(args, files, stdin))
    t1 = time.time()
    results = progrun.run_many(one, jobs)
    wall = time.time() - t1
    il_by_unit = {u + ".c": il for u, _, il, _, _ in units}
    biggest = []
    for job, res in results:
        stream, label, args, files, stdin, text = job
        st = stats["streams"].setdefault(stream, {"runs": 0, "agree": 0})
        st["runs"] += 1
        if judge(ck, res, label, text, stats):
            st["agree"] += 1
            stats["agree"] += 1
        if "stage2" in res:
            steps = res["stage2"]["steps"]
            ck.count((label, tuple(args)), nontrivial=steps >= 1000)
            biggest.append((steps, round(res["stage2"]["seconds"], 2), label, " ".join(args)))
            if stream == "bootstrap" and res["stage2"]["end"] == "status 0":
                want = open(il_by_unit[label], "rb").read()
                k = first_diff(want, res["stage2"]["out"])
                if k is not None:
                    ck.violation({"kind": "bootstrap-not-a-fixed-point", "unit": label, "first_difference_at_byte": k,
                                  "stage1_near": near(want, k), "stage2_near": near(res["stage2"]["out"], k),
                                  "what": "stage 2 compiling cproc's own source does not reproduce the stage-1 IL"})
        if len([v for v in ck.violations if v]) >= 3:
            break
    biggest.sort(reverse=True)
    tot = stats["steps"]
    ck.cov["stats"] = {k: v for k, v in stats.items() if k != "streams"}
    ck.cov["streams"] = stats["streams"]
    ck.cov["speed"] = {"il_instructions_total": tot, "stage2_cpu_seconds": round(stats["stage2_seconds"], 1),
                       "instructions_per_second_per_process": int(tot / stats["stage2_seconds"]) if stats["stage2_seconds"] else 0,
                       "wall_seconds_for_all_runs": round(wall, 1), "largest_runs": biggest[:6]}
    ck.cov["bootstrap_units"] = boot
    ck.cov["theorems_applied"] = theorems
    ck.sample({"invocation": "cproc-qbe -t x86_64-sysv map.c (stage 2 compiling cproc's own map.c)"})
    ck.sample({"invalid input": inv[0][:200]})
    if not ck.proofs_ok and not ck.violations:
        ck.violation({"kind": "proof-broken", "theorem": "CprocVerif.Props.C02 (lake build failed)",
                      "log": ck.build_log[-3000:]}, nofail=True)
    ck.assumptions = [
        "Spec/Qbe.lean is the semantics of the IL (QBE's own code generation is outside the sandbox); NaN results follow x86-64 SSE",
        "Spec/QbeLibc.lean behaves like glibc in the C locale for the 40 externals cproc-qbe references (checked against glibc "
        "on a conversion/format test program when the library was written; %g/%.17g/strtod use exact arithmetic)",
        "stage 1 = the gcc -O1 build of the same sources; an input on which the native build has undefined behaviour that it "
        "survives shows up as a stage-2 trap/oob and is reported, not compared",
        "equality is established only for the inputs run; it is not a theorem about all inputs",
    ]


META = {
    "category": "translation_validation",
    "text": ("No universally quantified theorem about the compiler's sources is claimed.  Stage 2 cannot be built natively here "
             "(no qbe/as/ld), so the stage-1 IL of cproc's 18 translation units is linked and executed under the formal IL "
             "semantics (Spec/Qbe.lean) with a Lean mini-libc, and compared byte for byte (stdout, stderr, exit status) with the "
             "native stage-1 binary on the regression corpus for its targets, generated valid programs, invalid inputs with "
             "diagnostics, special invocations, and on cproc's own preprocessed sources (bootstrap fixed point: stage 2 must "
             "reproduce the stage-1 IL).  Lean proves what makes one run per input decisive and safe: determinism of the "
             "semantics (stage2_deterministic, stage2_step_deterministic), that the driver's runner is Qbe.runFunc "
             "(driver_runs_the_semantics) and, from wf_sound of C03 applied to the linked program whose `wf` is evaluated on "
             "every run, that stage 2 never gets stuck on an undefined temporary, unknown label, unmatched phi or by falling "
             "off a function (stage2_never_stuck)."),
    "design_ref": "DESIGN.md section 4, C02",
    "note": ("Trusted: Lean kernel + standard axioms; Spec/Qbe*.lean as the reading of the QBE reference; Spec/QbeLibc.lean as "
             "a model of glibc for the externals used; gcc for stage 1.  Equality of the two stages holds for the inputs "
             "executed, not for all inputs; QBE's back end is not involved at all."),
    "technique": "execution of the self-compiled compiler's IL under a formal semantics (Lean 4) + differential comparison with the native build",
}

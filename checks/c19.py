"""C19 - the compiler proper is memory-safe, terminating and exits only 0, 1 or 2.

Proof:   lean/CprocVerif/Props/C19.lean -- what a model can carry: every write through the growable
         buffers (`arrayadd`, `bufadd`) lands inside the allocation for every sequence of additions;
         the hash-table probe loop terminates (from C16) and `treeinsert`'s 96-slot path array cannot
         overflow (from C15); the model of main/error/fatal/usage ends only with 0, 1, 2 and with 0
         only when the output was written.
Observed (exploration, labelled as such): absence of invalid accesses in the C text itself --
         ASan+UBSan build of cproc-qbe (`-fno-sanitize-recover`) on a mutation stream: byte-, token-
         and line-level mutants of the corpus and of generated programs, truncation at token
         boundaries, deep nesting (10^4 on the plain build), identifiers/strings of 10^6 bytes,
         33+ nested designators, multi-file invocations, unreadable input, full/closed output.
         Each run must end with status 0, 1 or 2, without a signal, sanitizer report or failed
         assertion, within a time bound.
"""
import glob
import os
import re
import signal
import subprocess

from . import common, progrun

# known findings, identified by the failing call site (assertion text) -- see known_findings.json
KNOWN_SITES = [
    (re.compile(r"emitdata: Assertion `(cur->expr->kind == EXPRSTRING|init->expr->kind == EXPRCONST)'"), "scalar-excess-assert"),
    (re.compile(r"emitdata: Assertion `offset <= d->type->size'"), "flexible-init-assert"),
]


def mutate_bytes(rng, data, n):
    out = []
    for _ in range(n):
        b = bytearray(data)
        for _ in range(rng.choice([1, 1, 2, 4])):
            k = rng.random()
            i = rng.randrange(len(b) + 1)
            if k < 0.3 and b:
                del b[i % len(b)]
            elif k < 0.6:
                b.insert(i, rng.choice(b"(){}[];,*&=+-<>!~\"'\\#.:?%^|/0123456789aZ_ \n\t\x00\xff\x80"))
            elif k < 0.8 and b:
                b[i % len(b)] = rng.randrange(256)
            elif b:
                j = rng.randrange(len(b))
                lo, hi = min(i, j), max(i, j)
                b[lo:lo] = b[lo:hi][:200]       # duplicate a chunk
        out.append(bytes(b))
    return out


def truncations(rng, data, n):
    toks = [m.end() for m in re.finditer(rb"[A-Za-z_]\w*|\d+\w*|\S", data)]
    if not toks:
        return []
    pts = toks if len(toks) <= n else rng.sample(toks, n)
    return [data[:p] for p in pts]


def crafted():
    c = []
    for n in (50, 1500):
        c.append(("parens-%d" % n, b"int x = " + b"(" * n + b"1" + b")" * n + b";\n"))
        c.append(("blocks-%d" % n, b"void f(void){" + b"{" * n + b"}" * n + b"}\n"))
        c.append(("if-%d" % n, b"void f(void){" + b"if(1)" * n + b";}\n"))
        c.append(("ptr-%d" % n, b"int " + b"*" * n + b"p;\n"))
        c.append(("arr-%d" % n, b"int a" + b"[1]" * n + b";\n"))
        c.append(("sum-%d" % n, b"int x = 1" + b"+1" * n + b";\n"))
        c.append(("cond-%d" % n, b"int f(int a){ return " + b"a?1:" * n + b"2; }\n"))
        c.append(("call-%d" % n, b"int g(int); int f(int a){ return " + b"g(" * n + b"a" + b")" * n + b"; }\n"))
        c.append(("struct-%d" % n, b"struct s { " + b"struct { " * n + b"int x;" + b" };" * n + b" } v;\n"))
        c.append(("init-%d" % n, b"int a" + b"[1]" * min(n, 200) + b" = " + b"{" * min(n, 200) + b"1" + b"}" * min(n, 200) + b";\n"))
    c.append(("designators-33", b"struct s { int a" + b"[2]" * 40 + b"; } v = { .a" + b"[1]" * 40 + b" = 1 };\n"))
    c.append(("designators-nested", b"".join(b"struct s%d { struct s%d m; };\n" % (i + 1, i) for i in range(40)).replace(b"struct s0 m;", b"int m;", 1)
              + b"struct s0 { int m; };\n"))
    c.append(("ident-1e6", b"int " + b"a" * 1000000 + b" = 1;\n"))
    c.append(("string-1e6", b'char s[] = "' + b"a" * 1000000 + b'";\n'))
    c.append(("macro-args-1e4", b"#define F(x) x\nint a = F(" + b"(" * 3000 + b"1" + b")" * 3000 + b");\n"))
    c.append(("macro-chain", b"".join(b"#define M%d M%d\n" % (i, i + 1) for i in range(3000)) + b"#define M3000 7\nint a = M0;\n"))
    for n in (255, 256, 257, 511, 512, 513, 1023, 1024, 1025, 4095, 4096, 4097):
        c.append(("ident-%d" % n, b"int " + b"a" * n + b" = 1;\n"))
        c.append(("number-%d" % n, b"int x = " + b"1" * n + b";\n"))
        c.append(("string-%d" % n, b'char s[] = "' + b"s" * n + b'";\n'))
        c.append(("stringize-%d" % n, b"#define S(x) #x\nchar s[] = S(" + b"a" * n + b");\n"))
        c.append(("stringize2-%d" % n, b"#define S(x) #x\nchar s[] = S(" + b"b" * 100 + b" " + b"a" * n + b");\n"))
        c.append(("stringize-num-%d" % n, b"#define S(x) #x\nchar s[] = S(x " + b"7" * n + b" y);\n"))
        c.append(("stringize-str-%d" % n, b'#define S(x) #x\nchar s[] = S("' + b"q" * n + b'" 1);\n'))
        c.append(("macro-body-%d" % n, b"#define M " + b"a" * n + b"\nint M;\n"))
    # the same string literal used again after the statement that contained it has been lowered and deleted
    # (string pool keys must not point into freed expression nodes); several lengths = several allocator size classes
    body = b"".join(b'\tputs("%s"); puts("k%d"); puts("%s");\n' % (b"s" * n, n, b"s" * n) for n in (1, 7, 15, 23, 24, 39, 40, 100, 300, 1025))
    c.append(("dup-string-body", b"int puts(const char *);\nvoid f(void) {\n" + body + b"}\nvoid g(void) {\n" + body + b"}\n"))
    c.append(("dup-wstring-body", b'void use(const void *);\nvoid f(void) { use(L"abc"); use(u"abc"); use(L"abc"); use(U"abc"); use(u"abc"); use("abc"); use("abc"); }\n'))
    c.append(("empty", b""))
    c.append(("nul", b"\x00"))
    c.append(("only-hash", b"#"))
    c.append(("unterminated-comment", b"int x; /* "))
    c.append(("unterminated-string", b'char *s = "abc'))
    c.append(("attr-eof", b"[[foo("))
    c.append(("dup-label", b"void f(void){a: a: ;}"))
    c.append(("designator-in-macro-twice", b"#define I {.a = 1, .b = 2}\nstruct S {int a, b;} x = I, y = I;\n#define O __builtin_offsetof(struct S, b)\n"
              b"unsigned long o1 = O, o2 = O;\n#define A(s) (s.a + s.b)\nint f(void){ return A(x) + A(y) + A(x); }\n"))
    c.append(("void-param", b"void f2(void b) { } struct S; void f3(struct S s) { }"))
    c.append(("div-zero", b"int x = 1/0; long y = (-9223372036854775807L-1)/-1; int z = 1%0;"))
    # every host-undefined constant division, one per unit and per folding context (a trap in one hides the others)
    for k, e in enumerate([b"1/0", b"1%0", b"(-9223372036854775807L-1)/-1", b"(-9223372036854775807L-1)%-1", b"(-9223372036854775807LL-1)%-1LL",
                           b"(-2147483647-1)/-1", b"(-2147483647-1)%-1", b"1u/0u", b"1ul%0ul", b"0/0", b"(long)(-9223372036854775807L-1)%(char)-1"]):
        c.append(("constdiv-%d-init" % k, b"long v = " + e + b";\n"))
        c.append(("constdiv-%d-enum" % k, b"enum { E = " + e + b" };\n"))
        c.append(("constdiv-%d-case" % k, b"int f(int x){ switch (x) { case " + e + b": return 1; } return 0; }\n"))
        c.append(("constdiv-%d-bound" % k, b"int a[(" + e + b") + 2];\n"))
        c.append(("constdiv-%d-assert" % k, b"_Static_assert((" + e + b") == 0, \"\");\n"))
        c.append(("constdiv-%d-cond" % k, b"int f(void){ return (" + e + b") ? 1 : 2; }\n"))
    c.append(("nan-to-int", b"long x = (long)(0.0/0.0);"))
    c.append(("surrogate", b'char s[] = "\xed\xa8\x80";'))
    c.append(("nul-in-string", b'char s[] = "a\x00bcdefghijklmnopqrstuvwxyz";'))
    c.append(("addr-swap", b"int a[10]; long x = 5 + (long)&a[3];"))
    c.append(("overaligned-local", b"void f(void){struct {_Alignas(32) char c;} r = {4};}"))
    c.append(("keyword-macro", b"#define T int\nT a; T b;\n"))
    c.append(("string-patch", b'struct {char s[8];} x = {"ab", .s[5] = 120};'))
    return c


def gen_buffer_ops(rng, nseq, maxops):
    """op sequences for harness/util_h.c / drv_c19; sizes are chosen around the capacity thresholds of the
    documented doubling scheme (this prediction only steers the generator, it is not an oracle)"""
    seqs = []
    for _ in range(nseq):
        ops, ln, cap = ["new"], 0, 0
        bl, bc = 0, 0
        for _ in range(rng.randrange(1, maxops)):
            k = rng.random()
            if k < 0.70:
                free = cap - ln
                n = rng.choice([1, 8, 24, 48, max(free - 1, 1), max(free, 1), free + 1, cap + 1, max(2 * cap - ln, 1),
                                2 * cap - ln + 1, max(2 * cap - 1, 1), 2 * cap, rng.randrange(1, 3 * max(cap, 256)),
                                rng.randrange(1, 64), 255, 256, 257])
                n = max(min(n, 1 << 16), 1)      # thresholds of interest are relative to cap; keep the total allocatable
                if cap > (1 << 22):
                    ops.append("new")
                    ln, cap = 0, 0
                ops.append("add %d" % n)
                if cap - ln < n:
                    while True:
                        cap = cap * 2 if cap else 256
                        if cap - ln >= n:
                            break
                ln += n
            elif k < 0.95:
                m = rng.choice([1, 3, 17, 255, 256, 257, max(bc - bl, 1), bc - bl + 1, rng.randrange(1, 1200)])
                ops.extend(["buf"] * m)
                bl += m
                while bc < bl:
                    bc = bc * 2 if bc else 256
            else:
                ops.append("bufreset")
                bl = 0
        seqs.append(ops)
    return seqs


def run_buffers(ck):
    """K-A: util.c arrayadd and scan.c bufadd (real text, ASan) against Model/Util.lean (the model of the theorems
    arrayadd_fits / bufadd_fits), on generated operation sequences."""
    units = [u for u in common.REPO_UNITS if u != "scan"]
    try:
        h = ck.build_harness("util_h.c", units, sanitize=True)
    except common.CompileError as e:
        ck.harness_broken("util_h.c", e)
        return
    seqs = gen_buffer_ops(ck.rng, 60 if ck.quick else 1500, 40)
    seqs.insert(0, ["new", "add 100", "add 500"])            # corpus: second addition larger than the doubled capacity
    seqs.insert(0, ["new"] + ["buf"] * 257 + ["bufreset"] + ["buf"] * 600)
    text = "\n".join("\n".join(q) for q in seqs) + "\n"
    model = ck.run_drv(text)
    env = dict(os.environ, ASAN_OPTIONS="detect_leaks=0")
    p = subprocess.run([h], input=text.encode(), stdout=subprocess.PIPE, stderr=subprocess.PIPE, env=env, timeout=600)
    real = p.stdout.decode().splitlines()
    flat = [(si, oi, op) for si, q in enumerate(seqs) for oi, op in enumerate(q)]
    st = {"sequences": len(seqs), "operations": len(flat), "adds": sum(1 for f in flat if f[2].startswith("add")),
          "bufadds": sum(1 for f in flat if f[2] == "buf"), "grow-events": 0}
    prevcap = None
    for (si, oi, op), m in zip(flat, model):
        if op.startswith(("add", "buf")) and op != "bufreset":
            c = int(m.split()[2])
            if prevcap is not None and c != prevcap:
                st["grow-events"] += 1
            prevcap = c
        else:
            prevcap = None
    ck.cov["buffers"] = st
    for i in range(len(flat)):
        ck.count(("buf", flat[i][2], model[i]))
    bad = None
    for i, (si, oi, op) in enumerate(flat):
        if i >= len(real):
            bad = (i, "the harness died here (rc=%s): %s" % (p.returncode, p.stderr.decode(errors="replace")[-1200:]))
            break
        if real[i] != model[i]:
            bad = (i, None)
            break
    if bad is None:
        return
    i, died = bad
    si, oi, op = flat[i]
    seq = seqs[si][:oi + 1]
    rep = {"kind": "buffer-ops", "ops": seq, "model": model[i], "util.c/scan.c": real[i] if i < len(real) else None}
    unsafe = died
    if not died and op != "bufreset" and op != "new":
        off, ln, cap = map(int, real[i].split())
        n = int(op.split()[1]) if op.startswith("add") else 1
        if off + n > cap or ln > cap:
            unsafe = "bytes [%d, %d) handed out of an allocation of %d bytes" % (off, off + n, cap)
    if unsafe:
        ck.violation(dict(rep, what="a growable buffer hands out memory outside its allocation", detail=unsafe))
    else:
        ck.violation(dict(rep, what="util.c/scan.c and Model/Util.lean disagree although every write stayed inside the allocation",
                          theorem="CprocVerif.C19.arrayadd_fits / bufadd_fits (model no longer describes the code)"), nofail=True)


def run(ck):
    rng = ck.rng
    ck.lean_build()
    if ck.drv_ok:
        run_buffers(ck)
    san = ck.build_cproc_qbe(sanitize=True)
    plain = ck.build_cproc_qbe()
    d = os.path.join(ck.scratch(), "c19")
    os.makedirs(d)
    env = dict(os.environ, ASAN_OPTIONS="detect_leaks=0:abort_on_error=0:allocator_may_return_null=1", UBSAN_OPTIONS="print_stacktrace=0")
    inputs = []   # (label, bytes, flags, binary)
    corpus = sorted(glob.glob(os.path.join(common.REPO, "test", "*.c")))
    nb, nt = (6, 6) if ck.quick else (60, 40)
    files = corpus if not ck.quick else rng.sample(corpus, 70)
    for f in files:
        data = open(f, "rb").read()
        flags = ["-E"] if os.path.exists(f[:-2] + ".pp") else []
        targ = ["-t", rng.choice(progrun.TARGETS)[0]]
        for m in mutate_bytes(rng, data, nb):
            inputs.append(("byte-mutant", m, targ + flags, san))
        for m in truncations(rng, data, nt):
            inputs.append(("truncation", m, targ + flags, san))
    from . import c03
    for f in rng.sample(corpus, 40 if ck.quick else len(corpus)):
        for m in c03.token_mutants(rng, open(f).read(), 5 if ck.quick else 30):
            inputs.append(("token-mutant", m.encode(), ["-t", rng.choice(progrun.TARGETS)[0]], san))
    for i in range(12 if ck.quick else 200):
        targ, cs = progrun.TARGETS[i % 3]
        text, _ = progrun.gen_program(ck.seed * 31337 + i, cs, size=1.0)
        inputs.append(("generated", text.encode(), ["-t", targ], san))
        for m in mutate_bytes(rng, text.encode(), 3 if ck.quick else 10):
            inputs.append(("generated-mutant", m, ["-t", targ], san))
    for name, data in crafted():
        inputs.append(("crafted:" + name, data, [], san))
    for n in (10000,):
        inputs.append(("deep:parens", b"int x = " + b"(" * n + b"1" + b")" * n + b";\n", [], plain))
        inputs.append(("deep:blocks", b"void f(void){" + b"{" * n + b"}" * n + b"}\n", [], plain))
        inputs.append(("deep:if", b"void f(void){" + b"if(1)" * n + b";}\n", [], plain))
        inputs.append(("deep:unary", b"int x = " + b"-" * n + b" 1;\n".replace(b"-", b"- ", 0), [], plain))

    stats = {}

    def one(item):
        label, data, flags, binary = item
        try:
            p = subprocess.run([binary] + flags, input=data, stdout=subprocess.PIPE, stderr=subprocess.PIPE, env=env,
                               timeout=20 if ck.quick else 60)
            return item, p.returncode, p.stderr[-3000:].decode(errors="replace"), len(p.stdout)
        except subprocess.TimeoutExpired:
            return item, "timeout", "", 0

    for item, rc, err, nout in progrun.run_many(one, inputs):
        label = item[0].split(":")[0]
        st = stats.setdefault(label, {"runs": 0, "status0": 0, "status1": 0, "status2": 0})
        st["runs"] += 1
        if rc in (0, 1, 2):
            st["status%d" % rc] += 1
        ck.count((label, rc, len(item[1]) // 64), nontrivial=True)
        bad = None
        if rc == "timeout":
            bad = "does not terminate within the time bound"
        elif rc not in (0, 1, 2):
            bad = "ended by signal %s" % (signal.Signals(-rc).name if isinstance(rc, int) and rc < 0 else rc)
        if "AddressSanitizer" in err or "runtime error:" in err:
            bad = (bad + "; " if bad else "") + "sanitizer report"
        if "Assertion" in err:
            bad = (bad + "; " if bad else "") + "failed internal assertion"
        if rc in (0, 1, 2) and rc != 0 and not err.strip():
            bad = "non-zero status without a diagnostic"
        if bad:
            fid = None
            for rx, f in KNOWN_SITES:
                if rx.search(err):
                    fid = f
            if rc == "timeout" and re.search(rb"\[\s*(\d{7,}|0[xX][0-9a-fA-F]{6,})", item[1]):
                fid = "huge-auto-array-init-unrolled"   # giant array dimension: zero-fill is unrolled
            inp = item[1]
            ck.report({"kind": "abnormal-end", "stream": item[0], "flags": item[2], "what": bad, "status": rc,
                       "stderr": err[-1500:], "input_len": len(inp),
                       "input": inp[:4000].decode(errors="backslashreplace")}, fid=fid)
            if len([v for v in ck.violations if v]) >= 3:
                break

    # I/O failures of its own
    src = os.path.join(d, "io.c")
    open(src, "w").write("int x = 1;\n" + "".join("int y%d = %d;\n" % (i, i) for i in range(5000)))
    io = {}
    r = subprocess.run([plain, "-o", "/dev/full", src], stdout=subprocess.PIPE, stderr=subprocess.PIPE)
    io["dev-full"] = r.returncode
    r = subprocess.run([plain, os.path.join(d, "does-not-exist.c")], stdout=subprocess.PIPE, stderr=subprocess.PIPE)
    io["missing-input"] = r.returncode
    r = subprocess.run([plain, "-o", os.path.join(d, "no-such-dir", "out"), src], stdout=subprocess.PIPE, stderr=subprocess.PIPE)
    io["unwritable-output"] = r.returncode
    r = subprocess.run([plain, d], stdout=subprocess.PIPE, stderr=subprocess.PIPE)   # a directory as input
    io["directory-input"] = r.returncode
    for k in (0, 1, 4096, 70000):
        # reader closes after k bytes while SIGPIPE is ignored: the write fails with EPIPE
        p = subprocess.Popen([plain, src], stdout=subprocess.PIPE, stderr=subprocess.PIPE,
                             preexec_fn=lambda: signal.signal(signal.SIGPIPE, signal.SIG_IGN))
        if k:
            p.stdout.read(k)
        p.stdout.close()
        rc = p.wait()
        io["epipe-after-%d" % k] = rc
    r = subprocess.run([san, "-x"], stdout=subprocess.PIPE, stderr=subprocess.PIPE)
    io["bad-option"] = r.returncode
    r = subprocess.run([san, "-t", "vax", src], stdout=subprocess.PIPE, stderr=subprocess.PIPE, env=env)
    io["bad-target"] = r.returncode
    for name, rc in io.items():
        want = (2,) if name == "bad-option" else (1,)
        if name == "directory-input":
            want = (0, 1)       # fopen of a directory succeeds, reads fail: either empty unit or error
        if rc not in want:
            ck.violation({"kind": "io-failure-status", "case": name, "status": rc, "expected": list(want),
                          "what": "I/O failure of cproc-qbe's own input/output not reported with the documented status"})
    ck.cov["io_cases"] = io
    ck.cov["streams"] = stats
    ck.cov["rule"] = ("mutation stream (byte/token mutants, truncations at token boundaries, crafted deep/long inputs, generated programs "
                      "and their mutants) through the ASan+UBSan build; distinct_nontrivial = distinct (stream, status, size-bucket) classes; "
                      "this part is exploration, the proof-level claim is only for the lemmas of Props/C19")
    ck.sample({"stream": inputs[0][0], "input_head": inputs[0][1][:200].decode(errors="backslashreplace")})
    if not ck.proofs_ok and not ck.violations:
        ck.violation({"kind": "proof-broken", "theorem": "CprocVerif.Props.C19 (lake build failed)", "log": ck.build_log[-3000:]}, nofail=True)
    ck.assumptions = ["memory safety of the C text is observed on the inputs run (sanitizers), not proved",
                      "size_t arithmetic does not wrap before realloc fails", "gcc's ASan/UBSan report every invalid access they instrument"]


META = {
    "category": "proof",
    "text": ("Proved in Lean for all inputs of the model: growable-buffer writes stay inside the allocation for every sequence of "
             "additions (arrayadd_fits, arrayadd_reachable, bufadd_fits, growCap terminates), the hash-table probe loop terminates "
             "and the AVL path array cannot overflow (re-exported from C16/C15), exit statuses are only 0/1/2 with 0 only after a "
             "successful flush.  Memory safety and termination of the C text itself cannot be carried by a model: that part is "
             "EXPLORATION -- an ASan+UBSan build run on a seeded mutation stream (byte/token mutants, truncations, deep nesting to "
             "10^4, 10^6-byte tokens, 33+ designators, I/O failures), requiring status 0/1/2, no signal, no sanitizer report, no "
             "failed assertion, bounded time."),
    "design_ref": "DESIGN.md section 4, C19",
    "note": ("Trusted: Lean kernel + standard axioms for the lemmas; gcc sanitizers for the exploration part.  Partial by nature: "
             "a clean mutation stream is evidence, not proof, of memory safety."),
    "technique": "Lean 4 proof of buffer/probe/path bounds and exit-status logic + sanitizer-instrumented mutation stream (exploration)",
}

"""K-C channel shared by C17 and C18: the real driver.c/util.c, compiled unmodified next to a
config.h produced by /repo's own `configure` whose tools all point at harness/stubtool.c.

* `build(ck, triple)`  -> Drv: scratch/<triple>/{driver.c,util.c,util.h,config.h}, bin/cproc
  (ASan+UBSan, linked with harness/drvwrap.c through -Wl,--wrap=mkstemp: records the names of the
  temporary objects; driver.c hard-codes /tmp/cproc-XXXXXX and ignores TMPDIR), and
  bin/{cpp,qbe,as,ld,cproc-qbe} = hard links to the stub (cproc-qbe is found by the driver as
  readlink(/proc/self/exe) + "-qbe").
* `Drv.run(argv, ...)` -> Run: exit status, stderr, parsed stub log, files of the private cwd
  before/after, temporaries created / still existing.
"""
import json
import os
import re
import shutil
import signal
import subprocess
import threading
import time

from . import common
from .common import CompileError, VERIF

HOST = "x86_64-linux-gnu"
TRIPLES = ["x86_64-linux-gnu", "aarch64-linux-gnu", "riscv64-linux-gnu"]
ROLES = ["cpp", "cproc-qbe", "qbe", "as", "ld"]
STAGE_OF_ROLE = {"cpp": "preprocess", "cproc-qbe": "compile", "qbe": "codegen", "as": "assemble", "ld": "link"}


def parse_config_h(text):
    """config.h -> {name: [strings]} ; `target` -> str.  Comments removed, string literals only."""
    text = re.sub(r"/\*.*?\*/", "", text, flags=re.S)
    out = {}
    for m in re.finditer(r"static\s+const\s+char\s*(\*\s*const\s+)?(\w+)\s*\[\]\s*=\s*(\{.*?\}|\"(?:[^\"\\]|\\.)*\")\s*;", text, re.S):
        name, body = m.group(2), m.group(3)
        strs = [json.loads('"%s"' % s) for s in re.findall(r'"((?:[^"\\]|\\.)*)"', body)]
        out[name] = strs if body.startswith("{") else strs[0]
    return out


class Run:
    pass


class Drv:
    def __init__(self, d, triple, cfg, path_tools=False):
        self.path_tools = path_tools
        self.dir = d
        self.triple = triple
        self.cfg = cfg          # parsed config.h
        self.exe = os.path.join(d, "bin", "cproc")
        self.exe_nocc = os.path.join(d, "nocc", "cproc")   # same binary, no cproc-qbe beside it
        self.nrun = 0
        self.lock = threading.Lock()

    def model_config(self, nocc=False):
        """Config object handed to the Lean model (drv_c17 / drv_c18)."""
        c = self.cfg
        return {"target": c["target"], "startfiles": c["startfiles"], "endfiles": c["endfiles"],
                "preprocesscmd": c["preprocesscmd"],
                "compilecmd": [(self.exe_nocc if nocc else self.exe) + "-qbe"],
                "codegencmd": c["codegencmd"], "assemblecmd": c["assemblecmd"], "linkcmd": c["linkcmd"]}

    def run(self, argv, script=None, files=(), timeout=20.0, nocc=False, rundir=None, keep=False, scan=False,
            missing=(), inherit_ms=None):
        """Run the driver on `argv` in a fresh private cwd containing `files` (relative paths,
        created with their own name as content).  Returns a Run."""
        if rundir is None:
            with self.lock:
                self.nrun += 1
                n = self.nrun
            rundir = os.path.join(self.dir, "runs", "%d-%d" % (os.getpid(), n))
        cwd = os.path.join(rundir, "cwd")
        os.makedirs(cwd)
        for f in files:
            p = os.path.join(cwd, f)
            if os.path.dirname(f):
                os.makedirs(os.path.dirname(p), exist_ok=True)
            with open(p, "w") as fh:
                fh.write(f)
        log = os.path.join(rundir, "log")
        open(log, "w").close()
        sin = os.path.join(rundir, "stdin")
        with open(sin, "w") as fh:
            fh.write("stdin\n")
        sout = os.path.join(rundir, "stdout")
        serr = os.path.join(rundir, "stderr")
        env = {"PATH": "/nonexistent", "STUB_LOG": log, "ASAN_OPTIONS": "detect_leaks=0:abort_on_error=0",
               "UBSAN_OPTIONS": "print_stacktrace=1", "LC_ALL": "C"}
        exe = self.exe_nocc if nocc else self.exe
        if self.path_tools:
            # per-run tool directory found through PATH (posix_spawnp); `missing` roles are absent,
            # and a stub can remove a tool later (action D<name>) to make a later spawn fail
            bindir = os.path.join(rundir, "bin")
            os.makedirs(bindir)
            stub = os.path.join(self.dir, "bin", "cproc-qbe")
            for role in ROLES:
                if role not in missing:
                    os.link(stub, os.path.join(bindir, role))
            exe = os.path.join(bindir, "cproc")
            os.link(self.exe, exe)
            env["PATH"] = bindir
            env["STUB_BIN"] = bindir
        if script:
            env["STUB_SCRIPT"] = script
        r = Run()
        r.argv = list(argv)
        r.before = sorted(_walk(cwd))
        t0 = time.time()
        with open(sin) as fi, open(sout, "w") as fo, open(serr, "w") as fe:
            st = os.fstat(fo.fileno())
            r.stdout_id = (st.st_dev, st.st_ino)
            st = os.fstat(fi.fileno())
            r.stdin_id = (st.st_dev, st.st_ino)
            cmd = [exe] + list(argv)
            if inherit_ms is not None:
                # the driver inherits a child it never spawned (as in `helper & exec cproc ...`): wait() will hand its
                # pid to the reaping loop while the stages are still running
                cmd = ["/bin/sh", "-c", '/bin/sleep %s & exec "$0" "$@"' % (inherit_ms / 1000.0)] + cmd
            p = subprocess.Popen(cmd, cwd=cwd, env=env,
                                 stdin=fi, stdout=fo, stderr=fe, start_new_session=True)
            r.pid = p.pid
            # blocking wait + watchdog (no polling): on timeout freeze the picture with SIGSTOP,
            # record who is still there, then kill the whole session
            fired = []

            def on_timeout():
                fired.append(True)
                r.survivors = _group_members(p.pid) if scan else []
                try:
                    os.killpg(p.pid, signal.SIGKILL)
                except ProcessLookupError:
                    pass
            timer = threading.Timer(timeout, on_timeout)
            timer.start()
            rc = p.wait()
            timer.cancel()
            r.hang = bool(fired)
            r.rc = None if r.hang else rc
        r.wall = time.time() - t0
        if not r.hang:
            # descendants still around (same session as the driver)?
            r.survivors = _group_members(r.pid) if scan else []
            if r.survivors or not scan:
                try:
                    os.killpg(r.pid, signal.SIGKILL)
                except ProcessLookupError:
                    pass
        r.stderr = open(serr, errors="replace").read()
        r.stdout_len = os.path.getsize(sout)
        r.log = []
        for ln in open(log, errors="replace"):
            try:
                r.log.append(json.loads(ln))
            except ValueError:
                r.log.append({"role": "?", "event": "garbled", "raw": ln})
        r.starts = [e for e in r.log if e.get("event") == "start"]
        r.ends = [e for e in r.log if e.get("event") == "end"]
        r.temps = [e["path"] for e in r.log if e.get("event") == "mkstemp" and e.get("path")]
        r.temps_left = [t for t in r.temps if os.path.exists(t)]
        r.after = sorted(_walk(cwd))
        for t in r.temps_left:
            try:
                os.unlink(t)
            except OSError:
                pass
        r.sanitizer = ("ERROR: AddressSanitizer" in r.stderr) or ("runtime error:" in r.stderr)
        r.rundir = rundir
        if not keep:
            shutil.rmtree(rundir, ignore_errors=True)
        return r


def _walk(d):
    for root, dirs, files in os.walk(d):
        for f in files:
            yield os.path.relpath(os.path.join(root, f), d)


def _group_members(pgid):
    """[(pid, state)] of processes whose session id is `pgid` (the driver was started as a session
    leader), read from /proc - zombies included."""
    out = []
    for e in os.listdir("/proc"):
        if not e.isdigit():
            continue
        try:
            s = open("/proc/%s/stat" % e).read()
        except OSError:
            continue
        rp = s.rfind(")")
        f = s[rp + 2:].split()
        # f[0]=state f[1]=ppid f[2]=pgrp f[3]=session
        if int(f[3]) == pgid and int(e) != pgid:
            comm = s[s.find("(") + 1:rp]
            if comm == "sleep":
                continue        # the inherited helper of `inherit_ms` runs (a child the driver never spawned)
            out.append((int(e), f[0]))
    return out


def build_stub(ck):
    d = os.path.join(ck.scratch(), "stub")
    exe = os.path.join(d, "stubtool")
    if not os.path.exists(exe):
        os.makedirs(d, exist_ok=True)
        r = common.sh(["gcc", "-O1", "-g", "-Wall", "-o", exe, os.path.join(VERIF, "harness", "stubtool.c")])
        if r.returncode != 0:
            raise common.Broken("stubtool does not build: " + r.stdout[-2000:])
    return exe


def build(ck, triple, missing=(), tag=None, extra=(), path_tools=False):
    """Build the stubbed driver for `triple`.  `missing` = roles among cpp/qbe/as/ld whose
    configured path does not exist (spawn failure); cproc-qbe is made missing per run with
    Drv.run(nocc=True).  Raises CompileError when driver.c no longer builds this way."""
    stub = build_stub(ck)
    src = ck.repo_src()
    d = os.path.join(ck.scratch(), "drv-%s%s" % (triple, "-" + tag if tag else ""))
    if os.path.exists(d):
        shutil.rmtree(d)
    os.makedirs(os.path.join(d, "bin"))
    os.makedirs(os.path.join(d, "nocc"))
    for f in os.listdir(src):
        if f.endswith(".h") or f in ("driver.c", "util.c"):
            shutil.copy(os.path.join(src, f), d)
    if os.path.exists(os.path.join(d, "config.h")):
        os.unlink(os.path.join(d, "config.h"))
    tools = {}
    for role in ("cpp", "qbe", "as", "ld"):
        tools[role] = role if path_tools else os.path.join(d, "missing" if role in missing else "bin", role)
    conf = os.path.join(common.REPO, "configure")
    r = common.sh(["sh", conf, "--host=" + HOST, "--target=" + triple,
                   "--with-gcc-libdir=/usr/lib/gcc/%s/12" % triple,
                   "--with-cpp=" + tools["cpp"], "--with-qbe=" + tools["qbe"],
                   "--with-as=" + tools["as"], "--with-ld=" + tools["ld"]] + list(extra), cwd=d)
    if r.returncode != 0 or not os.path.exists(os.path.join(d, "config.h")):
        raise CompileError("configure failed for %s: %s" % (triple, r.stdout[-1500:]))
    cfg = parse_config_h(open(os.path.join(d, "config.h")).read())
    for k in ("target", "startfiles", "endfiles", "preprocesscmd", "codegencmd", "assemblecmd", "linkcmd"):
        if k not in cfg:
            raise CompileError("config.h generated by configure lacks `%s`" % k)
    exe = os.path.join(d, "bin", "cproc")
    flags = ck.SAN + ["-std=c11", "-w"]
    r = common.sh(["gcc"] + flags + ["-I" + d, os.path.join(d, "driver.c"), os.path.join(d, "util.c"),
                   os.path.join(VERIF, "harness", "drvwrap.c"), "-Wl,--wrap=mkstemp", "-o", exe])
    if r.returncode != 0:
        raise CompileError(r.stdout[-3000:])
    shutil.copy(exe, os.path.join(d, "nocc", "cproc"))
    for role in ("cpp", "qbe", "as", "ld", "cproc-qbe"):
        os.link(stub, os.path.join(d, "bin", role))
    return Drv(d, triple, cfg, path_tools)

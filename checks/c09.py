"""C09 - linkage and the unit's symbol table follow C11 6.2.2 / 6.9.

Proof:   lean/CprocVerif/Props/C09.lean: for every history (any length) of declarations of one
         identifier, Model/Linkage.lean (decl.c: getlinkage, declcommon, decl's object/function
         branches, emittentativedefns; qbe.c: mkglobal naming) accepts what Spec/Link.lean (C11 6.2.2,
         6.7p3, 6.7.1, 6.7.4p7, 6.7.9p5, 6.9, 6.9.2) accepts and yields the prescribed symbols, and
         rejects constraint violations (`_partial` theorems exclude three named input classes).
Tie:     K-B  bounded-exhaustive histories of ONE identifier over the 42 declaration forms
              (storage x {file, block} x {object, function} x {with/without initialiser/body}),
              length <= 3 (quick) / 4 (thorough), plus nested-block and assembler-label forms at
              smaller lengths, rendered as C and compiled by the freshly built cproc-qbe: histories
              the model accepts are batched (one identifier each), histories it rejects are compiled
              singly (must exit non-zero with a diagnostic).  The IL is parsed into (defined, export,
              thread, zero, `$.L` naming, undefined references) and compared with the model and with
              the spec's verdict.  Second stream: random multi-identifier units (objects, functions,
              typedef'd types, nested blocks, shadowing).
         Spec validation: `gcc -std=c11 -pedantic-errors -c` + `nm` (clang where gcc documents a
              deviation) on the histories C11 defines; a disagreement marks the check broken.
"""
import concurrent.futures
import itertools
import os
import re
import subprocess

from . import common
from .common import Broken

OSTO = {"n": "", "s": "static", "e": "extern", "t": "_Thread_local", "u": "static _Thread_local",
        "v": "extern _Thread_local"}
FSTO = {"n": "", "s": "static", "e": "extern", "i": "inline", "j": "extern inline", "k": "static inline"}

FID_INLINE = "inline-then-extern-not-emitted"
FID_TLS_INIT = "thread-local-tentative-then-init"
FID_TLS_BLOCK = "thread-local-mismatch-unseen-block-extern"


# ----------------------------------------------------------------------------- forms / rendering
def forms(scopes="FB", labels=("",)):
    out = []
    for sc in scopes:
        for st in OSTO:
            for d in "01":
                out.append(sc + "o" + st + d)
        for st in FSTO:
            for d in ("01" if sc == "F" else "0"):
                out.append(sc + "f" + st + d)
    return [f + l for f in out for l in labels]


def parse_form(f):
    asm = None
    if "@" in f:
        f, asm = f.split("@")
    return f[0], f[1], f[2], f[3] == "1", asm


def decl_text(f, ident, otype="int"):
    sc, kind, st, hasdef, asm = parse_form(f)
    a = ' __asm__("%s_%s")' % (ident, asm) if asm else ""
    if kind == "o":
        return ("%s %s %s%s%s;" % (OSTO[st], otype, ident, a, " = 1" if hasdef else "")).strip(), "%s = 2;" % ident
    return ("%s %s %s(void)%s%s" % (FSTO[st], otype, ident, a, "{ return 1; }" if hasdef else ";")).strip(), \
        "%s();" % ident


def render(hist, ident, use=True):
    """C text of one identifier's history (layout = header of Model/Linkage.lean)."""
    out, depth, nfun, lastfile = [], 0, 0, None
    for f in hist:
        sc, kind = f[0], f[1]
        if sc == "F":
            out.append("}" * depth)
            depth = 0
        elif depth == 0:
            nfun += 1
            out.append("void u_%s_%d(void){" % (ident, nfun))
            depth = 1
            if sc == "N":
                out.append("{")
                depth = 2
        elif sc == "N":
            out.append("{")
            depth += 1
        d, u = decl_text(f, ident)
        out.append(d)
        if sc == "F":
            lastfile = kind
        elif use:
            out.append(u)
    out.append("}" * depth)
    if use and lastfile == "o":
        out.append("int *p_%s(void){ return &%s; }" % (ident, ident))
    elif use and lastfile == "f":
        out.append("int c_%s(void){ return %s(); }" % (ident, ident))
    return " ".join(x for x in out if x) + "\n"


# ----------------------------------------------------------------------------- IL -> symbol tables
SYM = r'\$(?:"([^"]*)"|([A-Za-z_.][A-Za-z0-9_.]*))'
NAME = re.compile(r'^(?:\.L)?(x\d+)(?:_([ab])|\.(\d+))?$')


def parse_il(text):
    """-> (defs, refs): defs = [(name, isfunc, export, thread, zero)] in emission order,
    refs = {(name, thread)} used as operands."""
    defs, refs = [], set()
    export_next = False
    for ln in text.splitlines():
        if ln.startswith("\t"):
            export_next = False
            for r in re.finditer(r'(thread )?' + SYM, ln):
                refs.add((r.group(2) if r.group(2) is not None else r.group(3), bool(r.group(1))))
            continue
        s = ln.strip()
        if s == "export":
            export_next = True
            continue
        m = re.match(r'(thread )?(export )?(data|function)\b[^$]*' + SYM + r'(.*)', s)
        if m:
            thread, exp, kind, qn, pn, rest = m.groups()
            name = qn if qn is not None else pn
            zero = False
            if kind == "data":
                body = rest.split("{", 1)[1].rsplit("}", 1)[0].strip()
                zero = bool(re.fullmatch(r'z \d+,?', body))
                for r in re.finditer(r'(thread )?' + SYM, body):
                    refs.add((r.group(2) if r.group(2) is not None else r.group(3), bool(r.group(1))))
            defs.append((name, kind == "function", bool(exp) or export_next, bool(thread), zero))
        export_next = False
    return defs, refs


def tables(text):
    """Per identifier x<n>: canonical table string in the driver's format."""
    defs, refs = parse_il(text)
    per = {}

    def slot(ident):
        return per.setdefault(ident, {"main": [], "locals": [], "refs": [], "defined": set(), "ren": {}})
    for name, isf, exp, th, zero in defs:
        m = NAME.match(name)
        if not m:
            continue
        p = slot(m.group(1))
        p["defined"].add(name)
        if name.startswith(".L"):
            p["ren"].setdefault(name, len(p["ren"]) + 1)
            p["locals"].append((name, isf, exp, th, zero))
        else:
            p["main"].append((name, isf, exp, th, zero))
    for name, th in sorted(refs):
        m = NAME.match(name)
        if m:
            slot(m.group(1))["refs"].append((name, th))
    out = {}
    for ident, p in per.items():
        def nm(n):
            m = NAME.match(n)
            if n.startswith(".L"):
                return "L%d" % p["ren"].get(n, 0)     # 0: a `$.L` name nothing defines
            return "@" + m.group(2) if m.group(2) else "x"

        def sym(e):
            return "%s:%s:%s:%s:%s" % (nm(e[0]), "f" if e[1] else "d", "e" if e[2] else "l",
                                       "t" if e[3] else "-", "z" if e[4] else "-")
        undef = sorted({(nm(n), th) for n, th in p["refs"] if n not in p["defined"]})
        out[ident] = "main=%s locals=%s undef=%s" % (
            ",".join(map(sym, p["main"])), ",".join(map(sym, p["locals"])),
            ",".join("%s:%s" % (n, "t" if th else "-") for n, th in undef))
    return out


EMPTY = "main= locals= undef="


def canon(tab):
    """order-insensitive view of a table string (main, locals as multisets with unique names, undef set)"""
    m = re.match(r'(?:.*? )?main=(\S*) locals=(\S*) undef=(\S*)', tab)
    main, loc, und = m.groups()
    locs = loc.split(",") if loc else []
    names = [x.split(":")[0] for x in locs]
    return (tuple(sorted(main.split(","))) if main else (),
            tuple(x.split(":", 1)[1] for x in locs), len(set(names)) == len(names) and "L0" not in names,
            tuple(sorted(und.split(","))) if und else ())


# ----------------------------------------------------------------------------- the two Lean answers
class Lean:
    def __init__(self, ck):
        self.ck = ck
        self.cache = {}

    def ask_nocache(self, hists):
        """answers for a big list, not remembered"""
        saved, self.cache = self.cache, {}
        try:
            return self.ask(hists)
        finally:
            self.cache = saved

    def ask(self, hists):
        todo = [h for h in hists if h not in self.cache]
        if todo:
            text = "".join(" ".join(h) + "\nspec " + " ".join(h) + "\n" for h in todo)
            out = self.ck.run_drv(text)
            if len(out) != 2 * len(todo):
                raise Broken("drv_c09 answered %d lines for %d" % (len(out), 2 * len(todo)))
            for i, h in enumerate(todo):
                mo, so = out[2 * i], out[2 * i + 1]
                if mo == "bad-op" or so == "bad-op":
                    raise Broken("drv_c09 cannot parse %r" % (h,))
                sv, dev = so.rsplit(" dev=", 1)
                sv, ent = sv.rsplit(" ent=", 1)
                self.cache[h] = (mo, sv, ent, dev)
        return [self.cache[h] for h in hists]


def spec_ok(sv, code):
    """The independent `ok` predicate on the code's own result.
    code = ("reject", msg) | ("ok", table).  Returns (holds, why)."""
    kind = sv.split()[0]
    if kind == "ok":
        if code[0] != "ok":
            return False, "C11 accepts this history; the compiler rejects it"
        if canon(code[1]) != canon(sv):
            return False, "symbols differ from what C11 prescribes"
        return True, ""
    if kind == "violates":
        if code[0] == "ok":
            return False, "constraint %s violated, no diagnostic" % sv.split()[1]
        return True, ""
    return True, ""     # undefined / unspecified: nothing is required


# ----------------------------------------------------------------------------- running cproc-qbe
class Runner:
    def __init__(self, ck, cc):
        self.ck, self.cc = ck, cc
        self.pool = concurrent.futures.ThreadPoolExecutor(common.NPROC)
        self.ncompile = 0

    def compile(self, text):
        self.ncompile += 1
        r = subprocess.run([self.cc], input=text, stdout=subprocess.PIPE, stderr=subprocess.PIPE, text=True)
        if r.returncode < 0 or r.returncode > 2:
            return ("crash", "status %d: %s" % (r.returncode, r.stderr[-300:]), "")
        if r.returncode != 0:
            return ("reject", r.stderr.strip()[-300:], "")
        return ("ok", "", r.stdout)

    def singles(self, hists):
        """Each history alone (identifier x0).  -> [("reject", msg) | ("ok", table) | ("crash", msg)]"""
        if len(hists) > 400:
            return self.singles_sh(hists)

        def one(h):
            st, msg, out = self.compile(render(h, "x0"))
            if st == "ok":
                return ("ok", tables(out).get("x0", EMPTY))
            return (st, msg)
        return list(self.pool.map(one, hists, chunksize=64))

    def singles_sh(self, hists):
        """The same through `xargs -P`: one compiler process per history, spawned by small shells
        (forking from the Python process is the bottleneck otherwise)."""
        self.nshdir = getattr(self, "nshdir", 0) + 1
        d = os.path.join(self.ck.scratch(), "single%d" % self.nshdir)
        os.makedirs(d)
        for i, h in enumerate(hists):
            with open(os.path.join(d, "%d.c" % i), "w") as f:
                f.write(render(h, "x0"))
        script = 'for f; do "$CC" "$f" > "$f.out" 2> "$f.err"; echo "$f $?"; done'
        names = "".join(os.path.join(d, "%d.c" % i) + "\n" for i in range(len(hists)))
        r = subprocess.run(["xargs", "-P", str(common.NPROC), "-n", "64", "sh", "-c", script, "sh"],
                           input=names, stdout=subprocess.PIPE, stderr=subprocess.PIPE, text=True,
                           env=dict(os.environ, CC=self.cc))
        rc = {}
        for ln in r.stdout.splitlines():
            f, c = ln.rsplit(" ", 1)
            rc[f] = int(c)
        if len(rc) != len(hists):
            raise Broken("xargs run lost results: %d of %d (%s)" % (len(rc), len(hists), r.stderr[-300:]))
        self.ncompile += len(hists)
        res = []
        for i in range(len(hists)):
            f = os.path.join(d, "%d.c" % i)
            c = rc[f]
            if c == 0:
                res.append(("ok", tables(open(f + ".out").read()).get("x0", EMPTY)))
            elif c in (1, 2):
                res.append(("reject", open(f + ".err").read().strip()[-300:]))
            else:
                res.append(("crash", "status %d: %s" % (c, open(f + ".err").read()[-300:])))
        import shutil
        shutil.rmtree(d, True)
        return res

    def batched(self, hists, size=300):
        """Histories expected to be accepted, many per unit; a failing unit is bisected."""
        res = [None] * len(hists)

        def unit(idx):
            text = "".join(render(hists[i], "x%d" % i) for i in idx)
            st, msg, out = self.compile(text)
            if st == "ok":
                t = tables(out)
                return [(i, ("ok", t.get("x%d" % i, EMPTY))) for i in idx]
            if len(idx) == 1:
                return [(idx[0], (st, msg))]
            mid = len(idx) // 2
            return unit(idx[:mid]) + unit(idx[mid:])
        chunks = [list(range(i, min(i + size, len(hists)))) for i in range(0, len(hists), size)]
        for part in self.pool.map(unit, chunks):
            for i, r in part:
                res[i] = r
        return res


# ----------------------------------------------------------------------------- judging one history
class Judge:
    def __init__(self, ck):
        self.ck = ck
        self.hist = {}          # evidence histogram
        self.stale = 0

    def bump(self, key):
        self.hist[key] = self.hist.get(key, 0) + 1

    def one(self, h, lean, code, stream):
        """lean = (model line, spec verdict, ent, dev); code = result of compiling."""
        mo, sv, ent, dev = lean
        ck = self.ck
        model = ("reject", mo) if mo.startswith("error") else ("ok", mo)
        outcome = "rejected" if model[0] == "reject" else mo.split(" main=")[0][3:]
        self.bump("%s len=%d %s spec=%s" % (stream, len(h), outcome, sv.split()[0]))
        ck.count((stream, len(h), outcome, sv.split()[0], tuple(sorted(set(f[:3] for f in h)))))
        replay = {"history": " ".join(h), "program": render(h, "x0"), "model": mo, "spec": sv,
                  "compiler": code[1][:400], "stream": stream}
        if code[0] == "crash":
            replay["what"] = "the compiler did not end with status 0/1"
            ck.violation(replay)
            return
        if code[0] == "reject" and "error" not in code[1]:
            replay["what"] = "rejected without a diagnostic"
            ck.violation(replay)
            return
        same = (code[0] == model[0]) and (code[0] == "reject" or canon(code[1]) == canon(model[1]))
        holds, why = spec_ok(sv, code)
        if same and holds:
            return
        if not holds:
            replay["what"] = why
            fid = None
            if "I" in dev and sv.startswith("ok") and code[0] == "ok":
                fid = FID_INLINE
            elif "T" in dev and sv.startswith("ok") and code[0] == "reject":
                fid = FID_TLS_INIT
            elif sv == "violates c6_7_1p3_threadMismatchUnseenBlockExtern" and code[0] == "ok":
                fid = FID_TLS_BLOCK
            if fid:
                self.bump("finding %s" % fid)
                if not same:
                    replay["what"] += " (and the model predicts something else: %s)" % mo
                    ck.violation(replay)
                else:
                    ck.report(replay, fid=fid)
            else:
                ck.violation(replay)
            return
        # the code's result is fine by the spec, yet the model predicts something else
        mholds, _ = spec_ok(sv, model)
        if not mholds:
            self.stale += 1
            ck.notes.append("model stale (code satisfies the spec, model does not): %s" % " ".join(h))
            return
        replay["what"] = "decl.c and Model/Linkage.lean disagree on a history C11 leaves open"
        replay["theorem"] = "CprocVerif.C09.linkage_history_correct_partial (model no longer describes decl.c)"
        ck.violation(replay, nofail=True)


# ----------------------------------------------------------------------------- stream 1: exhaustive
def minimal_rejections(hists, leans):
    """Of the histories the model rejects keep those whose proper prefixes it accepts (the compiler
    stops at the first error, so longer ones add nothing) -- the others are sampled."""
    verdict = {h: l[0].startswith("error") for h, l in zip(hists, leans)}
    mins, rest = [], []
    for h in hists:
        if not verdict[h]:
            continue
        (rest if len(h) > 1 and verdict.get(h[:-1], False) else mins).append(h)
    return mins, rest


def run_exhaustive(ck, lean, runner, judge, name, F, maxlen, sample_rest, keep):
    """All histories over F up to length maxlen, in chunks by first form.  `keep`: list that receives
    (history, lean answer) pairs for the spec validation (all of length <= 2, a sample of the longer)."""
    tot = {"forms": len(F), "maxlen": maxlen, "histories": 0, "model_accepts": 0, "rejected_minimal": 0,
           "rejected_longer_sampled": 0}
    per_chunk_rest = max(1, sample_rest // len(F))
    for f1 in F:
        hists = [(f1,) + t for L in range(0, maxlen) for t in itertools.product(F, repeat=L)]
        leans = lean.ask_nocache(hists)
        idx = {h: i for i, h in enumerate(hists)}
        acc = [h for h, l in zip(hists, leans) if not l[0].startswith("error")]
        mins, rest = minimal_rejections(hists, leans)
        rest = ck.rng.sample(rest, min(len(rest), per_chunk_rest)) if rest else []
        if ck.quick and maxlen >= 3:
            # quick tier: every minimal rejection of length < maxlen, one third of those of the maximal length
            # (each costs one compiler process); the thorough tier compiles them all
            keepm = [h for h in mins if len(h) < maxlen or ck.rng.random() < 0.34]
            tot["rejected_minimal_not_compiled"] = tot.get("rejected_minimal_not_compiled", 0) + len(mins) - len(keepm)
            mins = keepm
        for h, code in zip(acc, runner.batched(acc)):
            judge.one(h, leans[idx[h]], code, name)
        rej = mins + rest
        for h, code in zip(rej, runner.singles(rej)):
            judge.one(h, leans[idx[h]], code, name)
        tot["histories"] += len(hists)
        tot["model_accepts"] += len(acc)
        tot["rejected_minimal"] += len(mins)
        tot["rejected_longer_sampled"] += len(rest)
        for h, l in zip(hists, leans):
            if len(h) <= 2 or ck.rng.random() < keep[1]:
                keep[0].append((h, l))
        if len([v for v in ck.violations]) >= 5:
            break
    ck.cov.setdefault("streams", {})[name] = tot


# ----------------------------------------------------------------------------- stream 2: random units
def pick_form(rng, scope, prof):
    """A form for scope tag `scope`; mostly consistent with the identifier's profile
    (kind, internal?, thread-local?, label), sometimes arbitrary."""
    kind, intern, thread, label = prof
    if rng.random() < 0.12:
        f = rng.choice(forms(scope))
        return f + rng.choice(["", "", "@a", "@b"])
    if kind == "o":
        if scope == "F":
            st = rng.choice(["s", "s", "e"] if intern else ["n", "n", "e"])
        else:
            st = rng.choice(["e", "e", "e", "s", "n"])
        st = {"n": "t", "s": "u", "e": "v"}[st] if thread and not (scope != "F" and st == "n") else st
        d = "1" if (scope == "F" or st in "nsu") and rng.random() < 0.25 else "0"
    else:
        if scope == "F":
            st = rng.choice(["s", "k", "e"] if intern else ["n", "n", "e", "i", "j"])
            d = "1" if rng.random() < 0.25 else "0"
        else:
            st = rng.choice(["n", "e", "i"])
            d = "0"
    lab = "@" + label if label and rng.random() < 0.8 and not (kind == "f" and d == "1") else ""
    return scope + kind + st + d + lab


def gen_unit(ck, lean, nid, want_bad):
    """A unit with several identifiers.  Layout: items are file-scope declarations or function bodies;
    a body is a chain of nested blocks; an identifier's declarations inside one body appear at
    non-decreasing depth (that is what `block`/`nested` in its history mean)."""
    rng = ck.rng
    idents = ["x%d" % (nid + i) for i in range(rng.randint(2, 5))]
    prof = {i: (rng.choice("oof"), rng.random() < 0.4, rng.random() < 0.25,
                rng.choice([None, None, None, "a", "b"])) for i in idents}
    hist = {i: [] for i in idents}
    items = []      # ("file", ident, form, type) | ("body", [[(ident, form, type)] per level])
    typedefs = ["T%d" % nid]
    for _ in range(rng.randint(2, 8)):
        if rng.random() < 0.55:
            i = rng.choice(idents)
            f = pick_form(rng, "F", prof[i])
            items.append(("file", i, f, rng.choice(["int", "int", typedefs[0]])))
            hist[i].append(f)
        else:
            levels = [[] for _ in range(rng.randint(1, 3))]
            last = {}
            # an identifier whose latest declaration sits in an earlier body cannot appear in this one
            # (its history would take both for the same body): only identifiers last seen at file scope
            free = [i for i in idents if not hist[i] or hist[i][-1][0] == "F"]
            if not free:
                continue
            for _ in range(rng.randint(1, 4)):
                i = rng.choice(free)
                lo = last.get(i, 0)
                lv = rng.randint(lo, len(levels) - 1)
                tag = "B" if (i not in last or lv == last[i]) else "N"
                f = tag + pick_form(rng, "B", prof[i])[1:]
                last[i] = lv
                levels[lv].append((i, f, rng.choice(["int", "int", typedefs[0]])))
                hist[i].append(f)
            items.append(("body", levels))
    hs = {i: tuple(h) for i, h in hist.items() if h}
    if not hs:
        return None
    ans = dict(zip(hs, lean.ask(list(hs.values()))))
    bad = [i for i, a in ans.items() if a[0].startswith("error")]
    if bool(bad) != want_bad:
        return None
    # render
    out = ["typedef int %s;" % typedefs[0]]
    nb = 0
    kinds = {}
    for it in items:
        if it[0] == "file":
            _, i, f, ty = it
            out.append(decl_text(f, i, ty)[0])
            kinds[i] = f[1]
        else:
            nb += 1
            out.append("void u_%s_%d(void){" % (idents[0], nb))
            # an unrelated local of typedef'd type
            out.append("%s sh%d = 0; (void)sh%d;" % (typedefs[0], nid, nid))
            for lv, decls in enumerate(it[1]):
                if lv:
                    out.append("{")
                for i, f, ty in decls:
                    d, u = decl_text(f, i, ty)
                    out.append(d)
                    out.append(u)
            out.append("}" * len(it[1]))
    for i, k in kinds.items():
        out.append("int *p_%s(void){ return &%s; }" % (i, i) if k == "o" else "int c_%s(void){ return %s(); }" % (i, i))
    return " ".join(out) + "\n", hs, ans


def run_random(ck, lean, runner, judge, n):
    done = bad_units = 0
    tries = 0
    sizes = {}
    want_bad = False
    while done < n and tries < 40 * n:
        tries += 1
        g = gen_unit(ck, lean, 1000 * tries, want_bad)
        if g is None:
            continue
        want_bad = ck.rng.random() < 0.15
        text, hs, ans = g
        done += 1
        st, msg, out = runner.compile(text)
        expect_reject = any(a[0].startswith("error") for a in ans.values())
        sizes[len(hs)] = sizes.get(len(hs), 0) + 1
        if expect_reject:
            bad_units += 1
            ck.count(("unit-rejected", tuple(sorted(len(h) for h in hs.values()))))
            if st == "ok":
                # which identifier should have been diagnosed?  judge them singly
                for i, h in hs.items():
                    if ans[i][0].startswith("error"):
                        judge.one(h, ans[i], ("ok", tables(out).get(i, EMPTY)), "random-unit")
            continue
        if st != "ok":
            # find the identifier whose history the compiler dislikes
            blamed = False
            for i, h in hs.items():
                code = runner.singles([h])[0]
                if code[0] != "ok":
                    judge.one(h, ans[i], code, "random-unit")
                    blamed = True
            if not blamed:
                ck.violation({"kind": "unit-rejected", "program": text, "stderr": msg,
                              "what": "every identifier's history is accepted alone, the unit is rejected",
                              "theorem": "independence of identifiers (layout of checks/c09.py:gen_unit)"}, nofail=True)
            continue
        t = tables(out)
        for i, h in hs.items():
            judge.one(h, ans[i], ("ok", t.get(i, EMPTY)), "random-unit")
        if done == 3:
            ck.sample({"random unit": text[:700], "histories": {i: " ".join(h) for i, h in hs.items()}})
    ck.cov.setdefault("streams", {})["random-unit"] = {"units": done, "units_with_rejected_identifier": bad_units,
                                                        "identifiers_per_unit": sizes}


# ----------------------------------------------------------------------------- spec validation (gcc/clang + nm)
def nm_table(cmd, text, d, tag):
    c = os.path.join(d, "g%s.c" % tag)
    o = os.path.join(d, "g%s.o" % tag)
    open(c, "w").write(text)
    r = subprocess.run(cmd + ["-std=c11", "-pedantic-errors", "-O0", "-c", "-o", o, c],
                       stdout=subprocess.PIPE, stderr=subprocess.STDOUT, text=True)
    if r.returncode != 0:
        return None
    n = subprocess.run(["nm", "-f", "sysv", o], stdout=subprocess.PIPE, text=True).stdout
    os.unlink(o)
    syms = {}
    for ln in n.splitlines():
        p = [x.strip() for x in ln.split("|")]
        if len(p) >= 7:
            syms[p[0]] = (p[2], p[3])
    return syms


def nm_outcome(syms, ident):
    """(main class, number of local statics, how many of them TLS)"""
    main = "absent"
    for name in (ident, ident + "_a", ident + "_b"):
        if name in syms:
            c, ty = syms[name]
            main = "undef" if c == "U" else ("%s%s%s" % ("export" if c.isupper() else "local",
                                                      " thread" if ty == "TLS" else "",
                                                      " @" + name[-1] if name != ident else ""))
    # block-scope statics: gcc spells them `x.N`, clang `<function>.x[.N]`
    loc = [k for k in syms if re.fullmatch(re.escape(ident) + r'\.\d+', k) or
           re.fullmatch(r'u_%s_\d+\.%s(\.\d+)?' % (re.escape(ident), re.escape(ident)), k)]
    return main, len(loc), sum(1 for k in loc if syms[k][1] == "TLS")


def spec_outcome(sv, ent, used):
    m = re.match(r'ok (.*?) main=(\S*) locals=(\S*) undef=(\S*)', sv)
    main, loc, und = m.group(2), m.group(3), m.group(4)
    locs = loc.split(",") if loc else []
    if main:
        name, k, e, t, z = main.split(":")
        o = ("export" if e == "e" else "local") + (" thread" if t == "t" else "") + (" " + name if name != "x" else "")
    elif und and used:
        o = "undef"
    else:
        o = "absent"
    return o, len(locs), sum(1 for x in locs if x.split(":")[3] == "t")


def gcc_quirk(h):
    """Documented places where gcc 12 departs from the text of C11 (clang agrees with the text):
    a block-scope function declaration with `inline` and no `extern` is taken for a nested-function
    declaration; and when a block-scope declaration of the function stands between file-scope `inline`
    declarations, gcc decides "inline definition or external definition" differently from 6.7.4p7 (which
    counts the file-scope declarations only)."""
    if any(f[0] in "BN" and f[1] == "f" and f[2] == "i" for f in h):
        return True
    if any(f[0] == "F" and f[1] == "f" and f[2] in "ijk" for f in h) and \
            any(f[0] in "BN" and f[1] == "f" for f in h):
        return True
    return False


def validate_spec(ck, runner, hists, leans, limit):
    """Spec/Link against gcc (clang in the documented quirk classes).  Only marks the check broken."""
    cand = [(h, l) for h, l in zip(hists, leans) if l[1].split()[0] in ("ok", "violates")]
    if len(cand) > limit:
        # always: the plain file/block histories of length <= 2; the rest is a uniform sample
        must = [c for c in cand if len(c[0]) <= 2 and not any(f[0] == "N" or "@" in f for f in c[0])]
        rest = [c for c in cand if not (len(c[0]) <= 2 and not any(f[0] == "N" or "@" in f for f in c[0]))]
        cand = must + ck.rng.sample(rest, max(0, min(len(rest), limit - len(must))))
    d = os.path.join(ck.scratch(), "nm")
    os.makedirs(d, exist_ok=True)
    stats = {"histories": len(cand), "agree_gcc": 0, "agree_clang_in_gcc_quirk_class": 0, "accept": 0, "reject": 0}
    bad = []

    def one(arg):
        k, (h, l) = arg
        mo, sv, ent, dev = l
        # a use of an internal-linkage function that is never defined violates 6.9p3: render without uses
        used = not (sv.startswith("ok") and ent == "f:intern" and not sv.endswith("undef="))
        text = render(h, "x", use=used)

        def agrees(cmd):
            syms = nm_table(cmd, text, d, "%d" % k)
            if sv.startswith("violates"):
                return syms is None, "rejected" if syms is None else "accepted"
            if syms is None:
                return False, "rejected"
            got = nm_outcome(syms, "x")
            want = spec_outcome(sv, ent, used)
            return got == want, "%s" % (got,)
        ok, got = agrees(["gcc"])
        if ok:
            return h, "gcc", None
        if gcc_quirk(h):
            ok2, got2 = agrees(["clang-14"])
            if ok2:
                return h, "clang", None
            return h, None, "gcc: %s, clang: %s, spec: %s" % (got, got2, sv)
        return h, None, "gcc: %s, spec: %s" % (got, sv)
    for h, who, err in runner.pool.map(one, list(enumerate(cand)), chunksize=8):
        if err:
            bad.append((" ".join(h), render(h, "x").strip(), err))
        elif who == "gcc":
            stats["agree_gcc"] += 1
        else:
            stats["agree_clang_in_gcc_quirk_class"] += 1
    ck.cov["spec_validation"] = stats
    if bad:
        raise Broken("Spec/Link.lean disagrees with the platform compilers on %d histories, e.g. %s"
                     % (len(bad), bad[:3]))


# ----------------------------------------------------------------------------- corpus
def run_corpus(ck, lean, runner, judge):
    p = os.path.join(common.VERIF, "corpus", "C09", "histories.txt")
    if not os.path.exists(p):
        return
    hs = []
    for ln in open(p):
        ln = ln.split("#")[0].strip()
        if ln:
            hs.append(tuple(ln.split()))
    leans = lean.ask(hs)
    for h, l, code in zip(hs, leans, runner.singles(hs)):
        judge.one(h, l, code, "corpus")


# ----------------------------------------------------------------------------- main
def run(ck):
    quick = ck.quick
    ck.cov["rule"] = (
        "K-B: every history of one identifier over the 42 forms {none,static,extern,_Thread_local,static/extern "
        "_Thread_local | inline,static/extern inline} x {file,block} x {object,function} x {with/without "
        "initialiser/body} up to length %d (model-accepted ones batched, model-rejected ones with an accepted "
        "prefix compiled singly, the rest sampled); the same with nested-block forms up to length %d and with "
        "assembler labels up to length %d; %d random multi-identifier units; each result compared with the model "
        "and with the spec verdict.  Spec validated against gcc/clang + nm.  distinct_nontrivial counts distinct "
        "(stream, length, outcome, spec verdict, set of storage forms used)."
        % (3 if quick else 4, 2 if quick else 3, 2 if quick else 3, 300 if quick else 3000))
    with ck.phase("lean"):
        ck.lean_build()
    if not ck.proofs_ok:
        ck.notes.append("Props.C09 does not build; searching for a failing input")
    if not ck.drv_ok:
        raise Broken("drv_c09 does not build: %s" % ck.build_log[-1500:])
    cc = ck.build_cproc_qbe()
    lean = Lean(ck)
    runner = Runner(ck, cc)
    judge = Judge(ck)
    with ck.phase("corpus"):
        run_corpus(ck, lean, runner, judge)
    keep = ([], 0.03 if quick else 0.012)
    with ck.phase("exhaustive-FB"):
        run_exhaustive(ck, lean, runner, judge, "exhaustive-FB", forms("FB"), 3 if quick else 4,
                       2000 if quick else 20000, keep)
    keepn = ([], 0.0 if quick else 0.02)
    with ck.phase("exhaustive-nested"):
        run_exhaustive(ck, lean, runner, judge, "exhaustive-nested", forms("FBN"), 2 if quick else 3,
                       500 if quick else 5000, keepn)
    keepl = ([], 0.0 if quick else 0.02)
    if quick:
        run_exhaustive(ck, lean, runner, judge, "exhaustive-labels", forms("FB", ("", "@a", "@b")), 2, 500, keepl)
    else:
        run_exhaustive(ck, lean, runner, judge, "exhaustive-labels",
                       [f for f in forms("FB", ("", "@a", "@b")) if f[2] in "nse"], 3, 5000, keepl)
    if not ck.violations:
        run_random(ck, lean, runner, judge, 300 if quick else 3000)
    ck.cov["histogram"] = dict(sorted(judge.hist.items()))
    ck.cov["compilations"] = runner.ncompile
    ck.cov["model_stale"] = judge.stale
    if not ck.violations:
        pairs = keep[0] + [p for p in keepn[0] if any(f[0] == "N" for f in p[0])] + \
            [p for p in keepl[0] if any("@" in f for f in p[0])]
        with ck.phase("validate-spec"):
            validate_spec(ck, runner, [p[0] for p in pairs], [p[1] for p in pairs], 4000 if quick else 25000)
    if not ck.proofs_ok and not ck.violations:
        ck.violation({"kind": "proof-broken", "theorem": "CprocVerif.Props.C09 (lake build failed)",
                      "log": ck.build_log[-3000:]}, nofail=True)
    ck.sample({"history": "Fos0 Boe0 Foe0", "program": render(("Fos0", "Boe0", "Foe0"), "x0").strip()})
    ck.assumptions = [
        "one identifier's declarations do not interact with another identifier's (checked by the random-unit stream)",
        "types: every object is int (or a typedef of it), every function int(void); typecompatible/typecomposite "
        "are a placeholder in the model",
        "the layout of a history as a unit (consecutive block-level forms share a function body, `nested` opens a "
        "block, a file-scope form closes the body); sibling blocks are not generated",
        "gcc 12 / clang 14 + nm as oracles for Spec/Link.lean; 6.9.2 read as gcc, clang and C23 read it "
        "(`_Thread_local int x;` is a tentative definition)",
    ]


META = {
    "category": "proof",
    "text": ("Lean 4 theorems over a model of decl.c's linkage bookkeeping (getlinkage, declcommon, the object and "
             "function branches of decl, the tentative-definition list, emittentativedefns) and qbe.c's symbol naming, "
             "for declaration histories of one identifier of ANY length: every history C11 accepts (Spec/Link.lean: "
             "6.2.2 linkage of each declaration, 6.7p3, 6.7.1p3/p7, 6.7.4p7, 6.7.9p5, 6.9p3/p5, 6.9.2) is accepted and "
             "yields exactly the prescribed definitions / exports / thread marks / unique local names / undefined "
             "references (linkage_history_correct_partial), every constraint violation is rejected "
             "(rejects_violations_partial), plus one corollary per clause of the property.  The full-strength "
             "statements are refuted by concrete witnesses for three named input classes (inline definition followed "
             "by an extern/non-inline declaration; thread-local tentative definition followed by an initialised one; "
             "_Thread_local mismatch between a block-scope extern and the file-scope declaration).  Tied to /repo on "
             "every run by compiling every history up to length 3 (thorough: 4) over the 42 declaration forms, plus "
             "nested-block, assembler-label and random multi-identifier units, with the freshly built cproc-qbe and "
             "comparing the parsed IL with model and spec; the spec itself is validated against gcc/clang + nm."),
    "design_ref": "DESIGN.md section 4, C09",
    "note": ("Trusted: Lean kernel + propext/Classical.choice/Quot.sound (the finite step simulation is checked by "
             "kernel evaluation, `decide +kernel`, over all 528 valid abstract states x 216 forms); the hand-written "
             "model (tied by the exhaustive differential run); gcc/clang/nm as oracles for the spec.  Not modelled: "
             "types (placeholder), the declarator parser, sibling blocks, typedef/enum-constant names shadowing the "
             "identifier."),
    "technique": "Lean 4 proof (induction over declaration histories with a kernel-checked finite simulation) + "
                 "bounded-exhaustive differential correspondence with the compiled output",
}

"""C03 - every successful compilation yields a well-formed backend IL module.

Proof:   lean/CprocVerif/Props/C03.lean: `wf_sound` -- a module accepted by the executable validator
         `wf` (unique definitions, dominance, opcode/class table, labels, phi sources = predecessors,
         terminated functions, types before use, call signatures, data sizes) never gets stuck on an
         undefined temporary / unknown label / unmatched phi / falling off a function, for every
         function, arguments and fuel.  (The validator is what is proved; cproc's emitter is tied to
         it by running the validator on everything the compiler accepts.)
Tie:     the proved-sound validator runs on the real output of the freshly built cproc-qbe for the
         regression corpus x 3 targets, cproc's own preprocessed sources, generated programs
         (gen/cprog.py), token-level mutants of the corpus that still compile; data definitions are
         checked against sizeof/_Alignof emitted alongside; status 0 must not be returned when the
         output cannot be written.
"""
import glob
import os
import re
import subprocess

from . import common, progrun


CPPFLAGS = ["-P", "-U__GNUC__", "-U__GNUC_MINOR__", "-D__STDC_NO_ATOMICS__", "-D__STDC_NO_COMPLEX__",
            "-U__SIZEOF_INT128__", "-U__PIC__", "-D__extension__="]

FIXED_WITNESS = {   # witnesses of repaired defects: must pass (a failure is an ordinary violation)
    "phi-nonpredecessor-after-noreturn": "_Noreturn void die(void); int f(int c){ return c ? (die(), 0) : 1; }\n"
    "void out(long); int h(int c){ if (c) { return 1; out((1U && 0) || c); } return (die(), 1) && c; }\n",
    "goto-undefined": "void f(void){ a: goto a; }\n",
    "fold-lor-land-size": "int a = -0.0 || 0; int b = 5 || 0;\n",
    "zero-overaligned": "void f(void){struct {_Alignas(32) char c; char d[40];} r = {4};}\n",
}

WITNESS = {
    "vla-typedef-size-not-dominating": "void out(long); void f(int n, int c){ typedef int T[n]; if (c) out(sizeof(T)); out(sizeof(T)); }\n",
}


def data_sizes(path):
    r = subprocess.run([progrun.drv03(), "sizes", path], stdout=subprocess.PIPE, stderr=subprocess.PIPE, text=True)
    out = {}
    for ln in r.stdout.splitlines():
        t = ln.split()
        if len(t) >= 3:
            out[t[0]] = (int(t[1]), int(t[2]))
    return out


def data_images(path):
    r = subprocess.run([progrun.drv03(), "image", path], stdout=subprocess.PIPE, stderr=subprocess.PIPE, text=True)
    out = {}
    for ln in r.stdout.splitlines():
        t = ln.split()
        if len(t) >= 3:
            out[t[0]] = t[2]
    return out


def data_many(op, paths):
    """`drv_c03 sizesmany|imagemany` over many modules: {path: {name: fields}}"""
    res = {p: {} for p in paths}
    for i in range(0, len(paths), 150):
        r = subprocess.run([progrun.drv03(), op] + paths[i:i + 150], stdout=subprocess.PIPE, stderr=subprocess.PIPE, text=True)
        cur = None
        for ln in r.stdout.splitlines():
            if ln.startswith("== "):
                cur = ln[3:]
                continue
            t = ln.split()
            if cur is None or len(t) < 3 or ln.startswith("bad parse"):
                continue
            if op == "sizesmany":
                # `<name> <size> <align> <export> <thread>`; an assembler label may contain blanks: split from the right
                r = ln.rsplit(None, 4)
                if len(r) == 5 and r[1].isdigit() and r[2].isdigit():
                    res[cur][r[0]] = (int(r[1]), int(r[2]))
            else:
                res[cur][t[0]] = t[2]
    return res


def token_mutants(rng, text, n):
    """simple token-level mutations (delete / duplicate / swap / replace an operator or number)"""
    toks = re.findall(r"[A-Za-z_]\w*|\d+\w*|\S", text)
    if len(toks) < 8:
        return []
    out = []
    ops = ["+", "-", "*", "/", "%", "<", ">", "==", "&", "|", "^", "<<", ">>", "&&", "||", "=", "!=", "<=", ">="]
    for _ in range(n):
        t = list(toks)
        k = rng.random()
        i = rng.randrange(len(t))
        if k < 0.25:
            del t[i]
        elif k < 0.45:
            t.insert(i, t[i])
        elif k < 0.6:
            j = rng.randrange(len(t))
            t[i], t[j] = t[j], t[i]
        elif k < 0.8:
            cand = [x for x in range(len(t)) if t[x] in ops]
            if cand:
                t[rng.choice(cand)] = rng.choice(ops)
        else:
            cand = [x for x in range(len(t)) if t[x][0].isdigit()]
            if cand:
                t[rng.choice(cand)] = rng.choice(["0", "1", "255", "65536", "2147483648", "4294967295u", "0x7fffffffffffffff", "1.5", "3"])
        out.append(" ".join(t))
    return out


def run(ck):
    rng = ck.rng
    ck.cov["rule"] = ("validator `wf` (proved sound in Props/C03) on cproc-qbe's real output: regression corpus x 3 targets, "
                      "cproc's own 18 preprocessed sources, generated programs, token-level mutants that still compile; "
                      "distinct_nontrivial = distinct accepted modules with at least one function or data definition")
    with ck.phase("lean"):
        ck.lean_build()
    cc = ck.build_cproc_qbe()
    d = os.path.join(ck.scratch(), "c03")
    os.makedirs(d)
    jobs = []     # (label, src_text or path, target, is_path)
    stats = {"corpus": 0, "own-sources": 0, "generated": 0, "late-types": 0, "initialisers": 0, "mutants-tried": 0, "mutants-compiled": 0,
             "rejected-by-cproc": 0, "data-checked": 0}

    # 0. known-finding witnesses first: must still fail (else the model/finding list is stale)
    for fid, src in WITNESS.items():
        p = os.path.join(d, "w_%s.c" % fid)
        open(p, "w").write(src)
        rc, err = progrun.compile_c(cc, "x86_64-sysv", p, p + ".ssa")
        if rc == 0:
            res = progrun.wf([p + ".ssa"])[0][1]
            if res.startswith("bad"):
                ck.report({"kind": "known-witness", "fid": fid, "program": src, "wf": res}, fid=fid)
            else:
                ck.notes.append("model stale: witness of %s now passes wf" % fid)
        else:
            ck.notes.append("witness of %s is now rejected by cproc (fixed?)" % fid)

    for fid, src in FIXED_WITNESS.items():
        p = os.path.join(d, "fw_%s.c" % fid)
        open(p, "w").write(src)
        for targ, _ in progrun.TARGETS:
            jobs.append(("corpus", p, targ, True))

    # 1. regression corpus
    corpus = sorted(glob.glob(os.path.join(common.REPO, "test", "*.c")))
    for f in corpus:
        name = os.path.basename(f)[:-2]
        if os.path.exists(f[:-2] + ".pp"):
            continue     # -E tests: not compilable units
        targets = [name.split("+")[1]] if "+" in name else [t for t, _ in progrun.TARGETS]
        for t in targets:
            jobs.append(("corpus", f, t, True))
    # 2. cproc's own sources (quick: 6 of them; thorough: all)
    own = sorted(glob.glob(os.path.join(ck.repo_src(), "*.c")))
    if ck.quick:
        own = [f for f in own if os.path.basename(f) in ("qbe.c", "decl.c", "expr.c", "pp.c", "init.c", "map.c")]
    for f in own:
        pp = os.path.join(d, "own_" + os.path.basename(f))
        r = subprocess.run(["cpp"] + CPPFLAGS + ["-I", ck.repo_src(), f, "-o", pp], stdout=subprocess.PIPE, stderr=subprocess.PIPE, text=True)
        if r.returncode == 0:
            jobs.append(("own-sources", pp, "x86_64-sysv", True))
    # 3. generated programs
    ngen = 150 if ck.quick else 3000
    gens = {}
    for i in range(ngen):
        targ, cs = progrun.TARGETS[i % 3]
        seed = ck.seed * 1000003 + i
        text, g = progrun.gen_program(seed, cs, size=rng.choice([0.5, 1.0, 1.5]), sizes=True)
        p = os.path.join(d, "g%d.c" % i)
        open(p, "w").write(text)
        gens[p] = g
        jobs.append(("generated", p, targ, True))
    # 3b. objects whose struct/union type is completed only after their first declaration
    for i in range(30 if ck.quick else 400):
        targ, cs = progrun.TARGETS[i % 3]
        kind = rng.choice(["struct", "union"])
        members = []
        for k in range(rng.randint(1, 5)):
            mt = rng.choice(["char", "short", "int", "long", "double", "float", "void *", "long long", "_Bool"])
            arr = "[%d]" % rng.randint(1, 5) if rng.random() < 0.3 else ""
            al = "_Alignas(%d) " % rng.choice([8, 16, 32]) if rng.random() < 0.15 else ""
            members.append("%s%s m%d%s;" % (al, mt, k, arr))
        body = " ".join(members)
        first = rng.choice(["%s T%d a;", "extern %s T%d a;", "static %s T%d a;", "%s T%d a; %s T%d a;", "extern %s T%d a; extern %s T%d a;"])
        first = first.replace("%s T%d", "%s T%d" % (kind, i))
        init = rng.choice(["", "", " = {0}", " = {0}"])
        define = "" if first.startswith("static") or (not init and "extern" not in first) else "%s T%d a%s;" % (kind, i, init)
        if "extern" in first and not define:
            define = "%s T%d a;" % (kind, i)
        text = ("%s T%d;\n%s\n%s T%d *p = &a;\n%s T%d { %s };\n%s\n"
                "unsigned long a__sz = sizeof a;\nunsigned long a__al = _Alignof(%s T%d);\n"
                % (kind, i, first, kind, i, kind, i, body, define, kind, i))
        p = os.path.join(d, "late%d.c" % i)
        open(p, "w").write(text)
        jobs.append(("late-types", p, targ, True))

    # 3c. initialised objects of every shape (the object generator of C07: nested aggregates, bit-fields, strings of every
    #     width that are shorter / exactly as long / longer than their array, designators, incomplete arrays): here only
    #     the SIZE and ALIGNMENT of the emitted definition are judged, against sizeof/_Alignof emitted alongside
    from . import c07
    import collections
    for i in range(40 if ck.quick else 600):
        targ = progrun.TARGETS[i % 3][0]
        objs = []
        for k in range(5):
            try:
                o = c07.gen_object(rng, c07.TARGINFO[targ], collections.defaultdict(collections.Counter), i * 100 + k)
            except Exception as e:      # the generator is C07's business
                ck.notes.append("c07 generator failed: %s" % e)
                continue
            if o.storage == "block-static":
                continue
            objs.append(o)
        lines = [c07.PRELUDE]
        for o in objs:
            lines.append(o.c_text())
            lines.append("unsigned long %s__sz = sizeof %s;" % (o.name, o.name))
            lines.append("unsigned long %s__al = _Alignof(typeof(%s));" % (o.name, o.name))
        # wide/narrow strings around the length of their array (truncation drops the terminator and nothing else)
        for k, (ety, pre) in enumerate([("char", ""), ("unsigned short", "u"), ("unsigned", "U"), ("int", "L"), ("unsigned char", "u8")]):
            n = rng.randint(1, 6)
            lit = "".join(rng.choice("abcxyz") for _ in range(max(n, 1) + rng.choice([-1, 0, 0])))
            lines.append('%s ws%d_%d[%d] = %s"%s";' % (ety, i, k, max(n, 1), pre, lit))
            lines.append("unsigned long ws%d_%d__sz = sizeof ws%d_%d;" % (i, k, i, k))
            lines.append("unsigned long ws%d_%d__al = _Alignof(%s);" % (i, k, ety))
            lines.append('struct { char c; %s s[%d]; int n; } wr%d_%d = {1, %s"%s", 7};' % (ety, max(n, 1), i, k, pre, lit))
            lines.append("unsigned long wr%d_%d__sz = sizeof wr%d_%d;" % (i, k, i, k))
            lines.append("unsigned long wr%d_%d__al = _Alignof(typeof(wr%d_%d));" % (i, k, i, k))
        p = os.path.join(d, "ini%d.c" % i)
        open(p, "w").write("\n".join(lines) + "\n")
        g = subprocess.run(["gcc", "-std=gnu2x", "-w", "-fsyntax-only", p], stdout=subprocess.PIPE, stderr=subprocess.PIPE)
        if g.returncode == 0:
            jobs.append(("initialisers", p, targ, True))

    # 4. token mutants of corpus files
    nm = 400 if ck.quick else 6000
    k = 0
    while k < nm:
        f = rng.choice(corpus)
        for m in token_mutants(rng, open(f).read(), 4):
            p = os.path.join(d, "m%d.c" % k)
            open(p, "w").write(m + "\n")
            jobs.append(("mutant", p, rng.choice(progrun.TARGETS)[0], True))
            k += 1

    def comp(job):
        label, path, targ, _ = job
        # outputs go to the scratch directory, never next to a corpus file inside /repo
        out = os.path.join(d, "%s.%s.%s.ssa" % (common.sha(path)[:8], os.path.basename(path), targ))
        try:
            rc, err = progrun.compile_c(cc, targ, path, out, timeout=60)
        except subprocess.TimeoutExpired:
            return (job, out, "timeout", "")
        return (job, out, rc, err)

    with ck.phase("compile"):
        results = progrun.run_many(comp, jobs)
    ok_files, meta = [], {}
    for job, out, rc, err in results:
        label = job[0]
        if label == "mutant":
            stats["mutants-tried"] += 1
        if rc == "timeout":
            ck.notes.append("compile timeout: %s (C19's business)" % job[1])
            continue
        if rc != 0:
            stats["rejected-by-cproc"] += 1
            if label in ("corpus", "generated", "own-sources", "late-types"):     # not "initialisers": acceptance of those is C07's business
                ck.violation({"kind": "valid-program-rejected", "source": open(job[1]).read()[:6000], "target": job[2],
                              "stderr": err[-600:], "what": "a valid program is rejected (or cproc died: rc=%s)" % rc})
                return
            continue
        if label == "mutant":
            stats["mutants-compiled"] += 1
        else:
            stats[label] += 1
        ok_files.append(out)
        meta[out] = job
    with ck.phase("wf"):
        wfres = progrun.wf(ok_files)
    for path, res in wfres:
        job = meta[path]
        ck.count(path)
        if res.startswith("ok"):
            continue
        src = open(job[1]).read()
        fid = progrun.classify_wf(res, src)
        ck.report({"kind": "ill-formed-IL", "stream": job[0], "source": src[:8000], "target": job[2], "wf": res,
                   "what": "cproc-qbe exited 0 but its output is not a well-formed IL module"}, fid=fid)
        if ck.violations:
            return
    # 5. data definitions: size == sizeof, alignment >= _Alignof (generated programs carry probes);
    #    every data definition of every accepted module has a power-of-two alignment >= 1
    with ck.phase("data"):
        all_sz = data_many("sizesmany", list(meta))
        all_img = data_many("imagemany", [p for p, j in meta.items() if j[0] in ("generated", "late-types", "initialisers")])
    for path, job in meta.items():
        sz = all_sz[path]
        for name, (size, align) in sz.items():
            if align < 1 or align & (align - 1):
                ck.violation({"kind": "data-align", "source": open(job[1]).read()[:6000], "target": job[2], "object": name,
                              "emitted_align": align, "what": "data definition with an alignment that is not a power of two >= 1"})
                return
        if job[0] not in ("generated", "late-types", "initialisers"):
            continue
        img = all_img[path]
        for name, (size, align) in sz.items():
            if name + "__sz" in img:
                want = int.from_bytes(bytes.fromhex(img[name + "__sz"]), "little")
                wal = int.from_bytes(bytes.fromhex(img[name + "__al"]), "little")
                stats["data-checked"] += 1
                if size != want or align < wal or align % wal:
                    ck.violation({"kind": "data-size", "source": open(job[1]).read()[:6000], "target": job[2], "object": name,
                                  "emitted_size": size, "sizeof": want, "emitted_align": align, "alignof": wal,
                                  "what": "data definition does not have the size/alignment of the C object"})
                    return
    # 6. status 0 only when the output was written
    p = os.path.join(d, "full.c")
    open(p, "w").write("int x = 1; int f(int a){ return a + x; }\n" * 1 + "".join("int y%d = %d;\n" % (i, i) for i in range(3000)))
    r = subprocess.run([cc, "-o", "/dev/full", p], stdout=subprocess.PIPE, stderr=subprocess.PIPE)
    stats["devfull-status"] = r.returncode
    if r.returncode == 0:
        ck.violation({"kind": "write-error-ignored", "command": "cproc-qbe -o /dev/full full.c",
                      "what": "status 0 although the output could not be written"})
    # stdout closed early (pipe reader exits): must not report success with truncated output
    pr = subprocess.Popen([cc, p], stdout=subprocess.PIPE, stderr=subprocess.PIPE)
    pr.stdout.read(100)
    pr.stdout.close()
    rc = pr.wait()
    stats["closed-pipe-status"] = rc
    if rc == 0:
        ck.violation({"kind": "write-error-ignored", "command": "cproc-qbe full.c | head -c 100",
                      "what": "status 0 although the reader closed the pipe before the output was complete"})
    ck.cov["streams"] = stats
    ck.sample({"generated program (head)": open(os.path.join(d, "g0.c")).read()[:500]})
    ck.sample({"mutant": open(os.path.join(d, "m0.c")).read()[:200]})
    if not ck.proofs_ok and not ck.violations:
        ck.violation({"kind": "proof-broken", "theorem": "CprocVerif.Props.C03 (lake build failed)", "log": ck.build_log[-3000:]}, nofail=True)
    ck.assumptions = ["Spec/Qbe.lean + QbeWf.lean are our reading of the QBE IL reference (no qbe binary in the sandbox)",
                      "the validator is proved sound for: undefined temporaries, unknown labels, unmatched phis, falling off a function; "
                      "class checks and data sizes are executed but not covered by wf_sound"]


META = {
    "category": "proof",
    "text": ("The IL validator `wf` is proved sound in Lean.  wf_sound: an accepted module never gets stuck on an undefined "
             "temporary, unknown label, phi without matching predecessor or by falling off a function, for all functions, "
             "arguments, fuel and external functions; wf_single_def, wf_labels_static.  Classes (wf unchanged): "
             "wf_classes_static (every instruction/jump/phi/direct call uses its operands at classes the static class map "
             "allows, the opcode exists with the named result class, arguments/results agree with the callee's signature), "
             "wf_classes_preserved (every step preserves the typing invariant: each bound temporary holds a value of its "
             "class), wf_sound_classes_at (a run ending in a class mismatch -- operand/result/jnz/phi/store operand, "
             "argument/parameter, returned value or call result of the wrong class or count -- stopped at an INDIRECT call), "
             "wf_sound_classes_partial / wf_sound_full_partial (modules whose calls are all direct: no run ends in a class "
             "mismatch, given ArgsOk for the entry arguments and the explicit hypothesis ExtOk on external functions).  The "
             "property quantifies over cproc's outputs, which no model of the whole front end covers, so the theorems are "
             "brought to bear by running the proved validator on every module the freshly built compiler emits with status "
             "0: corpus x 3 targets, cproc's own sources, generated programs, token mutants; plus data size/alignment "
             "against sizeof/_Alignof and the exit status under write failures.  Partial: acceptance of *this* compiler's "
             "output is validated per input, not proved for all inputs."),
    "design_ref": "DESIGN.md section 4, C03",
    "note": ("Trusted: Lean kernel + standard axioms; Spec/Qbe*.lean as the reading of the QBE reference; the generators. "
             "Not proved: that cproc's emitter only produces wf modules (checked per run on everything generated).  Class "
             "mismatch freedom is now INSIDE the theorems (Props/C03.lean, Lemmas/QbeCls*.lean) with these limits: (1) calls "
             "through a computed address (function pointers) cannot be compared with the callee's signature by any static "
             "check of QBE IL -- wf_sound_classes_full (no restriction) is stated as a def and is false, wf_sound_classes_at "
             "proves an indirect call is the only place a class mismatch can arise, wf_sound_classes_partial assumes "
             "DirectCalls; (2) external functions are covered by the hypothesis ExtOk (no class error of their own, result "
             "readable at the class named at the call site); (3) deliberately not counted as class mismatches: use of the "
             "result of a call whose callee executed `ret` without a value (well-formed IL, undefined behaviour in C), "
             "vastart in a non-variadic function, unknown aggregate type."),
    "technique": "Lean 4 proof of validator soundness + validation of every emitted module (translation validation)",
}

"""C06 - object layout equals the platform ABI.

Proof:   lean/CprocVerif/Props/C06.lean: the model of decl.c:addmember/tagspec (Model/Layout.lean)
         computes, for every well-formed member list, exactly the bit-cursor layout of
         Spec/Abi.lean (x86-64 SysV / RISC-V rule; AAPCS64 and unions `_partial`), plus
         ABI-independent corollaries (no overlap, alignment, storage unit inside the object,
         before+width+after, size multiple of align) and the enum underlying-type choice.
Tie:     K-B  generated struct/union/enum definitions compiled by the freshly built cproc-qbe for
              all three targets; sizeof/_Alignof/offsetof read from an emitted `unsigned long v[]`,
              bit-field positions from the data image of `T x = {.f = -1}`, object size/alignment
              from `T o;`; compared with the model driver drv_c06 and with Spec/Abi.
         Spec validation: the same types through gcc (x86-64) and clang --target (three targets);
              a disagreement there marks the check broken, never a violation.
"""
import concurrent.futures
import hashlib
import itertools
import json
import os
import random
import re
import subprocess
import time

from . import common
from .common import Broken

TARGETS = ["x86_64-sysv", "aarch64", "riscv64"]
CLANG_TRIPLE = {"x86_64-sysv": "x86_64-linux-gnu", "aarch64": "aarch64-linux-gnu", "riscv64": "riscv64-linux-gnu"}

FID_AARCH64 = "aarch64-unnamed-bitfield-align"
# "union-unnamed-bitfield-size" (`union {unsigned long :40; unsigned char m:1;}` had size 1) was repaired by /repo commit
# b861666: its witnesses stay in CORPUS / corpus/C06/witnesses.json (run first, must match the ABI);
# Props/C06.lean: layout_correct_union is unconditional.
# "enum-fixed-unsigned-first-implicit" (`enum E : unsigned { A };` rejected) was repaired by /repo commit bb180d9:
# its witness stays in ENUM_FIXED_WITNESS (run first, must be accepted); Props/C06.lean: enum_accepts is unconditional.

PRELUDE = """typedef int (*fp_t)(void);
enum Ea {Ea0}; enum Eb {Eb0 = -1}; enum Ec {Ec0 = 0x100000000}; enum Ed {Ed0 = -0x100000000L};
"""
PRELUDE_FIXED = "enum Fa : char {Fa0 = 1}; enum Fb : unsigned short {Fb0 = 1}; enum Fc : long long {Fc0 = 1};\n"

# name: (C specifier, declarator prefix, declarator suffix, size, align, isInt, needs fixed-enum prelude)
SCALARS = {
    "_Bool": ("_Bool", "", "", 1, 1, True), "char": ("char", "", "", 1, 1, True),
    "schar": ("signed char", "", "", 1, 1, True), "uchar": ("unsigned char", "", "", 1, 1, True),
    "short": ("short", "", "", 2, 2, True), "ushort": ("unsigned short", "", "", 2, 2, True),
    "int": ("int", "", "", 4, 4, True), "uint": ("unsigned", "", "", 4, 4, True),
    "long": ("long", "", "", 8, 8, True), "ulong": ("unsigned long", "", "", 8, 8, True),
    "llong": ("long long", "", "", 8, 8, True), "ullong": ("unsigned long long", "", "", 8, 8, True),
    "float": ("float", "", "", 4, 4, False), "double": ("double", "", "", 8, 8, False),
    "ldouble": ("long double", "", "", 16, 16, False),
    "voidp": ("void", "*", "", 8, 8, False), "charpp": ("const char", "**", "", 8, 8, False),
    "fnp": ("int", "(*", ")(void)", 8, 8, False), "fp_t": ("fp_t", "", "", 8, 8, False),
    "Ea": ("enum Ea", "", "", 4, 4, True), "Eb": ("enum Eb", "", "", 4, 4, True),
    "Ec": ("enum Ec", "", "", 8, 8, True), "Ed": ("enum Ed", "", "", 8, 8, True),
    "Fa": ("enum Fa", "", "", 1, 1, True), "Fb": ("enum Fb", "", "", 2, 2, True),
    "Fc": ("enum Fc", "", "", 8, 8, True),
}
FIXED_ENUMS = {"Fa", "Fb", "Fc"}
INT_SCALARS = [k for k, v in SCALARS.items() if v[5]]
ALL_SCALARS = list(SCALARS)

# ------------------------------------------------------------------ abstract types
# type  = ("sc", name) | ("arr", type, len|None) | ("su", isUnion, pack, [field])
# field = (name|None, type, align, width|None)


def t_align_hi(t):
    """upper bound of the alignment under every target's rule (used only to generate valid _Alignas)"""
    if t[0] == "sc":
        return SCALARS[t[1]][4]
    if t[0] == "arr":
        return t_align_hi(t[1])
    a = 1
    for (_, ft, al, w) in t[3]:
        a = max(a, al, 1 if (t[2] and w is None) else t_align_hi(ft))
    return a


def has_unnamed_bf(t):
    if t[0] == "arr":
        return has_unnamed_bf(t[1])
    if t[0] != "su":
        return False
    for (n, ft, _, w) in t[3]:
        if w is not None and n is None:
            return True
        if has_unnamed_bf(ft):
            return True
    return False


def uses_fixed(t):
    if t[0] == "sc":
        return t[1] in FIXED_ENUMS
    if t[0] == "arr":
        return uses_fixed(t[1])
    return any(uses_fixed(f[1]) for f in t[3])


def drv_type(t):
    if t[0] == "sc":
        s = SCALARS[t[1]]
        return "i%d" % s[3] if s[5] else "x%d:%d" % (s[3], s[4])
    if t[0] == "arr":
        return "A %s %s" % ("?" if t[2] is None else t[2], drv_type(t[1]))
    fs = []
    for (n, ft, al, w) in t[3]:
        if w is None:
            fs.append("m %s %d %s" % (n or "-", al, drv_type(ft)))
        else:
            fs.append("b %s %d%s %s" % (n or "-", w, "@%d" % al if al else "", drv_type(ft)))
    return "%s%s { %s }" % ("U" if t[1] else "S", "P" if t[2] else "", " ".join(fs))


def c_declarator(t, name):
    """(specifier text, declarator text) for declaring `name` with type t"""
    dims = ""
    e = t
    while e[0] == "arr":
        dims += "[%s]" % ("" if e[2] is None else e[2])
        e = e[1]
    if e[0] == "sc":
        sp, pre, suf = SCALARS[e[1]][:3]
    else:
        sp, pre, suf = c_su(e, None), "", ""
    return sp, pre + name + dims + suf


def c_field(f, attr_aligned=False):
    n, ft, al, w = f
    sp, decl = c_declarator(ft, n or "")
    a = ""
    post = ""
    if al:
        if attr_aligned:
            post = " __attribute__((aligned(%d)))" % al
        else:
            a = "_Alignas(%d) " % al
    if w is not None:
        return "%s%s %s: %d;" % (a, sp, n or "", w)
    if n is None:
        return "%s%s;" % (a, sp)
    return "%s%s %s%s;" % (a, sp, decl, post)


def c_su(t, tag, attr_aligned=False):
    kw = "union" if t[1] else "struct"
    pk = " __attribute__((packed))" if t[2] else ""
    return "%s%s%s { %s }" % (kw, pk, " " + tag if tag else "", " ".join(c_field(f, attr_aligned) for f in t[3]))


def paths(t, prefix="", desig="", out=None):
    """All queryable member paths of a struct/union type:
    (offsetof path, initialiser designator or None, is_bitfield, width)."""
    if out is None:
        out = []
    for (n, ft, al, w) in t[3]:
        if w is not None:
            if n is not None:
                out.append((prefix + n, desig + "." + n, True, w))
            continue
        if n is None:          # anonymous struct/union: its members are found by name
            paths(ft, prefix, desig, out)
            continue
        p, d = prefix + n, desig + "." + n
        out.append((p, d, False, None))
        e = ft
        while e is not None and e[0] == "arr":
            if e[2] is None:   # flexible array: offsetof of an element only
                out.append((p + "[3]", None, False, None))
                e = None
            elif e[2] == 0:
                e = None
            else:
                p += "[%d]" % (e[2] - 1)
                d += "[%d]" % (e[2] - 1)
                out.append((p, d, False, None))
                e = e[1]
        if e is not None and e[0] == "su":
            paths(e, p + ".", d, out)
    return out


def t_depth(t):
    if t[0] == "arr":
        return t_depth(t[1])
    if t[0] != "su":
        return 0
    return 1 + max([t_depth(f[1]) for f in t[3]] + [0])


def key64(s):
    return int.from_bytes(hashlib.blake2b(s.encode(), digest_size=8).digest(), "little")


def bump(h, k):
    h[k] = h.get(k, 0) + 1


def kinds_hist(t, h):
    if t[0] == "sc":
        bump(h, "scalar:" + t[1])
    elif t[0] == "arr":
        bump(h, "array:flexible" if t[2] is None else ("array:of-aggregate" if t[1][0] == "su" else "array"))
        kinds_hist(t[1], h)
    else:
        bump(h, "union" if t[1] else ("struct:packed" if t[2] else "struct"))
        for (n, ft, al, w) in t[3]:
            if w is not None:
                bump(h, "bf:" + ("unnamed" if n is None else "named") + (":in-union" if t[1] else ""))
                if n is None and w > 0 and t[1]:
                    bump(h, "bf:unnamed-nonzero:in-union")
                bump(h, "bfwidth:%02d" % w)
                bump(h, "bfbase:" + ft[1])
            else:
                if n is None:
                    bump(h, "anonymous-member")
                if al:
                    bump(h, "alignas:%02d" % al)
                kinds_hist(ft, h)


# ------------------------------------------------------------------ generator
class Gen:
    def __init__(self, rng):
        self.rng = rng
        self.n = 0

    def name(self):
        self.n += 1
        return "m%d" % self.n

    def scalar(self, allow_fixed=True):
        r = self.rng
        while True:
            k = r.choice(ALL_SCALARS)
            if k in FIXED_ENUMS and (not allow_fixed or r.random() < 0.7):
                continue
            return ("sc", k)

    def bf(self, in_union):
        r = self.rng
        base = r.choice(INT_SCALARS)
        if base in FIXED_ENUMS and r.random() < 0.8:
            base = r.choice(["int", "uint", "long", "char", "ushort"])
        bits = SCALARS[base][3] * 8
        x = r.random()
        if base == "_Bool":
            w = r.choice([0, 1, 1, 1])
        elif x < 0.12:
            w = 0
        elif x < 0.45:
            w = r.choice([w for w in (1, 7, 8, 9, 15, 16, 17, 31, 32, 33, 63, 64) if w <= bits])
        else:
            w = r.randint(1, bits)
        named = w > 0 and r.random() < 0.8
        if not named and base[0] in "EF":
            # `enum E : 3;` is read as a C23 enum-type-specifier (6.7.3.3): cproc diagnoses it
            base = r.choice(["int", "uint", "long", "char", "ushort", "ullong", "short"])
            w = min(w, SCALARS[base][3] * 8)
        return (self.name() if named else None, ("sc", base), 0, w)

    def su(self, depth, top=False, allow_bf=True):
        r = self.rng
        is_union = r.random() < 0.3
        pack = (not is_union) and r.random() < 0.15
        if pack:
            allow_bf = False         # cproc: "bit-field in packed struct is not supported"
        nf = r.randint(1, 6 if top else 4)
        fields = []
        for i in range(nf):
            x = r.random()
            if allow_bf and x < 0.38:
                fields.append(self.bf(is_union))
                continue
            ft = self.mtype(depth, parent_union=is_union)
            anon = ft[0] == "su" and r.random() < 0.45
            al = 0
            if r.random() < 0.2:
                lo = t_align_hi(ft)
                al = r.choice([a for a in (1, 2, 4, 8, 16, 32, 64) if a >= lo] or [0])
            fields.append((None if anon else self.name(), ft, al, None))
        if not is_union and r.random() < 0.12 and any(f[0] is not None or f[3] is None for f in fields):
            et = self.mtype(depth, no_flex=True)
            if et[0] == "arr" and et[2] == 0:
                et = self.scalar()
            fields.append((self.name(), ("arr", et, None), 0, None))
        if all(f[3] is not None and f[0] is None for f in fields):   # would have no members
            fields.append((self.name(), self.scalar(), 0, None))
        return ("su", is_union, pack, fields)

    def mtype(self, depth, no_flex=False, parent_union=False):
        r = self.rng
        x = r.random()
        if depth < 4 and x < 0.28:
            t = self.su(depth + 1)
            if has_flex(t):
                # a struct member may not contain a flexible array member; a union member may
                if no_flex or not parent_union or r.random() < 0.5:
                    t = strip_flex(t)
            return t
        if x < 0.42:
            e = self.mtype(depth + 1 if depth < 4 else depth, no_flex=True) if r.random() < 0.5 else self.scalar()
            if has_flex(e):
                e = strip_flex(e)
            n = r.choice([1, 2, 3, 5, 7]) if r.random() < 0.95 else 0
            if n == 0 and e[0] != "sc":
                n = 1
            return ("arr", e, n)
        return self.scalar()

    def toplevel(self):
        self.n = 0
        t = self.su(1, top=True)
        return t


def has_flex(t):
    """flexible in cproc's sense: struct whose last member is T[], or union containing such"""
    if t[0] != "su":
        return False
    for (n, ft, al, w) in t[3]:
        if ft[0] == "arr" and ft[2] is None:
            return True
        if ft[0] == "su" and has_flex(ft):
            return True
    return False


def strip_flex(t):
    if t[0] == "arr":
        return ("arr", strip_flex(t[1]), t[2])
    if t[0] != "su":
        return t
    fs = []
    for (n, ft, al, w) in t[3]:
        if ft[0] == "arr" and ft[2] is None:
            ft = ("arr", ft[1], 2)
        fs.append((n, strip_flex(ft), al, w))
    return ("su", t[1], t[2], fs)


# ------------------------------------------------------------------ rendering one probe set
def render(tid, t):
    tag = "T%d" % tid
    kw = "union" if t[1] else "struct"
    ps = paths(t)
    lines = [c_su(t, tag) + ";"]
    offs = [p for p in ps if not p[2]]
    bfs = [p for p in ps if p[2]]
    vals = ["sizeof(%s %s)" % (kw, tag), "_Alignof(%s %s)" % (kw, tag)]
    vals += ["__builtin_offsetof(%s %s, %s)" % (kw, tag, p[0]) for p in offs]
    lines.append("unsigned long v%d[] = {%s};" % (tid, ", ".join(vals)))
    for i, p in enumerate(bfs):
        lines.append("%s %s x%d_%d = {%s = -1};" % (kw, tag, tid, i, p[1]))
    lines.append("%s %s o%d;" % (kw, tag, tid))
    return "\n".join(lines) + "\n", offs, bfs


# ------------------------------------------------------------------ output parsers
DATA_RE = re.compile(r"^(?:export )?data \$(\w+) = align (\d+) \{(.*)\}\s*$")


def parse_cproc(text):
    """name -> (align, [('l',v)...] items expanded to bytes lazily)"""
    out = {}
    for ln in text.splitlines():
        m = DATA_RE.match(ln)
        if not m:
            continue
        items = []
        for it in m.group(3).split(","):
            it = it.strip()
            if not it:
                continue
            k, _, v = it.partition(" ")
            items.append((k, v.strip()))
        out[m.group(1)] = (int(m.group(2)), items)
    return out


SZ = {"b": 1, "h": 2, "w": 4, "l": 8}


def items_values(items):
    return [int(v) & (2**64 - 1) for k, v in items if k == "l"]


class Garbage(Exception):
    """cproc emitted data that cannot be a sane object image (e.g. a 2^64-byte zero fill)"""


def items_bytes(items):
    b = bytearray()
    for k, v in items:
        if k == "z":
            if int(v) > (1 << 24) or len(b) > (1 << 24):
                raise Garbage("zero fill of %s bytes" % v)
            b.extend(b"\0" * int(v))
        else:
            for x in v.split():
                b.extend((int(x) & ((1 << (8 * SZ[k])) - 1)).to_bytes(SZ[k], "little"))
    return bytes(b)


ASM_DIR = {".quad": 8, ".xword": 8, ".8byte": 8, ".dword": 8, ".long": 4, ".word": 4, ".4byte": 4, ".int": 4,
           ".short": 2, ".hword": 2, ".half": 2, ".value": 2, ".2byte": 2, ".byte": 1}
LABEL_RE = re.compile(r"^([A-Za-z_]\w*):")


def parse_asm(text):
    """name -> bytes for every data label of gcc/clang assembly output"""
    out = {}
    cur = None
    for ln in text.splitlines():
        ln = ln.split("#")[0].split("//")[0].strip()
        if not ln:
            continue
        m = LABEL_RE.match(ln)
        if m:
            cur = bytearray()
            out[m.group(1)] = cur
            continue
        if cur is None:
            continue
        parts = ln.split(None, 1)
        d = parts[0]
        if d in ASM_DIR and len(parts) > 1:
            for x in parts[1].split(","):
                try:
                    cur.extend((int(x.strip(), 0) & ((1 << (8 * ASM_DIR[d])) - 1)).to_bytes(ASM_DIR[d], "little"))
                except ValueError:
                    cur = None
                    break
        elif d in (".zero", ".space", ".skip") and len(parts) > 1:
            cur.extend(b"\0" * int(parts[1].split(",")[0].strip(), 0))
    return {k: bytes(v) for k, v in out.items() if v is not None}


def bytes_u64s(b):
    return [int.from_bytes(b[i:i + 8], "little") for i in range(0, len(b), 8)]


def setbits(b):
    """(lowest set bit, number of set bits, contiguous?)"""
    v = int.from_bytes(b, "little")
    if v == 0:
        return (None, 0, True)
    lo = (v & -v).bit_length() - 1
    n = bin(v).count("1")
    return (lo, n, (v >> lo) == (1 << n) - 1)


# ------------------------------------------------------------------ one batch (runs in a worker process)
def run_tool(cmd, src):
    r = subprocess.run(cmd + [src], stdout=subprocess.PIPE, stderr=subprocess.PIPE, text=True)
    return r.returncode, r.stdout, r.stderr


def observe_cproc(defs, tid, offs, bfs):
    try:
        return observe_cproc1(defs, tid, offs, bfs)
    except (Garbage, ValueError, OverflowError, MemoryError) as e:
        return {"garbage": "%s: %s" % (type(e).__name__, e)}


def observe_cproc1(defs, tid, offs, bfs):
    """numbers observed from cproc output for type tid: dict or None if something is missing"""
    v = defs.get("v%d" % tid)
    o = defs.get("o%d" % tid)
    if v is None or o is None:
        return None
    vals = items_values(v[1])
    if len(vals) != 2 + len(offs):
        return None
    ob = items_bytes(o[1])
    res = {"size": vals[0], "align": vals[1], "offs": vals[2:], "objsize": len(ob), "objalign": o[0], "bits": []}
    for i in range(len(bfs)):
        x = defs.get("x%d_%d" % (tid, i))
        if x is None:
            return None
        b = items_bytes(x[1])
        res["bits"].append(setbits(b) + (len(b),))
    return res


def observe_asm(defs, tid, offs, bfs):
    v = defs.get("v%d" % tid)
    if v is None:
        return None
    vals = bytes_u64s(v)
    if len(vals) != 2 + len(offs):
        return None
    res = {"size": vals[0], "align": vals[1], "offs": vals[2:], "bits": []}
    for i in range(len(bfs)):
        x = defs.get("x%d_%d" % (tid, i))
        if x is None:
            return None
        res["bits"].append(setbits(x) + (len(x),))
    return res


def parse_drv_line(ln, offs, bfs):
    """`ok size align r...` -> same shape as observe_*, bit-fields as (bitpos, width, True, None) + units"""
    f = ln.split()
    if not f or f[0] != "ok":
        return {"error": ln}
    size, align = int(f[1]), int(f[2])
    rs = f[3:]
    if len(rs) != len(offs) + len(bfs):
        return {"error": "bad-arity " + ln}
    res = {"size": size, "align": align, "offs": [], "bits": [], "units": []}
    for r in rs[:len(offs)]:
        if not r.isdigit():
            return {"error": "path " + r}
        res["offs"].append(int(r))
    for r in rs[len(offs):]:
        p = r.split(":")
        if len(p) != 4:
            return {"error": "path " + r}
        off, before, after, w = map(int, p)
        res["bits"].append((8 * off + before, w))
        res["units"].append((off, before, after, w))
    return res


def same(obs, pred, with_obj=False):
    """compare observed numbers with predicted ones; returns None or a description"""
    if "error" in pred:
        return "predicted %s" % pred["error"]
    if obs["size"] != pred["size"]:
        return "sizeof %d vs %d" % (obs["size"], pred["size"])
    if obs["align"] != pred["align"]:
        return "_Alignof %d vs %d" % (obs["align"], pred["align"])
    for i, (a, b) in enumerate(zip(obs["offs"], pred["offs"])):
        if a != b:
            return "offsetof #%d: %d vs %d" % (i, a, b)
    for i, (a, b) in enumerate(zip(obs["bits"], pred["bits"])):
        if a[0] != b[0] or a[1] != b[1] or not a[2]:
            return "bit-field #%d at bit %s x%d (contiguous=%s) vs bit %d x%d" % (i, a[0], a[1], a[2], b[0], b[1])
        if a[3] is not None and a[3] != pred["size"]:
            return "image size %d vs sizeof %d" % (a[3], pred["size"])
    if with_obj:
        if obs["objsize"] != pred["size"]:
            return "allocated object size %d vs %d" % (obs["objsize"], pred["size"])
        if obs["objalign"] != pred["align"]:
            return "allocated object alignment %d vs %d" % (obs["objalign"], pred["align"])
    return None


def batch_worker(job):
    """job: dict(dir, cproc, drv, types=[(tid, t)], targets=[...], oracles=bool, fixed=bool).
    Returns dict(events=[...], counts={...})."""
    d = job["dir"]
    os.makedirs(d, exist_ok=True)
    types = job["types"]
    rendered = {}
    src = PRELUDE + (PRELUDE_FIXED if job["fixed"] else "")
    for tid, t in types:
        text, offs, bfs = render(tid, t)
        rendered[tid] = (text, offs, bfs)
        src += text
    path = os.path.join(d, "b%d.c" % job["id"])
    open(path, "w").write(src)
    events = []
    counts = {"types": len(types), "probes": 0}
    # model + spec
    lines = []
    for tid, t in types:
        _, offs, bfs = rendered[tid]
        q = drv_type(t) + "".join(" | " + p[0] for p in offs) + "".join(" | " + p[0] for p in bfs)
        lines.append("layout " + q)
        for tg in TARGETS:
            lines.append("spec %s %s" % (tg, q))
    r = subprocess.run([job["drv"]], input="\n".join(lines) + "\n", stdout=subprocess.PIPE, stderr=subprocess.PIPE, text=True)
    if r.returncode != 0:
        return {"broken": "drv_c06 failed: " + r.stderr[-500:]}
    dl = r.stdout.splitlines()
    if len(dl) != len(lines):
        return {"broken": "drv_c06 answered %d lines for %d" % (len(dl), len(lines))}
    model, spec = {}, {tg: {} for tg in TARGETS}
    k = 0
    for tid, t in types:
        _, offs, bfs = rendered[tid]
        model[tid] = parse_drv_line(dl[k], offs, bfs)
        k += 1
        for tg in TARGETS:
            spec[tg][tid] = parse_drv_line(dl[k], offs, bfs)
            k += 1
    # cproc, every requested target
    for tg in job["targets"]:
        rc, out, err = run_tool([job["cproc"], "-t", tg], path)
        per = {}
        if rc == 0:
            defs = parse_cproc(out)
            for tid, t in types:
                per[tid] = observe_cproc(defs, tid, rendered[tid][1], rendered[tid][2])
        else:
            # find the rejected type(s): compile each type alone
            for tid, t in types:
                p1 = os.path.join(d, "b%d_%d.c" % (job["id"], tid))
                open(p1, "w").write(PRELUDE + (PRELUDE_FIXED if job["fixed"] else "") + rendered[tid][0])
                rc1, out1, err1 = run_tool([job["cproc"], "-t", tg], p1)
                if rc1 == 0:
                    per[tid] = observe_cproc(parse_cproc(out1), tid, rendered[tid][1], rendered[tid][2])
                else:
                    per[tid] = {"rejected": err1.strip()[-300:]}
        for tid, t in types:
            obs = per.get(tid)
            counts["probes"] += 2 + len(rendered[tid][1]) + len(rendered[tid][2])
            if obs is None:
                events.append({"kind": "unparsed", "tid": tid, "target": tg})
                continue
            if "garbage" in obs:
                events.append({"kind": "garbage", "tid": tid, "target": tg, "what": obs["garbage"]})
                continue
            if "rejected" in obs:
                if "error" in model[tid]:
                    events.append({"kind": "both-reject", "tid": tid, "target": tg})
                else:
                    events.append({"kind": "rejected-valid", "tid": tid, "target": tg, "stderr": obs["rejected"]})
                continue
            d_spec = same(obs, spec[tg][tid], with_obj=True)
            d_model = same(obs, model[tid], with_obj=True)
            if d_spec is not None or d_model is not None:
                events.append({"kind": "diff", "tid": tid, "target": tg, "vs_spec": d_spec, "vs_model": d_model,
                               "vs_spec_x86rule": same(obs, spec["x86_64-sysv"][tid], with_obj=True),
                               "cproc": {k2: obs[k2] for k2 in ("size", "align", "offs", "bits")},
                               "spec": spec[tg][tid], "model": model[tid]})
    # spec validation against the platform compilers
    if job["oracles"]:
        orc = []
        if not job["fixed"]:
            orc.append(("gcc", "x86_64-sysv", ["gcc", "-w", "-S", "-o", "-"]))
        for tg in TARGETS:
            orc.append(("clang", tg, ["clang", "-w", "--target=" + CLANG_TRIPLE[tg], "-S", "-o", "-"]))
        for cname, tg, cmd in orc:
            rc, out, err = run_tool(cmd, path)
            if rc != 0:
                events.append({"kind": "oracle-rejects", "compiler": cname, "target": tg, "stderr": err[-600:],
                               "tids": [tid for tid, _ in types]})
                continue
            defs = parse_asm(out)
            for tid, t in types:
                obs = observe_asm(defs, tid, rendered[tid][1], rendered[tid][2])
                if obs is None:
                    events.append({"kind": "oracle-unparsed", "compiler": cname, "target": tg, "tid": tid})
                    continue
                counts["oracle"] = counts.get("oracle", 0) + 1
                dd = same(obs, spec[tg][tid])
                if dd is not None:
                    events.append({"kind": "spec-vs-oracle", "compiler": cname, "target": tg, "tid": tid, "diff": dd,
                                   "oracle": obs, "spec": spec[tg][tid]})
    return {"events": events, "counts": counts}


# ------------------------------------------------------------------ corpus (hand-written witnesses; run first)
def I(n):
    return ("sc", n)


CORPUS = [
    # DESIGN section 7 #16: AAPCS64 8/4, cproc 5/1
    ("aarch64-zero-width", ("su", False, False, [("c", I("char"), 0, None), (None, I("int"), 0, 0), ("d", I("char"), 0, None)])),
    ("aarch64-unnamed-3", ("su", False, False, [("c", I("char"), 0, None), (None, I("long"), 0, 3), ("d", I("char"), 0, None)])),
    # #23 (fixed by b861666): an unnamed bit-field of non-zero width occupies storage in a union
    ("union-unnamed-40", ("su", True, False, [(None, I("ulong"), 0, 40), ("m", I("uchar"), 0, 1)])),
    ("union-unnamed-plain", ("su", True, False, [(None, I("ulong"), 0, 40), ("m", I("uchar"), 0, None)])),
    # #22 (fixed by f8fc119): packed struct with an over-aligned member is rounded up
    ("packed-alignas", ("su", False, True, [("a", I("short"), 0, None), ("b", I("short"), 0, None), ("c", I("float"), 8, None), ("d", I("char"), 0, None)])),
    # tests/bitfield-*.c style mixes
    ("mixed-units", ("su", False, False, [("c", I("char"), 0, None), ("x", I("int"), 0, 5), ("y", I("long"), 0, 40), ("d", I("char"), 0, None),
                                         ("z", I("int"), 0, 7), (None, I("int"), 0, 0), ("w", I("short"), 0, 9)])),
    ("unit-shrinks", ("su", False, False, [("c", I("char"), 0, None), ("d", I("char"), 0, 1), ("e", I("int"), 0, 1)])),
    ("straddle", ("su", False, False, [("a", I("long"), 0, 36), ("b", I("int"), 0, 20), ("c", I("int"), 0, 9)])),
    ("bits-left-at-boundary", ("su", False, False, [("a", I("int"), 0, 28), ("b", I("int"), 0, 3), ("c", I("int"), 0, 2)])),
    ("flexible", ("su", False, False, [("n", I("int"), 0, None), ("c", I("char"), 0, None), ("a", ("arr", I("long"), None), 0, None)])),
    ("anon-nest", ("su", False, False, [("a", I("char"), 0, None),
                                        (None, ("su", True, False, [("p", I("voidp"), 0, None),
                                                                    ("q", ("arr", ("su", False, False, [("u", I("short"), 0, None), ("v", I("ldouble"), 0, None)]), 3), 16, None)]), 0, None),
                                        ("f", ("arr", I("int"), None), 0, None)])),
]


# ------------------------------------------------------------------ enums
I64 = 2**64


def enum_literals(rng):
    """(C text, u64 representation, size, signed) of an integer constant expression"""
    r = rng
    b = r.choice([0, 1, 2, 127, 128, 255, 256, 32767, 65535, 2**31 - 1, 2**31, 2**32 - 1, 2**32, 2**63 - 1, 2**63, 2**64 - 1])
    v = max(0, min(2**64 - 1, b + r.choice([-2, -1, 0, 0, 0, 1, 2])))
    form = r.choice(["dec", "neg", "hex", "u", "castl", "castul", "castu", "negl"])
    if form == "dec" or form == "neg" or form == "negl":
        if v > 2**63 - 1:
            v = 2**63 - 1 - r.randint(0, 3)
        size = 4 if v <= 2**31 - 1 else 8
        if form == "dec":
            return ("%d" % v, v, size, True)
        if form == "negl":
            return ("(-%dL)" % v, (-v) % I64, 8, True)
        return ("(-%d)" % v, (-v) % I64, size, True)
    if form == "hex":
        if v <= 2**31 - 1:
            ty = (4, True)
        elif v <= 2**32 - 1:
            ty = (4, False)
        elif v <= 2**63 - 1:
            ty = (8, True)
        else:
            ty = (8, False)
        return ("0x%x" % v, v, ty[0], ty[1])
    if form == "u":
        return ("%du" % v, v, 4 if v <= 2**32 - 1 else 8, False)
    if form == "castl":
        w = v if v < 2**63 else v - I64
        return ("((long)%s)" % (("%dul" % v)), w % I64, 8, True)
    if form == "castul":
        return ("((unsigned long)%dul)" % v, v, 8, False)
    v &= 0xffffffff
    return ("((unsigned)%dul)" % v, v, 4, False)


FIXED_TYPES = [("char", 1, True), ("signed char", 1, True), ("unsigned char", 1, False), ("short", 2, True),
               ("unsigned short", 2, False), ("int", 4, True), ("unsigned", 4, False), ("long", 8, True),
               ("unsigned long", 8, False), ("long long", 8, True), ("unsigned long long", 8, False)]


def gen_enum(rng, eid):
    n = rng.randint(1, 5)
    fixed = rng.choice(FIXED_TYPES) if rng.random() < 0.3 else None
    items = []
    for i in range(n):
        if rng.random() < 0.45:
            items.append(None)
        else:
            lit = enum_literals(rng)
            if fixed and rng.random() < 0.7:      # keep most fixed enums valid
                bits = fixed[1] * 8
                lo, hi = (-(1 << (bits - 1)), (1 << (bits - 1)) - 1) if fixed[2] else (0, (1 << bits) - 1)
                v = rng.randint(max(lo, -200), min(hi, 200)) if rng.random() < 0.5 else rng.choice([lo, hi, hi - 1])
                if v == -2**63:
                    lit = ("(-9223372036854775807L-1)", v % I64, 8, True)
                elif v <= 2**63 - 1:
                    # the type of `-N` is the type of N: int if N <= INT_MAX, else long
                    lit = ("%d" % v if v >= 0 else "(-%d)" % -v, v % I64, 4 if abs(v) <= 2**31 - 1 else 8, True)
                else:
                    lit = ("%dul" % v, v, 8, False)
            items.append(lit)
    return (eid, fixed, items)


def enum_c(e):
    eid, fixed, items = e
    body = ", ".join("K%d_%d%s" % (eid, i, "" if it is None else " = " + it[0]) for i, it in enumerate(items))
    s = "enum E%d%s { %s };\n" % (eid, " : " + fixed[0] if fixed else "", body)
    s += ("unsigned long e%d[] = {sizeof(enum E%d), (enum E%d)-1 < 0, _Alignof(enum E%d), _Generic((enum E%d)0, %s, default: 0)};\n"
          % (eid, eid, eid, eid, eid, ", ".join("%s: %d" % (n, i) for n, i in GENERIC_IDX.items())))
    return s


GENERIC_IDX = {"unsigned": 1, "int": 2, "unsigned long": 3, "long": 4, "unsigned long long": 5, "long long": 6,
               "char": 10, "signed char": 11, "unsigned char": 12, "short": 13, "unsigned short": 14}


def generic_expected(e, ty):
    """index `_Generic` must select: the fixed type itself, else the compatible type the ABI rule names
    (`long`, not `long long`, for 64 bits: the first candidate of tagspec's / GCC's table)"""
    if e[1] is not None:
        return GENERIC_IDX[e[1][0]]
    return {"4u": 1, "4s": 2, "8u": 3, "8s": 4}[ty]


def fixed_signed(fixed, tg):
    """plain `char` is unsigned on aarch64 and riscv64 (targ.c: signedchar)"""
    return fixed[2] if fixed[0] != "char" else tg == "x86_64-sysv"


def enum_drv(e, tg="x86_64-sysv"):
    eid, fixed, items = e
    f = "-" if fixed is None else "%d%s" % (fixed[1], "s" if fixed_signed(fixed, tg) else "u")
    its = " ".join("-" if it is None else "%d:%d%s" % (it[1], it[2], "s" if it[3] else "u") for it in items)
    return "%s %s" % (f, its)


# witnesses of repaired defects (fixed type, items): must pass - a failure is an ordinary violation
ENUM_FIXED_WITNESS = [
    (("unsigned", 4, False), [None, None]),                 # bb180d9: enum E : unsigned { A, B };
    (("unsigned char", 1, False), [None]),
    (("unsigned long long", 8, False), [None, ("5", 5, 4, True), ("0", 0, 4, True), None]),
]


def run_enums(ck, cproc, n):
    rng = ck.rng
    enums = [gen_enum(rng, i) for i in range(n)]
    # witnesses first
    wit = [(n + 10 + k, f, its) for k, (f, its) in enumerate(ENUM_FIXED_WITNESS)]
    # the wrap-around test of tagspec must still reject an implicit enumerator after ULONG_MAX / LONG_MAX
    wit += [(n + 6, ("unsigned long", 8, False), [("((unsigned long)18446744073709551615ul)", 2**64 - 1, 8, False), None]),
            (n + 7, ("long", 8, True), [("9223372036854775807", 2**63 - 1, 8, True), None]),
            (n + 8, None, [("((unsigned long)18446744073709551615ul)", 2**64 - 1, 8, False), None])]
    wit += [(n + 1, None, [("0x7fffffff", 2**31 - 1, 4, True), None]),
           (n + 2, None, [("0xffffffff", 2**32 - 1, 4, False), None]), (n + 3, None, [("(-1)", I64 - 1, 4, True), ("0xffffffff", 2**32 - 1, 4, False)]),
           (n + 4, None, [("0x7fffffffffffffff", 2**63 - 1, 8, True), None]), (n + 5, ("unsigned char", 1, False), [("255", 255, 4, True), None])]
    enums = wit + enums
    lines = []
    for e in enums:
        for tg in TARGETS:
            lines.append("enum " + enum_drv(e, tg))
            lines.append("specenum " + enum_drv(e, tg))
    out = ck.run_drv("\n".join(lines) + "\n")
    d = os.path.join(ck.scratch(), "enum")
    os.makedirs(d, exist_ok=True)
    hist = {}
    stats = {"enums": 0, "accepted": 0, "rejected": 0, "oracle_checked": 0, "oracle_skipped": 0}

    def observe(cmd, e, asm):
        p = os.path.join(d, "e%d-%s-%s.c" % (e[0], os.path.basename(cmd[0]), cmd[2] if len(cmd) == 3 else ""))
        open(p, "w").write(enum_c(e))
        rc, o, err = run_tool(cmd, p)
        if rc != 0:
            return ("rejected", err.strip()[-200:])
        if asm:
            b = parse_asm(o).get("e%d" % e[0])
            vals = bytes_u64s(b) if b else None
        else:
            x = parse_cproc(o).get("e%d" % e[0])
            vals = items_values(x[1]) if x else None
        if not vals or len(vals) != 4:
            return ("unparsed", o[-200:])
        return ("ok", "%d%s" % (vals[0], "s" if vals[1] else "u"), vals[2], vals[3])

    def oracles(ie):
        # spec validation runs for the first 400 enums (quick) / all of them (thorough)
        i, e = ie
        if not (i < 400 or not ck.quick):
            return None
        g = observe(["gcc", "-w", "-S", "-o", "-"], e, True) if e[1] is None else ("n/a",)
        return (g, observe(["clang", "-w", "-S", "-o", "-"], e, True))

    with concurrent.futures.ThreadPoolExecutor(common.NPROC) as ex:
        cobs = list(ex.map(lambda a: observe([cproc, "-t", a[1]], a[0], False), [(e, tg) for e in enums for tg in TARGETS]))
        oobs = list(ex.map(oracles, enumerate(enums)))
    for i, e in enumerate(enums):
        stats["enums"] += 1
        ck.count(("enum", enum_drv(e)))
        for ti, tg in enumerate(TARGETS):
            m, s = out[6 * i + 2 * ti], out[6 * i + 2 * ti + 1]
            if ti == 0:
                hk = "%s/%s" % ("fixed" if e[1] else "plain", s)
                hist[hk] = hist.get(hk, 0) + 1
            c = cobs[3 * i + ti]
            cs = "ok " + c[1] if c[0] == "ok" else ("error" if c[0] == "rejected" else c[0])
            ss = s if s.startswith("ok") else "error"
            ms = m if m.startswith("ok") else "error"
            replay = {"kind": "enum", "target": tg, "program": enum_c(e), "cproc": c, "model": m, "spec": s}
            if cs != ss:
                # the code's own output fails the spec
                replay["what"] = "enum underlying type (or acceptance) differs from the ABI/GCC rule"
                ck.violation(replay)
                return stats
            elif cs != ms:
                replay["what"] = "tagspec (enum branch) and Model/Layout.lean disagree although the output satisfies the spec"
                replay["theorem"] = "CprocVerif.C06.enum_underlying_iff"
                ck.violation(replay, nofail=True)
                return stats
            if c[0] == "ok" and c[2] != int(c[1][:-1]):
                ck.violation(dict(replay, what="_Alignof(enum) differs from its size"))
                return stats
            if c[0] == "ok" and c[3] != generic_expected(e, c[1]):
                ck.violation(dict(replay, what="the enum type is not compatible with the underlying type of the ABI rule "
                                  "(_Generic selected association %d, expected %d)" % (c[3], generic_expected(e, c[1]))))
                return stats
            stats["accepted" if c[0] == "ok" else "rejected"] += 1
        # spec validation (clang for all targets is identical here; gcc 12 has no fixed enums and
        # rejects an implicit enumerator that overflows the previous one's type)
        s = out[6 * i + 1]        # x86-64 (gcc and clang run for the host triple)
        if oobs[i] is not None:
            g, cl = oobs[i]
            # gcc 12 / clang 14 accept (with a warning, wrapping the value) declarations that C23 makes
            # invalid, and gcc 12 rejects an implicit enumerator overflowing the previous one's type:
            # only a type the spec chooses can be contradicted by an oracle that accepts.
            acc = [x for x in (g, cl) if x[0] == "ok"]
            if not s.startswith("ok") or not acc:
                stats["oracle_skipped"] += 1
            else:
                stats["oracle_checked"] += 1
                for x in acc:
                    if x[1] != s[3:] or x[3] != generic_expected(e, s[3:]):
                        raise Broken("Spec/Abi enum rule disagrees with gcc/clang on `%s`: spec %s, gcc %s, clang %s"
                                     % (enum_c(e).splitlines()[0], s, g, cl))
    ck.cov["enum_hist"] = hist
    return stats


# ------------------------------------------------------------------ expected rejections (error() branches)
ERR_MSG = {
    "after-flexible": "after flexible array member", "incomplete": "has incomplete type",
    "contains-flexible": "contains flexible array member", "less-strict": "less strict",
    "bf-type": "has invalid type", "bf-align": "alignment specified for bit-field",
    "bf-packed": "in packed struct is not supported", "bf-zero-named": "zero width must not have declarator",
    "bf-width": "exceeds width of underlying type", "no-members": "has no members",
    "array-incomplete": "array element has incomplete type", "array-too-large": "array length is too large",
}


def error_cases():
    c, i, l, f = I("char"), I("int"), I("long"), I("float")
    flexs = ("su", False, False, [("n", i, 0, None), ("a", ("arr", c, None), 0, None)])
    return [
        ("after-flexible", ("su", False, False, [("n", i, 0, None), ("a", ("arr", c, None), 0, None), ("z", c, 0, None)])),
        ("after-flexible", ("su", False, False, [("n", i, 0, None), ("a", ("arr", c, None), 0, None), (None, i, 0, 3)])),
        ("contains-flexible", ("su", False, False, [("s", flexs, 0, None), ("z", c, 0, None)])),
        ("less-strict", ("su", False, False, [("x", i, 2, None)])),
        ("less-strict", ("su", False, True, [("x", l, 4, None)])),
        ("bf-type", ("su", False, False, [("x", f, 0, 3)])),
        ("bf-align", ("su", False, False, [("x", i, 8, 3)])),
        ("bf-packed", ("su", False, True, [("c", c, 0, None), ("x", i, 0, 3)])),
        ("bf-zero-named", ("su", False, False, [("x", i, 0, 0)])),
        ("bf-width", ("su", False, False, [("x", i, 0, 33)])),
        ("bf-width", ("su", True, False, [("x", c, 0, 9)])),
        ("no-members", ("su", False, False, [(None, i, 0, 3)])),
        ("no-members", ("su", True, False, [(None, i, 0, 0)])),
        ("array-too-large", ("su", False, False, [("a", ("arr", l, 2**61), 0, None)])),
        ("array-incomplete", ("su", False, False, [("a", ("arr", ("arr", c, None), 2), 0, None)])),
    ]


def run_errors(ck, cproc):
    d = os.path.join(ck.scratch(), "err")
    os.makedirs(d, exist_ok=True)
    n = 0
    for k, (kind, t) in enumerate(error_cases()):
        q = drv_type(t)
        m = ck.run_drv("layout %s\n" % q)[0]
        src = c_su(t, "X") + ";\nunsigned long v[] = {sizeof(%s X)};\n" % ("union" if t[1] else "struct")
        p = os.path.join(d, "x%d.c" % k)
        open(p, "w").write(src)
        for tg in TARGETS:
            rc, out, err = run_tool([cproc, "-t", tg], p)
            ck.count(("error-case", kind, k))
            n += 1
            replay = {"kind": "error-case", "expected": kind, "program": src, "target": tg, "model": m, "stderr": err[-300:], "rc": rc}
            if rc == 0:
                replay["what"] = "invalid member declaration accepted (model predicts error %s)" % kind
                ck.violation(replay)
                return n
            if m != "error " + kind or ERR_MSG[kind] not in err:
                replay["what"] = "decl.c error branch and Model/Layout.lean disagree on the diagnostic kind"
                replay["theorem"] = "CprocVerif.C06.model_ok_wf"
                ck.violation(replay, nofail=True)
                return n
    # __attribute__((aligned(n))) on a member is diagnosed as unsupported (attr.c), never mis-applied
    t = ("su", False, False, [("c", I("char"), 0, None), ("x", I("int"), 16, None)])
    src = c_su(t, "X", attr_aligned=True) + ";\nunsigned long v[] = {sizeof(struct X), _Alignof(struct X), __builtin_offsetof(struct X, x)};\n"
    p = os.path.join(d, "attr.c")
    open(p, "w").write(src)
    rc, out, err = run_tool([cproc], p)
    n += 1
    if rc == 0:
        vals = items_values(parse_cproc(out)["v"][1])
        if vals != [32, 16, 16]:
            ck.violation({"kind": "aligned-attribute", "program": src, "got": vals, "expected": [32, 16, 16],
                          "what": "__attribute__((aligned(16))) on a member accepted but not applied"})
    else:
        ck.cov.setdefault("unsupported_diagnosed", []).append("__attribute__((aligned(n))) on a member: " + err.strip()[-120:])
    return n


# ------------------------------------------------------------------ findings not yet listed
def finding(ck, fid, replay):
    """A failing input of a pre-classified class.  Listed in known_findings.json -> KNOWN-FINDING
    (ck.report); not listed yet -> recorded as a note (the coordinator decides fix vs listing)."""
    if ck.known(fid):
        ck.report(replay, fid=fid)
        return
    seen = ck.cov.setdefault("unlisted_findings", {})
    if fid not in seen:
        seen[fid] = {"count": 0, "first": replay}
        msg = "NOTE unlisted finding property=C06 [%s] %s" % (fid, replay.get("what", ""))
        print(msg)
        ck.notes.append(msg)
    seen[fid]["count"] += 1


def variants(t):
    """strictly smaller types (for shrinking a failing input)"""
    if t[0] == "arr":
        if t[2] not in (None, 1):
            yield ("arr", t[1], 1)
        for v in variants(t[1]):
            yield ("arr", v, t[2])
        return
    if t[0] != "su":
        return
    fs = list(t[3])
    if len(fs) > 1:
        for i in range(len(fs)):
            yield ("su", t[1], t[2], fs[:i] + fs[i + 1:])
    if t[2]:
        yield ("su", t[1], False, fs)
    for i, (n, ft, al, w) in enumerate(fs):
        if al:
            yield ("su", t[1], t[2], fs[:i] + [(n, ft, 0, w)] + fs[i + 1:])
        if w is None and ft[0] != "sc":
            yield ("su", t[1], t[2], fs[:i] + [(n or "z%d" % i, ("sc", "char"), 0, None)] + fs[i + 1:])
            for v in variants(ft):
                yield ("su", t[1], t[2], fs[:i] + [(n, v, al, w)] + fs[i + 1:])
        if w is not None and ft[1] not in ("int", "char"):
            b = "char" if w <= 8 else ("int" if w <= 32 else "long")
            if b != ft[1]:
                yield ("su", t[1], t[2], fs[:i] + [(n, ("sc", b), al, w)] + fs[i + 1:])


def unexplained(t, tg, res):
    """does a single-type batch result contain a failure outside the known-deviation classes?"""
    for ev in res.get("events", []):
        if ev["kind"] in ("garbage", "rejected-valid"):
            return ev
        if ev["kind"] == "diff" and ev["vs_spec"] is not None:
            known = (ev["vs_model"] is None and ev["vs_spec_x86rule"] is None and tg == "aarch64" and has_unnamed_bf(t))
            if not known:
                return ev
    return None


def shrink(ck, cproc, t, tg, budget=120):
    """greedy delta debugging on the member tree; returns (smaller type, its event)"""
    d = os.path.join(ck.scratch(), "shrink")

    def probe(t2):
        job = {"id": 0, "dir": d, "cproc": cproc, "drv": ck.drv_path(), "types": [(0, t2)], "targets": [tg],
               "oracles": False, "fixed": uses_fixed(t2)}
        try:
            return unexplained(t2, tg, batch_worker(job))
        except Exception:
            return None
    best = probe(t)
    if best is None:
        return t, None
    progress = True
    while progress and budget > 0:
        progress = False
        for v in variants(t):
            budget -= 1
            if budget <= 0:
                break
            ev = probe(v)
            if ev is not None:
                t, best, progress = v, ev, True
                break
    return t, best


def classify(ck, t, ev, program, cproc=None):
    """ev: a 'diff' event (cproc's numbers differ from Spec and/or the model)."""
    tg = ev["target"]
    replay = {"kind": "layout", "target": tg, "program": program, "drv": drv_type(t),
              "cproc": ev["cproc"], "spec": ev["spec"], "model": ev["model"],
              "differs_from_spec": ev["vs_spec"], "differs_from_model": ev["vs_model"]}
    if ev["vs_spec"] is None:
        # satisfies the spec but not the model: the model no longer describes decl.c
        replay["what"] = "addmember and Model/Layout.lean disagree although cproc's layout satisfies Spec/Abi"
        replay["theorem"] = "CprocVerif.C06.layout_correct"
        ck.violation(replay, nofail=True)
        return
    # the one recorded deviation: on aarch64 cproc lays out a type with unnamed bit-fields by the x86-64/RISC-V rule
    # (exactly: it agrees with the model and with Spec/Abi for x86-64)
    if tg == "aarch64" and has_unnamed_bf(t) and ev["vs_model"] is None and ev["vs_spec_x86rule"] is None:
        finding(ck, FID_AARCH64, dict(replay, what="-t aarch64: unnamed bit-fields do not contribute their type's alignment "
                                      "(AAPCS64): " + ev["vs_spec"]))
        return
    replay["what"] = "layout differs from the platform ABI: " + ev["vs_spec"]
    if cproc and len(ck.violations) < 2:
        t2, ev2 = shrink(ck, cproc, t, tg)
        if ev2 is not None and ev2.get("kind") == "diff":
            replay["original_program"] = program
            replay["program"] = PRELUDE + (PRELUDE_FIXED if uses_fixed(t2) else "") + render(0, t2)[0]
            replay.update({"drv": drv_type(t2), "cproc": ev2["cproc"], "spec": ev2["spec"], "model": ev2["model"],
                           "differs_from_spec": ev2["vs_spec"], "differs_from_model": ev2["vs_model"]})
            replay["what"] = "layout differs from the platform ABI: " + ev2["vs_spec"]
    ck.violation(replay)


# ------------------------------------------------------------------ exhaustive bit-field sequences
EX_WIDTHS = [0, 1, 7, 8, 9, 15, 16, 17, 31, 32, 33, 63, 64]
EX_BASES = ["char", "short", "int", "long"]


def ex_alphabet():
    al = []
    for b in EX_BASES:
        for w in EX_WIDTHS:
            if w <= SCALARS[b][3] * 8:
                al.append(("b", b, w))
    al.append(("m", "char", None))
    al.append(("m", "int", None))
    return al


def ex_type(seq, unnamed_mask=0, is_union=False):
    fs = []
    for i, (k, b, w) in enumerate(seq):
        if k == "m":
            fs.append(("m%d" % i, ("sc", b), 0, None))
        else:
            named = w > 0 and not (unnamed_mask >> i) & 1
            fs.append(("m%d" % i if named else None, ("sc", b), 0, w))
    if all(f[3] is not None and f[0] is None for f in fs):
        fs.append(("z", ("sc", "char"), 0, None))
    return ("su", is_union, False, fs)


# ------------------------------------------------------------------ driver of the whole check
def run_batches(ck, cproc, all_types, oracles, label, batch=150, targets=None):
    """all_types: list of abstract types.  Returns number of events handled."""
    d = os.path.join(ck.scratch(), label)
    jobs = []
    plain = [(i, t) for i, t in enumerate(all_types) if not uses_fixed(t)]
    fixed = [(i, t) for i, t in enumerate(all_types) if uses_fixed(t)]
    jid = 0
    for group, isfixed in ((plain, False), (fixed, True)):
        for k in range(0, len(group), batch):
            tg = targets(jid) if targets else TARGETS
            jobs.append({"id": jid, "dir": d, "cproc": cproc, "drv": ck.drv_path(), "types": group[k:k + batch],
                         "targets": tg, "oracles": oracles, "fixed": isfixed})
            jid += 1
    spec_bad = []
    with concurrent.futures.ProcessPoolExecutor(max_workers=min(common.NPROC, 16)) as ex:
        for job, res in zip(jobs, ex.map(batch_worker, jobs)):
            if "broken" in res:
                raise Broken(res["broken"])
            for k, v in res["counts"].items():
                ck.kb[k] = ck.kb.get(k, 0) + v
            by = dict(job["types"])
            for ev in res["events"]:
                ck.kb["ev:" + ev["kind"]] = ck.kb.get("ev:" + ev["kind"], 0) + 1
                if ev["kind"] == "diff":
                    t = by[ev["tid"]]
                    classify(ck, t, ev, PRELUDE + (PRELUDE_FIXED if job["fixed"] else "") + render(ev["tid"], t)[0], cproc)
                elif ev["kind"] == "rejected-valid":
                    t = by[ev["tid"]]
                    ck.violation({"kind": "rejected-valid", "target": ev["target"], "stderr": ev["stderr"],
                                  "program": PRELUDE + (PRELUDE_FIXED if job["fixed"] else "") + render(ev["tid"], t)[0],
                                  "drv": drv_type(t), "what": "valid type definition rejected (the model accepts it)"})
                elif ev["kind"] == "garbage":
                    t = by[ev["tid"]]
                    ck.violation({"kind": "garbage-output", "target": ev["target"], "detail": ev["what"],
                                  "program": PRELUDE + (PRELUDE_FIXED if job["fixed"] else "") + render(ev["tid"], t)[0],
                                  "drv": drv_type(t), "what": "emitted object image is not a sane object of the type "
                                  "(size/alignment bookkeeping corrupted)"})
                elif ev["kind"] == "both-reject":
                    pass
                elif ev["kind"] == "unparsed":
                    raise Broken("cannot find the probe data of type %d in cproc output" % ev["tid"])
                elif ev["kind"] == "spec-vs-oracle":
                    t = by[ev["tid"]]
                    spec_bad.append((ev, render(ev["tid"], t)[0]))
                elif ev["kind"] in ("oracle-rejects", "oracle-unparsed"):
                    ck.kb.setdefault("oracle_problems", []).append({k: ev[k] for k in ev if k != "tids"}) \
                        if len(ck.kb.get("oracle_problems", [])) < 5 else None
    if spec_bad:
        ev, prog = spec_bad[0]
        raise Broken("Spec/Abi disagrees with %s (%s) on %d generated type(s); first: %s -- %s"
                     % (ev["compiler"], ev["target"], len(spec_bad), ev["diff"], prog.splitlines()[0][:400]))
    return len(jobs)


def run(ck):
    ck.cov["rule"] = ("K-B: generated struct/union definitions (27 scalar member types incl. _Bool, pointers, long double, "
                      "plain and fixed enums; nesting <= 4; anonymous members; named/unnamed/zero-width bit-fields of every "
                      "width and integer base type; packed; _Alignas(2^0..2^6); flexible arrays; arrays of structs) x 3 targets, "
                      "sizeof/_Alignof/offsetof from an emitted unsigned long[], bit-field positions from all-ones initialiser "
                      "images, object size/alignment from a tentative definition; every number compared with Model/Layout "
                      "(drv_c06) and Spec/Abi; Spec/Abi validated on the same types against gcc (x86-64) and clang "
                      "--target (x86_64, aarch64, riscv64).  Exhaustive part: every sequence of <= %d members over "
                      "{bit-field (w, T): w in {0,1,7,8,9,15,16,17,31,32,33,63,64}, T in {char, short, int, long}, w <= 8*sizeof T} "
                      "+ {char, int}, as a struct; as a union (and as a struct with any subset of the bit-fields unnamed) up to "
                      "one member less.  Enums: generated enumerator lists around the int/unsigned/long boundaries with and "
                      "without fixed underlying type.  distinct_nontrivial counts distinct type descriptions."
                      % (3 if ck.quick else 4))
    phase = ck.cov["phase_s"] = {}
    t0 = [time.time()]

    def lap(name):
        phase[name] = round(time.time() - t0[0], 1)
        t0[0] = time.time()
    ck.lean_build()
    lap("lean_build")
    if not ck.proofs_ok:
        ck.notes.append("Props.C06 does not build; searching for a failing input")
    if not ck.drv_ok:
        raise Broken("drv_c06 does not build: " + ck.build_log[-1500:])
    cproc = ck.build_cproc_qbe()
    lap("build_cproc_qbe")
    ck.kb = {}
    rng = ck.rng
    # 1. corpus
    corpus = [t for _, t in CORPUS]
    cdir = os.path.join(common.VERIF, "corpus", "C06")
    if os.path.isdir(cdir):
        for f in sorted(os.listdir(cdir)):
            if f.endswith(".json"):
                for ent in json.load(open(os.path.join(cdir, f))):
                    corpus.append(totuple(ent["type"]))
    run_batches(ck, cproc, corpus, True, "corpus", batch=4)
    # 2. error branches
    nerr = run_errors(ck, cproc) if not ck.violations else 0
    lap("corpus+errors")
    # 3. random types
    g = Gen(rng)
    n = 3000 if ck.quick else 100000
    types = [g.toplevel() for _ in range(n)]
    hist = {}
    depth_h = {}
    for t in types:
        kinds_hist(t, hist)
        bump(depth_h, t_depth(t))
        ck.count(key64(drv_type(t)))
    if not ck.violations:
        run_batches(ck, cproc, types, True, "rand")
    ck.sample({"type": PRELUDE + render(0, types[7])[0][:700], "drv": drv_type(types[7])[:300]})
    lap("random_types")
    # 4. exhaustive bit-field sequences (cproc vs model vs spec; oracle on a sample)
    al = ex_alphabet()
    maxlen = 3 if ck.quick else 4
    ex = []
    for ln in range(1, maxlen + 1):
        for seq in itertools.product(al, repeat=ln):
            ex.append(ex_type(seq))
    # unnamed variants: every sequence of <= 2 (quick) / 3 (thorough) with every subset unnamed
    for ln in range(1, maxlen):
        for seq in itertools.product(al, repeat=ln):
            nb = [i for i, s in enumerate(seq) if s[0] == "b" and s[2] > 0]
            for mask_bits in range(1, 1 << len(nb)):
                mask = sum(1 << nb[j] for j in range(len(nb)) if (mask_bits >> j) & 1)
                ex.append(ex_type(seq, mask))
    # unions: every sequence of <= 2 (quick) / 3 (thorough) with every subset of the bit-fields unnamed
    for ln in range(1, maxlen):
        for seq in itertools.product(al, repeat=ln):
            nb = [i for i, s in enumerate(seq) if s[0] == "b" and s[2] > 0]
            for mask_bits in range(0, 1 << len(nb)):
                mask = sum(1 << nb[j] for j in range(len(nb)) if (mask_bits >> j) & 1)
                ex.append(ex_type(seq, mask, is_union=True))
    for t in ex:
        ck.count(key64(drv_type(t)))
    if not ck.violations:
        run_batches(ck, cproc, ex, False, "exh", batch=2000, targets=lambda j: [TARGETS[j % 3]])
        sample = rng.sample(ex, min(len(ex), 1500 if ck.quick else 20000))
        run_batches(ck, cproc, sample, True, "exh-oracle", batch=300, targets=lambda j: [TARGETS[j % 3]])
    # 5. enums
    lap("exhaustive")
    est = run_enums(ck, cproc, 250 if ck.quick else 4000) if not ck.violations else {}
    lap("enums")
    ck.cov["kb_stats"] = {k: v for k, v in ck.kb.items()}
    ck.cov["error_cases"] = nerr
    ck.cov["enum_stats"] = est
    ck.cov["input_histogram"] = dict(sorted(hist.items()))
    ck.cov["nesting_depth_histogram"] = dict(sorted(depth_h.items()))
    ck.cov["exhaustive_types"] = len(ex)
    ck.cov["targets"] = TARGETS
    if not ck.proofs_ok and not ck.violations:
        ck.violation({"kind": "proof-broken", "theorem": "CprocVerif.Props.C06 (lake build failed)",
                      "log": ck.build_log[-3000:]}, nofail=True)
    ck.assumptions = ["gcc 12 (x86-64) and clang 14 --target={x86_64,aarch64,riscv64}-linux-gnu implement the platform ABIs "
                      "(oracles for Spec/Abi.lean)",
                      "the parser delivers to addmember the member type, name, _Alignas value and width written in the source "
                      "(exercised through K-B only)",
                      "sizes stay below 2^62 bytes (WfDecls bound); cproc does not diagnose larger aggregates (C10)"]


def totuple(x):
    return tuple(totuple(y) for y in x) if isinstance(x, list) else x


META = {
    "category": "proof",
    "text": ("Lean 4 theorems over a transliteration of decl.c:addmember/tagspec (64-bit wrap-around arithmetic, the "
             "ALIGNUP/ALIGNDOWN mask macros, error branches as Except): for every well-formed member list the model yields "
             "exactly the bit-cursor layout of Spec/Abi.lean (layout_correct, layout_correct_union; AAPCS64 with the stated "
             "exclusion, its full statement refuted by a concrete witness), and for every accepted list: members do not overlap, are "
             "aligned, every bit-field's storage unit lies inside the object, before+width+after = 8*sizeof T, sizeof is a "
             "multiple of _Alignof, union members sit at offset 0, and tagspec accepts an enum exactly when the C23/GCC "
             "rule gives it a type, with that type, which represents every enumerator (enum_underlying_iff).  Tied to /repo on every run by compiling generated types for all three targets "
             "and comparing every observable number with the model and the spec; the spec itself is validated against gcc "
             "and clang --target on the same types."),
    "design_ref": "DESIGN.md section 4, C06",
    "note": ("Trusted: Lean kernel + standard axioms; the hand-written model (tied by the differential run); gcc/clang as "
             "ABI oracles; the Python generators/parsers.  Not modelled: the declaration parser (only exercised), "
             "attributes other than packed (aligned(n) on members is diagnosed as unsupported), VLAs."),
    "technique": "Lean 4 proof (induction over member lists, bit-cursor invariant) + differential correspondence + oracle validation",
}

/* K-C stub standing in for cpp / cproc-qbe / qbe / as / ld in driver runs (C17, C18).
 *
 * role      = basename(argv[0]), or the value of a leading `--stub-role=<r>` argument
 * STUB_LOG  = file to which one JSON line is appended at start (under flock):
 *             {"role","event":"start","idx","pid","ppid","argv":[...],"o":path|null,
 *              "stdin":{"dev","ino","kind"},"stdout":{...},"t":monotonic_ms}
 *             and one {"role","event":"end","idx","pid","status","t"} line before a normal exit.
 *             `idx` = number of earlier start lines with the same role (invocation index).
 * STUB_SCRIPT = `role#idx=act,act,...;role#*=...`  (first matching entry wins), acts run in order:
 *             rall | r<N>   read stdin to EOF / N bytes (only if stdin is a pipe)
 *             w<N>          write N bytes to the `-o` file (created on first write) or to stdout
 *             c             create/truncate the `-o` file without writing
 *             s<ms>         sleep
 *             x<N>          exit with status N
 *             kSEGV|kKILL|kTERM|kABRT   raise the signal on itself
 *             i             ignore SIGTERM from now on
 *             D<name>       unlink $STUB_BIN/<name> (makes a later posix_spawnp of that tool fail)
 * The start line also lists the descriptors open at start ("fds": a tool started by the driver
 * must see 0, 1, 2 only - the FD_CLOEXEC / close discipline of spawnphase).
 *             default: rall,w16,x0
 */
#define _GNU_SOURCE
#include <dirent.h>
#include <errno.h>
#include <fcntl.h>
#include <signal.h>
#include <stdio.h>
#include <stdlib.h>
#include <string.h>
#include <sys/file.h>
#include <sys/stat.h>
#include <time.h>
#include <unistd.h>

static int g_lfd = -1;

static long
now_ms(void)
{
	struct timespec ts;
	clock_gettime(CLOCK_MONOTONIC, &ts);
	return ts.tv_sec * 1000L + ts.tv_nsec / 1000000L;
}

static void
jstr(FILE *f, const char *s)
{
	fputc('"', f);
	for (; *s; ++s) {
		unsigned char c = *s;
		if (c == '"' || c == '\\')
			fprintf(f, "\\%c", c);
		else if (c < 0x20 || c == 0x7f)
			fprintf(f, "\\u%04x", c);
		else
			fputc(c, f);
	}
	fputc('"', f);
}

static void
jfd(FILE *f, const char *name, int fd)
{
	struct stat st;
	const char *kind = "closed";
	unsigned long long dev = 0, ino = 0;

	if (fstat(fd, &st) == 0) {
		dev = st.st_dev;
		ino = st.st_ino;
		kind = S_ISFIFO(st.st_mode) ? "pipe" : S_ISREG(st.st_mode) ? "file" :
		       S_ISCHR(st.st_mode) ? (isatty(fd) ? "tty" : "chr") : S_ISSOCK(st.st_mode) ? "sock" : "other";
	}
	fprintf(f, "\"%s\":{\"dev\":%llu,\"ino\":%llu,\"kind\":\"%s\"}", name, dev, ino, kind);
}

static void
jfds(FILE *f)
{
	DIR *d = opendir("/proc/self/fd");
	struct dirent *e;
	int first = 1, self = d ? dirfd(d) : -1, lf = fileno(f);

	fputs("\"fds\":[", f);
	while (d && (e = readdir(d))) {
		int n;
		if (e->d_name[0] == '.')
			continue;
		n = atoi(e->d_name);
		if (n == self || n == lf || n == g_lfd)
			continue;
		fprintf(f, "%s%d", first ? "" : ",", n);
		first = 0;
	}
	if (d)
		closedir(d);
	fputs("]", f);
}

static int
count_role(const char *path, const char *role)
{
	FILE *f = fopen(path, "r");
	char *line = NULL, key[256];
	size_t cap = 0;
	int n = 0;

	if (!f)
		return 0;
	snprintf(key, sizeof key, "{\"role\":\"%s\",\"event\":\"start\"", role);
	while (getline(&line, &cap, f) >= 0)
		if (strncmp(line, key, strlen(key)) == 0)
			++n;
	free(line);
	fclose(f);
	return n;
}

static const char *
find_script(const char *script, const char *role, int idx, char *buf, size_t buflen)
{
	const char *p = script;
	size_t rl = strlen(role);

	while (p && *p) {
		const char *end = strchr(p, ';');
		size_t len = end ? (size_t)(end - p) : strlen(p);
		if (len > rl + 1 && strncmp(p, role, rl) == 0 && p[rl] == '#') {
			const char *q = p + rl + 1;
			const char *eq = memchr(q, '=', len - rl - 1);
			if (eq) {
				int match = (*q == '*') || atoi(q) == idx;
				if (match) {
					size_t n = len - (size_t)(eq + 1 - p);
					if (n >= buflen)
						n = buflen - 1;
					memcpy(buf, eq + 1, n);
					buf[n] = 0;
					return buf;
				}
			}
		}
		p = end ? end + 1 : NULL;
	}
	return "rall,w16,x0";
}

int
main(int argc, char *argv[])
{
	const char *role, *logpath = getenv("STUB_LOG"), *script = getenv("STUB_SCRIPT"), *opath = NULL;
	char sbuf[4096], chunk[4096];
	int i, idx = 0, lfd = -1, ofd = -1, first = 1;
	FILE *lf = NULL;
	const char *acts;
	char *tok, *save;

	role = strrchr(argv[0], '/');
	role = role ? role + 1 : argv[0];
	if (argc > 1 && strncmp(argv[1], "--stub-role=", 12) == 0) {
		role = argv[1] + 12;
		first = 2;
	}
	for (i = first; i + 1 < argc; ++i)
		if (strcmp(argv[i], "-o") == 0)
			opath = argv[i + 1];  /* last one wins */

	if (logpath) {
		lfd = open(logpath, O_WRONLY | O_APPEND | O_CREAT | O_CLOEXEC, 0644);
		if (lfd >= 0) {
			g_lfd = lfd;
			flock(lfd, LOCK_EX);
			idx = count_role(logpath, role);
			lf = fdopen(dup(lfd), "a");
			fprintf(lf, "{\"role\":\"%s\",\"event\":\"start\",\"idx\":%d,\"pid\":%ld,\"ppid\":%ld,\"argv\":[",
			        role, idx, (long)getpid(), (long)getppid());
			for (i = 0; i < argc; ++i) {
				if (i)
					fputc(',', lf);
				jstr(lf, argv[i]);
			}
			fputs("],\"o\":", lf);
			if (opath)
				jstr(lf, opath);
			else
				fputs("null", lf);
			fputc(',', lf);
			jfd(lf, "stdin", 0);
			fputc(',', lf);
			jfd(lf, "stdout", 1);
			fputc(',', lf);
			jfds(lf);
			fprintf(lf, ",\"t\":%ld}\n", now_ms());
			fclose(lf);
			flock(lfd, LOCK_UN);
		}
	}

	acts = find_script(script, role, idx, sbuf, sizeof sbuf);
	if (acts != sbuf) {
		strncpy(sbuf, acts, sizeof sbuf - 1);
		sbuf[sizeof sbuf - 1] = 0;
	}
	memset(chunk, 'x', sizeof chunk);
	for (tok = strtok_r(sbuf, ",", &save); tok; tok = strtok_r(NULL, ",", &save)) {
		switch (tok[0]) {
		case 'r': {
			struct stat st;
			long want = strcmp(tok, "rall") == 0 ? -1 : atol(tok + 1);
			if (fstat(0, &st) != 0 || !S_ISFIFO(st.st_mode))
				break;
			while (want != 0) {
				size_t n = want < 0 || want > (long)sizeof chunk ? sizeof chunk : (size_t)want;
				ssize_t r = read(0, chunk, n);
				if (r < 0 && errno == EINTR)
					continue;
				if (r <= 0)
					break;
				if (want > 0)
					want -= r;
			}
			memset(chunk, 'x', sizeof chunk);
			break;
		}
		case 'c':
		case 'w': {
			long left = tok[0] == 'w' ? atol(tok + 1) : 0;
			int fd = 1;
			if (opath) {
				if (ofd < 0)
					ofd = open(opath, O_WRONLY | O_CREAT | O_TRUNC, 0644);
				fd = ofd;
				if (fd < 0)
					_exit(97);
			}
			while (left > 0) {
				size_t n = left > (long)sizeof chunk ? sizeof chunk : (size_t)left;
				ssize_t r = write(fd, chunk, n);
				if (r < 0 && errno == EINTR)
					continue;
				if (r <= 0)
					_exit(98);  /* EPIPE with SIGPIPE ignored, or error */
				left -= r;
			}
			break;
		}
		case 's': {
			long ms = atol(tok + 1);
			struct timespec ts = {ms / 1000, (ms % 1000) * 1000000L};
			while (nanosleep(&ts, &ts) < 0 && errno == EINTR)
				;
			break;
		}
		case 'i':
			signal(SIGTERM, SIG_IGN);
			break;
		case 'D': {
			const char *bin = getenv("STUB_BIN");
			char path[4096];
			if (bin) {
				snprintf(path, sizeof path, "%s/%s", bin, tok + 1);
				unlink(path);
			}
			break;
		}
		case 'k': {
			int sig = strcmp(tok + 1, "SEGV") == 0 ? SIGSEGV : strcmp(tok + 1, "KILL") == 0 ? SIGKILL :
			          strcmp(tok + 1, "ABRT") == 0 ? SIGABRT : SIGTERM;
			signal(sig, SIG_DFL);
			raise(sig);
			pause();
			break;
		}
		case 'x': {
			int st = atoi(tok + 1);
			if (lfd >= 0) {
				char line[256];
				int n = snprintf(line, sizeof line, "{\"role\":\"%s\",\"event\":\"end\",\"idx\":%d,\"pid\":%ld,\"status\":%d,\"t\":%ld}\n",
				                 role, idx, (long)getpid(), st, now_ms());
				flock(lfd, LOCK_EX);
				if (write(lfd, line, n) < 0) {}
				flock(lfd, LOCK_UN);
			}
			if (ofd >= 0)
				close(ofd);
			_exit(st);
		}
		default:
			_exit(96);
		}
	}
	_exit(0);
}

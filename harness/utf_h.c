/* K-A harness for C14: drives /repo/utf.c (utf8dec, utf8enc, utf16enc) through the same line
 * protocol as lean/Drv/C14.lean.  Links utf.c only.
 *
 * Every utf8dec call gets its input in a heap block of exactly the text's length + 1 (the NUL
 * terminator), and every encoder writes into a heap block of exactly the maximal length, so that
 * under ASan a read past the terminator / a write past the buffer aborts the harness.
 * assert(0) inside utf8enc/utf16enc is observed through an override of glibc's __assert_fail. */
#include <stdint.h>
#include <stdio.h>
#include <stdlib.h>
#include <string.h>
#include <setjmp.h>
#include "utf.h"

static int
hexval(int c)
{
	if (c >= '0' && c <= '9') return c - '0';
	if (c >= 'a' && c <= 'f') return c - 'a' + 10;
	if (c >= 'A' && c <= 'F') return c - 'A' + 10;
	return -1;
}

/* parse hex bytes; returns length or -1 */
static long
parsehex(const char *s, unsigned char *out, size_t cap)
{
	size_t n = 0;
	int a, b;

	if (s[0] == '-' && !s[1])
		return 0;
	while (*s) {
		a = hexval(s[0]);
		b = a < 0 ? -1 : hexval(s[1]);
		if (a < 0 || b < 0 || n >= cap)
			return -1;
		out[n++] = a << 4 | b;
		s += 2;
	}
	return n;
}

/* utf8dec on an exactly sized NUL-terminated heap copy */
static size_t
dec(const unsigned char *bytes, size_t len, size_t lim, uint_least32_t *c)
{
	unsigned char *buf = malloc(len + 1);
	size_t n;

	if (!buf)
		abort();
	memcpy(buf, bytes, len);
	buf[len] = 0;
	*c = 0;
	n = utf8dec(c, buf, lim);
	free(buf);
	return n;
}

/* assert(0) inside utf8enc/utf16enc: glibc's assert() calls __assert_fail(), which this
 * executable overrides; while an encoder call is armed it jumps back instead of aborting. */
static jmp_buf env;
static int armed;

void
__assert_fail(const char *expr, const char *file, unsigned int lineno, const char *func)
{
	if (armed) {
		armed = 0;
		longjmp(env, 1);
	}
	fprintf(stderr, "%s:%u: %s: assertion failed: %s\n", file, lineno, func, expr);
	abort();
}

/* prints the bytes, or `fail` when the encoder asserts */
static void
put8(uint_least32_t c, const char *fail)
{
	unsigned char *volatile b = malloc(4);
	volatile size_t n = 0;
	size_t i;

	if (setjmp(env)) {
		fputs(fail, stdout);
	} else {
		armed = 1;
		n = utf8enc(b, c);
		armed = 0;
		for (i = 0; i < n; ++i)
			printf("%02x", b[i]);
	}
	free(b);
}

static void
put16(uint_least32_t c, const char *sep, const char *fail)
{
	uint_least16_t *volatile b = malloc(2 * sizeof(*b));
	volatile size_t n = 0;
	size_t i;

	if (setjmp(env)) {
		fputs(fail, stdout);
	} else {
		armed = 1;
		n = utf16enc(b, c);
		armed = 0;
		for (i = 0; i < n; ++i)
			printf("%s%04x", i ? sep : "", (unsigned)b[i]);
	}
	free(b);
}

static char line[1 << 16];

int
main(void)
{
	unsigned char bytes[64];
	char arg[1 << 12];
	unsigned long long a, n, i;
	unsigned lim, k;
	long len;
	uint_least32_t c;
	size_t r;

	while (fgets(line, sizeof(line), stdin)) {
		if (sscanf(line, "dec %4000s", arg) == 1 && (len = parsehex(arg, bytes, sizeof(bytes) - 4)) >= 0) {
			r = dec(bytes, len, 4, &c);
			if (r == (size_t)-1)
				puts("invalid");
			else
				printf("%lu %zu\n", (unsigned long)c, r);
		} else if (sscanf(line, "decn %u %4000s", &lim, arg) == 2 && (len = parsehex(arg, bytes, sizeof(bytes) - 4)) >= 0) {
			r = dec(bytes, len, lim, &c);
			if (r == (size_t)-1)
				puts("invalid");
			else
				printf("%lu %zu\n", (unsigned long)c, r);
		} else if (sscanf(line, "decblk %4000s %u", arg, &k) == 2 && k <= 2 && (len = parsehex(arg, bytes, sizeof(bytes) - 4)) >= 0) {
			n = k == 0 ? 1 : k == 1 ? 256 : 65536;
			for (i = 0; i < n; ++i) {
				if (k == 1)
					bytes[len] = i;
				if (k == 2) {
					bytes[len] = i >> 8;
					bytes[len + 1] = i & 0xff;
				}
				r = dec(bytes, len + k, 4, &c);
				if (r == (size_t)-1)
					fputs("ffffff", stdout);
				else
					printf("%06lx", (unsigned long)(r << 21 | c));
			}
			putchar('\n');
		} else if (sscanf(line, "enc8 %llu", &a) == 1 && a <= 0xffffffff) {
			put8(a, "assert");
			putchar('\n');
		} else if (sscanf(line, "enc16 %llu", &a) == 1 && a <= 0xffffffff) {
			put16(a, " ", "assert");
			putchar('\n');
		} else if (sscanf(line, "enc8blk %llu %llu", &a, &n) == 2 && a + n <= 0x100000000 && n <= 65536) {
			for (i = 0; i < n; ++i) {
				if (i)
					putchar(' ');
				put8(a + i, "!");
			}
			putchar('\n');
		} else if (sscanf(line, "enc16blk %llu %llu", &a, &n) == 2 && a + n <= 0x100000000 && n <= 65536) {
			for (i = 0; i < n; ++i) {
				if (i)
					putchar(' ');
				put16(a + i, "", "!");
			}
			putchar('\n');
		} else {
			puts("bad-op");
		}
	}
	return 0;
}

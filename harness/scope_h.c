/* K-A harness for C16 (scopes): drives /repo/scope.c (mkscope, delscope, scopeputdecl,
 * scopeputtag, scopegetdecl, scopegettag) on top of /repo/map.c, linked with the real targ.c and
 * type.c (scope.c refers to `targ`); same line protocol as the scope operations of
 * lean/Drv/C16.lean:
 *
 *   mkscope                          -> ok
 *   delscope                         -> ok            (bad-op at file scope)
 *   putdecl <hash> <hexbytes> <val>  -> ok            (val >= 1: a declaration is never NULL)
 *   puttag  <hash> <hexbytes> <val>  -> ok            (val may be 0 = NULL type pointer)
 *   getdecl <0|1> <hash> <hexbytes>  -> <value>       (0 = NULL)
 *   gettag  <0|1> <hash> <hexbytes>  -> <value>
 *
 *   hash <hexbytes>                  -> <hash>        (what the real mapkey() computes for the name)
 *
 * Names are C strings here (hexbytes without 00; `-` is the empty name), and scope.c hashes them
 * itself with mapkey().  The <hash> field of the operation lines is what the MODEL uses (its hash
 * is a free field, and its answers do not depend on it: theorem hash_independent); this harness
 * ignores it.  The check asks for the real hashes with `hash` lines in a preliminary pass, so it
 * never depends on knowing the hash function of map.c. */
#include <stdbool.h>
#include <stddef.h>
#include <stdint.h>
#include <stdio.h>
#include <stdlib.h>
#include <string.h>
#include "util.h"
#include "cc.h"

static char line[1 << 17];

static int
hexval(int c)
{
	if (c >= '0' && c <= '9')
		return c - '0';
	if (c >= 'a' && c <= 'f')
		return c - 'a' + 10;
	if (c >= 'A' && c <= 'F')
		return c - 'A' + 10;
	return -1;
}

static char *
parsename(const char *s)
{
	size_t l, i;
	int a, b;
	char *out;

	if (strcmp(s, "-") == 0)
		return calloc(1, 1);
	l = strlen(s);
	if (l == 0 || l % 2)
		return NULL;
	out = malloc(l / 2 + 1);
	if (!out)
		return NULL;
	for (i = 0; i < l / 2; ++i) {
		a = hexval(s[2 * i]);
		b = hexval(s[2 * i + 1]);
		if (a < 0 || b < 0 || a * 16 + b == 0) {
			free(out);
			return NULL;
		}
		out[i] = a * 16 + b;
	}
	out[l / 2] = '\0';
	return out;
}

static bool
parsenum(const char *s, unsigned long long *v)
{
	char *end;

	if (!*s || *s < '0' || *s > '9')
		return false;
	*v = strtoull(s, &end, 10);
	return *end == '\0';
}

static unsigned long
realhash(const char *name)
{
	struct mapkey k;

	mapkey(&k, name, strlen(name));
	return k.hash;
}

int
main(void)
{
	char *tok[6], *p, *name;
	int ntok;
	unsigned long long hash, val;
	struct scope *s = &filescope;
	struct decl *d;
	struct type *t;

	setvbuf(stdout, NULL, _IOLBF, 0);
	/* filescope is a zero-initialised static: decls.len == tags.len == 0, parent == NULL */
	while (fgets(line, sizeof(line), stdin)) {
		ntok = 0;
		for (p = strtok(line, " \r\n"); p && ntok < 6; p = strtok(NULL, " \r\n"))
			tok[ntok++] = p;
		if (ntok == 1 && strcmp(tok[0], "mkscope") == 0) {
			s = mkscope(s);
			puts("ok");
		} else if (ntok == 1 && strcmp(tok[0], "delscope") == 0) {
			if (s == &filescope) {
				puts("bad-op");
			} else {
				s = delscope(s);
				puts("ok");
			}
		} else if (ntok == 4 && strcmp(tok[0], "putdecl") == 0 && parsenum(tok[1], &hash)
		           && parsenum(tok[3], &val) && val != 0 && (name = parsename(tok[2]))) {
			/* one decl object per declaration; its identity is the value */
			d = calloc(1, sizeof(*d));
			if (!d)
				abort();
			d->name = name;
			d->kind = DECLCONST;
			d->u.enumconst = val;
			scopeputdecl(s, d);
			puts("ok");
		} else if (ntok == 4 && strcmp(tok[0], "puttag") == 0 && parsenum(tok[1], &hash)
		           && parsenum(tok[3], &val) && (name = parsename(tok[2]))) {
			scopeputtag(s, name, (struct type *)(uintptr_t)val);
			puts("ok");
		} else if (ntok == 4 && (strcmp(tok[0], "getdecl") == 0 || strcmp(tok[0], "gettag") == 0)
		           && (strcmp(tok[1], "0") == 0 || strcmp(tok[1], "1") == 0)
		           && parsenum(tok[2], &hash) && (name = parsename(tok[3]))) {
			if (tok[0][3] == 'd') {
				d = scopegetdecl(s, name, tok[1][0] == '1');
				printf("%llu\n", d ? d->u.enumconst : 0ull);
			} else {
				t = scopegettag(s, name, tok[1][0] == '1');
				printf("%llu\n", (unsigned long long)(uintptr_t)t);
			}
			free(name);
		} else if (ntok == 2 && strcmp(tok[0], "hash") == 0 && (name = parsename(tok[1]))) {
			printf("%lu\n", realhash(name));
			free(name);
		} else {
			puts("bad-op");
		}
	}
	return 0;
}

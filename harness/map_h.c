/* K-A harness for C16 (map): drives /repo/map.c (mapinit, mapput, mapget, mapfree) through the
 * same line protocol as lean/Drv/C16.lean.  The hash of a key is taken from the input line (it is
 * a free field of struct mapkey), so every collision pattern can be produced.
 *
 *   init <cap>                      -> ok
 *   put <hash> <hexbytes|-> <val>   -> <len> <cap> <slotindex>
 *   putkeep <hash> <hexbytes|-> <val> -> <len> <cap> <slotindex> <valueafter>
 *   get <hash> <hexbytes|->         -> <value>        (0 = NULL = absent)
 *   dump                            -> cap=<cap> len=<len> <index>:<hash>:<hexbytes>:<val> ...
 *   anything else                   -> bad-op
 *
 * stdout is line buffered so that, when a probe loop does not terminate and the check kills the
 * process, everything before the hanging operation has been delivered. */
#include <stdbool.h>
#include <stddef.h>
#include <stdint.h>
#include <stdio.h>
#include <stdlib.h>
#include <string.h>
#include "util.h"

static struct map m;
static char line[1 << 17];

static int
hexval(int c)
{
	if (c >= '0' && c <= '9')
		return c - '0';
	if (c >= 'a' && c <= 'f')
		return c - 'a' + 10;
	if (c >= 'A' && c <= 'F')
		return c - 'A' + 10;
	return -1;
}

/* exact-size allocation: an out-of-bounds memcmp in keyequal is visible to ASan */
static bool
parsehex(const char *s, char **out, size_t *n)
{
	size_t l, i;
	int a, b;

	if (strcmp(s, "-") == 0) {
		*out = malloc(1);
		*n = 0;
		return *out != NULL;
	}
	l = strlen(s);
	if (l == 0 || l % 2)
		return false;
	*out = malloc(l / 2);
	if (!*out)
		return false;
	for (i = 0; i < l / 2; ++i) {
		a = hexval(s[2 * i]);
		b = hexval(s[2 * i + 1]);
		if (a < 0 || b < 0) {
			free(*out);
			return false;
		}
		(*out)[i] = a * 16 + b;
	}
	*n = l / 2;
	return true;
}

static bool
parsenum(const char *s, unsigned long long *v)
{
	char *end;

	if (!*s || *s < '0' || *s > '9')
		return false;
	*v = strtoull(s, &end, 10);
	return *end == '\0';
}

static void
showhex(const char *s, size_t n)
{
	size_t i;

	if (n == 0) {
		putchar('-');
		return;
	}
	for (i = 0; i < n; ++i)
		printf("%02x", (unsigned char)s[i]);
}

int
main(void)
{
	char *tok[6], *p, *s;
	int ntok;
	unsigned long long hash, val;
	struct mapkey k;
	void **e;
	size_t i, n;

	setvbuf(stdout, NULL, _IOLBF, 0);
	mapinit(&m, 8);
	while (fgets(line, sizeof(line), stdin)) {
		ntok = 0;
		for (p = strtok(line, " \r\n"); p && ntok < 6; p = strtok(NULL, " \r\n"))
			tok[ntok++] = p;
		if (ntok == 2 && strcmp(tok[0], "init") == 0 && parsenum(tok[1], &val)) {
			mapfree(&m, NULL);
			mapinit(&m, val);
			puts("ok");
		} else if (ntok == 4 && (strcmp(tok[0], "put") == 0 || strcmp(tok[0], "putkeep") == 0)
		           && parsenum(tok[1], &hash) && parsenum(tok[3], &val) && parsehex(tok[2], &s, &n)) {
			k.hash = hash;
			k.str = s;       /* stays allocated: the table keeps the pointer */
			k.len = n;
			e = mapput(&m, &k);
			if (strcmp(tok[0], "put") == 0) {
				*e = (void *)(uintptr_t)val;
				printf("%zu %zu %zu\n", m.len, m.cap, (size_t)(e - m.vals));
			} else {
				if (!*e)
					*e = (void *)(uintptr_t)val;
				printf("%zu %zu %zu %llu\n", m.len, m.cap, (size_t)(e - m.vals),
				       (unsigned long long)(uintptr_t)*e);
			}
		} else if (ntok == 3 && strcmp(tok[0], "get") == 0 && parsenum(tok[1], &hash)
		           && parsehex(tok[2], &s, &n)) {
			k.hash = hash;
			k.str = s;
			k.len = n;
			printf("%llu\n", (unsigned long long)(uintptr_t)mapget(&m, &k));
			free(s);
		} else if (ntok == 1 && strcmp(tok[0], "dump") == 0) {
			printf("cap=%zu len=%zu", m.cap, m.len);
			for (i = 0; i < m.cap; ++i) {
				if (!m.keys[i].str)
					continue;
				printf(" %zu:%lu:", i, m.keys[i].hash);
				showhex(m.keys[i].str, m.keys[i].len);
				printf(":%llu", (unsigned long long)(uintptr_t)m.vals[i]);
			}
			putchar('\n');
		} else {
			puts("bad-op");
		}
	}
	return 0;
}

/* K-A harness for C12: harness/scan_h.c plus resource limits in the child (a broken hide flag makes macro
 * expansion endless: the child is then ended by its CPU limit and reported as `!!<status>`).
 *
 * K-A harness for C13 / C11: token dump of /repo's scanner and preprocessor.
 *
 * Linked with every translation unit of /repo except main.c (initialised the way main.c does:
 * targinit, scanfrom, ppinit).  Line protocol, one output line per input line:
 *
 *   raw <hex>     scanfrom("in.c", fmemopen(bytes)); scan(&t) until TEOF
 *   pp <hex>      ppinit(); the expanded next() stream incl. keyword conversion, until TEOF
 *   ppnl <hex>    same with ppflags |= PPNEWLINE (what -E does)
 *
 * output:  <tok> <tok> ... [!<hex of the first stderr line>]
 *   <tok> = <kind number>:<lit as hex, or - when NULL>:<file, = when it is "in.c", else hex>:<line>.<col>:<space 0|1>
 *   (for TOTHER exactly one byte of lit is printed, so that a NUL byte is visible)
 * The TEOF token is printed as well (its location and space flag are observable state).
 *
 * error() ends the process and the scanner keeps static state (scanner chain, pp's `newline`
 * flag, macro table), so every input runs in a freshly forked child of a parent that has never
 * touched the scanner; the child's stderr goes through a pipe and is appended by the parent.
 * A child ending any other way than exit(0)/exit(1) is printed as `!!<status>` (+ its stderr on
 * the harness's own stderr): sanitizer reports are results.
 */
#define _GNU_SOURCE
#include <stdbool.h>
#include <stdio.h>
#include <stdlib.h>
#include <string.h>
#include <unistd.h>
#include <fcntl.h>
#include <sys/wait.h>
#include <sys/resource.h>
#include "util.h"
#include "cc.h"

static const char NAME[] = "in.c";

static void
puthex(const unsigned char *s, size_t n)
{
	static const char d[] = "0123456789abcdef";
	size_t i;

	for (i = 0; i < n; ++i) {
		putchar(d[s[i] >> 4]);
		putchar(d[s[i] & 15]);
	}
}

static void
dumptok(const struct token *t, bool first)
{
	if (!first)
		putchar(' ');
	printf("%d:", (int)t->kind);
	if (!t->lit)
		putchar('-');
	else if (t->kind == TOTHER)
		puthex((unsigned char *)t->lit, 1);
	else
		puthex((unsigned char *)t->lit, strlen(t->lit));
	putchar(':');
	if (t->loc.file && strcmp(t->loc.file, NAME) == 0)
		putchar('=');
	else if (t->loc.file)
		puthex((const unsigned char *)t->loc.file, strlen(t->loc.file));
	else
		putchar('?');
	printf(":%zu.%zu:%d", t->loc.line, t->loc.col, (int)t->space);
}

static void
child(int mode, unsigned char *buf, size_t len)
{
	FILE *f;
	struct token t;
	bool first = true;

	{
		struct rlimit rl;

		rl.rlim_cur = rl.rlim_max = 3;          /* seconds of CPU */
		setrlimit(RLIMIT_CPU, &rl);
#if !defined(__SANITIZE_ADDRESS__)
		rl.rlim_cur = rl.rlim_max = (rlim_t)2 << 30;  /* bytes of address space */
		setrlimit(RLIMIT_AS, &rl);
#endif
	}
	/* fmemopen(…, 0, …) fails on some libcs: give it one spare byte */
	f = len ? fmemopen(buf, len, "r") : fopen("/dev/null", "r");
	if (!f) {
		perror("fmemopen");
		_exit(3);
	}
	targinit(NULL);
	scanfrom(NAME, f);
	if (mode == 0) {
		do {
			scan(&t);
			dumptok(&t, first);
			first = false;
		} while (t.kind != TEOF);
	} else {
		if (mode == 2)
			ppflags |= PPNEWLINE;
		ppinit();
		for (;;) {
			dumptok(&tok, first);
			first = false;
			if (tok.kind == TEOF)
				break;
			next();
		}
	}
	fflush(stdout);
	exit(0);
}

static int
hexval(int c)
{
	if (c >= '0' && c <= '9')
		return c - '0';
	if (c >= 'a' && c <= 'f')
		return c - 'a' + 10;
	return -1;
}

int
main(void)
{
	char *line = NULL;
	size_t cap = 0;
	ssize_t n;
	unsigned char *buf;
	char err[4096];

	argv0 = "pp_h";
	while ((n = getline(&line, &cap, stdin)) > 0) {
		int mode, p[2], status;
		size_t len = 0, i, en;
		char *h;
		pid_t pid;

		while (n > 0 && (line[n - 1] == '\n' || line[n - 1] == '\r'))
			line[--n] = '\0';
		if (strncmp(line, "raw ", 4) == 0 || strcmp(line, "raw") == 0) {
			mode = 0;
			h = line + 3;
		} else if (strncmp(line, "ppnl ", 5) == 0 || strcmp(line, "ppnl") == 0) {
			mode = 2;
			h = line + 4;
		} else if (strncmp(line, "pp ", 3) == 0 || strcmp(line, "pp") == 0) {
			mode = 1;
			h = line + 2;
		} else {
			puts("bad-op");
			continue;
		}
		while (*h == ' ')
			++h;
		buf = malloc(strlen(h) / 2 + 1);
		for (i = 0; h[i] && h[i + 1]; i += 2) {
			int a = hexval(h[i]), b = hexval(h[i + 1]);
			if (a < 0 || b < 0)
				break;
			buf[len++] = a << 4 | b;
		}
		if (h[i]) {
			puts("bad-op");
			free(buf);
			continue;
		}
		fflush(stdout);
		if (pipe(p) != 0) {
			perror("pipe");
			return 3;
		}
		pid = fork();
		if (pid < 0) {
			perror("fork");
			return 3;
		}
		if (pid == 0) {
			int nul;

			/* exit() in the child would otherwise seek the shared stdin offset back */
			nul = open("/dev/null", O_RDONLY);
			if (nul >= 0) {
				dup2(nul, 0);
				close(nul);
			}
			close(p[0]);
			dup2(p[1], 2);
			close(p[1]);
			child(mode, buf, len);
		}
		close(p[1]);
		en = 0;
		for (;;) {
			ssize_t r = read(p[0], err + en, sizeof(err) - 1 - en);
			if (r <= 0)
				break;
			en += r;
			if (en == sizeof(err) - 1) {
				/* drain */
				char sink[4096];
				while (read(p[0], sink, sizeof(sink)) > 0)
					;
				break;
			}
		}
		err[en] = '\0';
		close(p[0]);
		if (waitpid(pid, &status, 0) < 0) {
			perror("waitpid");
			return 3;
		}
		if (WIFEXITED(status) && WEXITSTATUS(status) == 0 && en == 0) {
			putchar('\n');
		} else if (WIFEXITED(status) && WEXITSTATUS(status) == 1 && strstr(err, ": error: ")) {
			char *nl = strchr(err, '\n');
			size_t l = nl ? (size_t)(nl - err) : en;
			fputs(" !", stdout);
			puthex((unsigned char *)err, l);
			putchar('\n');
		} else {
			printf(" !!%d\n", status);
			fprintf(stderr, "pp_h: input `%s` ended with status %d:\n%s\n", line, status, err);
		}
		free(buf);
	}
	fflush(stdout);
	return 0;
}

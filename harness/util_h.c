/* K-A harness for C19: /repo's util.c growable array and scan.c's token buffer, same line protocol
 * as lean/Drv/C19.lean.  Built with ASan: every byte handed out is written, so an allocation that is
 * too small is a sanitizer report (the harness then dies; the check treats that as a result).
 *
 *   new | add <n> | buf | bufreset
 *
 * scan.c's bufadd/bufget are static: scan.c is #included here so that the real text is compiled
 * (its other external references are resolved by linking the rest of /repo's units). */
#define _GNU_SOURCE
#include <stdio.h>
#include <stdlib.h>
#include <string.h>
#include "scan.c"

int
main(void)
{
	char line[256];
	struct array a = {0};
	struct buffer b = {0};
	size_t n;
	unsigned char *p;

	argv0 = "util_h";
	setvbuf(stdout, NULL, _IOLBF, 0);
	while (fgets(line, sizeof(line), stdin)) {
		if (strncmp(line, "new", 3) == 0) {
			free(a.val);
			free(b.str);
			a = (struct array){0};
			b = (struct buffer){0};
			puts("ok");
		} else if (sscanf(line, "add %zu", &n) == 1) {
			p = arrayadd(&a, n);
			if (n)
				memset(p, 0xAA, n);
			printf("%zu %zu %zu\n", (size_t)(p - (unsigned char *)a.val), a.len, a.cap);
		} else if (strncmp(line, "bufreset", 8) == 0) {
			b.len = 0;
			puts("ok");
		} else if (strncmp(line, "buf", 3) == 0) {
			bufadd(&b, 'x');
			printf("%zu %zu %zu\n", b.len - 1, b.len, b.cap);
		} else {
			puts("bad-op");
		}
	}
	return 0;
}

/* K-A harness for C15: drives /repo/tree.c:treeinsert through the same line protocol as
 * lean/Drv/C15.lean and prints the whole tree after every insertion. */
#include <stdbool.h>
#include <stddef.h>
#include <stdio.h>
#include <stdlib.h>
#include <string.h>
#include "util.h"

struct node {
	struct treenode node;
	int payload;
};

static char *out;
static size_t outlen, outcap;

static void
put(const char *s)
{
	size_t n = strlen(s);
	if (outlen + n + 1 > outcap) {
		outcap = (outlen + n + 1) * 2;
		out = realloc(out, outcap);
		if (!out)
			abort();
	}
	memcpy(out + outlen, s, n + 1);
	outlen += n;
}

static void
dump(struct treenode *n)
{
	char buf[64];

	if (!n) {
		put("-");
		return;
	}
	snprintf(buf, sizeof(buf), "(%llu %d ", n->key, n->height);
	put(buf);
	dump(n->child[0]);
	put(" ");
	dump(n->child[1]);
	put(")");
}

static void
freetree(struct treenode *n)
{
	if (!n)
		return;
	freetree(n->child[0]);
	freetree(n->child[1]);
	free(n);
}

int
main(void)
{
	char line[256];
	void *root = NULL;
	unsigned long long key;
	struct node *n;

	while (fgets(line, sizeof(line), stdin)) {
		if (strncmp(line, "reset", 5) == 0) {
			freetree(root);
			root = NULL;
			puts("ok");
		} else if (sscanf(line, "ins %llu", &key) == 1) {
			n = treeinsert(&root, key, sizeof(*n));
			outlen = 0;
			put(n->node.new ? "1 " : "0 ");
			dump(root);
			puts(out);
		} else if (sscanf(line, "insq %llu", &key) == 1) {
			n = treeinsert(&root, key, sizeof(*n));
			puts(n->node.new ? "1" : "0");
		} else if (strncmp(line, "dump", 4) == 0) {
			outlen = 0;
			put("");
			dump(root);
			puts(out);
		} else {
			puts("bad-op");
		}
	}
	return 0;
}

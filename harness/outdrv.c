/* Native oracle driver: defines out/outd for programs produced by gen/cprog.py and prints the trace
 * in the same format as `drv_c03 run` (see checks/oracle.py). */
#include <stdio.h>
#include <string.h>
void out(long v) { printf("out %lu\n", (unsigned long)v); }
void outd(double d) { unsigned long b; memcpy(&b, &d, 8); printf("outd 0x%016lx\n", b); }

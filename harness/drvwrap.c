/* K-C: linked into the stubbed driver with `-Wl,--wrap=mkstemp`.  driver.c itself is compiled
 * unmodified; this wrapper calls the real mkstemp and only RECORDS the name it produced in
 * $STUB_LOG ({"role":"driver","event":"mkstemp","path":...}), so that the check knows exactly
 * which /tmp/cproc-XXXXXX files belong to a run even when no tool was ever started with them
 * (driver.c hard-codes /tmp and does not honour TMPDIR). */
#define _GNU_SOURCE
#include <fcntl.h>
#include <stdio.h>
#include <stdlib.h>
#include <string.h>
#include <sys/file.h>
#include <unistd.h>

int __real_mkstemp(char *);

int
__wrap_mkstemp(char *tmpl)
{
	int fd = __real_mkstemp(tmpl);
	const char *logpath = getenv("STUB_LOG");

	if (logpath) {
		int lfd = open(logpath, O_WRONLY | O_APPEND | O_CREAT | O_CLOEXEC, 0644);
		if (lfd >= 0) {
			char line[512];
			int n = snprintf(line, sizeof line, "{\"role\":\"driver\",\"event\":\"mkstemp\",\"pid\":%ld,\"fd\":%d,\"path\":\"%s\"}\n",
			                 (long)getpid(), fd, fd >= 0 ? tmpl : "");
			flock(lfd, LOCK_EX);
			if (write(lfd, line, n) < 0) {}
			flock(lfd, LOCK_UN);
			close(lfd);
		}
	}
	return fd;
}

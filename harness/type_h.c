/* K-A harness for C05: drives /repo's targinit, typepromote, typecommonreal, typehasint,
 * typecompatible and typeadjust (type.c, targ.c, util.c linked unmodified) through the line
 * protocol of lean/Drv/C05.lean (model operations only).
 *
 * fatal()/assert() end the process, so the harness is a fork server: a child handles lines
 * until one kills it; the parent prints `fatal` (exit status != 0) or `abort` (signal) for that
 * line and starts a new child on the next one.  The index of the line being processed lives in
 * shared memory. */
#define _GNU_SOURCE
#include <stdbool.h>
#include <stddef.h>
#include <stdio.h>
#include <stdlib.h>
#include <string.h>
#include <signal.h>
#include <unistd.h>
#include <sys/mman.h>
#include <sys/wait.h>
#include "util.h"
#include "cc.h"



static const struct { const char *name; struct type *t; } basics[] = {
	{"bool", &typebool}, {"char", &typechar}, {"schar", &typeschar}, {"uchar", &typeuchar},
	{"short", &typeshort}, {"ushort", &typeushort}, {"int", &typeint}, {"uint", &typeuint},
	{"long", &typelong}, {"ulong", &typeulong}, {"llong", &typellong}, {"ullong", &typeullong},
	{"float", &typefloat}, {"double", &typedouble}, {"ldouble", &typeldouble},
};

#define MAXID 64
static struct type *enums[MAXID][LEN(basics)];
static struct type *structs[MAXID], *unions[MAXID];

static struct type *
basic(const char *s)
{
	size_t i;

	for (i = 0; i < LEN(basics); ++i) {
		if (strcmp(s, basics[i].name) == 0)
			return basics[i].t;
	}
	return NULL;
}

static size_t
basicindex(struct type *t)
{
	size_t i;

	for (i = 0; i < LEN(basics); ++i) {
		if (basics[i].t == t)
			return i;
	}
	return 0;
}

/* arithmetic type object: a basic type or `e<id>:<base>` (one object per (id, base), as tagspec builds it) */
static struct type *
arith(const char *s)
{
	struct type *t, *b;
	char *colon;
	long id;

	t = basic(s);
	if (t)
		return t;
	if (s[0] != 'e')
		return NULL;
	id = strtol(s + 1, &colon, 10);
	if (*colon != ':' || id < 0 || id >= MAXID)
		return NULL;
	b = basic(colon + 1);
	if (!b)
		return NULL;
	t = enums[id][basicindex(b)];
	if (!t) {
		t = mktype(TYPEENUM, PROPSCALAR|PROPARITH|PROPREAL|PROPINT);
		t->base = b;
		t->size = b->size;
		t->align = b->align;
		t->u.basic.issigned = b->u.basic.issigned;
		enums[id][basicindex(b)] = t;
	}
	/* typechar's signedness depends on the target selected last */
	t->u.basic.issigned = b->u.basic.issigned;
	return t;
}

static void
printarith(struct type *t)
{
	size_t i, j;

	for (i = 0; i < LEN(basics); ++i) {
		if (basics[i].t == t) {
			fputs(basics[i].name, stdout);
			return;
		}
	}
	for (i = 0; i < MAXID; ++i) {
		for (j = 0; j < LEN(basics); ++j) {
			if (enums[i][j] == t) {
				printf("e%zu:%s", i, basics[j].name);
				return;
			}
		}
	}
	fputs("?", stdout);
}

static char *toks[4096];
static size_t ntok, pos;

static struct type *
parsetype(void)
{
	struct type *t, *b;
	struct decl *d, **end;
	struct expr *e;
	char *s, c;
	long n, q, pq, cnt, i;

	if (pos >= ntok)
		return NULL;
	s = toks[pos++];
	if (strcmp(s, "void") == 0)
		return &typevoid;
	if (strcmp(s, "nullptr") == 0)
		return &typenullptr;
	t = arith(s);
	if (t)
		return t;
	c = s[0];
	n = strtol(s + 1, NULL, 10);
	switch (c) {
	case 's':
	case 'u':
		if (n < 0 || n >= MAXID)
			return NULL;
		t = c == 's' ? structs[n] : unions[n];
		if (!t) {
			t = mktype(c == 's' ? TYPESTRUCT : TYPEUNION, 0);
			t->size = 4;
			t->align = 4;
			t->u.structunion.tag = NULL;
			t->u.structunion.members = NULL;
			if (c == 's')
				structs[n] = t;
			else
				unions[n] = t;
		}
		return t;
	case 'p':
		b = parsetype();
		if (!b)
			return NULL;
		return mkpointertype(b, n << 1);
	case 'a':
		if (pos + 2 > ntok)
			return NULL;
		s = toks[pos++];
		pq = strtol(toks[pos++], NULL, 10);
		b = parsetype();
		if (!b)
			return NULL;
		if (strcmp(s, "-") == 0) {
			t = mkarraytype(b, n << 1, 0);
		} else if (strcmp(s, "*") == 0) {
			t = mkarraytype(b, n << 1, 0);
			t->incomplete = false;
			t->prop |= PROPVM;
			e = xmalloc(sizeof(*e));
			memset(e, 0, sizeof(*e));
			e->kind = EXPRIDENT;
			e->type = &typeint;
			t->u.array.length = e;
		} else {
			t = mkarraytype(b, n << 1, 1);  /* complete; size set below */
			e = xmalloc(sizeof(*e));
			memset(e, 0, sizeof(*e));
			e->kind = EXPRCONST;
			e->type = &typeint;
			e->u.constant.u = strtoull(s, NULL, 10);
			t->u.array.length = e;
			t->size = b->size * e->u.constant.u;
			t->incomplete = false;
		}
		t->u.array.ptrqual = pq << 1;
		return t;
	case 'f':
		if (pos + 2 > ntok)
			return NULL;
		q = n;
		t = mktype(TYPEFUNC, 0);
		t->u.func.isvararg = strtol(toks[pos++], NULL, 10);
		cnt = strtol(toks[pos++], NULL, 10);
		t->base = parsetype();
		if (!t->base)
			return NULL;
		t->qual = q << 1;
		t->u.func.params = NULL;
		t->u.func.nparam = cnt;
		end = &t->u.func.params;
		for (i = 0; i < cnt; ++i) {
			b = parsetype();
			if (!b)
				return NULL;
			d = xmalloc(sizeof(*d));
			memset(d, 0, sizeof(*d));
			d->kind = DECLOBJECT;
			d->type = b;
			*end = d;
			end = &d->next;
		}
		return t;
	}
	return NULL;
}

static void
printtype(struct type *t)
{
	struct decl *d;

	switch (t->kind) {
	case TYPEVOID: fputs("void", stdout); break;
	case TYPENULLPTR: fputs("nullptr", stdout); break;
	case TYPEPOINTER:
		printf("p%d ", t->qual >> 1);
		printtype(t->base);
		break;
	case TYPEARRAY:
		printf("a%d ", t->qual >> 1);
		if (t->incomplete)
			fputs("-", stdout);
		else if (t->u.array.length && t->u.array.length->kind == EXPRCONST)
			printf("%llu", t->u.array.length->u.constant.u);
		else
			fputs("*", stdout);
		printf(" %d ", t->u.array.ptrqual >> 1);
		printtype(t->base);
		break;
	case TYPEFUNC:
		printf("f%d %d %zu ", t->qual >> 1, t->u.func.isvararg, t->u.func.nparam);
		printtype(t->base);
		for (d = t->u.func.params; d; d = d->next) {
			fputs(" ", stdout);
			printtype(d->type);
		}
		break;
	case TYPESTRUCT:
	case TYPEUNION: {
		size_t i;
		for (i = 0; i < MAXID; ++i) {
			if (structs[i] == t) { printf("s%zu", i); return; }
			if (unions[i] == t) { printf("u%zu", i); return; }
		}
		fputs("?", stdout);
		break;
	}
	default:
		printarith(t);
	}
}

static unsigned
parsewidth(const char *s)
{
	return strcmp(s, "-") == 0 ? -1 : (unsigned)strtoul(s, NULL, 10);
}

static void
handle(char *line)
{
	struct type *a, *b, *r;
	enum typequal tq;
	size_t i, bar;

	ntok = 0;
	for (char *s = strtok(line, " \n"); s && ntok < LEN(toks); s = strtok(NULL, " \n"))
		toks[ntok++] = s;
	if (ntok == 0) {
		puts("bad-op");
		return;
	}
	if (strcmp(toks[0], "targ") == 0 && ntok == 2) {
		if (strcmp(toks[1], "x86_64-sysv") && strcmp(toks[1], "aarch64") && strcmp(toks[1], "riscv64")) {
			puts("unknown-target");
			return;
		}
		targ = NULL;  /* targinit only selects when no target is set yet */
		targinit(toks[1]);
		puts("ok");
	} else if (strcmp(toks[0], "promote") == 0 && ntok == 3 && (a = arith(toks[1]))) {
		printarith(typepromote(a, parsewidth(toks[2])));
		putchar('\n');
	} else if (strcmp(toks[0], "commonreal") == 0 && ntok == 5 && (a = arith(toks[1])) && (b = arith(toks[3]))) {
		r = typecommonreal(a, parsewidth(toks[2]), b, parsewidth(toks[4]));
		printarith(r);
		putchar('\n');
	} else if (strcmp(toks[0], "hasint") == 0 && ntok == 4 && (a = arith(toks[1]))) {
		puts(typehasint(a, strtoull(toks[2], NULL, 10), toks[3][0] == '1') ? "1" : "0");
	} else if (strcmp(toks[0], "compat") == 0) {
		bar = 0;
		for (i = 1; i < ntok; ++i) {
			if (strcmp(toks[i], "|") == 0)
				bar = i;
		}
		if (!bar) {
			puts("bad-op");
			return;
		}
		pos = 1;
		a = parsetype();
		if (!a || pos != bar) {
			puts("bad-op");
			return;
		}
		pos = bar + 1;
		b = parsetype();
		if (!b || pos != ntok) {
			puts("bad-op");
			return;
		}
		puts(typecompatible(a, b) ? "1" : "0");
	} else if (strcmp(toks[0], "adjust") == 0 && ntok >= 3) {
		tq = strtol(toks[1], NULL, 10) << 1;
		pos = 2;
		a = parsetype();
		if (!a || pos != ntok) {
			puts("bad-op");
			return;
		}
		a = typeadjust(a, &tq);
		printtype(a);
		printf(" %d\n", tq >> 1);
	} else {
		puts("bad-op");
	}
}

static void
onabort(int sig)
{
	fflush(stdout);
	_exit(100);
}

int
main(int argc, char *argv[])
{
	char **lines = NULL, *line = NULL;
	size_t nlines = 0, cap = 0, n = 0, start;
	volatile size_t *cur;
	pid_t pid;
	int status;

	argv0 = argv[0];
	while (getline(&line, &n, stdin) > 0) {
		if (nlines == cap) {
			cap = cap ? cap * 2 : 1024;
			lines = realloc(lines, cap * sizeof(*lines));
			if (!lines)
				abort();
		}
		lines[nlines++] = strdup(line);
	}
	cur = mmap(NULL, sizeof(*cur), PROT_READ|PROT_WRITE, MAP_SHARED|MAP_ANONYMOUS, -1, 0);
	if (cur == MAP_FAILED)
		abort();
	start = 0;
	while (start < nlines) {
		fflush(stdout);
		pid = fork();
		if (pid < 0)
			abort();
		if (pid == 0) {
			signal(SIGABRT, onabort);
			/* a new child inherits the parent's (initial) state: silently replay the last
			   `targ` line that precedes the restart point */
			for (size_t i = start; i-- > 0;) {
				if (strncmp(lines[i], "targ ", 5) == 0) {
					char *copy = strdup(lines[i]), *name = strtok(copy + 5, " \n");
					if (name && (!strcmp(name, "x86_64-sysv") || !strcmp(name, "aarch64") || !strcmp(name, "riscv64"))) {
						targ = NULL;
						targinit(name);
					}
					break;
				}
			}
			for (size_t i = start; i < nlines; ++i) {
				*cur = i;
				handle(lines[i]);
			}
			*cur = nlines;
			fflush(stdout);
			_exit(0);
		}
		if (waitpid(pid, &status, 0) < 0)
			abort();
		if (*cur >= nlines)
			break;
		/* line *cur killed the child */
		puts(WIFEXITED(status) && WEXITSTATUS(status) == 1 ? "fatal" : "abort");
		start = *cur + 1;
	}
	return 0;
}

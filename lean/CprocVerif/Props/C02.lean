/-
  C02: stage 2 of cproc (the stage-1 IL of cproc's own sources) executed under the formal IL
  semantics.  There is no ∀-theorem about the C sources here; what is proved is what makes the
  executed comparison meaningful:

  * `stage2_deterministic`   : the behaviour of the linked stage-2 program is a function of the
                               program, the library, the arguments and the fuel (so one run per input
                               decides that input).
  * `stage2_step_deterministic` : likewise for a single machine step.
  * `driver_runs_the_semantics` : the step-counting runner used by `drv_c02` computes exactly
                               `Qbe.runFunc`.
  * `stage2_never_stuck`     : if the linked program passes `wf` (evaluated by the check on every
                               run for the 18 modules + library environment), then running `main` —
                               with any library, arguments, heap initialisation and fuel — never ends
                               in one of the four well-formedness stuck states (`wf_sound` of C03
                               applied to the linked module).
-/
import CprocVerif.Spec.Qbe
import CprocVerif.Spec.QbeWf
import CprocVerif.Spec.QbeLink
import CprocVerif.Spec.QbeLibc
import CprocVerif.Props.C03

namespace CprocVerif.C02
open CprocVerif.Qbe

theorem stage2_step_deterministic (p : Prog) (ext : Ext) (s : State) (r₁ r₂ : Step)
    (h₁ : step p ext s = r₁) (h₂ : step p ext s = r₂) : r₁ = r₂ :=
  step_deterministic p ext s r₁ r₂ h₁ h₂

theorem stage2_deterministic (p : Prog) (ext : Ext) (name : String) (args : List (Ty × RVal))
    (fuel : Nat) (o₁ o₂ : Outcome × Nat)
    (h₁ : Libc.runMain p ext name args fuel = o₁) (h₂ : Libc.runMain p ext name args fuel = o₂) :
    o₁ = o₂ := by
  rw [← h₁, ← h₂]

theorem driver_runs_the_semantics (p : Prog) (ext : Ext) (name : String)
    (args : List (Ty × RVal)) (fuel : Nat) :
    (Libc.runMain p ext name args fuel).1 = runFunc p ext name args fuel :=
  Libc.runMain_eq_runFunc p ext name args fuel

theorem withHeap_progOk {p : Prog} (c : Libc.Ctx) (h : C03.ProgOk p) : C03.ProgOk (Libc.withHeap p c) :=
  fun name fi hfi => h name fi hfi

/-- `wf_sound` for the program the driver really runs (linked modules, heap initialised). -/
theorem stage2_never_stuck (ms : List Module) (linked : Module) (_hl : linkModules ms = .ok linked)
    (hw : wf linked = .ok ()) (c : Libc.Ctx) (ext : Ext) (name : String)
    (args : List (Ty × RVal)) (fuel : Nat) :
    ¬ C03.BadStuck (Libc.runMain (Libc.withHeap (Prog.ofModule linked) c) ext name args fuel).1.end := by
  rw [Libc.runMain_eq_runFunc]
  exact C03.runFunc_ok (withHeap_progOk c (C03.wf_progOk hw)) name args fuel

/-- More fuel does not change a finished stage-2 run. -/
theorem stage2_fuel_monotone (p : Prog) (ext : Ext) (n k : Nat) (s : State)
    (h : (run p ext n s).end ≠ .fuel) : run p ext (n + k) s = run p ext n s :=
  run_mono p ext n k s h

end CprocVerif.C02

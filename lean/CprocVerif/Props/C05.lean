import CprocVerif.Lemmas.Types
import CprocVerif.Gen.BasicTypes
import CprocVerif.Gen.Targets
import CprocVerif.Gen.IntLimits

/-!
# C05 — every expression is given the type C11 assigns it

Property theorems relating the model of cproc's type system (`Model/Types.lean`: `type.c`,
`targ.c`, the typing half of `expr.c`, `decl.c:tagspec`) to the C11 spec (`Spec/Conv.lean`).

* `sc`/`cs : Bool` is the signedness of plain `char` — the only target parameter of these rules
  (all three targets are LP64); the `targets_*` theorems tie it to `targ.c` and to the psABIs.
* A theorem called `…_full` is a `def … : Prop` that is **false** today; `…_counterexample`
  proves its negation with a concrete witness (replayed on the real binary by `checks/c05.py`),
  `…_partial` is what does hold, with the excluded inputs as a hypothesis.
* The `Gen.*` obligations are re-checked against tables regenerated from `/repo` on every run.
-/

namespace CprocVerif.C05
open CprocVerif.Types CprocVerif.Spec CprocVerif.Types.Lemmas

/-! ## 0. Tables regenerated from the C source (`tools/gen_c05.py`) -/

def kindName : Kind → String
  | .bool => "TYPEBOOL" | .char => "TYPECHAR" | .short => "TYPESHORT" | .int => "TYPEINT"
  | .enum => "TYPEENUM" | .long => "TYPELONG" | .llong => "TYPELLONG" | .float => "TYPEFLOAT"
  | .double => "TYPEDOUBLE" | .ldouble => "TYPELDOUBLE"

def propsOf (b : Basic) : List String :=
  if b.isInt then
    (if b.kind = .char then ["PROPARITH", "PROPCHAR", "PROPINT", "PROPREAL", "PROPSCALAR"]
     else ["PROPARITH", "PROPINT", "PROPREAL", "PROPSCALAR"])
  else ["PROPARITH", "PROPFLOAT", "PROPREAL", "PROPSCALAR"]

/-- `type.c`: the 15 `INTTYPE`/`FLTTYPE` objects are exactly the model's `Basic`, with the
model's kind, size (= align), initial signedness and property bits. -/
theorem gen_basic_types :
    Gen.BasicTypes.table =
      Basic.all.map (fun b => ⟨b.var, kindName b.kind, b.size, b.size, b.issignedInit, propsOf b⟩) := by
  decide

/-- `type.c:typerank`: the switch is the model's `Kind.rank`. -/
theorem gen_typerank :
    Gen.BasicTypes.rank =
      [Kind.bool, .char, .short, .int, .long, .llong].map (fun k => (kindName k, k.rank)) := by
  decide

/-- `expr.c:inttype`: `limits[]` is the model's table. -/
theorem gen_int_limits :
    Gen.IntLimits.limits = Types.limits.map (fun r => (r.1.var, r.2.1, r.2.2)) := by
  decide

/-- `decl.c:tagspec`: `inttypes[][2]` is the model's table. -/
theorem gen_enum_types :
    Gen.IntLimits.enumTypes = Types.enumTypes.map (fun r => (r.1.var, r.2.var)) := by
  decide

/-- `targ.c:alltargs[]`: names, `wchar_t` and `signedchar` are the model's. -/
theorem gen_targets :
    Gen.Targets.table.map (fun r => (r.name, r.wchar, r.signedchar)) =
      Types.targets.map (fun t => (t.name, t.wchar.var, t.signedchar)) := by
  decide

/-! ## 1. Target facts (psABI) and agreement of the basic-type table with LP64 -/

/-- plain `char` is signed on x86_64 and unsigned on aarch64/riscv64; `wchar_t` is `int`,
`unsigned int`, `int` — what `targ.c` says is what the psABIs say. -/
theorem targets_match_psabi :
    Types.targets.map (fun t => (t.name, t.signedchar, t.wchar)) =
      Spec.targetSpecs.map (fun t => (t.name, t.charSigned, t.wchar)) := by
  decide

theorem target_char_signedness :
    (findTarget "x86_64-sysv").map (·.signedchar) = some true ∧
    (findTarget "aarch64").map (·.signedchar) = some false ∧
    (findTarget "riscv64").map (·.signedchar) = some false := by decide

theorem target_wchar :
    (findTarget "x86_64-sysv").map (·.wchar) = some .int ∧
    (findTarget "aarch64").map (·.wchar) = some .uint ∧
    (findTarget "riscv64").map (·.wchar) = some .int := by decide

/-- sizes, signedness and rank order of the model's integer types are the LP64 ones of the spec
(`_Bool` occupies a byte but has one value bit). -/
theorem basic_matches_lp64 :
    (∀ b ∈ Basic.ints, b ≠ .bool → Spec.bits b = 8 * b.size) ∧
    (∀ sc, ∀ b ∈ Basic.ints, b.issigned sc = Spec.isSigned sc b) ∧
    (∀ b ∈ Basic.all, b.isInt = Spec.isInteger b) ∧
    (∀ a ∈ Basic.ints, ∀ b ∈ Basic.ints, (a.kind.rank ≤ b.kind.rank ↔ Spec.rankB a ≤ Spec.rankB b)) := by
  decide

/-- character constants by prefix (6.4.4.4; `u8` per C23) on every target -/
theorem charconst_type_correct :
    ∀ tg ∈ Types.targets, ∀ ts ∈ Spec.targetSpecs, tg.name = ts.name →
      ∀ p ∈ [CharPrefix.none, .L, .u, .U, .u8], Types.charConstType tg p = Spec.charConstType ts p := by
  decide

/-! ## 2. Integer promotions (6.3.1.1p2) -/

/-- `typepromote` is the integer promotion (by value range, bit-fields by width; `float → double`
as in the default argument promotions), for every arithmetic type object — including
enumerated types over any integer base — and every legal bit-field width. -/
theorem promote_correct (sc : Bool) (t : ATy) (w : Option Nat) (hwf : t.wf = true)
    (hw : validWidth t w) : typepromote sc t w = Spec.promote sc t w :=
  promote_ok sc t w hwf hw

example : validWidth (.basic .ulong) (some 33) ∧ (ATy.basic .ulong).wf = true := by decide
example : typepromote true (.basic .ulong) (some 33) = .basic .ulong := by decide
example : typepromote true (.enum 7 .uint) (some 31) = .basic .int := by decide

/-! ## 3. Usual arithmetic conversions (6.3.1.8) -/

/-- for all operand type objects (enumerated types over any base included) and all bit-field
widths, `typecommonreal` returns the common real type of 6.3.1.8 — stated by ranks and by "can
represent all values" on ranges — and never ends in `fatal`.  (Before fix `6d47956` this failed for
`enum E : long long` with `unsigned long`: "internal error; could not find common real type".) -/
theorem commonreal_correct (sc : Bool) (t₁ : ATy) (w₁ : Option Nat) (t₂ : ATy) (w₂ : Option Nat)
    (f₁ : t₁.wf = true) (f₂ : t₂.wf = true) (hw₁ : validWidth t₁ w₁) (hw₂ : validWidth t₂ w₂) :
    typecommonreal sc t₁ w₁ t₂ w₂ = some (commonReal sc t₁ w₁ t₂ w₂) :=
  commonreal_ok sc t₁ t₂ w₁ w₂ f₁ f₂ hw₁ hw₂

example : validWidth (.basic .uint) (some 31) := by decide
example : typecommonreal true (.basic .uint) (some 31) (.basic .int) none = some (.basic .int) := by decide
example : typecommonreal true (.basic .long) none (.basic .uint) none = some (.basic .long) := by decide
example : typecommonreal false (.enum 0 .llong) none (.basic .ulong) none = some (.basic .ullong) := by decide

/-! ## 4. `typehasint` and literal typing (6.4.4.1p5) -/

/-- for ALL 64-bit patterns `v` and both readings: `typehasint t v sign` says exactly whether the
denoted integer lies in the range of `t` — every integer type object, enumerated types over any
base, and `_Bool` with its single value bit.  (Full strength since fix 08f8fa4: `typehasint(&typebool,
2, false)` used to be true, reachable through C23 `enum E : _Bool { A = 2 };`.) -/
theorem hasint_correct (sc : Bool) (t : ATy) (hwf : t.wf = true) (hi : t.isInt = true)
    (v : Nat) (hv : v < 2 ^ 64) (sign : Bool) :
    typehasint sc t v sign = decide (inRange (range sc t) (decode v sign)) := by
  by_cases hb : intTypeOf t = .bool
  · refine hasint_bool sc t ?_ v hv sign
    cases t with
    | basic b => left; simp only [intTypeOf] at hb; rw [hb]
    | enum i b => right; simp only [intTypeOf] at hb; exact ⟨i, by rw [hb]⟩
  · cases t with
    | basic b => exact hasint_basic sc b hi hb v hv sign
    | enum i b => exact hasint_enum sc i b hwf hb v hv sign

example : typehasint false (.basic .bool) 2 false = false ∧ typehasint false (.enum 1 .bool) 1 false = true ∧
    typehasint true (.enum 1 .bool) (2 ^ 64 - 1) true = false := by decide
example : typehasint true (.basic .int) (2 ^ 64 - 2 ^ 31) true = true := by decide
example : typehasint true (.basic .int) (2 ^ 64 - 2 ^ 31 - 1) true = false := by decide

/-- the result the spec prescribes for an integer constant, in the model's vocabulary -/
def litResult : Option Basic → LitResult := Lemmas.litResult

/-- for every value below 2^64, every base and every suffix the C11 grammar allows (in any case
and order): `inttype` returns the first type of the 6.4.4.1p5 list that can represent the value,
and diagnoses exactly the constants that have no type -/
theorem inttype_correct (sc : Bool) (v : Nat) (hv : v < 2 ^ 64) (decimal : Bool) (s : String)
    (sfx : Suffix) (hs : parseSuffix s = some sfx) :
    inttype sc v decimal s = litResult (literalType sc v decimal sfx) :=
  inttype_ok sc v hv decimal s sfx hs

example : parseSuffix "uLL" = some ⟨true, .ll⟩ := by decide
example : inttype true (2 ^ 63) true "" = .noType := by decide
example : inttype true (2 ^ 63) false "" = .ty .ulong := by decide
example : inttype true (2 ^ 31) true "" = .ty .long := by decide

/-- floating constants by suffix (6.4.4.2p4) -/
theorem flttype_correct (s : String) (b : Basic) (h : floatLiteralType s = some b) : flttype s = some b := by
  unfold floatLiteralType at h
  split at h <;> first | (cases h; decide) | (simp at h)

/-! ## 5. Compatibility (6.2.7) -/

theorem compat_refl (t : Ty) : typecompatible t t = true := compat_refl' t

theorem compat_symm (a b : Ty) : typecompatible a b = typecompatible b a := compat_symm' a b

/-- model-compatible ⇒ compatible per 6.2.7 / 6.7.2.2p4 / 6.7.3p10 / 6.7.6.1-3 -/
theorem compat_sound (a b : Ty) (h : typecompatible a b = true) : Compat a b := compat_sound' a b h

/-- and conversely, on the modelled type language (prototyped functions, D3) -/
theorem compat_complete (a b : Ty) (h : Compat a b) : typecompatible a b = true := compat_complete' h

/-- the executable spec predicate used by the check is the relation -/
theorem spec_compatible_iff (a b : Ty) : compatible a b = true ↔ Compat a b := compatible_iff a b

/-- full-strength completeness: two ASTs that denote compatible C types — taking into account that
a qualified array type is an array of qualified elements (6.7.3p9, `Spec.normalize`) — are
model-compatible -/
def compat_complete_full : Prop :=
  ∀ a b : Ty, compatibleN a b = true → typecompatible a b = true

/-- `struct S { short a[2]; }; const struct S cs; const short (*p)[2] = &cs.a;` is rejected
("base types of pointer assignment must be compatible"): `&cs.a` is built as pointer-to-(const
array) while the declarator builds pointer-to-array-of-const, and `typecompatible` compares the
two node by node (XXX in `expr.c:decay`: "qualifiers should be applied to the element type") -/
theorem compat_complete_counterexample : ¬ compat_complete_full := by
  intro h
  have := h (.ptr { c := true } (.arr {} (.const 2) {} (.arith (.basic .short))))
    (.ptr {} (.arr { c := true } (.const 2) {} (.arith (.basic .short)))) (by decide)
  exact absurd this (by decide)

/-- on ASTs in normal form — what the declarator parser builds — it does hold -/
theorem compat_complete_partial (a b : Ty) (ha : normalize a = a) (hb : normalize b = b)
    (h : compatibleN a b = true) : typecompatible a b = true := by
  unfold compatibleN at h
  rw [ha, hb, spec_compatible_eq] at h
  exact h

example : normalize (.ptr {} (.arr { c := true } (.const 2) {} (.arith (.basic .short)))) =
    .ptr {} (.arr { c := true } (.const 2) {} (.arith (.basic .short))) := by decide

/-- an enumerated type is compatible with its underlying type (both ways), with no other basic
type, and with no other enumerated type -/
theorem enum_compat (i j : Nat) (b b' : Basic) :
    typecompatible (.arith (.enum i b)) (.arith (.basic b)) = true ∧
    typecompatible (.arith (.basic b)) (.arith (.enum i b)) = true ∧
    (b' ≠ b → typecompatible (.arith (.enum i b)) (.arith (.basic b')) = false) ∧
    (i ≠ j → typecompatible (.arith (.enum i b)) (.arith (.enum j b')) = false) := by
  refine ⟨?_, ?_, ?_, ?_⟩
  · cases b <;> simp [typecompatible, ATy.compat, ATy.enumOver, ATy.kind, Basic.kind]
  · cases b <;> simp [typecompatible, ATy.compat, ATy.enumOver, ATy.kind, Basic.kind]
  · intro h
    cases b <;> cases b' <;> first
      | (exact absurd rfl h)
      | simp [typecompatible, ATy.compat, ATy.enumOver, ATy.kind, Basic.kind]
  · intro h
    simp [typecompatible, ATy.compat, ATy.enumOver, ATy.kind, h]

/-- `typeadjust` is the 6.7.6.3p7-8 parameter adjustment -/
theorem typeadjust_correct (t : Ty) (tq : Qual) (h : t.isFunc = true → tq = Qual.none) :
    typeadjust t tq = some (adjustParam t tq) := by
  cases t <;> simp [typeadjust, adjustParam]
  exact h rfl

/-- array-to-pointer and function-to-pointer conversion (6.3.2.1p3-4) -/
theorem decay_correct (e : Operand) : (decay e).ty = decayTy e.ty e.qual := by
  cases h : e.ty <;> simp [decay, decayTy, h]

/-! ## 6. Operator result types (6.5.x) -/

/-- whenever C11 gives `l op r` the type `t`, `mkbinaryexpr` accepts the expression and gives it
exactly that type — for every operator, all arithmetic / pointer / array-decayed / function / void /
struct operand types, bit-field operands included (`OperandOk`: enum bases are integer types and
bit-field widths are legal) -/
theorem binop_type_correct (sc : Bool) (op : BinOp) (l r : Operand) (t : Ty)
    (ol : OperandOk l) (or' : OperandOk r) (h : binopOk sc op l r t = true) :
    binopType sc op l r = some t := by
  have hk := binop_ok sc op l r ol or' t h
  cases hb : binopType sc op l r with
  | none => simp [hb, okOptT] at hk
  | some t' =>
    have : binopOk sc op l r t' = true := by simpa [hb, okOptT] using hk
    rw [binopOk_unique sc op l r t t' h this]

/-- the Spec predicate determines the type -/
theorem binop_type_unique (sc : Bool) (op : BinOp) (l r : Operand) (t t' : Ty)
    (h : binopOk sc op l r t = true) (h' : binopOk sc op l r t' = true) : t = t' :=
  binopOk_unique sc op l r t t' h h'

example : OperandOk { ty := .arith (.basic .ushort), width := some 7 } := ⟨rfl, by decide⟩
example : binopType true .shl { ty := .arith (.basic .ushort) } { ty := .arith (.basic .ulong) } = some Ty.int := by
  decide
example : binopType true .sub { ty := .ptr {} Ty.int } { ty := .ptr { c := true } Ty.int } = some Ty.long := by
  decide

/-- 6.5.15: both arithmetic (usual arithmetic conversions, also when both have the same narrow
type), same struct/union, both void, pointer/null pointer constant, pointers to compatible types
(qualifiers merged), pointer to object and pointer to void: whenever C11 types `c ? l : r` (scalar
first operand, 6.5.15p2; fix 98b06a1), `condexpr` (non-constant condition) accepts it and gives it a type C11 allows -/
theorem cond_type_correct (sc : Bool) (c l r : Operand) (t : Ty) (hs : c.ty.isScalar = true)
    (hc : c.constval = none)
    (ol : OperandOk l) (or' : OperandOk r) (h : condOk sc l r t = true) :
    ∃ t', condType sc c l r = some t' ∧ condOk sc l r t' = true := by
  have hk := cond_ok sc c l r hs hc ol or' t h
  cases hb : condType sc c l r with
  | none => simp [hb, okOptT] at hk
  | some t' => exact ⟨t', rfl, by simpa [hb, okOptT] using hk⟩

example : OperandOk { ty := .arith (.enum 4 .llong) } := ⟨rfl, trivial⟩

/-- the regression of defect #21: `c ? s : s` with `short s` has type `int` -/
example : condType true { ty := Ty.int } { ty := .arith (.basic .short) } { ty := .arith (.basic .short) } = some Ty.int := by
  decide

/-- with a constant condition cproc returns the selected operand converted to the result type:
for arithmetic operands the type is the same -/
theorem cond_type_const_arith (sc : Bool) (c l r : Operand) (ol : OperandOk l) (or' : OperandOk r)
    (h1 : l.ty.isArith = true) (h2 : r.ty.isArith = true) :
    condType sc c l r = condType sc { c with constval := none } l r :=
  cond_const_arith sc c l r ol or' h1 h2

/-- 6.5.3.4p5: `sizeof`/`_Alignof` have type `size_t` = `unsigned long` -/
theorem sizeof_type (sc : Bool) (e o : Operand) (op : UnOp) (hop : op = .sizeofE ∨ op = .alignofE)
    (h : unaryOp sc op e = some o) : o.ty = Spec.sizeofType := by
  rcases hop with rfl | rfl <;>
    (cases hd : e.decayedFrom <;> simp [unaryOp, hd] at h <;>
      first | (obtain ⟨_, _, rfl⟩ := h; rfl) | (obtain ⟨_, _, _, rfl⟩ := h; rfl))

theorem sizeof_typename (t : Ty) (r : Ty) (h : Types.sizeofType t = some r) : r = Spec.sizeofType := by
  unfold Types.sizeofType at h
  split at h
  · simp at h
  · split at h
    · simp at h
    · cases h; rfl

/-- unary `+ - ~` on an integer operand have the promoted type (also for enumerated operands,
fix `3c7c8ce`) -/
theorem unary_arith_type (sc : Bool) (e : Operand) (a : ATy) (he : e.ty = .arith a) (hi : isIntegerTy a = true)
    (oe : OperandOk e) :
    (unaryOp sc .plus e).map (·.ty) = some (.arith (intPromote sc a e.width)) ∧
    (unaryOp sc .minus e).map (·.ty) = some (.arith (intPromote sc a e.width)) := by
  simp only [OperandOk, he] at oe
  have hp := typepromote_int sc a e.width oe.1 oe.2 hi
  have i1 : e.ty.isInt = true := isInt_of_isIntegerT _ (by simpa [isIntegerT, he] using hi)
  have i1' : (Ty.arith a).isInt = true := he ▸ i1
  constructor <;>
    simp [unaryOp, he, Ty.isArith, i1', exprpromote, exprconvert_ty_arith e a _ he, hp, rvalue]

/-- member access: the member's type, qualified by the union of the object's and the member's
qualifiers (6.5.2.3p3); an lvalue iff `->` or the object expression is one -/
theorem member_qualifiers (arrow : Bool) (e o : Operand) (mty : Ty) (mq : Qual) (bits : Option Nat)
    (hna : ∀ q l p b, mty ≠ .arr q l p b) (hnf : mty.isFunc = false)
    (h : memberType arrow e mty mq bits = some o) :
    o.ty = mty ∧
    o.qual = memberQual (if arrow then (match e.ty with | .ptr q _ => q | _ => {}) else e.qual) mq ∧
    o.lvalue = (arrow || e.lvalue) := by
  cases arrow <;> cases he : e.ty <;>
    simp [memberType, he, Ty.isStructUnion] at h <;>
    first
    | (rw [decay_id _ hna hnf] at h; subst h; simp [memberQual])
    | (obtain ⟨_, h⟩ := h; rw [decay_id _ hna hnf] at h; subst h; simp [memberQual])

/-- `*e` designates the referenced object or function with the qualifiers of the referenced type
(6.5.3.2p4), then decays (6.3.2.1).  (Before fix `3bfdead`, `*carr` for `const int carr[2]` lost
the `const`.) -/
theorem deref_correct (sc : Bool) (e : Operand) (q : Qual) (b : Ty) (he : e.ty = .ptr q b) :
    ∃ o, unaryOp sc .deref e = some o ∧ unaryOk sc .deref e o = true := by
  refine ⟨decay { ty := b, qual := q, lvalue := true }, by simp only [unaryOp, he], ?_⟩
  simp only [unaryOk, he]
  cases b <;> simp [decay, decayTy, Ty.isFunc, Qual.union]

/-! ## 7. Null pointer constants -/

/-- a cast of a null pointer constant is one iff the target is an integer type or the unqualified
`void *` (6.3.2.3p3).  (Before fix `8619181` `(const void *)0` was taken for one.) -/
theorem cast_nullconst_correct (t : Ty) (e o : Operand) (h : castType t e = some o)
    (hwf : ∀ a, t = .arith a → a.wf = true) : o.nullconst = castNullconst t e := by
  have e1 := isInt_eq_isIntegerT t hwf
  have e2 : t.isVoidPtr = (t == .ptr Qual.none .void) := by
    cases t <;> simp [Ty.isVoidPtr]
    rename_i q b
    cases b <;> simp [Ty.isVoidPtr, Qual.none]
    by_cases hq : q = {}
    · subst hq; rfl
    · have h1 : (q == ({} : Qual)) = false := by simpa using hq
      have h2 : (Ty.ptr q Ty.void == Ty.ptr {} Ty.void) = false := by
        simp only [beq_eq_false_iff_ne, ne_eq, Ty.ptr.injEq, and_true]; exact hq
      rw [h1, h2]
  unfold castType at h
  split at h
  · simp at h
  · split at h
    · simp at h
    · cases h
      simp only [castNullconst, e1, e2]

example : (castType (.ptr { c := true } .void) { ty := Ty.int, nullconst := true }).map (·.nullconst) = some false := by
  decide

/-! ## 8. Enumerations (6.7.2.2) -/

/-- the underlying type `tagspec` chooses can represent every enumerator (`min` = magnitude of the
most negative one, `max` = the largest) -/
theorem enum_base_represents (sc : Bool) (min max : Nat) (b : Basic) (hmin : min ≤ 2 ^ 63) (hmax : max < 2 ^ 64)
    (h : enumBase sc min max = some b) : enumBaseOk sc b (-(min : Int)) (max : Int) := by
  unfold enumBase at h
  split at h
  · rename_i hc
    cases h
    by_cases h0 : min = 0
    · subst h0; cases sc <;> simp [enumBaseOk, inRange, rangeB, rangeBits, isSigned, bits] <;> omega
    · cases sc <;> simp [h0, enumBaseOk, inRange, rangeB, rangeBits, isSigned, bits] <;> omega
  · have hp := List.find?_some h
    have hm := List.mem_of_find?_eq_some h
    simp only [Bool.and_eq_true] at hp
    have hd1 : decode max false = (max : Int) := by simp [decode]
    have hd2 : decode ((2 ^ 64 - min) % 2 ^ 64) true = -(min : Int) := by
      unfold decode
      by_cases h0 : min = 0
      · subst h0; simp
      · have : (2 ^ 64 - min) % 2 ^ 64 = 2 ^ 64 - min := Nat.mod_eq_of_lt (by omega)
        rw [this]
        have : 2 ^ 64 - min ≥ 2 ^ 63 := by omega
        simp only [this, and_self, if_true]
        omega
    have hb : b.isInt = true ∧ b ≠ .bool := by
      simp only [enumTypes, List.map] at hm
      split at hm <;> simp at hm <;> rcases hm with rfl | rfl | rfl <;> exact ⟨rfl, by decide⟩
    have r1 := hasint_basic sc b hb.1 hb.2 max hmax false
    have r2 := hasint_basic sc b hb.1 hb.2 ((2 ^ 64 - min) % 2 ^ 64) (Nat.mod_lt _ (by decide)) true
    rw [hp.1, hd1] at r1
    rw [hp.2, hd2] at r2
    exact ⟨of_decide_eq_true r2.symm, of_decide_eq_true r1.symm⟩

/-- a C11 enumeration (no fixed underlying type) never gets `long long`/`unsigned long long`:
`long` has the same range and comes first -/
theorem enum_base_c11 (sc : Bool) (min max : Nat) (b : Basic) (h : enumBase sc min max = some b) :
    b = .uint ∨ b = .int ∨ b = .ulong ∨ b = .long := by
  unfold enumBase at h
  split at h
  · cases h; split <;> simp
  · have e1 : typehasint sc (.basic .llong) = typehasint sc (.basic .long) := rfl
    have e2 : typehasint sc (.basic .ullong) = typehasint sc (.basic .ulong) := rfl
    simp only [enumTypes, List.map] at h
    split at h <;> simp only [List.find?, e1, e2] at h <;>
      (repeat' split at h) <;> first | (cases h; simp; done) | simp_all

example : enumBase true 1 5 = some .int ∧ enumBase true 0 5 = some .uint ∧
    enumBase true 0 (2 ^ 32) = some .ulong ∧ enumBase true 1 (2 ^ 32) = some .long := by decide

end CprocVerif.C05

import CprocVerif.Lemmas.Tree

/-!
# C15 — a `switch` transfers control to exactly the matching case

Property theorems about the model of `/repo/tree.c` (`treeinsert`, `balance`, `rot`) and of the
comparison ladder emitted by `/repo/qbe.c:casesearch` (`Model/Tree.lean`).  No theorem bounds the
number of keys.
-/

namespace CprocVerif.C15
open CprocVerif.Tree CprocVerif.Tree.T

/-! ## 1–4: `treeinsert` keeps the invariants, inserts exactly the key, detects duplicates -/

/-- Stored height = real height at every node and |Δ| ≤ 1 are preserved — although ancestors
above the first height-preserving node are not revisited. -/
theorem insert_avl {t : T} {k : Nat} (h : Avl t) : Avl (insert t k) := (ins_spec k t h).1

theorem insert_bst {t : T} {k : Nat} (h : Bst t) : Bst (insert t k) := ins_bst k t h

/-- `Bst` is the same as "the in-order key list is strictly increasing". -/
theorem bst_iff_sorted (t : T) : Bst t ↔ (toList t).Pairwise (· < ·) := Tree.bst_iff_sorted t

theorem insert_sorted {t : T} {k : Nat} (h : Bst t) : (toList (insert t k)).Pairwise (· < ·) :=
  (Tree.bst_iff_sorted _).1 (ins_bst k t h)

/-- (The hypothesis is not needed: `mem_ins` holds for every tree.) -/
theorem insert_mem {t : T} {k x : Nat} (_h : Bst t) :
    x ∈ toList (insert t k) ↔ x = k ∨ x ∈ toList t := mem_ins k x t

/-- The `new` flag that `switchcase` tests is exact duplicate detection (on 64-bit keys). -/
theorem insert_new_iff_absent {t : T} {k : Nat} (h : Bst t) :
    (ins t k).2.2 = true ↔ k ∉ toList t := ins_new k t h

theorem insert_dup_unchanged {t : T} {k : Nat} (h : Bst t) (hk : k ∈ toList t) :
    insert t k = t := by
  show (ins t k).1 = t
  rw [ins_dup k t h hk]

/-! ## 5: every tree `switchcase` can build -/

theorem reachable_inv (ks : List Nat) : Avl (ks.foldl insert nil) ∧ Bst (ks.foldl insert nil) :=
  foldl_inv ks nil trivial trivial

theorem reachable_mem {ks : List Nat} {x : Nat} : x ∈ toList (ks.foldl insert nil) ↔ x ∈ ks := by
  simp [foldl_mem, toList]

/-! ## 6: height bounds (path array `a[MAXH]`, ladder depth) -/

theorem avl_fib {t : T} (h : Avl t) : fib (rh t + 2) ≤ size t + 1 := avl_fib_aux t h

theorem fib_rec (n : Nat) : fib 0 = 0 ∧ fib 1 = 1 ∧ fib (n + 2) = fib n + fib (n + 1) :=
  ⟨rfl, rfl, fib_add_two n⟩

theorem fib_93_le_lt_fib_94 : fib 93 ≤ 2 ^ 64 ∧ 2 ^ 64 < fib 94 := ⟨fib_93, fib_94⟩

theorem height_bound {t : T} (h : Avl t) (hs : size t < 2 ^ 64) : rh t ≤ 91 := rh_le_91 t h hs

/-- `treeinsert` uses one slot of `a[MAXH]` (`MAXH = 96`) for the root pointer plus one per
visited node, i.e. at most `rh t + 1`. -/
theorem path_fits {t : T} (h : Avl t) (hs : size t < 2 ^ 64) : rh t + 1 < 96 := by
  have := rh_le_91 t h hs; omega

/-- Ladder depth is logarithmic in the number of cases: `rh t ≤ 2·log₂(size t + 1) + 1`. -/
theorem depth_log {t : T} (h : Avl t) : 2 ^ (rh t / 2) ≤ size t + 1 :=
  Nat.le_trans (two_pow_le_fib _) (avl_fib_aux t h)

/-! ## 7–8: the ladder is a lookup -/

theorem search_correct_l {t : T} {v : Nat} (h : Bst t) (hk : ∀ k ∈ toList t, k < 2 ^ 64) :
    search false t v = (if v % 2 ^ 64 ∈ toList t then some (v % 2 ^ 64) else none) := by
  have := search_find false v t h (monoMod_of_lt hk)
  rw [this]
  exact find?_mod_eq_ite (2 ^ 64) (v % 2 ^ 64) (toList t) hk

/-- Under the canonical-keys hypothesis the class-`w` ladder finds the first — and by
`monoLow_unique` the only — key whose low 32 bits equal those of `v`. -/
theorem search_correct_w {t : T} {v : Nat} (h : Bst t) (hm : MonoLow t) :
    search true t v = (toList t).find? (fun k => k % 2 ^ 32 == v % 2 ^ 32) :=
  search_find true v t h hm

theorem monoLow_unique {t : T} (hm : MonoLow t) {a b : Nat} (ha : a ∈ toList t)
    (hb : b ∈ toList t) (e : a % 2 ^ 32 = b % 2 ^ 32) : a = b :=
  monoMod_inj (m := 2 ^ 32) hm ha hb e

theorem search_w_some_iff {t : T} {v k : Nat} (h : Bst t) (hm : MonoLow t) :
    search true t v = some k ↔ k ∈ toList t ∧ k % 2 ^ 32 = v % 2 ^ 32 := by
  rw [search_correct_w h hm, find?_some_iff_of_inj]
  · simp
  · intro a ha b hb pa pb
    simp only [beq_iff_eq] at pa pb
    exact monoLow_unique hm ha hb (pa.trans pb.symm)

theorem search_w_none_iff {t : T} {v : Nat} (h : Bst t) (hm : MonoLow t) :
    search true t v = none ↔ ∀ k ∈ toList t, k % 2 ^ 32 ≠ v % 2 ^ 32 := by
  rw [search_correct_w h hm, List.find?_eq_none]
  simp

/-- `unsigned` controlling type: keys are zero-extended 32-bit values. -/
theorem monoLow_of_zext {t : T} (h : ∀ k ∈ toList t, k < 2 ^ 32) : MonoLow t :=
  monoMod_of_lt (m := 2 ^ 32) h

/-- `int` controlling type: keys are sign-extended 32-bit values. -/
theorem monoLow_of_sext {t : T}
    (h : ∀ k ∈ toList t, k < 2 ^ 31 ∨ (2 ^ 64 - 2 ^ 31 ≤ k ∧ k < 2 ^ 64)) : MonoLow t := by
  intro a ha b hb
  have h1 := h a ha
  have h2 := h b hb
  omega

/-! ## 9: without canonical keys the ladder is wrong (real defect) -/

/-- `switch (x /* 32-bit */) { case INT_MIN: … case 0x90000000: … }`: `label()` does not convert
the case constants to the promoted controlling type, so the tree holds `2^64 - 2^31` and
`0x90000000`.  For `x` with low 32 bits `0x90000000` the ladder compares (unsigned, 32 bits)
against `0x80000000` at the root, goes right and reaches the default label, although the key
`0x90000000` is in the tree. -/
theorem search_w_noncanonical_counterexample :
    let t := insert (insert nil (2 ^ 64 - 2 ^ 31)) 0x90000000
    Avl t ∧ Bst t ∧ ¬ MonoLow t ∧ 0x90000000 ∈ toList t ∧ search true t 0x90000000 = none := by
  decide

/-- Companion defect: `case 0:` and `case 0x100000000:` in a 32-bit switch are different 64-bit
keys, so no duplicate is reported, yet only one of them is reachable. -/
theorem new_noncanonical_counterexample :
    let t := insert nil 0
    (ins t 0x100000000).2.2 = true ∧
      search true (insert t 0x100000000) 0x100000000 = some 0 := by
  decide

/-! ## 10: with `switchcase`'s conversion of case constants every reachable tree is canonical -/

theorem caseKey_canonical_unsigned {i : Nat} : caseKey 4 false i < 2 ^ 32 := caseKey_four_unsigned i

theorem caseKey_canonical_signed {i : Nat} :
    caseKey 4 true i < 2 ^ 31 ∨ (2 ^ 64 - 2 ^ 31 ≤ caseKey 4 true i ∧ caseKey 4 true i < 2 ^ 64) :=
  caseKey_four_signed i

theorem caseKey_low {s : Bool} {i : Nat} : caseKey 4 s i % 2 ^ 32 = i % 2 ^ 32 :=
  caseKey_four_low s i

/-- End to end for a 4-byte controlling type of either signedness and ANY list of case
constants: the ladder reaches the (converted) case whose low 32 bits equal those of `v`, and the
default label exactly when no constant matches. -/
theorem switch_w_correct (s : Bool) (cs : List Nat) (v k : Nat) :
    let t := (cs.map (caseKey 4 s)).foldl insert nil
    (search true t v = some k ↔ k ∈ cs.map (caseKey 4 s) ∧ k % 2 ^ 32 = v % 2 ^ 32) ∧
    (search true t v = none ↔ ∀ c ∈ cs, c % 2 ^ 32 ≠ v % 2 ^ 32) := by
  intro t
  have hb : Bst t := (reachable_inv _).2
  have hm : MonoLow t := monoLow_caseKey s cs
  refine ⟨?_, ?_⟩
  · rw [search_w_some_iff hb hm, reachable_mem]
  · rw [search_w_none_iff hb hm]
    constructor
    · intro h c hc
      have := h (caseKey 4 s c) (reachable_mem.2 (List.mem_map_of_mem hc))
      rwa [caseKey_four_low] at this
    · intro h k hk
      obtain ⟨c, hc, rfl⟩ := List.mem_map.1 (reachable_mem.1 hk)
      rw [caseKey_four_low]; exact h c hc

/-- The same for an 8-byte controlling type (constants are used modulo 2^64, i.e. unchanged). -/
theorem switch_l_correct (s : Bool) (cs : List Nat) (v k : Nat) :
    let t := (cs.map (caseKey 8 s)).foldl insert nil
    (search false t v = some k ↔ k ∈ cs.map (caseKey 8 s) ∧ k = v % 2 ^ 64) ∧
    (search false t v = none ↔ ∀ c ∈ cs, c % 2 ^ 64 ≠ v % 2 ^ 64) := by
  intro t
  have hb : Bst t := (reachable_inv _).2
  have hk : ∀ k ∈ toList t, k < 2 ^ 64 := by
    intro k hk
    obtain ⟨c, _, rfl⟩ := List.mem_map.1 (reachable_mem.1 hk)
    rw [caseKey_eight]; omega
  rw [search_correct_l hb hk]
  have hmem : v % 2 ^ 64 ∈ toList t ↔ ∃ c ∈ cs, c % 2 ^ 64 = v % 2 ^ 64 := by
    rw [reachable_mem, List.mem_map]; rfl
  refine ⟨?_, ?_⟩
  · split
    · rename_i h
      constructor
      · intro e; cases e; exact ⟨reachable_mem.1 h, rfl⟩
      · rintro ⟨_, rfl⟩; rfl
    · rename_i h
      constructor
      · intro e; cases e
      · rintro ⟨hk', rfl⟩; exact absurd (reachable_mem.2 hk') h
  · split
    · rename_i h
      obtain ⟨c, hc, e⟩ := hmem.1 h
      constructor
      · intro e'; cases e'
      · intro h'; exact absurd e (h' c hc)
    · rename_i h
      constructor
      · intro _ c hc e; exact h (hmem.2 ⟨c, hc, e⟩)
      · intro _; rfl

/-- `multiple 'case' labels with same value` is reported exactly for constants that are equal
after conversion to the controlling type (compare `new_noncanonical_counterexample`). -/
theorem switch_dup_detected (s : Bool) (cs : List Nat) (c : Nat) :
    (ins ((cs.map (caseKey 4 s)).foldl insert nil) (caseKey 4 s c)).2.2 = false ↔
      ∃ c' ∈ cs, c' % 2 ^ 32 = c % 2 ^ 32 := by
  have hb : Bst ((cs.map (caseKey 4 s)).foldl insert nil) := (reachable_inv _).2
  have h := insert_new_iff_absent (k := caseKey 4 s c) hb
  rw [reachable_mem, List.mem_map] at h
  constructor
  · intro hf
    have : ¬ ¬ ∃ a, a ∈ cs ∧ caseKey 4 s a = caseKey 4 s c := fun hn => by
      rw [h.2 hn] at hf; cases hf
    obtain ⟨a, ha, e⟩ := Classical.not_not.1 this
    exact ⟨a, ha, (caseKey_four_eq_iff s a c).1 e⟩
  · rintro ⟨a, ha, e⟩
    cases hn : (ins ((cs.map (caseKey 4 s)).foldl insert nil) (caseKey 4 s c)).2.2 with
    | false => rfl
    | true => exact absurd ⟨a, ha, (caseKey_four_eq_iff s a c).2 e⟩ (h.1 hn)

/-- With the conversion the two defect witnesses above disappear. -/
example : search true ([2 ^ 64 - 2 ^ 31, 0x90000000].map (caseKey 4 true) |>.foldl insert nil)
    0x90000000 = some (2 ^ 64 - 0x70000000) := by decide
example : (ins ([0].map (caseKey 4 true) |>.foldl insert nil) (caseKey 4 true 0x100000000)).2.2
    = false := by decide
example : caseKey 4 true 0xFFFFFFFF = 2 ^ 64 - 1 ∧ caseKey 4 false (2 ^ 64 - 1) = 0xFFFFFFFF ∧
    caseKey 8 true (2 ^ 64 - 1) = 2 ^ 64 - 1 := by decide

/-! ## Non-vacuity: concrete trees (≥ 5 keys, with rotations) meeting the hypotheses -/

/-- `10,20,30` is a single rotation; inserting `25` into `10,20,30,40,50` is a double rotation;
`exTree` is that tree plus `5`. -/
example : [10, 20, 30].foldl insert nil = node 20 2 (node 10 1 nil nil) (node 30 1 nil nil) := by
  decide
example : [10, 20, 30, 40, 50].foldl insert nil =
    node 20 3 (node 10 1 nil nil) (node 40 2 (node 30 1 nil nil) (node 50 1 nil nil)) := by decide
example : [10, 20, 30, 40, 50, 25].foldl insert nil =
    node 30 3 (node 20 2 (node 10 1 nil nil) (node 25 1 nil nil)) (node 40 2 nil (node 50 1 nil nil)) := by
  decide
example : exTree =
    node 30 4 (node 20 3 (node 10 2 (node 5 1 nil nil) nil) (node 25 1 nil nil))
      (node 40 2 nil (node 50 1 nil nil)) := by decide
example : toList exTree = [5, 10, 20, 25, 30, 40, 50] := by decide

-- insert_avl / avl_fib / height_bound / path_fits / depth_log
example : Avl exTree ∧ size exTree < 2 ^ 64 := by decide
-- insert_bst / insert_sorted / insert_mem / insert_new_iff_absent
example : Bst exTree := by decide
-- insert_dup_unchanged
example : Bst exTree ∧ 25 ∈ toList exTree := by decide
example : (ins exTree 25).2.2 = false ∧ (ins exTree 26).2.2 = true := by decide
-- search_correct_l
example : Bst exTreeL ∧ (∀ k ∈ toList exTreeL, k < 2 ^ 64) ∧ size exTreeL = 7 := by decide
example : search false exTreeL (2 ^ 64 + 7) = some 7 ∧ search false exTreeL 8 = none := by decide
-- search_correct_w, monoLow_of_sext (int), monoLow_of_zext (unsigned)
example : Bst exTreeSext ∧ MonoLow exTreeSext ∧ size exTreeSext = 7 := by decide
example : ∀ k ∈ toList exTreeSext, k < 2 ^ 31 ∨ (2 ^ 64 - 2 ^ 31 ≤ k ∧ k < 2 ^ 64) := by decide
example : Bst exTreeZext ∧ MonoLow exTreeZext ∧ size exTreeZext = 7 := by decide
example : ∀ k ∈ toList exTreeZext, k < 2 ^ 32 := by decide
/-- `x = -7` held in a 32-bit temporary (upper bits arbitrary) reaches `case -7`. -/
example : search true exTreeSext (2 ^ 32 - 7) = some (2 ^ 64 - 7) ∧
    search true exTreeSext (5 * 2 ^ 32 + 6) = none := by decide

end CprocVerif.C15

import CprocVerif.Lemmas.AbiDescClasses

/-!
# C08 — calls interoperate with code built by the platform compiler (descriptor faithfulness)

Model: `Model/AbiDesc.lean` (`qbe.c`: `qbetype`, `emitclass`, `emittype`, `emitfunc`,
`funcexpr(EXPRCALL)`, `emitinst(ICALL)`, `IVAARG`; `type.c:typeadjust`; `expr.c`: call arguments,
`exprpromote`; `targ.c`).  Spec: `Spec/QbeLayout.lean` (QBE's documented reading of a `type`
definition; the flattened C type under the C06 layout spec `Spec/Abi.lean`; ABI classes incl. the
sub-word classes; 6.5.2.2p6–7 via `Spec/Conv.lean`; the psABI `va_list` types).

The theorems quantify over **all** struct/union types of the member language (unbounded nesting,
member count, array lengths).  Several full-strength statements are false on the current tree
(recorded findings of C08): each is kept as `def …_full : Prop`, refuted by a concrete witness, and
proved under the decidable hypothesis `good` (`Lemmas/AbiDesc.lean`), which excludes exactly the
classes `QbeLayout.classes` names (`good_excludes_classes`).  The dynamic half of the property
(mixed executables) is not decided: there is no QBE backend in the sandbox.
-/

namespace CprocVerif.C08
open CprocVerif.Layout CprocVerif.Abi CprocVerif.AbiDesc CprocVerif.QbeLayout
open CprocVerif.Types (ATy Basic typepromote)

/-! ## Aggregate descriptors -/

/-- **Full strength**: for every struct/union type the compiler accepts, QBE's reading of the
emitted definition has the size and alignment of the C type … -/
def desc_size_align_full : Prop :=
  ∀ (T : Abi.Target) (u p : Bool) (fs : AFields) (q : QTy), WfType (erase (.su u p fs)) →
    emittype (.su u p fs) = some q →
    qbeSize q = (Abi.tinfo T (erase (.su u p fs))).size ∧ qbeAlign q = (Abi.tinfo T (erase (.su u p fs))).align

/-- … and the same scalar fields at the same offsets with the same kind, up to merging of the
integer fields of one bit-field storage unit. -/
def desc_fields_full : Prop :=
  ∀ (T : Abi.Target) (u p : Bool) (fs : AFields) (q : QTy), WfType (erase (.su u p fs)) →
    emittype (.su u p fs) = some q → FieldsEquiv (flatten q) (flattenC T false (.su u p fs))

def tInt' : AType := .sc (.arith (.basic .int))
def tChar : AType := .sc (.arith (.basic .char))
def tShort : AType := .sc (.arith (.basic .short))
def tLong : AType := .sc (.arith (.basic .long))
def tLLong : AType := .sc (.arith (.basic .llong))
def tFloat : AType := .sc (.arith (.basic .float))
def tDouble : AType := .sc (.arith (.basic .double))
def mem (n : String) (t : AType) (rest : AFields) : AFields := .cons (some n) t 0 none rest
def bfm (n : String) (t : AType) (w : Nat) (rest : AFields) : AFields := .cons (some n) t 0 (some w) rest

/-- what a witness shows: accepted by the compiler, described, and QBE's size differs from `sizeof` -/
def SizeRefuted (T : Abi.Target) (S : AType) : Prop :=
  WfType (erase S) ∧ (emittype S).isSome = true ∧ (emittype S).map qbeSize ≠ some (Abi.tinfo T (erase S)).size

/-- `struct A {int a:3; char c[7];}` is described as `{ w }`: 4 bytes for 8
(finding `bitfield-unit-skips-member`) -/
def skipsWitness : AType := .su false false (bfm "a" tInt' 3 (mem "c" (.array tChar (some 7)) .nil))

theorem skips_refuted : SizeRefuted x86_64 skipsWitness := by
  refine ⟨?_, ?_⟩
  · unfold skipsWitness bfm mem tInt' tChar
    simp only [erase, eraseF, WfType, WfFields, and_true]
    decide
  · exact ⟨by decide, by decide⟩

theorem desc_size_align_counterexample : ¬ desc_size_align_full := by
  intro h
  obtain ⟨hw, hs, hne⟩ := skips_refuted
  cases hq : emittype skipsWitness with
  | none => rw [hq] at hs; cases hs
  | some q =>
    apply hne
    rw [hq, Option.map_some, (h x86_64 false false _ q hw hq).1]
    rfl

/-- `struct B {int a:3; char b:3;}` is `{ b }`: 1/1 for 4/4 (`bitfield-smaller-unit-merge`) -/
def smallerWitness : AType := .su false false (bfm "a" tInt' 3 (bfm "b" tChar 3 .nil))

theorem smaller_refuted : SizeRefuted x86_64 smallerWitness := by
  refine ⟨?_, ?_⟩
  · unfold smallerWitness bfm tInt' tChar
    simp only [erase, eraseF, WfType, WfFields, and_true]
    decide
  · exact ⟨by decide, by decide⟩

/-- `struct S {long long a; float b[3]; unsigned char c; unsigned long d:5; unsigned short e;}` is
`{ l, s 3, l }`: 32 bytes for 24 (`bitfield-unit-overlap-descriptor`) -/
def overlapWitness : AType :=
  .su false false (mem "a" tLLong (mem "b" (.array tFloat (some 3)) (mem "c" (.sc (.arith (.basic .uchar)))
    (bfm "d" (.sc (.arith (.basic .ulong))) 5 (mem "e" (.sc (.arith (.basic .ushort))) .nil)))))

theorem overlap_refuted : SizeRefuted x86_64 overlapWitness := by
  refine ⟨?_, ?_⟩
  · unfold overlapWitness bfm mem tLLong tFloat
    simp only [erase, eraseF, WfType, WfFields, and_true]
    decide
  · exact ⟨by decide, by decide⟩

/-- `struct Z {char a; int :0; char b;}` is `{ b, b }`: 2 bytes for 5 (`unnamed-bitfield-gap-descriptor`) -/
def unnamedWitness : AType :=
  .su false false (mem "a" tChar (.cons none tInt' 0 (some 0) (mem "b" tChar .nil)))

theorem unnamed_refuted : SizeRefuted x86_64 unnamedWitness := by
  refine ⟨?_, ?_⟩
  · unfold unnamedWitness mem tInt' tChar
    simp only [erase, eraseF, WfType, WfFields, and_true]
    decide
  · exact ⟨by decide, by decide⟩

/-- `struct F {int n; int a[];}` is `{ w, w }`: 8 bytes for 4 (`flexible-array-descriptor`) -/
def flexWitness : AType := .su false false (mem "n" tInt' (mem "a" (.array tInt' none) .nil))

theorem flex_refuted : SizeRefuted x86_64 flexWitness := by
  refine ⟨?_, ?_⟩
  · unfold flexWitness mem tInt'
    simp only [erase, eraseF, WfType, WfFields, and_true]
    decide
  · exact ⟨by decide, by decide⟩

/-- `struct __attribute__((packed)) P {char a; long b; short c;}` is `{ b, l, h }`: 24 bytes for 11
(`packed-overaligned-descriptor`) -/
def packedWitness : AType := .su false true (mem "a" tChar (mem "b" tLong (mem "c" tShort .nil)))

theorem packed_refuted : SizeRefuted x86_64 packedWitness := by
  refine ⟨?_, ?_⟩
  · unfold packedWitness mem tChar tLong tShort
    simp only [erase, eraseF, WfType, WfFields, and_true]
    decide
  · exact ⟨by decide, by decide⟩

/-- `struct O {char a; _Alignas(16) int b;}` is `{ b, w }`: 8 bytes for 32 (same finding) -/
def overalignedWitness : AType := .su false false (mem "a" tChar (.cons (some "b") tInt' 16 none .nil))

theorem overaligned_refuted : SizeRefuted x86_64 overalignedWitness := by
  refine ⟨?_, ?_⟩
  · unfold overalignedWitness mem tChar tInt'
    simp only [erase, eraseF, WfType, WfFields, and_true]
    decide
  · exact ⟨by decide, by decide⟩

/-- x86-64: `struct W {__builtin_va_list ap; int x;}` is `{ :.2, w }` with `:.2 = { }`: 4 bytes for 32
(`valist-member-descriptor`) -/
def valistWitness : AType :=
  .su false false (mem "ap" (.array (.blob 24 8 false) (some 1)) (mem "x" tInt' .nil))

theorem valist_witness_is_valist : valist "x86_64-sysv" = some (.array (.blob 24 8 false) (some 1)) := by rfl

theorem valist_refuted : SizeRefuted x86_64 valistWitness := by
  refine ⟨?_, ?_⟩
  · unfold valistWitness mem tInt'
    simp only [erase, eraseF, WfType, WfFields, and_true]
    decide
  · exact ⟨by decide, by decide⟩

/-- `struct {long long m:21; float f;}` is `{ l }`: the size and alignment are right, the floating
field is gone (a member inside a bit-field's storage unit is dropped; RISC-V passes the C struct in
an FPR and a GPR) -/
def floatInUnitWitness : AType := .su false false (bfm "m" tLLong 21 (mem "f" tFloat .nil))

theorem desc_fields_counterexample : ¬ desc_fields_full := by
  intro h
  have hw : WfType (erase floatInUnitWitness) := by
    unfold floatInUnitWitness bfm mem tLLong tFloat
    simp only [erase, eraseF, WfType, WfFields, and_true]
    decide
  cases hq : emittype floatInUnitWitness with
  | none => have : (emittype floatInUnitWitness).isSome = true := by decide
            rw [hq] at this; cases this
  | some q =>
    have h1 := (h x86_64 false false _ q hw hq).1
    have h2 : (emittype floatInUnitWitness).map (fun q => nonInt (flatten q)) =
        some (nonInt (flattenC x86_64 false floatInUnitWitness)) := by rw [hq, Option.map_some, h1]; rfl
    revert h2
    decide

/-- **Size and alignment, partial**: for every `good` struct/union type and every target, the
emitted definition exists and QBE gives it the size and alignment of the C type. -/
theorem desc_size_align_partial (T : Abi.Target) {u p : Bool} {fs : AFields} (h : good (.su u p fs) = true) :
    ∃ q, emittype (.su u p fs) = some q ∧
      qbeSize q = (Abi.tinfo T (erase (.su u p fs))).size ∧
      qbeAlign q = (Abi.tinfo T (erase (.su u p fs))).align := by
  obtain ⟨q, q1, q2, _⟩ := (pt _ h).desc
  refine ⟨q, q1, ?_, ?_⟩
  · rw [tinfo_target T _ h]; simp only [qbeSize, q2]; rfl
  · rw [tinfo_target T _ h]; simp only [qbeAlign, q2]; rfl

/-- **Fields, partial**: … and flattening the definition gives exactly the scalar fields of the C
type (bit-fields of one storage unit as one integer field), hence the same floating fields and
the same integer-covered bytes as the C type with every bit-field counted separately. -/
theorem desc_fields_partial (T : Abi.Target) {u p : Bool} {fs : AFields} (h : good (.su u p fs) = true) :
    ∃ q, emittype (.su u p fs) = some q ∧ flatten q = flattenC T true (.su u p fs) ∧
      FieldsEquiv (flatten q) (flattenC T false (.su u p fs)) := by
  obtain ⟨q, q1, q2, _⟩ := (pt _ h).desc
  have e : flatten q = flattenC T true (.su u p fs) := by
    rw [flattenC_target T true _ h]; simp only [flatten, q2]; rfl
  exact ⟨q, q1, e, by rw [e]; exact flattenC_merge T _⟩

/-- Merging is harmless for every type (a fact about the spec alone). -/
theorem merge_preserves_fields (T : Abi.Target) (t : AType) :
    FieldsEquiv (flattenC T true t) (flattenC T false t) := flattenC_merge T t

/-- Array members `T n`: the element count printed is the number of innermost elements, the
description is that of the innermost element type. -/
theorem desc_array_member {t : AType} (h : good t = true) :
    emittype t = emittype (stripArr t) ∧
    (ti t).size = cnt t * (ti (stripArr t)).size ∧
    ∀ mg, flattenC x86_64 mg t = rep (cnt t) (ti (stripArr t)).size (flattenC x86_64 mg (stripArr t)) :=
  let af := arrFacts t h (pt t h).complete
  ⟨emittype_strip t, af.size, af.flat⟩

/-- `good` excludes every class the correspondence run treats as a recorded finding. -/
theorem good_excludes_classes (T : Abi.Target) {t : AType} (h : good t = true) : classes T t = [] :=
  classes_good T t h

/-- the compiler accepts every `good` type (no spurious `error`) -/
theorem good_accepted {t : AType} (h : good t = true) : WfType (erase t) := (pt t h).wf

/-! ## Signatures and call sites -/

/-- **Marker position**: in a call through a variadic function type the `...` marker follows exactly
the arguments for the named parameters (also when there is no variable argument: `68737d2`). -/
theorem vararg_marker_pos (sc : Bool) (f : FuncTy) (args : List AType) (c : CallSite)
    (hv : f.variadic = true) (h : emitcall sc f args = some c) :
    ∃ cs : List Cls, cs.length = args.length ∧ f.params.length ≤ args.length ∧
      c.args = (cs.take f.params.length).map some ++ none :: (cs.drop f.params.length).map some := by
  unfold emitcall at h
  cases ha : argTypes sc f.adjusted f.variadic args with
  | none => simp [ha] at h
  | some ts =>
    obtain ⟨e, hle, _⟩ := argTypes_eq sc _ _ _ _ ha
    have hlen : f.adjusted.length = f.params.length := by simp [FuncTy.adjusted]
    cases hc : optMapM classOf ts with
    | none => simp [ha, hc] at h
    | some cs =>
      have hl := optMapM_length _ _ _ hc
      have htl : ts.length = args.length := by
        rw [e]; simp only [List.length_append, List.length_map, List.length_drop]; omega
      have hins : callInsts f.variadic f.params.length 0 cs =
          (cs.take f.params.length).map some ++ none :: (cs.drop f.params.length).map some := by
        rw [hv]
        have := callInsts_marker f.params.length cs 0 (Nat.zero_le _) (by omega)
        simpa using this
      refine ⟨cs, by omega, by omega, ?_⟩
      simp only [ha, hc] at h
      cases hr : f.ret with
      | none => simp only [hr, Option.some.injEq] at h; rw [← h]; exact hins
      | some r =>
        simp only [hr, Option.map_eq_some_iff] at h
        obtain ⟨_, _, rfl⟩ := h
        exact hins

/-- C23 `T f(...)`: a variadic function type **without named parameters** (called directly or
through a `T (*)(...)` pointer — only the type matters): the marker is the first thing in the
argument list, also when the list is otherwise empty. -/
theorem vararg_marker_first (sc : Bool) (f : FuncTy) (args : List AType) (c : CallSite)
    (hv : f.variadic = true) (hp : f.params = []) (h : emitcall sc f args = some c) :
    ∃ cs : List Cls, cs.length = args.length ∧ c.args = none :: cs.map some := by
  obtain ⟨cs, h1, _, h3⟩ := vararg_marker_pos sc f args c hv h
  refine ⟨cs, h1, ?_⟩
  rw [h3, hp]
  simp

/-- a call through a non-variadic type has no marker -/
theorem no_marker_without_vararg (sc : Bool) (f : FuncTy) (args : List AType) (c : CallSite)
    (hv : f.variadic = false) (h : emitcall sc f args = some c) : none ∉ c.args := by
  unfold emitcall at h
  rw [hv] at h
  cases ha : argTypes sc f.adjusted false args with
  | none => simp [ha] at h
  | some ts =>
    cases hc : optMapM classOf ts with
    | none => simp [ha, hc] at h
    | some cs =>
      simp only [ha, hc, callInsts_novararg] at h
      cases hr : f.ret with
      | none =>
        simp only [hr, Option.some.injEq] at h
        rw [← h]; simp
      | some r =>
        simp only [hr, Option.map_eq_some_iff] at h
        obtain ⟨_, _, rfl⟩ := h
        simp

/-- **Promotions** (6.5.2.2p6–7): the arguments of a call are converted to the (adjusted) parameter
types; those after the last parameter of a variadic function undergo the default argument
promotions (`Spec/Conv.lean`: integer promotions, `float → double`) after array decay. -/
theorem promotion_of_variadic_args (sc : Bool) (ps args ts : List AType) (v : Bool)
    (hwf : ∀ a, .sc (.arith a) ∈ args → a.wf = true) (h : argTypes sc ps v args = some ts) :
    ts = ps ++ (args.drop ps.length).map (fun a => defaultPromote sc (AbiDesc.decay a)) := by
  rw [(argTypes_eq sc ps v args ts h).1]
  congr 1
  apply List.map_congr_left
  intro a ha
  apply promoteArg_default
  intro x hx
  apply hwf x
  have ha' := List.mem_of_mem_drop ha
  cases a with
  | sc s => simp only [AbiDesc.decay] at hx; rw [hx] at ha'; exact ha'
  | array e n => simp [AbiDesc.decay] at hx
  | su u p fs => simp [AbiDesc.decay] at hx
  | blob s a d => simp [AbiDesc.decay] at hx

/-- a promoted arithmetic argument has the class of its promoted type: never narrower than a word,
never `s` -/
theorem promoted_arg_class (sc : Bool) (a : ATy) (hwf : a.wf = true) (c : Cls)
    (h : classOf (promoteArg sc (.sc (.arith a))) = some c) :
    abiClass sc emittype (defaultPromote sc (.sc (.arith a))) = some c.toAbi ∧
      (c.toAbi = .base .w ∨ c.toAbi = .base .l ∨ c.toAbi = .base .d) := by
  have hp := promoteArg_default sc (.sc (.arith a)) (fun x hx => by cases hx; exact hwf)
  obtain ⟨w4, nf⟩ := promoted_wide sc a hwf
  have hns : notSubword (promoteArg sc (.sc (.arith a))) = true := by
    simp only [promoteArg, notSubword, Bool.or_eq_true, decide_eq_true_eq]; exact Or.inr w4
  have hc := class_correct sc _ c h hns rfl
  rw [hp] at hc
  refine ⟨hc, ?_⟩
  simp only [promoteArg, classOf, Option.map_eq_some_iff] at h
  obtain ⟨q, hq, rfl⟩ := h
  unfold qbetype at hq
  simp only [Sc.size, Sc.isFloat] at hq
  have h1 : (typepromote sc a none).size ≠ 1 := by omega
  have h2 : (typepromote sc a none).size ≠ 2 := by omega
  simp only [h1, h2, ↓reduceIte] at hq
  by_cases h4 : (typepromote sc a none).size = 4
  · simp only [h4, ↓reduceIte] at hq
    have : (typepromote sc a none).isFloat = false := by
      cases hfl : (typepromote sc a none).isFloat with
      | false => rfl
      | true =>
        exfalso
        generalize typepromote sc a none = p at *
        cases p with
        | enum i b => cases hfl
        | basic b => cases b <;> simp_all [ATy.isFloat, ATy.size, Basic.isInt, Basic.size]
    simp only [this, Bool.false_eq_true, ↓reduceIte, Option.some.injEq] at hq
    subst hq; exact Or.inl rfl
  · simp only [h4, ↓reduceIte] at hq
    by_cases h8 : (typepromote sc a none).size = 8
    · simp only [h8, ↓reduceIte] at hq
      cases hfl : (typepromote sc a none).isFloat <;> simp only [hfl, Bool.false_eq_true, ↓reduceIte, Option.some.injEq] at hq <;> subst hq
      · exact Or.inr (Or.inl rfl)
      · exact Or.inr (Or.inr rfl)
    · simp [h8] at hq

/-- **Classes, full strength**: every parameter of a definition has the ABI class of its adjusted C
type … -/
def param_class_correct_full : Prop :=
  ∀ (cs : Bool) (f : FuncTy) (sg : Sig), emitfunc f = some sg →
    sg.params.map (fun c => some c.toAbi) = f.adjusted.map (abiClass cs emittype)

/-- … is false: `void f(unsigned char)` is `function $f(w %p)`, the ABI class is `ub`
(finding `subword-arg-not-extended`). -/
theorem param_class_correct_counterexample : ¬ param_class_correct_full := by
  intro h
  cases hs : emitfunc ⟨none, [.sc (.arith (.basic .uchar))], false⟩ with
  | none =>
    have : (emitfunc ⟨none, [.sc (.arith (.basic .uchar))], false⟩).isSome = true := by decide
    rw [hs] at this; cases this
  | some sg =>
    have h1 := h true _ sg hs
    have h2 : (⟨none, [.sc (.arith (.basic .uchar))], false⟩ : FuncTy).adjusted.map (abiClass true emittype) =
        [some (.sub 1 false)] := by rfl
    rw [h2] at h1
    cases hp : sg.params with
    | nil => rw [hp] at h1; cases h1
    | cons c cs =>
      rw [hp] at h1
      simp only [List.map_cons, List.cons.injEq, Option.some.injEq] at h1
      cases c <;> cases h1.1

/-- **Classes, partial**: every parameter whose adjusted type is not a sub-word integer has the ABI
class of that type (aggregates: the emitted definition, see `desc_*`); likewise the return value;
the `...` of the signature is the declaration's. -/
theorem param_class_correct_partial (cs : Bool) (f : FuncTy) (sg : Sig) (h : emitfunc f = some sg) :
    sg.variadic = f.variadic ∧ sg.params.length = f.params.length ∧
    (∀ i (h1 : i < f.adjusted.length) (h2 : i < sg.params.length), notSubword f.adjusted[i] = true →
      abiClass cs emittype f.adjusted[i] = some (sg.params[i]).toAbi) ∧
    (∀ r, f.ret = some r → notSubword r = true → notArray r = true →
      ∃ c, sg.ret = some c ∧ abiClass cs emittype r = some c.toAbi) ∧
    (f.ret = none → sg.ret = none) := by
  unfold emitfunc at h
  cases hp : optMapM classOf f.adjusted with
  | none => simp [hp] at h
  | some ps =>
    have hl := optMapM_length _ _ _ hp
    have hlen : f.adjusted.length = f.params.length := by simp [FuncTy.adjusted]
    have key : ∀ i (h1 : i < f.adjusted.length) (h2 : i < ps.length), notSubword f.adjusted[i] = true →
        abiClass cs emittype f.adjusted[i] = some (ps[i]).toAbi := by
      intro i h1 h2 hs
      obtain ⟨_, e⟩ := optMapM_get _ _ _ hp i h1
      apply class_correct cs _ _ e hs
      simp only [FuncTy.adjusted, List.getElem_map]
      exact adjusted_notArray _
    simp only [hp] at h
    cases hr : f.ret with
    | none =>
      simp only [hr, Option.some.injEq] at h
      subst h
      exact ⟨rfl, (by simp only; omega), key, (fun r hr' => by cases hr'), (fun _ => rfl)⟩
    | some r =>
      simp only [hr, Option.map_eq_some_iff] at h
      obtain ⟨c, hc, rfl⟩ := h
      refine ⟨rfl, (by simp only; omega), key, ?_, (fun h0 => by cases h0)⟩
      intro r' hr' hs ha
      cases hr'
      exact ⟨c, rfl, class_correct cs _ _ hc hs ha⟩

/-- the definition header of a variadic function is `function … $f(class %p, …, ...)`: the declared
parameters, then the marker — `function $f(...)` when there is none -/
theorem emitfunc_variadic (f : FuncTy) (sg : Sig) (h : emitfunc f = some sg) :
    sg.variadic = f.variadic ∧ sg.params.length = f.params.length :=
  ⟨(param_class_correct_partial true f sg h).1, (param_class_correct_partial true f sg h).2.1⟩

/-- `va_arg(ap, T)` fetches with the class of `T` (scalar `T` only; anything else is diagnosed) -/
theorem vaarg_class (cs : Bool) (t : AType) (b : Base) (h : vaargClass t = some b) (hs : notSubword t = true) :
    abiClass cs emittype t = some (.base b) := by
  cases t with
  | sc s =>
    have : classOf (.sc s) = some (.base b) := by
      simp only [vaargClass, Option.map_eq_some_iff] at h
      obtain ⟨q, hq, rfl⟩ := h
      simp only [classOf, hq, Option.map_some]
    exact class_correct cs _ _ this hs rfl
  | array e n => simp [vaargClass] at h
  | su u p fs => simp [vaargClass] at h
  | blob s a d => simp [vaargClass] at h

/-! ## `va_list` -/

/-- `va_list` of every target of `targ.c` (`Gen/Targets.lean`, regenerated on every run) has the
kind, size and alignment of its psABI's definition laid out by the C06 layout spec: SysV x86-64
`struct {unsigned, unsigned, void *, void *}[1]` (24/8), AAPCS64 `struct {void *×3, int×2}` (32/8),
RISC-V `void *` (8/8). -/
theorem valist_per_target :
    ∀ r ∈ Gen.Targets.table, psabiVaList r.name = some (r.valistKind, r.valistSize, r.valistAlign) := by
  decide

/-- what the backend is told: x86-64 and RISC-V pass a `va_list` as a pointer (`l`); AAPCS64 passes
the structure by value, described as an opaque type of the psABI structure's size and alignment. -/
theorem valist_classes :
    (valist "x86_64-sysv").map (fun t => (classOf (typeadjust t)).map Cls.toAbi) = some (some (.base .l)) ∧
    (valist "riscv64").map (fun t => (classOf (typeadjust t)).map Cls.toAbi) = some (some (.base .l)) ∧
    (valist "aarch64").map (fun t => (classOf (typeadjust t)).map Cls.toAbi) = some (some (.agg (.opaque 8 32))) ∧
    qbeSize (.opaque 8 32) = (Abi.tinfo aarch64 (erase aapcs64VaList)).size ∧
    qbeAlign (.opaque 8 32) = (Abi.tinfo aarch64 (erase aapcs64VaList)).align :=
  ⟨rfl, rfl, rfl, by decide, by decide⟩

/-! ## Non-vacuity -/

/-- `struct G { char tag; struct { short s; double d; } in[2]; unsigned a:3, b:5; int c:24; float f[3];
union { void *p; long long v; float g; } u; short m[2][3]; }` -/
def exGood : AType :=
  .su false false (mem "tag" tChar
    (mem "in" (.array (.su false false (mem "s" tShort (mem "d" tDouble .nil))) (some 2))
    (bfm "a" (.sc (.arith (.basic .uint))) 3 (bfm "b" (.sc (.arith (.basic .uint))) 5 (bfm "c" tInt' 24
    (mem "f" (.array tFloat (some 3))
    (mem "u" (.su true false (mem "p" (.sc .ptr) (mem "v" tLLong (mem "g" tFloat .nil))))
    (mem "m" (.array (.array tShort (some 3)) (some 2)) .nil))))))))

example : good exGood = true := by decide
example : ∃ q, emittype exGood = some q ∧ qbeSize q = 80 ∧ qbeAlign q = 8 := by
  obtain ⟨q, h1, h2, h3⟩ := desc_size_align_partial aarch64 (u := false) (p := false) (by decide : good exGood = true)
  exact ⟨q, h1, by rw [h2]; decide, by rw [h3]; decide⟩
-- the witnesses are not `good`, each for its own reason
example : good skipsWitness = false ∧ good smallerWitness = false ∧ good overlapWitness = false ∧
    good unnamedWitness = false ∧ good flexWitness = false ∧ good packedWitness = false ∧
    good overalignedWitness = false ∧ good valistWitness = false ∧ good floatInUnitWitness = false := by decide
example : classes x86_64 skipsWitness = ["bitfield-unit-skips-member", "unit-shared"] := by decide
example : classes x86_64 packedWitness = ["packed"] ∧ classes x86_64 flexWitness = ["flexible", "flexible"] := by decide
-- a struct with an AAPCS64 va_list member is good (opaque description)
example : good (.su false false (mem "ap" (.blob 32 8 true) (mem "x" tInt' .nil))) = true := by decide
-- signatures: `int g(char *, ...)` called as `g(p, 'c', 1.0f, (short)1, 2L)`
def exF : FuncTy := ⟨some tInt', [.sc .ptr], true⟩
example : (emitcall true exF [.sc .ptr, tChar, tFloat, tShort, tLong]).map (fun c => c.args.length) = some 6 := by decide
example : (argTypes true exF.adjusted true [.sc .ptr, tChar, tFloat, tShort, tLong]).map
    (List.map fun t => (vaargClass t).map Base.toString) =
    some [some "l", some "w", some "d", some "w", some "l"] := by decide
example : notSubword tInt' = true ∧ notSubword tChar = false ∧ notSubword tFloat = true := by decide
-- C23 `void v(...)`: `v(d, 1)`, `v(f, s)` (promoted), `v()`; `int h(...) { … }`
def exV : FuncTy := ⟨none, [], true⟩
example : (emitcall true exV [tDouble, tInt']).map (fun c => c.args.map Option.isSome) = some [false, true, true] ∧
    (emitcall true exV [tFloat, tShort]).map (fun c => c.args.map Option.isSome) = some [false, true, true] ∧
    (emitcall true exV []).map (fun c => c.args.map Option.isSome) = some [false] := by decide
example : (emitfunc ⟨some tInt', [], true⟩).map (fun s => (s.params.length, s.variadic)) = some (0, true) := by decide

end CprocVerif.C08

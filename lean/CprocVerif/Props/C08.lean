import CprocVerif.Spec.QbeLayout

/-!
# C08 — calls interoperate with code built by the platform compiler (descriptor faithfulness)
-/

namespace CprocVerif.C08
open CprocVerif.Layout CprocVerif.Abi CprocVerif.AbiDesc CprocVerif.QbeLayout CprocVerif.Types

/-- `va_list` of every target of `targ.c` has the kind, size and alignment its psABI prescribes. -/
theorem valist_per_target :
    ∀ r ∈ Gen.Targets.table, psabiVaList r.name = some (r.valistKind, r.valistSize, r.valistAlign) := by
  decide

def intT' : AType := .sc (.arith (.basic .int))
def charT : AType := .sc (.arith (.basic .char))

/-- `struct A {int a:3; char c[7];}` -/
def skipsWitness : AType :=
  .su false false (.cons (some "a") intT' 0 (some 3) (.cons (some "c") (.array charT (some 7)) 0 none .nil))

example : (emittype skipsWitness).map qbeSize = some 4 ∧ (Abi.tinfo x86_64 (erase skipsWitness)).size = 8 := by
  decide

end CprocVerif.C08

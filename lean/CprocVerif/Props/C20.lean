import CprocVerif.Props.C16
import CprocVerif.Gen.Purity

/-!
# C20 — output is a pure function of the input text and the target option

What a model can carry of this property:

* every table in the compiler (`scope.c` declarations/tags, macro table, string pool, goto labels) is
  used only through `mapput`/`mapget` (checked syntactically on every run, `Gen/Purity.lean`), and
  **any** client that uses the table only through that interface computes the same result whatever
  the hash function is — `client_refines`, `output_hash_independent` below, for every client program,
  every history, every pair of hash functions (no bound);
* identifiers of blocks/temporaries/globals come from counters, i.e. are a function of the order of
  creation only — `ids_pure`;
* the source contains no construct whose value depends on the environment, the address-space layout
  or the clock (`%p`, `getenv`, `setlocale`, `time`, `rand`, `clock`, `getpid`, …): the translator
  lists every occurrence in `Gen/Purity.lean` and `no_impure_calls` requires the list to be empty.

Reads of uninitialised memory and allocator-dependent branches cannot be expressed in the model;
they are sampled by the perturbation runs of `checks/c20.py` (DESIGN §4 C20).
-/

namespace CprocVerif.C20
open CprocVerif.Map

/-- A client of a table: a computation that interacts with it only through
`*mapput(h, k) = v` and `mapget(h, k)`, choosing every next step from what it has seen so far.
Keys are byte strings; the hash is whatever the table implementation computes from them. -/
inductive Prog (α : Type) where
  | ret : α → Prog α
  | put : List Nat → Nat → Prog α → Prog α
  | get : List Nat → (Nat → Prog α) → Prog α

/-- Run a client against the real table model under hash function `h`. -/
def runMap {α : Type} (h : List Nat → Nat) : Prog α → Map → α
  | .ret a, _ => a
  | .put b v k, m => runMap h k (Map.put m ⟨h b, b⟩ v)
  | .get b k, m => runMap h (k (Map.get m ⟨h b, b⟩)) m

/-- Run the same client against a plain dictionary (no hashing at all). -/
def runDict {α : Type} : Prog α → (List Nat → Nat) → α
  | .ret a, _ => a
  | .put b v k, d => runDict k (fun x => if x = b then v else d x)
  | .get b k, d => runDict (k (d b)) d

/-- Refinement for arbitrary adaptive clients: under the table invariant, a client cannot tell the
open-addressing table from a dictionary — for every hash function. -/
theorem client_refines {α : Type} (h : List Nat → Nat) (p : Prog α) :
    ∀ (m : Map) (d : List Nat → Nat), Inv m → (∀ b, Map.get m ⟨h b, b⟩ = d b) →
      runMap h p m = runDict p d := by
  induction p with
  | ret a => intro m d _ _; rfl
  | put b v k ih =>
    intro m d hI habs
    simp only [runMap, runDict]
    apply ih _ _ (C16.put_inv hI _ _)
    intro b'
    by_cases hb : b' = b
    · subst hb; simp [C16.get_put_same hI]
    · have hne : (⟨h b', b'⟩ : Key) ≠ ⟨h b, b⟩ := by
        intro he; exact hb (congrArg Key.bytes he)
      simp [C16.get_put_other hI _ _ hne, hb, habs]
  | get b k ih =>
    intro m d hI habs
    simp only [runMap, runDict]
    rw [habs b]
    exact ih _ m d hI habs

/-- The result of any client, started on any freshly initialised table of a legal capacity, does not
depend on the hash function nor on the initial capacity. -/
theorem output_hash_independent {α : Type} (h₁ h₂ : List Nat → Nat) (p : Prog α)
    {cap₁ e₁ cap₂ e₂ : Nat} (hc₁ : cap₁ = 2 ^ e₁) (h4₁ : 4 ≤ cap₁) (hc₂ : cap₂ = 2 ^ e₂) (h4₂ : 4 ≤ cap₂) :
    runMap h₁ p (init cap₁) = runMap h₂ p (init cap₂) := by
  rw [client_refines h₁ p (init cap₁) (fun _ => 0) (C16.init_inv hc₁ h4₁)
        (fun b => C16.get_init cap₁ hc₁ h4₁ _),
      client_refines h₂ p (init cap₂) (fun _ => 0) (C16.init_inv hc₂ h4₂)
        (fun b => C16.get_init cap₂ hc₂ h4₂ _)]

/-- Non-vacuity: a client that branches on a lookup, under FNV-like vs constant (all-colliding) hashes. -/
example : runMap (fun b => b.foldl (fun a x => (a ^^^ x) * 16777619) 2166136261)
      (.put [97] 5 (.put [98] 6 (.get [97] fun v => if v = 5 then .get [99] (fun w => .ret (v, w)) else .ret (0, 0))))
      (init 8)
    = runMap (fun _ => 7)
      (.put [97] 5 (.put [98] 6 (.get [97] fun v => if v = 5 then .get [99] (fun w => .ret (v, w)) else .ret (0, 0))))
      (init 64) :=
  output_hash_independent _ _ _ (e₁ := 3) (e₂ := 6) (by decide) (by decide) (by decide) (by decide)

/-! ## identifiers come from counters -/

/-- `mkblock`/`functemp`/`mkglobal` number entities with a counter that is incremented on each
creation (model: the k-th created entity gets id `start + k`). -/
def assignIds (start : Nat) : List String → List (String × Nat)
  | [] => []
  | n :: ns => (n, start + 1) :: assignIds (start + 1) ns

/-- Ids depend on the creation order only: position `i` gets `start + i + 1`. -/
theorem ids_pure (start : Nat) (names : List String) (i : Nat) (h : i < names.length) :
    (assignIds start names)[i]? = some (names[i], start + i + 1) := by
  induction names generalizing start i with
  | nil => simp at h
  | cons n ns ih =>
    cases i with
    | zero => simp [assignIds]
    | succ i =>
      have h' : i < ns.length := by simpa using h
      simp only [assignIds, List.getElem?_cons_succ, List.getElem_cons_succ]
      rw [ih (start + 1) i h']
      congr 2; omega

theorem ids_injective (start : Nat) (names : List String) :
    ((assignIds start names).map (·.2)).Nodup := by
  have key : ∀ (start : Nat) (names : List String),
      ((assignIds start names).map (·.2)).Nodup ∧ ∀ x ∈ (assignIds start names).map (·.2), start < x := by
    intro start names
    induction names generalizing start with
    | nil => simp [assignIds]
    | cons n ns ih =>
      obtain ⟨h1, h2⟩ := ih (start + 1)
      refine ⟨?_, ?_⟩
      · simp only [assignIds, List.map_cons, List.nodup_cons]
        exact ⟨fun hm => by have := h2 _ hm; omega, h1⟩
      · intro x hx
        simp only [assignIds, List.map_cons, List.mem_cons] at hx
        rcases hx with rfl | hx
        · omega
        · have := h2 _ hx; omega
  exact (key start names).1

/-! ## syntactic purity of the sources (regenerated from /repo on every run) -/

/-- No file other than `map.c` reads or writes the table representation (`keys`, `vals`, `cap`
fields of `struct map`), so every client is a `Prog` in the sense above. -/
theorem map_clients_abstract : Gen.Purity.mapRepresentationUses = [] := by decide

/-- `mapfree` callbacks are only `NULL` or `free` (no client iterates over the table through it). -/
theorem mapfree_callbacks_pure : Gen.Purity.mapfreeCallbacks.all (fun c => c == "NULL" || c == "free") = true := by
  decide

/-- No call to an environment-, clock-, locale- or address-dependent facility in the compiler proper. -/
theorem no_impure_calls : Gen.Purity.impureUses = [] := by decide

end CprocVerif.C20

import CprocVerif.Model.Util
import CprocVerif.Props.C15
import CprocVerif.Props.C16

/-!
# C19 — the compiler proper is memory-safe, terminating and exits only 0, 1 or 2

What a model can carry of this property (DESIGN §4 C19): the bounds and termination arguments
of the data structures every compilation goes through.  Absence of invalid accesses in the C text
itself is *observed* (sanitised builds + mutation stream in `checks/c19.py`), not proved.

* growable buffers (`arrayadd`, `bufadd`): every write lands inside the allocation — for all
  operation sequences;
* the hash table's probe loop terminates (`keyindex_terminates`, from C16) for every table reachable
  through the interface and every hash function;
* `treeinsert`'s path array `a[96]` cannot overflow for any tree of fewer than 2^64 nodes
  (`path_fits`, from C15);
* exit statuses: the model of `main`/`error`/`fatal`/`usage` returns only 0, 1, 2 and returns 0 only
  when the output was flushed without error.
-/
namespace CprocVerif.C19
open CprocVerif.Util

/-! ## growable buffers -/

theorem growCap_spec (cap len n : Nat) (h : cap - len < n) :
    n ≤ growCap cap len n - len ∧ cap ≤ growCap cap len n := by
  fun_induction growCap cap len n with
  | case1 cap c hlt ih =>
    have := ih hlt
    constructor
    · exact this.1
    · have hc : cap ≤ c := by simp only [c]; split <;> omega
      omega
  | case2 cap c hge =>
    constructor
    · omega
    · simp only [c]; split <;> omega

/-- `arrayadd` keeps `len ≤ cap`, and the `n` bytes it hands out, `[off, off+n)`, lie inside the
(re)allocated block of `cap` bytes: the caller's `memcpy`/store cannot overflow. -/
theorem arrayadd_fits (a : Arr) (n : Nat) (h : a.Inv) :
    (arrayadd a n).1.Inv ∧ (arrayadd a n).2 + n ≤ (arrayadd a n).1.cap ∧ (arrayadd a n).2 = a.len := by
  unfold Arr.Inv at *
  simp only [arrayadd]
  split
  · rename_i hlt
    have := (growCap_spec a.cap a.len n hlt).1
    refine ⟨?_, ?_, trivial⟩ <;> omega
  · refine ⟨?_, ?_, trivial⟩ <;> omega

/-- Every state reachable by any sequence of `arrayadd` calls from the empty array satisfies the
invariant (no bound on the number or sizes of the additions). -/
theorem arrayadd_reachable (ns : List Nat) :
    (ns.foldl (fun a n => (arrayadd a n).1) { len := 0, cap := 0 }).Inv := by
  suffices h : ∀ a : Arr, a.Inv → (ns.foldl (fun a n => (arrayadd a n).1) a).Inv from
    h _ (by simp [Arr.Inv])
  induction ns with
  | nil => intro a h; simpa
  | cons n ns ih => intro a h; exact ih _ (arrayadd_fits a n h).1

theorem bufadd_fits (b : Arr) (h : b.Inv) :
    (bufadd b).1.Inv ∧ (bufadd b).2 < (bufadd b).1.cap := by
  unfold Arr.Inv at *
  simp only [bufadd]
  split
  · split <;> constructor <;> omega
  · constructor <;> omega

/-- Non-vacuity: growing from empty by 3, then 300, then 1 byte. -/
example : (arrayadd ⟨0, 0⟩ 3).1.Inv ∧ (arrayadd ⟨250, 256⟩ 300).1.Inv := by
  exact ⟨(arrayadd_fits _ _ (by simp [Arr.Inv])).1, (arrayadd_fits _ _ (by simp [Arr.Inv])).1⟩

/-! ## loops and arrays shared with C15 / C16 -/

/-- The probe loop of `keyindex` always stops (for every reachable table, every hash assignment). -/
theorem probe_terminates {m : Map.Map} (hI : Map.Inv m) (k : Map.Key) : (Map.keyindex m k).isSome :=
  C16.keyindex_terminates hI k

open CprocVerif.Tree CprocVerif.Tree.T in
/-- `treeinsert`'s path array of `MAXH = 96` slots is never overrun. -/
theorem tree_path_fits {t : T} (h : Avl t) (hs : size t < 2 ^ 64) : rh t + 1 < 96 :=
  C15.path_fits h hs

/-! ## exit statuses -/

/-- How a run of `cproc-qbe` ends, as far as `main.c`, `error`, `fatal`, `usage` decide it. -/
inductive Ending where
  | usage            -- bad command line: `usage()` → exit(2)
  | diagnosed        -- `error(...)` → exit(1)
  | fatal            -- `fatal(...)` (I/O failure, internal error) → exit(1)
  | completed (writeOk : Bool)   -- reached the end of `main`; `ferror(stdout)` after `fflush`
deriving DecidableEq

def exitStatus : Ending → Nat
  | .usage => 2
  | .diagnosed => 1
  | .fatal => 1
  | .completed true => 0
  | .completed false => 1    -- `fatal("write failed")`

theorem exit_codes (e : Ending) : exitStatus e = 0 ∨ exitStatus e = 1 ∨ exitStatus e = 2 := by
  cases e with
  | completed b => cases b <;> simp [exitStatus]
  | _ => simp [exitStatus]

/-- Status 0 is returned only when the whole output was written. -/
theorem zero_only_if_written (e : Ending) : exitStatus e = 0 ↔ e = .completed true := by
  cases e with
  | completed b => cases b <;> simp [exitStatus]
  | _ => simp [exitStatus]

end CprocVerif.C19

import CprocVerif.Lemmas.EvalLit
import CprocVerif.Gen.IntLimits
import CprocVerif.Gen.BasicTypes

/-!
# C04 — constant expressions fold to the value run-time evaluation would give

Property theorems relating the model of `/repo/eval.c` (`Model/Eval.lean`) to C11 integer
semantics (`Spec/CInt.lean`).  Every theorem quantifies over all operand values; integer types
range over all widths 8/16/32/64 of either signedness (`IntTy.Arith`), plus `_Bool` where stated
(`IntTy.Valid`).  Floating point operations are fields of an arbitrary `FloatOps F`.

Five deviations found while stating these theorems were repaired in `/repo` (conversion to
`_Bool`: 7c8b86a; `C + (long)(P + C1)`: 536afbc; `int → float` double rounding: 0457315; floating
`?:` condition: b66d549; integer literal `≥ 2^64`: 23c06f0); the model is the repaired code and
the statements below hold at full strength (`cast_correct`, `addr_fold_swapped`,
`fold_int_to_float_model`, `cond_float_condition`, `literal_overflow_rejected`).
-/

namespace CprocVerif.C04
open CprocVerif.CInt CprocVerif.Eval

section
variable {F : Type} (ops : FloatOps F)

/-! ## 1. binary operators -/

/-- Every non-logical binary operator, every arithmetic type, all operand values: when C11 defines
`a op b = v`, `binary` (hence the folded node) carries `repr64 t' (wrap t' v)`, `t'` the result
type.  Operands are canonical constants of the common type `t`; for shifts the right operand may
have any type `tr` (`hty`). -/
theorem binary_correct {t tr : IntTy} (ht : t.Arith) (htr : tr.Arith) (op : BinOp)
    (hop : op ≠ .lor ∧ op ≠ .land) (hty : op.isShift = false → tr = t)
    {a b v : Int} (ha : InRange t a) (hb : InRange tr b) (h : CInt.bin op t a b = some v) :
    Eval.binary ops op (tyOf t) (repr64 t a) (repr64 tr b) (tyOf (binResTy op t))
      = some (repr64 (binResTy op t) (wrap (binResTy op t) v)) :=
  Eval.binary_correct ops ht htr op hop hty ha hb h

/-- A defined result is representable in the result type (so `wrap t' v = v` above). -/
theorem binary_result_inRange {t : IntTy} (ht : t.Arith) (op : BinOp) {a b v : Int}
    (ha : InRange t a) (hb : op.isShift = false → InRange t b) (h : CInt.bin op t a b = some v) :
    InRange (binResTy op t) v :=
  bin_inRange ht op ha hb h

/-- The folding step of `eval` (guard included): a defined operation is folded, to the C value. -/
theorem fold_correct {t tr : IntTy} (ht : t.Arith) (htr : tr.Arith) (op : BinOp)
    (hop : op ≠ .lor ∧ op ≠ .land) (hty : op.isShift = false → tr = t)
    {a b v : Int} (ha : InRange t a) (hb : InRange tr b) (h : CInt.bin op t a b = some v) :
    foldBin ops op (tyOf t) (repr64 t a) (repr64 tr b) (tyOf (binResTy op t))
      = .folded (repr64 (binResTy op t) v) :=
  foldBin_correct ops ht htr op hop hty ha hb h

/-! ## 2. unary operators (as `unaryexpr` compiles them) -/

/-- `-e`: `unary(TSUB)`; `~e`: `e ^ mkconstexpr(type, -1)` (64 one bits, any type); `!e`: `e == 0`
of type `int`; `+e`: the operand itself. -/
theorem unary_correct {t : IntTy} (ht : t.Arith) {a v : Int} (ha : InRange t a) :
    (CInt.un .neg t a = some v →
      unaryNeg ops (tyOf t) (tyOf t) (repr64 t a) = repr64 t (wrap t v)) ∧
    (CInt.un .bnot t a = some v →
      foldBin ops .bxor (tyOf t) (repr64 t a) (W - 1) (tyOf t) = .folded (repr64 t (wrap t v))) ∧
    (CInt.un .lnot t a = some v →
      foldBin ops .eq (tyOf t) (repr64 t a) 0 (tyOf IntTy.int)
        = .folded (repr64 IntTy.int (wrap IntTy.int v))) ∧
    (CInt.un .plus t a = some v → repr64 t a = repr64 t v) :=
  ⟨unaryNeg_correct ops ht, bnot_correct ops ht, lnot_correct ops ht ha,
   fun h => by simp only [CInt.un] at h; cases h; rfl⟩

/-! ## 3. conversions between integer types -/

/-- Every conversion between integer types, `_Bool` included (6.3.1.2: "0 if the value compares
equal to 0, otherwise 1"; 6.3.1.3: modular).  `(_Bool)256` is 1. -/
theorem cast_correct {f t : IntTy} (hf : f.Valid) (ht : t.Valid) {v : Int} (hv : InRange f v) :
    castConst ops (tyOf f) (tyOf t) (repr64 f v) = .const (tyOf t) (repr64 t (wrap t v)) :=
  Eval.cast_correct ops hf ht hv

/-- Conversion of ANY constant (integer, floating, pointer) to `_Bool` is its truth value. -/
theorem cast_to_bool (lty : Ty) (l : Nat) :
    castConst ops lty (tyOf IntTy.bool) l = .const (tyOf IntTy.bool) (b2n (istrue ops lty l)) :=
  castConst_bool ops lty l

/-! ## 4. shift counts -/

/-- C11 6.5.7p3 makes a negative count or a count `≥` the width of the promoted left operand
undefined (so no value is prescribed); `binary` masks the count with 63 and never executes an
undefined host shift: a shift of constants always folds.  For defined shifts the folded value is
the C value (`fold_correct`). -/
theorem shift_count_guard {t : IntTy} (op : BinOp) (hop : op = .shl ∨ op = .shr) :
    (∀ a b : Int, (b < 0 ∨ (t.bits : Int) ≤ b) → CInt.bin op t a b = none) ∧
    (∀ (sz : Nat) (sg : Bool) (l r : Nat) (ty : Ty), ∃ u, foldBin ops op (.int sz sg) l r ty = .folded u) := by
  refine ⟨fun a b h => ?_, fun sz sg l r ty => foldBin_shift_total ops op hop sz sg l r ty⟩
  rcases hop with rfl | rfl <;> simp [CInt.bin, h]

/-! ## 5. `||` and `&&` -/

/-- Both operands constant integers (any two integer types, no conversion between them): the node
folds to the C value, 0 or 1, of type `int`. -/
theorem lor_land_correct {tl tr : IntTy} (hl : tl.Valid) (hr : tr.Valid) (op : BinOp)
    (hop : op = .lor ∨ op = .land) {a b v : Int} (ha : InRange tl a) (hb : InRange tr b)
    (h : CInt.bin op tl a b = some v) :
    eval ops (.binary op (tyOf IntTy.int) (.const (tyOf tl) (repr64 tl a)) (.const (tyOf tr) (repr64 tr b)))
      = .const (tyOf IntTy.int) (repr64 IntTy.int v) := by
  rcases hop with rfl | rfl <;> simp only [CInt.bin] at h <;> cases h <;>
    simp only [eval, Expr.isFail, istrue_int ops hl ha, istrue_int ops hr hb, repr64_b2i] <;>
    by_cases ha0 : a = 0 <;> by_cases hb0 : b = 0 <;> simp [ha0, hb0]

/-- Short circuit: when the left constant (integer OR floating: `istrue`) decides, the node folds
whatever the right operand is, as long as evaluating it does not end the compilation. -/
theorem lor_land_short_circuit (t lty : Ty) (lu : Nat) (r : Expr)
    (hr : (eval ops r).isFail = false) :
    (istrue ops lty lu = true → eval ops (.binary .lor t (.const lty lu) r) = .const t 1) ∧
    (istrue ops lty lu = false → eval ops (.binary .land t (.const lty lu) r) = .const t 0) := by
  have hc : (Expr.const lty lu).isFail = false := rfl
  constructor <;> intro h <;> simp [eval, hc, hr, h, b2n]

/-- Whenever a `||`/`&&` node folds, it folds to 0 or 1 (the defect fixed by b3c8afb). -/
theorem lor_land_zero_one (op : BinOp) (hop : op = .lor ∨ op = .land) (t : Ty) (l r : Expr)
    {t' : Ty} {u : Nat} (h : eval ops (.binary op t l r) = .const t' u) : u = 0 ∨ u = 1 := by
  rcases hop with rfl | rfl <;> simp only [eval] at h <;>
    (split at h
     · rename_i hf; rw [h] at hf; cases hf
     · split at h
       · rename_i hf; rw [h] at hf; cases hf
       · split at h
         · split at h
           · split at h
             · cases h; exact b2n_le_one _
             · cases h
           · cases h; exact b2n_le_one _
         · cases h)

/-! ## 6. folding preserves the invariant -/

/-- Folding preserves `Canon` through arbitrary nesting (induction on the expression).  `Expr.bad`
stands for `fatal("internal error …")`, which only ill-typed trees (e.g. `%` on a floating
node) can reach. -/
theorem eval_canon_of_ne_bad (e : Expr) (h : Canon e) (hb : eval ops e ≠ .bad) : Canon (eval ops e) :=
  (Eval.eval_canon ops e h).resolve_left hb

/-- On the integer fragment `eval` never fails, so folding preserves the invariant
unconditionally and the result is again in the fragment with the same type. -/
theorem eval_canon (e : Expr) (hi : IntFrag e) (h : Canon e) :
    Canon (eval ops e) ∧ IntFrag (eval ops e) ∧ (eval ops e).ty = e.ty := by
  obtain ⟨h1, h2⟩ := eval_intFrag ops e hi
  refine ⟨(Eval.eval_canon ops e h).resolve_left ?_, h1, h2⟩
  intro hb; rw [hb] at h1; exact h1

/-! ## 7. end to end on the integer fragment -/

/-- If C11 gives the expression the value `v` (`evalC`: every subexpression that is evaluated is
defined; `||`/`&&` do not evaluate a decided right operand), `eval` returns the constant
`repr64 t v` of the expression's type `t`, and `v ∈ range t`.  Induction over the expression. -/
theorem eval_correct (e : Expr) (hi : IntFrag e) (hc : Canon e) {v : Int} (hv : evalC e = some v) :
    ∃ t : IntTy, e.ty.ity? = some t ∧ InRange t v ∧ eval ops e = .const e.ty (repr64 t v) :=
  Eval.eval_correct ops e hi hc v hv

/-- The constant shortcut of `condexpr`: an integer constant condition selects the branch C selects. -/
theorem cond_shortcut_correct (c l r : Expr) (t : Ty) (hi : IntFrag c) (hc : Canon c) {v : Int}
    (hv : evalC c = some v) :
    condexpr ops c l r t = convert (if v ≠ 0 then l else r) t := by
  obtain ⟨tc, hty, hr, he⟩ := Eval.eval_correct ops c hi hc v hv
  have hw : c.ty.Wf := canon_ty_wf hc hi
  have hist := istrue_int ops (ity?_valid hw hty) hr
  rw [tyOf_ity? hw hty] at hist
  simp only [condexpr, he, isInt_of_ity? hty, true_or, if_true, hist]
  by_cases hz : v = 0 <;> simp [hz]

/-- A floating constant condition is folded by its truth value (`0.5 ? 1 : 2` is 1). -/
theorem cond_float_condition (c l r : Expr) (t : Ty) (sz u : Nat)
    (h : eval ops c = .const (.flt sz) u) :
    condexpr ops c l r t = convert (if istrue ops (.flt sz) u then l else r) t := by
  simp [condexpr, h, Ty.isFlt]

/-! ## 8. `intconstexpr` -/

/-- `intconstexpr(s, allowneg)` yields the 64-bit representation; with `allowneg = false` it
rejects exactly the negative values (an `unsigned long` value `≥ 2^63` is not negative). -/
theorem intconstexpr_sign_rule (e : Expr) {t : IntTy} (ht : t.Valid) {v : Int} (hv : InRange t v)
    (he : eval ops e = .const (tyOf t) (repr64 t v)) (allowneg : Bool) :
    intconstexpr ops e allowneg = if allowneg = false ∧ v < 0 then none else some (repr64 t v) := by
  have hsh : ¬ repr64 t v >>> 63 = 0 ↔ (2 : Int) ^ 63 ≤ (repr64 t v : Int) := by
    rw [Nat.shiftRight_eq_div_pow]; simp only [repr64]; omega
  simp only [intconstexpr, he, tyOf_isInt, if_true]
  cases allowneg <;> simp only [Bool.not_false, Bool.not_true, Bool.true_and, Bool.false_and,
    Bool.false_eq_true, if_false, true_and, false_and, reduceCtorEq]
  rcases ht with rfl | ht
  · have : ¬ v < 0 := by simp [InRange, minVal, maxVal, IntTy.bool] at hv; omega
    simp [this, tyOf_bool, Ty.isSigned]
  rw [tyOf_arith ht]
  simp only [Ty.isSigned]
  cases hs : t.signed
  · have : ¬ v < 0 := by
      arith_split ht <;> simp [InRange, minVal, maxVal] at hv hs <;> omega
    simp [this]
  · have hneg : (2 : Int) ^ 63 ≤ (repr64 t v : Int) ↔ v < 0 := by
      arith_split ht <;> simp [InRange, minVal, maxVal, repr64] at hv hs ⊢ <;> omega
    by_cases hv0 : v < 0
    · have := hsh.2 (hneg.2 hv0); simp [hv0, this]
    · have : repr64 t v >>> 63 = 0 := by
        apply Classical.byContradiction; intro hn; exact hv0 (hneg.1 (hsh.1 hn))
      simp [hv0, this]

/-! ## 9. operations undefined on the host are never folded -/

/-- `x / 0`, `x % 0` (any integer type, any `x`) and `LLONG_MIN / -1`, `LLONG_MIN % -1` stay
unfolded; and for integer operands `eval` never calls `binary` where the host operation is
undefined (all sizes, all bit patterns). -/
theorem undefined_left_unfolded (op : BinOp) :
    ((op = .div ∨ op = .mod) → ∀ lty, lty.isInt = true → ∀ l ty, foldBin ops op lty l 0 ty = .unfolded) ∧
    ((op = .div ∨ op = .mod) → ∀ sz ty, foldBin ops op (.int sz true) (2 ^ 63) (W - 1) ty = .unfolded) ∧
    ((op ≠ .lor ∧ op ≠ .land) → ∀ lty, lty.isInt = true → ∀ l r ty, foldBin ops op lty l r ty ≠ .hostUB) :=
  ⟨fun h lty hl l ty => foldBin_div_zero ops op h hl l ty,
   fun h sz ty => foldBin_min_neg_one ops op h sz ty,
   fun h lty hl l r ty => foldBin_no_hostUB ops op h hl l r ty⟩

/-- …and what C leaves undefined for these operators is exactly `none` in the spec. -/
theorem spec_div_zero_undefined (t : IntTy) (a : Int) :
    CInt.bin .div t a 0 = none ∧ CInt.bin .mod t a 0 = none := by
  simp [CInt.bin]

/-! ## 10. address constants -/

/-- `(P + C1) ± C2 → P + (C1 ± C2)` with 64-bit offsets (all that `mkbinaryexpr` produces): the
new offset is `C1 ± C2` modulo `2^64`, i.e. the address arithmetic of the target. -/
theorem addr_fold (P : Expr) (ty : Ty) (s1 s2 : Bool) {c1 c2 : Nat} (h1 : c1 < W) (h2 : c2 < W) :
    evalAddSub ops .add ty (.binary .add .ptr P (.const (.int 8 s1) c1)) (.const (.int 8 s2) c2)
      = .binary .add ty P (.const (.int 8 s2) ((c1 + c2) % W)) ∧
    evalAddSub ops .sub ty (.binary .add .ptr P (.const (.int 8 s1) c1)) (.const (.int 8 s2) c2)
      = .binary .add ty P (.const (.int 8 s2) ((c1 + W - c2) % W)) := by
  have hm1 : (c1 + c2) % W < W := Nat.mod_lt _ (by decide)
  have hm2 : (c1 + W - c2) % W < W := Nat.mod_lt _ (by decide)
  constructor <;>
    simp [evalAddSub, Expr.isBinary, Eval.binary, binaryRaw, Eval.cast, castInt_8, hm1, hm2]

/-- The commuted form `C2 + (P + C1)` (536afbc: the operands of the node are swapped too). -/
theorem addr_fold_swapped (P : Expr) (ty : Ty) (s1 s2 : Bool) {c1 c2 : Nat} (h1 : c1 < W) (h2 : c2 < W) :
    evalAddSub ops .add ty (.const (.int 8 s2) c2) (.binary .add .ptr P (.const (.int 8 s1) c1))
      = .binary .add ty P (.const (.int 8 s2) ((c1 + c2) % W)) := by
  have hm1 : (c1 + c2) % W < W := Nat.mod_lt _ (by decide)
  simp [evalAddSub, Expr.isBinary, Eval.binary, binaryRaw, Eval.cast, castInt_8, hm1]

/-- `int a[10]; long x = 5 + (long)&a[3];` folds to `$a + 17`. -/
example : eval ops (.binary .add (.int 8 true) (.const (.int 8 true) 5)
    (.cast (.int 8 true)
      (.binary .add .ptr (.unary .addr .ptr (.obj .other "a")) (.const (.int 8 false) 12))))
    = .binary .add (.int 8 true) (.unary .addr .ptr (.obj .other "a")) (.const (.int 8 true) 17) := by
  simp [eval, evalAddSub, Expr.isFail, Expr.isBinary, Expr.ty, Eval.binary, binaryRaw, Eval.cast]
  decide

/-- `&*e` is `e`; `&"string"` becomes the address of the pooled object. -/
theorem addr_deref (t t' : Ty) (e : Expr) (h : (eval ops e).isFail = false) :
    eval ops (.unary .addr t (.unary .deref t' e)) = eval ops e := by
  have hd : (Expr.unary .deref t' (eval ops e)).isFail = false := rfl
  simp [eval, h, hd]

theorem addr_string (t sty : Ty) (i : Nat) :
    eval ops (.unary .addr t (.str sty i)) = .unary .addr t (.obj sty (".Lstring." ++ toString i)) := by
  simp [eval, Expr.isFail]

/-! ## 11. floating point: same operation, same operands -/

/-- Folding a floating `+ - * /` applies the host operation to the two operand values and
normalises to the node type (`(float)` for a 4-byte type): compile time and run time apply the
same IEEE operation to the same operands (that rounding the `double` result to `float` equals
the single-precision operation is the classical double-rounding theorem for `+ - * /`, an
assumption on `FloatOps`; checked numerically by `checks/c04.py`). -/
theorem fold_float_same_op (sz : Nat) (l r : Nat) :
    Eval.binary ops .add (.flt sz) l r (.flt sz) = some (Eval.cast ops (.flt sz) (ops.bits (ops.add (ops.ofBits l) (ops.ofBits r)))) ∧
    Eval.binary ops .sub (.flt sz) l r (.flt sz) = some (Eval.cast ops (.flt sz) (ops.bits (ops.sub (ops.ofBits l) (ops.ofBits r)))) ∧
    Eval.binary ops .mul (.flt sz) l r (.flt sz) = some (Eval.cast ops (.flt sz) (ops.bits (ops.mul (ops.ofBits l) (ops.ofBits r)))) ∧
    Eval.binary ops .div (.flt sz) l r (.flt sz) = some (Eval.cast ops (.flt sz) (ops.bits (ops.div (ops.ofBits l) (ops.ofBits r)))) :=
  ⟨rfl, rfl, rfl, rfl⟩

/-- floating comparisons fold to the truth value of the host comparison, 0/1 of type `int`. -/
theorem fold_float_cmp (sz : Nat) (l r : Nat) :
    Eval.binary ops .lt (.flt sz) l r (tyOf IntTy.int) = some (b2n (ops.lt (ops.ofBits l) (ops.ofBits r))) ∧
    Eval.binary ops .le (.flt sz) l r (tyOf IntTy.int) = some (b2n (ops.le (ops.ofBits l) (ops.ofBits r))) ∧
    Eval.binary ops .eq (.flt sz) l r (tyOf IntTy.int) = some (b2n (ops.eq (ops.ofBits l) (ops.ofBits r))) ∧
    Eval.binary ops .ne (.flt sz) l r (tyOf IntTy.int) = some (b2n (!ops.eq (ops.ofBits l) (ops.ofBits r))) := by
  have key : ∀ c : Bool, repr64 IntTy.int (wrap IntTy.int (b2i c)) = b2n c := fun c => by
    rw [wrap_of_inRange (Or.inr int_arith) (b2i_inRange c), repr64_b2i]
  refine ⟨?_, ?_, ?_, ?_⟩ <;> (rw [← key]; exact binary_cmp ops rfl)

/-- int → floating: the value (signed or unsigned reading per the operand type) is converted
directly to the target format (`(float)i` for a 4-byte type, `(double)i` otherwise: one rounding,
as the run-time `sltof/ultof`, `sltod/ultod`), then normalised (a no-op on such a value). -/
theorem fold_int_to_float_model {f : IntTy} (hf : f.Arith) (sz : Nat) {v : Int} (hv : InRange f v) :
    castConst ops (tyOf f) (.flt sz) (repr64 f v)
      = .const (.flt sz) (Eval.cast ops (.flt sz)
          (ops.bits (if Ty.flt sz = .flt 4 then ops.ofIntF32 v else ops.ofInt v))) := by
  have hval : (if (tyOf f).isSigned = true then toI (repr64 f v) else ((repr64 f v : Nat) : Int)) = v := by
    rw [tyOf_arith hf]
    cases hs : f.signed
    · simp only [Ty.isSigned, Bool.false_eq_true, if_false]; exact repr64_unsigned hf hv hs
    · simp only [Ty.isSigned, if_true]; exact toI_repr64 hf hv hs
  have h1 : ¬ (Ty.flt sz = Ty.bool) := by simp
  simp only [castConst, if_neg h1, tyOf_isInt, Ty.isFlt, and_self, if_true, hval]

/-- floating → int: rejected (`error`) outside `[-2^63, 2^63)` resp. `(-1, 2^64)` — exactly the
values whose integral part is representable in 64 bits (6.3.1.4p1; NaN fails both comparisons) —
otherwise the truncated value is normalised to the target type. -/
theorem fold_float_to_int_model (fsz : Nat) {t : IntTy} (ht : t.Arith) (l : Nat) :
    castConst ops (.flt fsz) (tyOf t) l =
      if (if t.signed then ops.le (ops.ofInt (-(2 ^ 63))) (ops.ofBits l) && ops.lt (ops.ofBits l) (ops.ofInt (2 ^ 63))
          else ops.lt (ops.ofInt (-1)) (ops.ofBits l) && ops.lt (ops.ofBits l) (ops.ofInt (2 ^ 64))) = true
      then .const (tyOf t) (repr64 t (wrap t (ops.toInt (ops.ofBits l))))
      else .error := by
  rw [tyOf_arith ht]
  have h1 : ¬ (Ty.int (t.bits / 8) t.signed = Ty.bool) := by simp
  have h2 : ¬ ((Ty.flt fsz).isInt = true ∧ (Ty.int (t.bits / 8) t.signed).isFlt = true) := by simp [Ty.isFlt]
  simp only [castConst, if_neg h1, if_neg h2, Ty.isFlt, Ty.isInt, and_self, if_true, Ty.isSigned,
    Eval.cast, cast_ofI ht]
  cases t.signed <;> simp

end

/-! ## 12. integer literals (6.4.4.1) -/

/-- `inttype`: for every value and every spelling of every suffix (any letter case), the type
chosen is the first type of the list of 6.4.4.1p5 that can represent the value (`none` = no type,
diagnosed).  The search loop of `inttype` steps through its table by 1 or 2; the spec filters
the table by the suffix and takes the first fit. -/
theorem literal_type_correct (v : Nat) (decimal : Bool) (sfx : List Char) (s : Suffix)
    (hs : sfxOf (String.ofList (sfx.map toLower)) = some s) :
    inttype v decimal sfx = litType s decimal v :=
  inttype_correct v decimal sfx s hs

/-- Decimal, hexadecimal, binary and octal constants of any length: the parsed value is the
numeric value of the digit string and the type is the first fitting one; a value `≥ 2^64` (or
without a fitting type) is rejected (`litSpec`; 23c06f0 for the overflow). -/
theorem literal_value_correct (cs sfx : List Char) (hsx : SuffixChars sfx) {s : Suffix}
    (hsf : sfxOf (String.ofList (sfx.map toLower)) = some s) :
    (cs ≠ [] → AllDigits 10 cs → cs.head? ≠ some '0' →
      parseNumber (cs ++ sfx) = litSpec (numVal 10 (digitsOf cs)) true s) ∧
    (∀ x, x = 'x' ∨ x = 'X' → cs ≠ [] → AllDigits 16 cs →
      parseNumber ('0' :: x :: (cs ++ sfx)) = litSpec (numVal 16 (digitsOf cs)) false s) ∧
    (∀ x, x = 'b' ∨ x = 'B' → cs ≠ [] → AllDigits 2 cs →
      parseNumber ('0' :: x :: (cs ++ sfx)) = litSpec (numVal 2 (digitsOf cs)) false s) ∧
    (AllDigits 8 cs → parseNumber ('0' :: (cs ++ sfx)) = litSpec (numVal 8 (digitsOf cs)) false s) :=
  ⟨fun hne h h0 => literal_decimal cs sfx hne h h0 hsx hsf,
   fun x hx hne h => literal_hex x hx cs sfx hne h hsx hsf,
   fun x hx hne h => literal_binary x hx cs sfx hne h hsx hsf,
   fun h => literal_octal cs sfx h hsx hsf⟩

/-- a constant whose value does not fit 64 bits has no type: rejected, whatever the suffix. -/
theorem literal_overflow_rejected (v : Nat) (hv : W ≤ v) (decimal : Bool) (s : Suffix) :
    litSpec v decimal s = .error := by
  simp [litSpec, hv]

/-! ## 13. tie to the tables generated from `/repo` (re-checked on every run) -/

def litVar : LitTy → String
  | .int => "typeint" | .uint => "typeuint" | .long => "typelong" | .ulong => "typeulong"
  | .llong => "typellong" | .ullong => "typeullong"

/-- the model's copy of `limits[]` (expr.c: `inttype`) is the table in the source. -/
theorem limits_tied :
    Eval.limits.map (fun r => (litVar r.1, r.2.1, r.2.2)) = Gen.IntLimits.limits := by decide

/-- sizes and signedness of the basic integer types (type.c) are those of `LitTy`/`IntTy`. -/
theorem basic_types_tied :
    (Gen.BasicTypes.table.filter (fun r => r.props.contains "PROPINT")).map
      (fun r => (r.var, r.size, r.issigned)) =
    [("typebool", 1, false), ("typechar", 1, true), ("typeschar", 1, true), ("typeuchar", 1, false),
     ("typeshort", 2, true), ("typeushort", 2, false), ("typeint", 4, true), ("typeuint", 4, false),
     ("typelong", 8, true), ("typeulong", 8, false), ("typellong", 8, true), ("typeullong", 8, false)] ∧
    (∀ t : LitTy, (litVar t, litSize t, litSigned t) ∈
      Gen.BasicTypes.table.map (fun r => (r.var, r.size, r.issigned))) := by
  refine ⟨by decide, fun t => ?_⟩
  cases t <;> decide

/-! ## Non-vacuity: concrete inputs meeting the hypotheses -/

section
variable {F : Type} (ops : FloatOps F)

-- binary_correct / fold_correct: INT_MIN / -1 is undefined, -7 / 2 = -3, 0xFFFFFFFFu + 1u wraps
example : CInt.bin .div IntTy.int (-2147483648) (-1) = none := by decide
example : CInt.bin .div IntTy.int (-7) 2 = some (-3) ∧ InRange IntTy.int (-7) ∧ InRange IntTy.int 2 := by decide
example : CInt.bin .add IntTy.uint 4294967295 1 = some 0 := by decide
example : CInt.bin .shl IntTy.int 1 31 = none ∧ CInt.bin .shl IntTy.uint 1 31 = some 2147483648 := by decide
example : CInt.bin .shr IntTy.int (-8) 1 = some (-4) := by decide
example : foldBin ops .div (tyOf IntTy.int) (repr64 IntTy.int (-7)) (repr64 IntTy.int 2) (tyOf IntTy.int)
    = .folded (repr64 IntTy.int (-3)) :=
  fold_correct ops (by decide) (by decide) .div (by decide) (fun _ => rfl) (by decide) (by decide) (by decide)
-- unary_correct
example : CInt.un .neg IntTy.int (-2147483648) = none ∧ CInt.un .bnot IntTy.uint 0 = some 4294967295 := by decide
-- cast_correct: (_Bool)256 = 1, (signed char)200 = -56
example : wrap IntTy.bool 256 = 1 ∧ wrap IntTy.schar 200 = -56 ∧ IntTy.bool.Valid ∧ InRange IntTy.int 256 := by decide
-- eval_correct / eval_canon: (int)5 + 3 * -(4) with all leaves canonical
def exTree : Expr :=
  .binary .add (.int 4 true) (.const (.int 4 true) 5)
    (.binary .mul (.int 4 true) (.const (.int 4 true) 3) (.unary .neg (.int 4 true) (.const (.int 4 true) 4)))
example : IntFrag exTree := by simp [exTree, IntFrag, Ty.isInt]
example : evalC exTree = some (-7) := by decide
example : Canon exTree := by
  refine ⟨by simp [Ty.Wf], ⟨by simp [Ty.Wf], 5, by decide, by decide⟩, Or.inl ⟨by simp [Ty.Wf],
    ⟨by simp [Ty.Wf], 3, by decide, by decide⟩, Or.inl ⟨by simp [Ty.Wf], by simp [Ty.Wf], 4, by decide, by decide⟩⟩⟩
-- `0 && 1/0` is defined (0): the right operand is not evaluated
example : evalC (.binary .land (.int 4 true) (.const (.int 4 true) 0)
    (.binary .div (.int 4 true) (.const (.int 4 true) 1) (.const (.int 4 true) 0))) = some 0 := by decide
-- intconstexpr_sign_rule
example : InRange IntTy.ulong (2 ^ 64 - 1) ∧ IntTy.ulong.Valid := by decide
-- literal_value_correct: "0x7fffffffu", "017", "0b101ull", "2147483648"
example : AllDigits 16 "7fffffff".toList ∧ SuffixChars "u".toList ∧
    sfxOf (String.ofList ("u".toList.map toLower)) = some ⟨true, 0⟩ := by
  refine ⟨?_, ?_, by decide⟩
  · unfold AllDigits; decide
  · unfold SuffixChars; decide
example : parseNumber "0x80000000".toList = .int 2147483648 .uint ∧
    parseNumber "2147483648".toList = .int 2147483648 .long ∧
    parseNumber "0b101ull".toList = .int 5 .ullong ∧ parseNumber "017".toList = .int 15 .int ∧
    parseNumber "18446744073709551616u".toList = .error ∧ parseNumber "08".toList = .error := by decide

end

end CprocVerif.C04

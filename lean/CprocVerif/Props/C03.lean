/-
  C03: soundness of the QBE well-formedness validator.

  Main results (all without `sorry`, axioms beyond the standard ones, `native_decide`, …):

  * `wf_sound`            : if `wf m = .ok ()`, running any function of `m` on any arguments, with any
                            external-function table and any fuel, never ends in
                            `stuck (undefTemp _)`, `stuck (unknownLabel _)`, `stuck (phiNoPred _ _)` or
                            `stuck fellOffEnd`.
  * `wf_no_unknown_label`, `wf_no_undef_temp`, `wf_no_phi_without_pred`, `wf_no_fall_off_end`
                          : the four components of `wf_sound`, stated separately.
  * `wf_single_def`       : every temporary of a function of a well-formed module has exactly one
                            definition (`Nodup` of the list of all definitions).
  * `wf_labels_static`    : every jump of every block (reachable or not) names a block.

  Classes (lemmas in `Lemmas/QbeCls*.lean`, `wf` unchanged):
  * `wf_classes_static`   : what the class checks of `wf` establish for every instruction, jump, phi
                            and direct call of every function (`Cls.FuncCls`).
  * `wf_classes_preserved`: one step of a well-formed module preserves the typing invariant
                            `Cls.StackT` (every bound temporary holds a value of its static class).
  * `wf_sound_classes_at` : a run that ends in a class mismatch (`Cls.ClassStuck`) stopped at an
                            indirect call.
  * `wf_sound_classes_partial`, `wf_sound_full_partial`, `wf_sound_classes_from`
                          : no run of a module without indirect calls ends in a class mismatch
                            (external functions: hypothesis `ExtOk`; arguments: `Cls.ArgsOk`).
  * `wf_sound_classes_full` : the statement without the restriction (a `def … : Prop`; false).
-/
import CprocVerif.Spec.Qbe
import CprocVerif.Spec.QbeWf
import CprocVerif.Lemmas.QbeClsStep
import CprocVerif.Lemmas.QbeClsEx

namespace CprocVerif.C03
open CprocVerif.Qbe

/-! ## The bad ends -/

/-- The ends excluded by well-formedness. -/
def BadStuck : End → Prop
  | .stuck (.undefTemp _) => True
  | .stuck (.unknownLabel _) => True
  | .stuck (.phiNoPred _ _) => True
  | .stuck .fellOffEnd => True
  | _ => False

theorem opErr_not_bad (e : OpErr) : ¬ BadStuck e.toEnd := by
  cases e <;> simp [OpErr.toEnd, BadStuck]

/-! ## Reading operands -/

theorem readVal_error {p : Prog} {env : Env} {v : Val} {r : StuckReason}
    (h : readVal p env v = .error r) : ∃ t, v = .tmp t ∧ r = .undefTemp t ∧ env[t]? = none := by
  cases v with
  | tmp n =>
    simp only [readVal] at h
    split at h
    · cases h
    · rename_i hn
      cases h
      exact ⟨n, rfl, rfl, hn⟩
  | glob n t => simp [readVal] at h
  | int n => simp [readVal] at h
  | fs b => simp [readVal] at h
  | fd b => simp [readVal] at h

theorem readVals_error {p : Prog} {env : Env} {vs : List Val} {r : StuckReason}
    (h : readVals p env vs = .error r) :
    ∃ t, Val.tmp t ∈ vs ∧ r = .undefTemp t ∧ env[t]? = none := by
  induction vs with
  | nil => simp [readVals] at h
  | cons v vs ih =>
    simp only [readVals] at h
    split at h
    · rename_i e he
      cases h
      obtain ⟨t, hv, hr, hn⟩ := readVal_error he
      exact ⟨t, by simp [hv], hr, hn⟩
    · split at h
      · rename_i e he
        cases h
        obtain ⟨t, hv, hr, hn⟩ := ih he
        exact ⟨t, by simp [hv], hr, hn⟩
      · cases h

theorem mem_env_getElem? {env : Env} {t : String} (h : t ∈ env) : env[t]? ≠ none := by
  intro hn
  have := (Std.HashMap.mem_iff_isSome_getElem? (m := env) (a := t)).1 h
  rw [hn] at this
  cases this

/-! ## Environments only grow -/

def EnvLe (e₁ e₂ : Env) : Prop := ∀ t, t ∈ e₁ → t ∈ e₂

theorem EnvLe.refl (e : Env) : EnvLe e e := fun _ h => h

theorem EnvLe.trans {a b c : Env} (h₁ : EnvLe a b) (h₂ : EnvLe b c) : EnvLe a c :=
  fun t h => h₂ t (h₁ t h)

theorem envLe_insert (e : Env) (x : String) (v : RVal) : EnvLe e (e.insert x v) := by
  intro t h
  exact Std.HashMap.mem_insert.2 (Or.inr h)

theorem mem_insert_self (e : Env) (x : String) (v : RVal) : x ∈ e.insert x v :=
  Std.HashMap.mem_insert.2 (Or.inl (by simp))

theorem bindRes_le (e : Env) (res : Option String) (v : RVal) : EnvLe e (bindRes e res v) := by
  cases res with
  | none => exact EnvLe.refl e
  | some x => exact envLe_insert e x v

theorem bindRes_mem (e : Env) (x : String) (v : RVal) : x ∈ bindRes e (some x) v :=
  mem_insert_self e x v

theorem bindAll_le (e : Env) (bs : List (String × RVal)) : EnvLe e (bindAll e bs) := by
  induction bs generalizing e with
  | nil => exact EnvLe.refl e
  | cons b bs ih =>
    obtain ⟨x, v⟩ := b
    simp only [bindAll]
    exact EnvLe.trans (envLe_insert e x v) (ih _)

theorem bindAll_mem (e : Env) (bs : List (String × RVal)) (x : String)
    (h : x ∈ bs.map (·.1)) : x ∈ bindAll e bs := by
  induction bs generalizing e with
  | nil => simp at h
  | cons b bs ih =>
    obtain ⟨y, v⟩ := b
    simp only [bindAll]
    simp only [List.map_cons, List.mem_cons] at h
    cases h with
    | inl h => subst h; exact bindAll_le _ _ _ (mem_insert_self e x v)
    | inr h => exact ih _ h

theorem bindParams_le (e : Env) (ps : List (Ty × String)) (vs : List RVal) :
    EnvLe e (bindParams e ps vs) := by
  induction ps generalizing e vs with
  | nil => simp only [bindParams]; exact EnvLe.refl e
  | cons p ps ih =>
    obtain ⟨ty, x⟩ := p
    cases vs with
    | nil => simp only [bindParams]; exact EnvLe.refl e
    | cons v vs =>
      simp only [bindParams]
      exact EnvLe.trans (envLe_insert e x v) (ih _ _)

theorem bindParams_mem (e : Env) (ps : List (Ty × String)) (vs : List RVal)
    (hl : ps.length ≤ vs.length) (q : Ty × String) (hq : q ∈ ps) :
    q.2 ∈ bindParams e ps vs := by
  induction ps generalizing e vs with
  | nil => simp at hq
  | cons p ps ih =>
    obtain ⟨ty, x⟩ := p
    cases vs with
    | nil => simp at hl
    | cons v vs =>
      simp only [bindParams]
      simp only [List.mem_cons] at hq
      cases hq with
      | inl h => subst h; exact bindParams_le _ _ _ _ (mem_insert_self e x v)
      | inr h => exact ih _ _ (by simpa using hl) h

/-! ## Bit sets -/

theorem testBit_bit (i d : Nat) : (bit i).testBit d = decide (i = d) := by
  simp [bit, Nat.one_shiftLeft, Nat.testBit_two_pow]

theorem bsSubset_testBit {a b : Nat} (h : bsSubset a b = true) (d : Nat)
    (hd : a.testBit d = true) : b.testBit d = true := by
  simp only [bsSubset, beq_iff_eq] at h
  have : (a &&& b).testBit d = true := by rw [h]; exact hd
  simp only [Nat.testBit_and, Bool.and_eq_true] at this
  exact this.2

/-! ## "Defined before" as a proposition -/

/-- `t` has a definition that (according to the certificate `c`) is executed before control reaches
    instruction `ii` of block `bi`. -/
inductive DefinedAt (f : Func) (c : FnCert) (bi ii : Nat) (t : String) : Prop where
  | param (q : Ty × String) : q ∈ f.params → q.2 = t → DefinedAt f c bi ii t
  | phi (d : Nat) (b : Block) (ph : Phi) : f.blocks[d]? = some b → ph ∈ b.phis → ph.res = t →
      (d = bi ∨ (c.dom.getD bi 0).testBit d = true) → DefinedAt f c bi ii t
  | ins (d : Nat) (b : Block) (j : Nat) (i : Ins) : f.blocks[d]? = some b → b.ins[j]? = some i →
      i.defn = some t →
      ((d = bi ∧ j < ii) ∨ (d ≠ bi ∧ (c.dom.getD bi 0).testBit d = true)) → DefinedAt f c bi ii t

theorem DefinedAt.mono {f : Func} {c : FnCert} {bi ii ii' : Nat} {t : String}
    (h : DefinedAt f c bi ii t) (hle : ii ≤ ii') : DefinedAt f c bi ii' t := by
  cases h with
  | param q hq ht => exact .param q hq ht
  | phi d b ph hb hph ht hd => exact .phi d b ph hb hph ht hd
  | ins d b j i hb hi ht hd =>
    refine .ins d b j i hb hi ht ?_
    cases hd with
    | inl h => exact Or.inl ⟨h.1, by omega⟩
    | inr h => exact Or.inr h

theorem defBefore_sound {f : Func} {c : FnCert} {bi ii : Nat} {t : String}
    (h : defBefore f c bi ii t = true) : DefinedAt f c bi ii t := by
  unfold defBefore at h
  split at h
  · cases h
  · -- param
    simp only [List.any_eq_true, beq_iff_eq] at h
    obtain ⟨q, hq, ht⟩ := h
    exact .param q hq ht
  · rename_i d _
    simp only [Bool.and_eq_true] at h
    obtain ⟨h1, h2⟩ := h
    split at h1
    · rename_i b hb
      simp only [List.any_eq_true, beq_iff_eq] at h1
      obtain ⟨ph, hph, ht⟩ := h1
      refine .phi d b ph hb hph ht ?_
      simp only [Bool.or_eq_true, beq_iff_eq] at h2
      exact h2
    · cases h1
  · rename_i d j _
    simp only [Bool.and_eq_true] at h
    obtain ⟨h1, h2⟩ := h
    split at h1
    · rename_i b hb
      split at h1
      · rename_i i hi
        simp only [beq_iff_eq] at h1
        refine .ins d b j i hb hi h1 ?_
        simp only [Bool.or_eq_true, Bool.and_eq_true, beq_iff_eq, decide_eq_true_eq, bne_iff_ne,
          ne_eq] at h2
        exact h2
      · cases h1
    · cases h1

theorem valDefBefore_sound {f : Func} {c : FnCert} {bi ii : Nat} {v : Val} {t : String}
    (h : valDefBefore f c bi ii v = true) (hv : v = .tmp t) : DefinedAt f c bi ii t := by
  subst hv
  exact defBefore_sound h

/-! ## Unpacking `flowOk` -/

structure FlowFacts (f : Func) (c : FnCert) : Prop where
  reach0 : c.reach.testBit 0 = true
  dom0 : ∀ d, (c.dom.getD 0 0).testBit d = true → d = 0
  phis0 : ∃ b, f.blocks[0]? = some b ∧ b.phis = []
  block : ∀ bi b, f.blocks[bi]? = some b → blockFlowOk f c bi b = true

theorem flowOk_facts {f : Func} {c : FnCert} (h : flowOk f c = true) : FlowFacts f c := by
  unfold flowOk at h
  simp only [Bool.and_eq_true] at h
  obtain ⟨⟨⟨h1, h2⟩, h3⟩, h4⟩ := h
  refine ⟨h1, ?_, ?_, ?_⟩
  · intro d hd
    simp only [Bool.or_eq_true, beq_iff_eq] at h2
    cases h2 with
    | inl h => rw [h] at hd; simp at hd
    | inr h =>
      rw [h] at hd
      have : (bit 0).testBit d = true := by simpa [bit] using hd
      rw [testBit_bit] at this
      have : 0 = d := by simpa using this
      exact this.symm
  · split at h3
    · rename_i b hb
      exact ⟨b, hb, by simpa [List.isEmpty_iff] using h3⟩
    · cases h3
  · intro bi b hb
    rw [List.all_eq_true] at h4
    have hlt : bi < f.blocks.size := by
      obtain ⟨hl, _⟩ := Array.getElem?_eq_some_iff.1 hb
      exact hl
    have := h4 bi (List.mem_range.2 hlt)
    rw [hb] at this
    exact this

structure BlockFacts (f : Func) (c : FnCert) (bi : Nat) (b : Block) : Prop where
  insUses : ∀ ii i, b.ins[ii]? = some i → ∀ v ∈ i.operands, valDefBefore f c bi ii v = true
  termUses : ∀ j, b.term = some j → ∀ v ∈ j.operands, valDefBefore f c bi b.ins.size v = true
  edges : ∃ ss, succIdx (FuncInfo.of f) bi b = some ss ∧ ∀ s ∈ ss, edgeOk f c bi b s = true

theorem blockFlowOk_facts {f : Func} {c : FnCert} {bi : Nat} {b : Block}
    (h : blockFlowOk f c bi b = true) (hr : c.reach.testBit bi = true) : BlockFacts f c bi b := by
  unfold blockFlowOk at h
  simp only [hr, Bool.not_true, Bool.false_or, Bool.and_eq_true] at h
  obtain ⟨⟨h1, h2⟩, h3⟩ := h
  refine ⟨?_, ?_, ?_⟩
  · intro ii i hi v hv
    unfold insUsesOk at h1
    rw [List.all_eq_true] at h1
    have hlt : ii < b.ins.size := by
      obtain ⟨hl, _⟩ := Array.getElem?_eq_some_iff.1 hi
      exact hl
    have := h1 ii (List.mem_range.2 hlt)
    rw [hi] at this
    exact List.all_eq_true.1 this v hv
  · intro j hj v hv
    unfold termUsesOk at h2
    rw [hj] at h2
    exact List.all_eq_true.1 h2 v hv
  · split at h3
    · cases h3
    · rename_i ss hss
      exact ⟨ss, hss, fun s hs => List.all_eq_true.1 h3 s hs⟩

structure EdgeFacts (f : Func) (c : FnCert) (bi : Nat) (b : Block) (s : Nat) : Prop where
  target : ∃ sb, f.blocks[s]? = some sb ∧
    ∀ ph ∈ sb.phis, ∃ src, ph.srcs.find? (fun x => x.1 == b.label) = some src ∧
      valDefBefore f c bi b.ins.size src.2 = true
  reach : c.reach.testBit s = true
  dom : ∀ d, (c.dom.getD s 0).testBit d = true →
    (c.dom.getD bi 0).testBit d = true ∨ d = bi ∨ d = s

theorem edgeOk_facts {f : Func} {c : FnCert} {bi : Nat} {b : Block} {s : Nat}
    (h : edgeOk f c bi b s = true) : EdgeFacts f c bi b s := by
  unfold edgeOk at h
  split at h
  · cases h
  · rename_i sb hsb
    simp only [Bool.and_eq_true] at h
    obtain ⟨⟨h1, h2⟩, h3⟩ := h
    refine ⟨⟨sb, hsb, ?_⟩, h1, ?_⟩
    · intro ph hph
      have := List.all_eq_true.1 h3 ph hph
      split at this
      · cases this
      · rename_i src hsrc
        exact ⟨src, hsrc, this⟩
    · intro d hd
      have := bsSubset_testBit h2 d hd
      simp only [Nat.testBit_or, testBit_bit, Bool.or_eq_true, decide_eq_true_eq] at this
      rcases this with (h | h) | h
      · exact Or.inl h
      · exact Or.inr (Or.inl h.symm)
      · exact Or.inr (Or.inr h.symm)

/-! ## The invariant -/

structure FrameOkC (fr : Frame) (c : FnCert) : Prop where
  fiEq : fr.fi = FuncInfo.of fr.fi.f
  flow : FlowFacts fr.fi.f c
  reach : c.reach.testBit fr.bi = true
  blk : ∃ b, fr.fi.f.blocks[fr.bi]? = some b
  defs : ∀ t, DefinedAt fr.fi.f c fr.bi fr.ii t → t ∈ fr.env

/-- A frame is consistent with a flow certificate of its function: it is in a reachable, existing
    block and every temporary whose definition dominates the current point is bound. -/
def FrameOk (fr : Frame) : Prop := ∃ c, FrameOkC fr c

def StateOk (s : State) : Prop := ∀ fr ∈ s.frames, FrameOk fr

/-- Every function of the program table carries its own label index and has a valid certificate. -/
def ProgOk (p : Prog) : Prop :=
  ∀ (name : String) (fi : FuncInfo), p.funcs[name]? = some fi →
    fi = FuncInfo.of fi.f ∧ ∃ c, flowOk fi.f c = true

/-- What a step may produce. -/
def StepOk : Step → Prop
  | .next s' => StateOk s'
  | .done e _ => ¬ BadStuck e

theorem frame_advance {fr : Frame} {c : FnCert} (h : FrameOkC fr c) {b : Block} {ins : Ins}
    (hb : fr.fi.f.blocks[fr.bi]? = some b) (hi : b.ins[fr.ii]? = some ins) (env' : Env)
    (hle : EnvLe fr.env env') (hdef : ∀ x, ins.defn = some x → x ∈ env') :
    FrameOkC { fr with env := env', ii := fr.ii + 1 } c := by
  refine ⟨h.fiEq, h.flow, h.reach, h.blk, ?_⟩
  intro t ht
  show t ∈ env'
  cases ht with
  | param q hq hqt => exact hle t (h.defs t (.param q hq hqt))
  | phi d b' ph hb' hph ht hd => exact hle t (h.defs t (.phi d b' ph hb' hph ht hd))
  | ins d b' j i hb' hi' ht hd =>
    cases hd with
    | inr hd => exact hle t (h.defs t (.ins d b' j i hb' hi' ht (Or.inr hd)))
    | inl hd =>
      obtain ⟨hdb, hj⟩ := hd
      have hj : j < fr.ii + 1 := hj
      by_cases hlt : j < fr.ii
      · exact hle t (h.defs t (.ins d b' j i hb' hi' ht (Or.inl ⟨hdb, hlt⟩)))
      · have hje : j = fr.ii := by omega
        subst hdb
        rw [hb] at hb'
        cases hb'
        rw [hje, hi] at hi'
        cases hi'
        exact hdef t ht

theorem evalPhis_ok {p : Prog} {env : Env} {blk pred : String} {phis : List Phi}
    (h : ∀ ph ∈ phis, ∃ src, ph.srcs.find? (fun x => x.1 == pred) = some src ∧
      ∀ t, src.2 = .tmp t → t ∈ env) :
    match evalPhis p env blk pred phis with
    | .ok bs => bs.map (·.1) = phis.map (·.res)
    | .error e => ¬ BadStuck e := by
  induction phis with
  | nil => simp [evalPhis]
  | cons ph rest ih =>
    obtain ⟨src, hsrc, hdef⟩ := h ph (by simp)
    have ih' := ih (fun ph' hph' => h ph' (by simp [hph']))
    simp only [evalPhis, hsrc]
    cases hr : readVal p env src.2 with
    | error r =>
      obtain ⟨t, hv, _, hn⟩ := readVal_error hr
      exact absurd hn (mem_env_getElem? (hdef t hv))
    | ok v =>
      dsimp only
      cases hc : v.coerce ph.k with
      | error e => exact opErr_not_bad _
      | ok v' =>
        dsimp only
        cases hrs : evalPhis p env blk pred rest with
        | error e =>
          rw [hrs] at ih'
          exact ih'
        | ok rs =>
          rw [hrs] at ih'
          dsimp only at ih' ⊢
          simp [ih']

theorem gotoBlock_ok {p : Prog} {fr : Frame} {rest : List Frame} {mem : Mem}
    {trace : Array String} {b : Block} {j : Nat} {c : FnCert} (h : FrameOkC fr c)
    (hb : fr.fi.f.blocks[fr.bi]? = some b) (hii : b.ins[fr.ii]? = none)
    (he : EdgeFacts fr.fi.f c fr.bi b j) (hrest : ∀ fr' ∈ rest, FrameOk fr') :
    StepOk (gotoBlock p fr rest mem trace b j) := by
  obtain ⟨⟨sb, hsb, hphis⟩, hreach, hdom⟩ := he
  have hsz : b.ins.size ≤ fr.ii := Array.getElem?_eq_none_iff.1 hii
  have hev := evalPhis_ok (p := p) (env := fr.env) (blk := sb.label) (pred := b.label)
    (phis := sb.phis) (by
      intro ph hph
      obtain ⟨src, hsrc, hvd⟩ := hphis ph hph
      refine ⟨src, hsrc, ?_⟩
      intro t ht
      exact h.defs t ((valDefBefore_sound hvd ht).mono hsz))
  unfold gotoBlock
  simp only [hsb]
  cases hbs : evalPhis p fr.env sb.label b.label sb.phis with
  | error e =>
    rw [hbs] at hev
    exact hev
  | ok bs =>
    rw [hbs] at hev
    dsimp only at hev ⊢
    simp only [StepOk, StateOk]
    intro fr' hfr'
    simp only [List.mem_cons] at hfr'
    cases hfr' with
    | inr hr => exact hrest fr' hr
    | inl hfr' =>
      subst hfr'
      refine ⟨c, h.fiEq, h.flow, hreach, ⟨sb, hsb⟩, ?_⟩
      intro t ht
      show t ∈ bindAll fr.env bs
      have hle := bindAll_le fr.env bs
      cases ht with
      | param q hq hqt => exact hle t (h.defs t (.param q hq hqt))
      | phi d b' ph hb' hph ht hd =>
        have hd : d = j ∨ (c.dom.getD j 0).testBit d = true := hd
        have hcase : d = j ∨ (d = fr.bi ∨ (c.dom.getD fr.bi 0).testBit d = true) := by
          cases hd with
          | inl hd => exact Or.inl hd
          | inr hd =>
            rcases hdom d hd with h1 | h1 | h1
            · exact Or.inr (Or.inr h1)
            · exact Or.inr (Or.inl h1)
            · exact Or.inl h1
        cases hcase with
        | inl hdj =>
          subst hdj
          have hb' : fr.fi.f.blocks[d]? = some b' := hb'
          rw [hsb] at hb'
          cases hb'
          apply bindAll_mem
          rw [hev, ← ht]
          exact List.mem_map.2 ⟨ph, hph, rfl⟩
        | inr hd' => exact hle t (h.defs t (.phi d b' ph hb' hph ht hd'))
      | ins d b' k i hb' hi' ht hd =>
        have hd : (d = j ∧ k < 0) ∨ (d ≠ j ∧ (c.dom.getD j 0).testBit d = true) := hd
        cases hd with
        | inl hd => exact absurd hd.2 (Nat.not_lt_zero k)
        | inr hd =>
          rcases hdom d hd.2 with h1 | h1 | h1
          · by_cases hdb : d = fr.bi
            · subst hdb
              rw [hb] at hb'
              cases hb'
              have hk : k < b.ins.size := by
                obtain ⟨hl, _⟩ := Array.getElem?_eq_some_iff.1 hi'
                exact hl
              exact hle t (h.defs t (.ins fr.bi b k i hb hi' ht (Or.inl ⟨rfl, by omega⟩)))
            · exact hle t (h.defs t (.ins d b' k i hb' hi' ht (Or.inr ⟨hdb, h1⟩)))
          · subst h1
            rw [hb] at hb'
            cases hb'
            have hk : k < b.ins.size := by
              obtain ⟨hl, _⟩ := Array.getElem?_eq_some_iff.1 hi'
              exact hl
            exact hle t (h.defs t (.ins fr.bi b k i hb hi' ht (Or.inl ⟨rfl, by omega⟩)))
          · exact absurd h1 hd.1

/-! ## Calls and returns -/

theorem bindCallRes_ok {p : Prog} {env : Env} {mem : Mem} {res : Option (String × Ty)}
    {rv : RetVal} {env' : Env} {mem' : Mem}
    (h : bindCallRes p env mem res rv = .ok (env', mem')) :
    EnvLe env env' ∧ ∀ x, res.map (·.1) = some x → x ∈ env' := by
  unfold bindCallRes at h
  split at h
  · cases h
    exact ⟨EnvLe.refl _, by simp⟩
  · rename_i x ty
    have key : ∀ v, env' = env.insert x v →
        EnvLe env env' ∧ ∀ y, (some (x, ty)).map (·.1) = some y → y ∈ env' := by
      intro v hv
      subst hv
      refine ⟨envLe_insert env x v, ?_⟩
      intro y hy
      simp only [Option.map_some, Option.some.injEq] at hy
      subst hy
      exact mem_insert_self env x v
    split at h
    · cases h
      exact key _ rfl
    · split at h
      · cases h
      · split at h
        · cases h
        · cases h
          exact key _ rfl
    · split at h
      · cases h
      · split at h
        · cases h
        · cases h
          exact key _ rfl

theorem enterFunc_ok {p : Prog} {fi : FuncInfo} {args : List (Ty × RVal)} {varAt : Option Nat}
    {mem : Mem} {nf : Frame} {mem' : Mem} {c : FnCert} (hfi : fi = FuncInfo.of fi.f)
    (hc : flowOk fi.f c = true) (h : enterFunc p fi args varAt mem = .ok (nf, mem')) :
    FrameOk nf := by
  have hf := flowOk_facts hc
  unfold enterFunc at h
  dsimp only at h
  split at h
  · cases h
  split at h
  · cases h
  split at h
  · cases h
  split at h
  · cases h
  split at h
  · cases h
  split at h
  · cases h
  rename_i vals mem2 hprep
  split at h
  · cases h
  rename_i hlen
  cases h
  have hlen : vals.length = fi.f.params.length := by simpa using hlen
  obtain ⟨b0, hb0, hph0⟩ := hf.phis0
  refine ⟨c, hfi, hf, hf.reach0, ⟨b0, hb0⟩, ?_⟩
  intro t ht
  show t ∈ bindParams {} fi.f.params vals
  cases ht with
  | param q hq hqt =>
    subst hqt
    exact bindParams_mem _ _ _ (by omega) q hq
  | phi d b ph hb hph ht hd =>
    have hd0 : d = 0 := by
      cases hd with
      | inl h => exact h
      | inr h => exact hf.dom0 d h
    subst hd0
    have hb : fi.f.blocks[0]? = some b := hb
    rw [hb0] at hb
    cases hb
    rw [hph0] at hph
    cases hph
  | ins d b j i hb hi ht hd =>
    have hd : (d = 0 ∧ j < 0) ∨ (d ≠ 0 ∧ (c.dom.getD 0 0).testBit d = true) := hd
    cases hd with
    | inl h => exact absurd h.2 (Nat.not_lt_zero j)
    | inr h => exact absurd (hf.dom0 d h.2) h.1

/-! ## One step preserves the invariant and never ends badly -/

theorem curIns_some {fr : Frame} {i : Ins} (h : fr.curIns = some i) :
    ∃ b, fr.fi.f.blocks[fr.bi]? = some b ∧ b.ins[fr.ii]? = some i := by
  unfold Frame.curIns at h
  split at h
  · rename_i b hb
    exact ⟨b, hb, h⟩
  · cases h

theorem stepRet_ok {p : Prog} {fr : Frame} {rest : List Frame} {mem : Mem}
    {trace : Array String} {v : Option RVal} (hrest : ∀ fr' ∈ rest, FrameOk fr') :
    StepOk (stepRet p fr rest mem trace v) := by
  unfold stepRet
  split
  · exact opErr_not_bad _
  · dsimp only
    split
    · simp [StepOk, BadStuck]
    · rename_i caller rest'
      split
      · rename_i res callee args varAt hcur
        obtain ⟨b, hb, hi⟩ := curIns_some hcur
        obtain ⟨c, hc⟩ := hrest caller (by simp)
        split
        · exact opErr_not_bad _
        · rename_i env' mem' hbind
          obtain ⟨hle, hmem⟩ := bindCallRes_ok hbind
          simp only [StepOk, StateOk]
          intro fr' hfr'
          simp only [List.mem_cons] at hfr'
          cases hfr' with
          | inr hr => exact hrest fr' (by simp [hr])
          | inl hfr' =>
            subst hfr'
            exact ⟨c, frame_advance hc hb hi env' hle (by
              intro x hx
              exact hmem x hx)⟩
      · simp [StepOk, BadStuck]

theorem labelIdx_eq {fr : Frame} {c : FnCert} (h : FrameOkC fr c) :
    fr.fi.labelIdx = (FuncInfo.of fr.fi.f).labelIdx :=
  congrArg FuncInfo.labelIdx h.fiEq

theorem readVal_defined {p : Prog} {fr : Frame} {c : FnCert} (h : FrameOkC fr c) {ii : Nat}
    (hii : ii ≤ fr.ii) {v : Val} (hv : valDefBefore fr.fi.f c fr.bi ii v = true)
    {r : StuckReason} (hr : readVal p fr.env v = .error r) : False := by
  obtain ⟨t, hvt, _, hn⟩ := readVal_error hr
  exact mem_env_getElem? (h.defs t ((valDefBefore_sound hv hvt).mono hii)) hn

theorem stepTerm_ok {p : Prog} {fr : Frame} {rest : List Frame} {mem : Mem}
    {trace : Array String} {b : Block} {c : FnCert} (h : FrameOkC fr c)
    (hb : fr.fi.f.blocks[fr.bi]? = some b) (hii : b.ins[fr.ii]? = none)
    (hrest : ∀ fr' ∈ rest, FrameOk fr') :
    StepOk (stepTerm p fr rest mem trace b) := by
  have hbf := blockFlowOk_facts (h.flow.block fr.bi b hb) h.reach
  obtain ⟨ss, hss, hedges⟩ := hbf.edges
  have hsz : b.ins.size ≤ fr.ii := Array.getElem?_eq_none_iff.1 hii
  have hlab := labelIdx_eq h
  unfold stepTerm
  split
  · -- fallthrough
    rename_i hterm
    simp only [succIdx, hterm] at hss
    cases hss
    exact gotoBlock_ok h hb hii (edgeOk_facts (hedges _ (by simp))) hrest
  · -- jmp
    rename_i l hterm
    simp only [succIdx, hterm] at hss
    rw [hlab]
    split
    · rename_i hl
      rw [hl] at hss
      cases hss
    · rename_i j hl
      rw [hl] at hss
      cases hss
      exact gotoBlock_ok h hb hii (edgeOk_facts (hedges _ (by simp))) hrest
  · -- jnz
    rename_i v a z hterm
    have huse := hbf.termUses _ hterm v (by simp [Jump.operands])
    simp only [succIdx, hterm] at hss
    split
    · rename_i r hr
      exact (readVal_defined h hsz huse hr).elim
    · split
      · exact opErr_not_bad _
      · rename_i x _
        dsimp only
        rw [hlab]
        cases ha : (FuncInfo.of fr.fi.f).labelIdx[a]? with
        | none => simp [ha] at hss
        | some ja =>
          cases hz : (FuncInfo.of fr.fi.f).labelIdx[z]? with
          | none => simp [ha, hz] at hss
          | some jz =>
            simp only [ha, hz, Option.some.injEq] at hss
            subst hss
            by_cases hx : (x != 0) = true
            · rw [if_pos hx, ha]
              exact gotoBlock_ok h hb hii (edgeOk_facts (hedges _ (by simp))) hrest
            · rw [if_neg hx, hz]
              exact gotoBlock_ok h hb hii (edgeOk_facts (hedges _ (by simp))) hrest
  · exact stepRet_ok hrest
  · rename_i v hterm
    have huse := hbf.termUses _ hterm v (by simp [Jump.operands])
    split
    · rename_i r hr
      exact (readVal_defined h hsz huse hr).elim
    · exact stepRet_ok hrest
  · simp [StepOk, BadStuck]

theorem readVals_defined {p : Prog} {fr : Frame} {c : FnCert} (h : FrameOkC fr c) {vs : List Val}
    (hv : ∀ v ∈ vs, valDefBefore fr.fi.f c fr.bi fr.ii v = true)
    {r : StuckReason} (hr : readVals p fr.env vs = .error r) : False := by
  obtain ⟨t, hvt, _, hn⟩ := readVals_error hr
  exact mem_env_getElem? (h.defs t (valDefBefore_sound (hv _ hvt) rfl)) hn

theorem stepIns_ok {p : Prog} {ext : Ext} {fr : Frame} {rest : List Frame} {mem : Mem}
    {trace : Array String} {b : Block} {ins : Ins} {c : FnCert} (hp : ProgOk p)
    (h : FrameOkC fr c) (hb : fr.fi.f.blocks[fr.bi]? = some b) (hi : b.ins[fr.ii]? = some ins)
    (hrest : ∀ fr' ∈ rest, FrameOk fr') :
    StepOk (stepIns p ext fr rest mem trace ins) := by
  have hbf := blockFlowOk_facts (h.flow.block fr.bi b hb) h.reach
  have huses := hbf.insUses fr.ii ins hi
  have hnext : ∀ env' : Env, EnvLe fr.env env' → (∀ x, ins.defn = some x → x ∈ env') →
      ∀ mem' trace', StepOk (.next ⟨{ fr with env := env', ii := fr.ii + 1 } :: rest, mem', trace'⟩) := by
    intro env' hle hdef mem' trace'
    simp only [StepOk, StateOk]
    intro fr' hfr'
    simp only [List.mem_cons] at hfr'
    cases hfr' with
    | inr hr => exact hrest fr' hr
    | inl hfr' =>
      subst hfr'
      exact ⟨c, frame_advance h hb hi env' hle hdef⟩
  cases ins with
  | op res o args =>
    simp only [stepIns]
    split
    · rename_i r hr
      exact (readVals_defined h huses hr).elim
    · split
      · exact opErr_not_bad _
      · rename_i v mem' _
        apply hnext
        · exact bindRes_le _ _ _
        · intro x hx
          simp only [Ins.defn] at hx
          rw [hx]
          exact bindRes_mem _ _ _
  | call res callee args varAt =>
    simp only [stepIns]
    split
    · rename_i r hr
      exact (readVals_defined h huses hr).elim
    · simp [StepOk, BadStuck]
    · split
      · exact opErr_not_bad _
      · rename_i name _
        split
        · rename_i fi hfi
          obtain ⟨hfiEq, c', hc'⟩ := hp name fi hfi
          split
          · exact opErr_not_bad _
          · rename_i nf mem' henter
            simp only [StepOk, StateOk]
            intro fr' hfr'
            simp only [List.mem_cons] at hfr'
            rcases hfr' with hfr' | hfr' | hfr'
            · subst hfr'
              exact enterFunc_ok hfiEq hc' henter
            · subst hfr'
              exact ⟨c, h⟩
            · exact hrest fr' hfr'
        · split
          · simp [StepOk, BadStuck]
          · exact opErr_not_bad _
          · split
            · exact opErr_not_bad _
            · rename_i env' mem' hbind
              obtain ⟨hle, hmem⟩ := bindCallRes_ok hbind
              apply hnext
              · exact hle
              · intro x hx
                exact hmem x hx

theorem step_ok {p : Prog} {ext : Ext} {s : State} (hp : ProgOk p) (hs : StateOk s) :
    StepOk (step p ext s) := by
  unfold step
  split
  · simp [StepOk, BadStuck]
  · rename_i fr rest mem trace
    have hfr : FrameOk fr := hs fr (by simp)
    have hrest : ∀ fr' ∈ rest, FrameOk fr' := fun fr' h => hs fr' (by simp [h])
    obtain ⟨c, hc⟩ := hfr
    obtain ⟨b, hb⟩ := hc.blk
    rw [hb]
    dsimp only
    split
    · rename_i ins hi
      exact stepIns_ok hp hc hb hi hrest
    · rename_i hi
      exact stepTerm_ok hc hb hi hrest

theorem run_ok {p : Prog} {ext : Ext} (hp : ProgOk p) (fuel : Nat) {s : State} (hs : StateOk s) :
    ¬ BadStuck (run p ext fuel s).end := by
  induction fuel generalizing s with
  | zero => simp [run, BadStuck]
  | succ n ih =>
    have := step_ok (ext := ext) hp hs
    simp only [run]
    split
    · rename_i s' hs'
      rw [hs'] at this
      exact ih this
    · rename_i e t he
      rw [he] at this
      exact this

theorem runFunc_ok {p : Prog} {ext : Ext} (hp : ProgOk p) (name : String)
    (args : List (Ty × RVal)) (fuel : Nat) : ¬ BadStuck (runFunc p ext name args fuel).end := by
  unfold runFunc
  split
  · rename_i e he
    unfold initState at he
    split at he
    · cases he
      simp [BadStuck]
    · split at he
      · cases he
        exact opErr_not_bad _
      · cases he
  · rename_i s hs
    apply run_ok hp
    unfold initState at hs
    split at hs
    · cases hs
    · rename_i fi hfi
      obtain ⟨hfiEq, c, hc⟩ := hp name fi hfi
      split at hs
      · cases hs
      · rename_i fr mem henter
        cases hs
        intro fr' hfr'
        simp only [List.mem_singleton] at hfr'
        subst hfr'
        exact enterFunc_ok hfiEq hc henter

/-! ## From `wf` to the invariant -/

theorem mkFuncTable_spec (fs : List Func) (name : String) (fi : FuncInfo)
    (h : (mkFuncTable fs)[name]? = some fi) : ∃ f ∈ fs, fi = FuncInfo.of f := by
  unfold mkFuncTable at h
  have gen : ∀ (l : List Func) (init : Std.HashMap String FuncInfo) (P : FuncInfo → Prop),
      (∀ fi, init[name]? = some fi → P fi) → (∀ f ∈ l, P (FuncInfo.of f)) →
      ∀ fi, (l.foldl (fun h f => h.insertIfNew f.name (FuncInfo.of f)) init)[name]? = some fi →
        P fi := by
    intro l
    induction l with
    | nil => intro init P h0 _ fi hfi; exact h0 fi hfi
    | cons f l ih =>
      intro init P h0 hl fi hfi
      simp only [List.foldl_cons] at hfi
      refine ih _ P ?_ (fun g hg => hl g (by simp [hg])) fi hfi
      intro fi' hfi'
      rw [Std.HashMap.getElem?_insertIfNew] at hfi'
      split at hfi'
      · cases hfi'
        exact hl f (by simp)
      · exact h0 fi' hfi'
  exact gen fs {} (fun fi => ∃ f ∈ fs, fi = FuncInfo.of f)
    (by intro fi hfi; simp at hfi)
    (fun f hf => ⟨f, hf, rfl⟩) fi h

theorem noDupCheck_sound (xs : List String) (s : Std.HashSet String)
    (h : noDupCheck xs s = none) : xs.Nodup ∧ ∀ x ∈ xs, ¬ x ∈ s := by
  induction xs generalizing s with
  | nil => simp
  | cons x xs ih =>
    simp only [noDupCheck] at h
    split at h
    · cases h
    · rename_i hx
      obtain ⟨hnd, hns⟩ := ih _ h
      have hxs : ¬ x ∈ s := by
        intro hm
        exact hx (Std.HashSet.mem_iff_contains.1 hm)
      refine ⟨List.nodup_cons.2 ⟨?_, hnd⟩, ?_⟩
      · intro hmem
        exact hns x hmem (Std.HashSet.mem_insert.2 (Or.inl (by simp)))
      · intro y hy
        simp only [List.mem_cons] at hy
        cases hy with
        | inl h => subst h; exact hxs
        | inr h =>
          intro hm
          exact hns y h (Std.HashSet.mem_insert.2 (Or.inr hm))

structure FuncFacts (f : Func) : Prop where
  single : (f.allDefs.map (·.1)).Nodup
  labels : labelsOk f = true
  flow : flowOk f (computeCert f) = true

theorem wfFunc_facts {sigs : SigMap} {types : Std.HashSet String} {f : Func}
    (h : wfFunc sigs types f = .ok ()) : FuncFacts f := by
  unfold wfFunc at h
  split at h
  · cases h
  · rename_i hnd
    split at h
    · cases h
    · rename_i hlab
      split at h
      · cases h
      · dsimp only at h
        split at h
        · rename_i hflow
          exact ⟨(noDupCheck_sound _ _ hnd).1, by simpa using hlab, hflow⟩
        · cases h

theorem wfDefs_funcs {sigs : SigMap} (defs : List Def) (types syms : Std.HashSet String)
    (h : wfDefs sigs defs types syms = .ok ()) (f : Func) (hf : Def.func f ∈ defs) :
    FuncFacts f := by
  induction defs generalizing types syms with
  | nil => simp at hf
  | cons d defs ih =>
    cases d with
    | type t =>
      simp only [wfDefs] at h
      split at h
      · cases h
      · exact ih _ _ h (by simpa using hf)
    | data dd =>
      simp only [wfDefs] at h
      split at h
      · cases h
      · split at h
        · cases h
        · exact ih _ _ h (by simpa using hf)
    | func g =>
      simp only [wfDefs] at h
      split at h
      · cases h
      · split at h
        · cases h
        · rename_i hg
          simp only [List.mem_cons, Def.func.injEq] at hf
          cases hf with
          | inl hfg => subst hfg; exact wfFunc_facts hg
          | inr hfd => exact ih _ _ h hfd

theorem wf_funcFacts {m : Module} (h : wf m = .ok ()) (f : Func) (hf : f ∈ m.funcs) :
    FuncFacts f := by
  unfold wf at h
  apply wfDefs_funcs _ _ _ h
  unfold Module.funcs at hf
  obtain ⟨d, hd, hdf⟩ := List.mem_filterMap.1 hf
  cases d with
  | func g => simp at hdf; subst hdf; exact hd
  | type t => simp at hdf
  | data dd => simp at hdf

theorem wf_progOk {m : Module} (h : wf m = .ok ()) : ProgOk (Prog.ofModule m) := by
  intro name fi hfi
  have hfi : (mkFuncTable m.funcs)[name]? = some fi := hfi
  obtain ⟨f, hf, hfe⟩ := mkFuncTable_spec _ _ _ hfi
  subst hfe
  exact ⟨rfl, computeCert f, (wf_funcFacts h f hf).flow⟩

/-! ## The theorems -/

/-- **Soundness of `wf`.**  Running any function of a well-formed module — any arguments, any
    external functions, any fuel — never gets stuck on an undefined temporary, an unknown label, a
    phi without a source for the actual predecessor, or by falling off the end of a function. -/
theorem wf_sound (m : Module) (h : wf m = .ok ()) (ext : Ext) (name : String)
    (args : List (Ty × RVal)) (fuel : Nat) :
    ¬ BadStuck (runFunc (Prog.ofModule m) ext name args fuel).end :=
  runFunc_ok (wf_progOk h) name args fuel

theorem wf_no_undef_temp (m : Module) (h : wf m = .ok ()) (ext : Ext) (name : String)
    (args : List (Ty × RVal)) (fuel : Nat) (t : String) :
    (runFunc (Prog.ofModule m) ext name args fuel).end ≠ .stuck (.undefTemp t) := by
  intro he
  have := wf_sound m h ext name args fuel
  rw [he] at this
  exact this trivial

theorem wf_no_unknown_label (m : Module) (h : wf m = .ok ()) (ext : Ext) (name : String)
    (args : List (Ty × RVal)) (fuel : Nat) (l : String) :
    (runFunc (Prog.ofModule m) ext name args fuel).end ≠ .stuck (.unknownLabel l) := by
  intro he
  have := wf_sound m h ext name args fuel
  rw [he] at this
  exact this trivial

theorem wf_no_phi_without_pred (m : Module) (h : wf m = .ok ()) (ext : Ext) (name : String)
    (args : List (Ty × RVal)) (fuel : Nat) (b q : String) :
    (runFunc (Prog.ofModule m) ext name args fuel).end ≠ .stuck (.phiNoPred b q) := by
  intro he
  have := wf_sound m h ext name args fuel
  rw [he] at this
  exact this trivial

theorem wf_no_fall_off_end (m : Module) (h : wf m = .ok ()) (ext : Ext) (name : String)
    (args : List (Ty × RVal)) (fuel : Nat) :
    (runFunc (Prog.ofModule m) ext name args fuel).end ≠ .stuck .fellOffEnd := by
  intro he
  have := wf_sound m h ext name args fuel
  rw [he] at this
  exact this trivial

/-- The same for a run started from any state that satisfies the invariant (e.g. in the middle of
    an execution). -/
theorem wf_sound_from (m : Module) (h : wf m = .ok ()) (ext : Ext) (s : State) (hs : StateOk s)
    (fuel : Nat) : ¬ BadStuck (run (Prog.ofModule m) ext fuel s).end :=
  run_ok (wf_progOk h) fuel hs

/-- **Single definition.**  In a well-formed module every temporary of a function (parameters, phi
    results, instruction results) is defined exactly once. -/
theorem wf_single_def (m : Module) (h : wf m = .ok ()) (f : Func) (hf : f ∈ m.funcs) :
    (f.allDefs.map (·.1)).Nodup :=
  (wf_funcFacts h f hf).single

/-- **Labels (static form).**  Every jump of every block, reachable or not, names a block of its
    function. -/
theorem wf_labels_static (m : Module) (h : wf m = .ok ()) (f : Func) (hf : f ∈ m.funcs)
    (b : Block) (hb : b ∈ f.blocks.toList) (j : Jump) (hj : b.term = some j) (l : String)
    (hl : l ∈ j.targets) : ∃ i, (FuncInfo.of f).labelIdx[l]? = some i := by
  have := (wf_funcFacts h f hf).labels
  unfold labelsOk at this
  have := List.all_eq_true.1 this b hb
  rw [hj] at this
  have := List.all_eq_true.1 this l hl
  have hm : l ∈ (FuncInfo.of f).labelIdx := Std.HashMap.mem_iff_contains.2 this
  have := (Std.HashMap.mem_iff_isSome_getElem? (m := (FuncInfo.of f).labelIdx) (a := l)).1 hm
  cases hx : (FuncInfo.of f).labelIdx[l]? with
  | none => rw [hx] at this; cases this
  | some i => exact ⟨i, rfl⟩


/-! ## Classes

  The class rules of `wf` (opcode/result-class table, operand classes, jnz, phis, call arguments
  against the callee's signature, returned values against the return type, call results against
  the callee's return type) are sound as well: the run-time typing invariant `Cls.EnvTyped` —
  every bound temporary holds a value of the class recorded for it in the static class map
  `Cls.tcOf f`, which is the map `wfFuncPre` builds — is preserved by every step, and no run ends
  in a class mismatch (`Cls.ClassStuck`), except possibly at an INDIRECT call: the callee of
  `call %t(...)` is a computed address, QBE IL has no function types, and no static check can
  compare such a call with the signature of the function it reaches (in C: a call through a
  function pointer of an incompatible type is undefined behaviour). -/

/-- The assumption on external functions: see `Cls.ExtOkP`. -/
def ExtOk (m : Module) (ext : Ext) : Prop := Cls.ExtOkP (Prog.ofModule m) m.funcs ext

/-- All call instructions of the module name their callee (`call $f(...)`). -/
def DirectCalls (m : Module) : Prop := Cls.DirectCallsL m.funcs

theorem wf_ctx {m : Module} (h : wf m = .ok ()) :
    Cls.Ctx (Prog.ofModule m) m.funcs (Cls.sigsOf m) := by
  refine ⟨fun f hf => Cls.wf_funcCls h f hf, ?_⟩
  intro name fi hfi
  have hfi' : (mkFuncTable m.funcs)[name]? = some fi := hfi
  obtain ⟨h1, h2⟩ := Cls.sigs_funcs m.funcs name
  obtain ⟨hmem, _, _⟩ := h2 fi hfi'
  refine ⟨hmem, ?_⟩
  show (Cls.sigsOf m)[name]? = some fi.f.sig
  unfold Cls.sigsOf
  rw [h1, hfi']
  rfl

theorem wf_argsOk {m : Module} {name : String} {args : List (Ty × RVal)}
    (hargs : ∀ f ∈ m.funcs, f.name = name → Cls.ArgsOk f args) :
    ∀ fi, (Prog.ofModule m).funcs[name]? = some fi → Cls.ArgsOk fi.f args := by
  intro fi hfi
  have hfi' : (mkFuncTable m.funcs)[name]? = some fi := hfi
  obtain ⟨hmem, _, hname⟩ := (Cls.sigs_funcs m.funcs name).2 fi hfi'
  exact hargs _ hmem hname

/-- **Static class correctness.**  In a well-formed module every instruction, jump and phi of every
    function uses its operands at classes that the static class map allows, the opcode exists with
    the named result class, and every direct call agrees with the signature of its callee. -/
theorem wf_classes_static (m : Module) (h : wf m = .ok ()) (f : Func) (hf : f ∈ m.funcs) :
    Cls.FuncCls (Cls.sigsOf m) f :=
  Cls.wf_funcCls h f hf

/-- **Preservation.**  A step of a well-formed module from a typed state (every frame executes a
    function of the module, every bound temporary holds a value of its class, adjacent frames are
    linked by a call instruction) leads to a typed state. -/
theorem wf_classes_preserved (m : Module) (h : wf m = .ok ()) (ext : Ext) (hext : ExtOk m ext)
    (s s' : State) (hs : Cls.StackT m.funcs (Cls.sigsOf m) s.frames)
    (hstep : step (Prog.ofModule m) ext s = .next s') :
    Cls.StackT m.funcs (Cls.sigsOf m) s'.frames := by
  have := Cls.step_typed (ext := ext) (wf_ctx h) hext hs
  rw [hstep] at this
  exact this

/-- **Progress for classes, general form.**  If a run of a function of a well-formed module — on
    arguments that fit its signature, with external functions satisfying `ExtOk` — ends in a class
    mismatch, then the machine stopped at an indirect call (about to execute one, or returning to
    one). -/
theorem wf_sound_classes_at (m : Module) (h : wf m = .ok ()) (ext : Ext) (hext : ExtOk m ext)
    (name : String) (args : List (Ty × RVal))
    (hargs : ∀ f ∈ m.funcs, f.name = name → Cls.ArgsOk f args) (fuel : Nat)
    (hstuck : Cls.ClassStuck (runFunc (Prog.ofModule m) ext name args fuel).end) :
    ∃ s₀, initState (Prog.ofModule m) name args = .ok s₀ ∧
      Cls.IndirectSite (Cls.lastState (Prog.ofModule m) ext fuel s₀) := by
  have hc := wf_ctx h
  obtain ⟨hok, herr⟩ := Cls.initState_typed hc (wf_argsOk hargs)
  unfold runFunc at hstuck
  cases hi : initState (Prog.ofModule m) name args with
  | error e =>
    rw [hi] at hstuck
    exact absurd hstuck (herr e hi)
  | ok s₀ =>
    rw [hi] at hstuck
    exact ⟨s₀, rfl, Cls.run_typed hc hext fuel (hok s₀ hi) hstuck⟩

/-- The full-strength statement: no restriction on indirect calls.  It does not hold (an indirect
    call can reach a function whose signature differs from the types written at the call, and `wf`
    — like any static check of QBE IL — accepts such a module); `wf_sound_classes_at` says that
    this is the only way it fails. -/
def wf_sound_classes_full : Prop :=
  ∀ (m : Module), wf m = .ok () → ∀ (ext : Ext), ExtOk m ext →
  ∀ (name : String) (args : List (Ty × RVal)),
    (∀ f ∈ m.funcs, f.name = name → Cls.ArgsOk f args) →
  ∀ (fuel : Nat), ¬ Cls.ClassStuck (runFunc (Prog.ofModule m) ext name args fuel).end

/-- **Soundness of `wf` for classes** — for modules whose calls are all direct: running any
    function on arguments that fit its signature, with any fuel and any external functions
    satisfying `ExtOk`, never ends in a class mismatch (operand, result, jnz/phi/store operand,
    argument/parameter, returned value or call result of the wrong class). -/
theorem wf_sound_classes_partial (m : Module) (h : wf m = .ok ()) (hd : DirectCalls m) (ext : Ext)
    (hext : ExtOk m ext) (name : String) (args : List (Ty × RVal))
    (hargs : ∀ f ∈ m.funcs, f.name = name → Cls.ArgsOk f args) (fuel : Nat) :
    ¬ Cls.ClassStuck (runFunc (Prog.ofModule m) ext name args fuel).end := by
  intro hstuck
  obtain ⟨s₀, hi, hsite⟩ := wf_sound_classes_at m h ext hext name args hargs fuel hstuck
  have hc := wf_ctx h
  have hs0 := (Cls.initState_typed hc (wf_argsOk hargs)).1 s₀ hi
  exact Cls.no_indirectSite hd (Cls.lastState_typed hc hext fuel hs0) hsite

/-- `wf_sound` and `wf_sound_classes_partial` together. -/
theorem wf_sound_full_partial (m : Module) (h : wf m = .ok ()) (hd : DirectCalls m) (ext : Ext)
    (hext : ExtOk m ext) (name : String) (args : List (Ty × RVal))
    (hargs : ∀ f ∈ m.funcs, f.name = name → Cls.ArgsOk f args) (fuel : Nat) :
    ¬ BadStuck (runFunc (Prog.ofModule m) ext name args fuel).end ∧
    ¬ Cls.ClassStuck (runFunc (Prog.ofModule m) ext name args fuel).end :=
  ⟨wf_sound m h ext name args fuel, wf_sound_classes_partial m h hd ext hext name args hargs fuel⟩

/-- The same from any typed state (e.g. in the middle of an execution). -/
theorem wf_sound_classes_from (m : Module) (h : wf m = .ok ()) (hd : DirectCalls m) (ext : Ext)
    (hext : ExtOk m ext) (s : State) (hs : Cls.StackT m.funcs (Cls.sigsOf m) s.frames)
    (fuel : Nat) : ¬ Cls.ClassStuck (run (Prog.ofModule m) ext fuel s).end := by
  intro hstuck
  have hc := wf_ctx h
  exact Cls.no_indirectSite hd (Cls.lastState_typed hc hext fuel hs)
    (Cls.run_typed hc hext fuel hs hstuck)

/-! ## Non-vacuity of the class theorems

  The example module `Cls.exMod` (`Lemmas/QbeClsEx.lean`): `$g(w %a, d %x)` with `w`, `d`, `s`
  temporaries, and `$main(l %p)` with a call of `$g` with mixed `w`/`d` arguments, a `jnz`, and an
  `l` phi.  `wf` itself cannot be evaluated by the kernel on a module with a function
  (`String.hash` is opaque), so acceptance is shown for the class checks `wf` performs on each
  instruction, jump and phi source (`checkIns`, `checkJump`, `argOk`, with the real class map and
  signature table of the module), and rejection is shown for `wf` itself through
  `wf_classes_static`. -/

open Cls in
/-- Every instruction of `$g` (w, d and s temporaries) passes the class checks of `wf`. -/
example : ∀ i ∈ (exG.blocks[0]!).ins.toList,
    checkIns (sigsOf exMod) {} (tcOf exG) i = .ok () := by
  show ∀ i ∈ [Ins.op (some ("b", .w)) .add [.tmp "a", .int 1],
              .op (some ("y", .d)) .add [.tmp "x", .fd 1],
              .op (some ("z", .s)) .truncd [.tmp "y"]], _
  simp only [List.mem_cons, List.not_mem_nil, or_false, forall_eq_or_imp, forall_eq, checkIns,
    undefinedTmp, Ins.operands, Op.sig, argsOk, argOk, ex_tcG, ex_tcG_contains, isInt,
    List.findSome?, Option.map]
  simp

open Cls in
/-- The `ret %b` of `$g` agrees with its return type `w`. -/
example : checkJump exG (FuncInfo.of exG) (tcOf exG) (.ret (some (.tmp "b"))) = .ok () := by
  have hr : exG.ret = some (.base .w) := rfl
  unfold checkJump
  simp only [Jump.targets, List.forIn_nil, Jump.operands, undefinedTmp, List.findSome?,
    ex_tcG_contains, hr, argOk, ex_tcG, Ty.cls]
  simp [bind, Except.bind, pure, Except.pure, errIf]

open Cls in
/-- The call in `$main`, with mixed `w`/`d` arguments and a `w` result, agrees with the signature
    of `$g`. -/
example : checkIns (sigsOf exMod) {} (tcOf exMain)
    (.call (some ("r", .base .w)) (.glob "g" false) [(.base .w, .int 1), (.base .d, .fd 2)] none)
    = .ok () := by
  have hs : exG.sig = ⟨some (.base .w), [.base .w, .base .d], false⟩ := rfl
  simp only [checkIns, checkCall, Ins.operands, undefinedTmp, List.findSome?, List.map, argOk,
    ex_sigs, hs, errIf, tyDefined, Ty.cls, tyAgree]
  simp [bind, Except.bind, pure, Except.pure, tysAgree, tyAgree, Ty.cls]

open Cls in
/-- `jnz %r` on the `w` result of the call. -/
example : checkJump exMain (FuncInfo.of exMain) (tcOf exMain) (.jnz (.tmp "r") "t" "e")
    = .ok () := by
  unfold checkJump
  simp only [Jump.targets, List.forIn_cons, List.forIn_nil, ex_labelsMain, Jump.operands,
    undefinedTmp, List.findSome?, ex_tcMain_contains, argOk, ex_tcMain]
  simp [bind, Except.bind, pure, Except.pure, errIf]

open Cls in
/-- Both sources of the phi `%v =l phi @s %p, @t %q` have class `l`. -/
example : ∀ s ∈ [("s", Val.tmp "p"), ("t", Val.tmp "q")], argOk (tcOf exMain) .l s.2 = true := by
  simp [argOk, ex_tcMain]

open Cls in
/-- A class error is rejected by the instruction check: `truncd` of the `w` temporary `%b`. -/
example : checkIns (sigsOf exMod) {} (tcOf exG) (.op (some ("z", .s)) .truncd [.tmp "b"])
    ≠ .ok () := by
  simp only [checkIns, undefinedTmp, Ins.operands, Op.sig, argsOk, argOk, ex_tcG, ex_tcG_contains,
    List.findSome?, Option.map]
  simp

open Cls in
/-- A call whose argument types differ from the callee's parameter types is rejected. -/
example : checkIns (sigsOf exMod) {} (tcOf exMain)
    (.call (some ("r", .base .w)) (.glob "g" false) [(.base .w, .int 1), (.base .w, .int 2)] none)
    ≠ .ok () := by
  have hs : exG.sig = ⟨some (.base .w), [.base .w, .base .d], false⟩ := rfl
  simp only [checkIns, checkCall, Ins.operands, undefinedTmp, List.findSome?, List.map, argOk,
    ex_sigs, hs, errIf, tyDefined, Ty.cls, tyAgree]
  simp [bind, Except.bind, pure, Except.pure, tysAgree, tyAgree, Ty.cls]

/-- `function $bad(w %a) { @s  %z =s truncd %a   ret }` — `truncd` needs a `d` operand. -/
def exBad : Func :=
  { «export» := false, ret := none, name := "bad", params := [(.base .w, "a")], variadic := false,
    blocks := #[{ label := "s", phis := [],
                  ins := #[.op (some ("z", .s)) .truncd [.tmp "a"]], term := some (.ret none) }] }

/-- **`wf` rejects a module with a class error.** -/
example : wf ⟨#[.func exBad]⟩ ≠ .ok () := by
  intro h
  have hc := wf_classes_static _ h exBad (by simp [Module.funcs])
  obtain ⟨ks, hks, hargs⟩ := (hc.block 0 _ rfl).ins
    (.op (some ("z", .s)) .truncd [.tmp "a"]) (by simp [exBad])
  have hks' : ks = [.d] := by simpa [Op.sig] using hks.symm
  subst hks'
  have htc : ∀ t : String, (Cls.tcOf exBad)[t]? =
      if "z" = t then some .s else if "a" = t then some .w else none := by
    intro t
    simp [Cls.tcOf, exBad, Func.allDefs, Block.defsList, Ty.cls, Std.HashMap.getElem?_insert]
  simp only [argsOk, argOk, htc] at hargs
  simp at hargs

/-- The hypotheses of `wf_sound_classes_partial` other than `wf` hold for the example module:
    all calls are direct, … -/
example : DirectCalls Cls.exMod := by
  intro f hf b hb res cv args va hi
  rw [Cls.exMod_funcs] at hf
  simp only [List.mem_cons, List.not_mem_nil, or_false] at hf
  rcases hf with rfl | rfl
  · simp [Cls.exG] at hb
    subst hb
    simp at hi
  · simp [Cls.exMain] at hb
    rcases hb with rfl | rfl | rfl
    · simp at hi
      exact ⟨"g", false, hi.2.1⟩
    · simp at hi
    · simp at hi

/-- … the empty table of external functions satisfies `ExtOk`, … -/
example (m : Module) : ExtOk m noExt := by
  intro f _ b _ res cv args va _ name avs mem _ _ _ _
  trivial

/-- … and an `l` argument fits `$main(l %p)`. -/
example : Cls.ArgsOk Cls.exMain [(.base .l, ⟨.l, 16⟩)] :=
  ⟨by decide, fun _ => rfl, by decide, by decide⟩

/-- So, given `wf`, the theorem applies to it. -/
example (h : wf Cls.exMod = .ok ()) (hd : DirectCalls Cls.exMod) (fuel : Nat) :
    ¬ Cls.ClassStuck (runFunc (Prog.ofModule Cls.exMod) noExt "main"
      [(.base .l, ⟨.l, 16⟩)] fuel).end := by
  refine wf_sound_classes_partial _ h hd noExt (fun f _ b _ res cv args va _ name avs mem _ _ _ _ => trivial)
    "main" _ ?_ fuel
  intro f hf hname
  rw [Cls.exMod_funcs] at hf
  simp only [List.mem_cons, List.not_mem_nil, or_false] at hf
  rcases hf with rfl | rfl
  · exact absurd hname (by decide)
  · exact ⟨by decide, fun _ => rfl, by decide, by decide⟩

/-- The built-in externals satisfy the assumption at a call `call $outw(w %x)`: a `w`, `l` or
    literal argument is printed, an undefined call result is reported as such (not a class
    error). -/
example (a : RVal) (mem : Mem) (h : Cls.kindOk .w a.kind = true) :
    match builtinExt "outw" [a] mem with
    | none => True
    | some (.error e) => ¬ Cls.ClsErr e
    | some (.ok _) => True := by
  have := Cls.safe_asW h
  simp only [builtinExt]
  cases hx : a.asW with
  | error e => rw [hx] at this; exact this
  | ok x => trivial

end CprocVerif.C03

import CprocVerif.Lemmas.PPLineFuel

/-!
# C11 — diagnostics name the file and line of the offending construct

Property theorems about the model of the location bookkeeping of `/repo/scan.c` + `pp.c`
(`Model/Scan.lean`, `Model/PPLine.lean`) against the declarative presumed-location rules of
`Spec/Presumed.lean`.  No theorem bounds the length of the source text.

Vocabulary.  `run nl file text` is what the preprocessor delivers for the source text `text`
opened under the name `file` (`nl` = `PPNEWLINE`, i.e. whether new-line tokens are delivered):
the tokens up to `TEOF` or up to the first diagnostic, that diagnostic, and the line directives
(`#line n ["f"]`, `# n "f" flags`) that had taken effect by then — each as (offset of the byte
behind its new-line, line number, file name if given).  Each token carries the ghost byte offset
`off` of its first character.  `presumedFile/presumedLine/column` are the spec: last directive
ending at or before the offset, plus the number of new-line characters since (every new-line
counts: spliced, inside a comment, or plain); column = distance from the start of the physical
line + 1.  A diagnostic of the preprocessor carries (ghost) the token whose location was passed
to `error()`.

Full-strength statements that are false on the current tree are kept as `def …_full : Prop` with
`…_counterexample : ¬ …_full` and the provable restriction `…_partial`
(known finding `newline-token-next-line`).
-/

namespace CprocVerif.C11
open CprocVerif.Scan CprocVerif.PPLine CprocVerif.Spec.Presumed CprocVerif.Gen.TokenKinds

/-- the line directives of a run, as records of the spec -/
def dirsOfRun (r : Run) : List LineDir := r.dirs.map toDir

/-- the name the harness opens its input under -/
abbrev inC : List UInt8 := b!"in.c"

/-- the invariant-based core: everything `Lemmas/PPLinePP.lean: runLoop_ok` gives for a run -/
theorem run_ok (nl : Bool) (file text : List UInt8) :
    (dirsOfRun (run nl file text)).Pairwise (fun a b => a.endOff < b.endOff) ∧
    (∀ t ∈ (run nl file text).toks, SpecOK file text (dirsOfRun (run nl file text)) t) ∧
    (run nl file text).toks.Pairwise (fun a b => a.off < b.off) ∧
    (∀ e, (run nl file text).err = some e → ∀ t, e.tok = some t →
      SpecOK file text (dirsOfRun (run nl file text)) t ∧
      e.file = t.file ∧ e.line = t.line ∧ e.col = t.col ∧
      ∀ t' ∈ (run nl file text).toks, t'.off < t.off) ∧
    (∀ e, (run nl file text).err = some e → e.tok = none → ∀ k, e.kind = .scan k →
      ∃ o, o ≤ text.length ∧
        e.file = curFile file (dirsOfRun (run nl file text)) ∧
        (e.line : Int) = (locAt text o).line + shiftOf text (dirsOfRun (run nl file text)) ∧
        (∀ d ∈ dirsOfRun (run nl file text), d.endOff ≤ o) ∧
        ∀ t' ∈ (run nl file text).toks, t'.off < o) := by
  obtain ⟨_, h0, h1, h2, h3, h4⟩ := runLoop_ok (file0 := file) (text := text) nl
    ((S.init text).inp.length + 2) (PS.init file text) (init_pinv file text)
  exact ⟨h0, fun t ht => (h1 t ht).2, h2, fun e he t ht => by
    obtain ⟨a, b, c, d, _, f⟩ := h3 e he t ht
    exact ⟨a, b, c, d, f⟩, fun e he hn k hk => by
    obtain ⟨o, _, b, c, d, f, g⟩ := h4 e he hn k hk
    exact ⟨o, b, c, d, f, g⟩⟩

/-! ## 1. Every delivered token is located at the presumed position of its first byte -/

/-- **`tok_loc_correct`** (restricted to tokens other than new-line): file and line are the
presumed file and line of the token's first byte — values of the last line directive before it
plus the physical new-lines since, splices and comment new-lines included — and the column is the
1-based column of that byte in its physical line. -/
theorem tok_loc_correct_partial (nl : Bool) (file text : List UInt8) (t : PTok)
    (ht : t ∈ (run nl file text).toks) (hk : t.kind ≠ .TNEWLINE) :
    t.file = presumedFile file (dirsOfRun (run nl file text)) t.off ∧
    t.line = presumedLine text (dirsOfRun (run nl file text)) t.off ∧
    t.col = column text t.off := by
  obtain ⟨a, b, _⟩ := (run_ok nl file text).2.1 t ht
  exact ⟨a, (b hk).1, (b hk).2⟩

/-- the statement for ALL delivered tokens -/
def tok_loc_correct_full : Prop :=
  ∀ (nl : Bool) (file text : List UInt8) (t : PTok), t ∈ (run nl file text).toks →
    t.file = presumedFile file (dirsOfRun (run nl file text)) t.off ∧
    t.line = presumedLine text (dirsOfRun (run nl file text)) t.off ∧
    t.col = column text t.off

/-- It is false (known finding `newline-token-next-line`): the new-line that ends line 1 of
`a⏎` is delivered (with `PPNEWLINE`) as located at line 2, column 0. -/
theorem tok_loc_correct_counterexample : ¬ tok_loc_correct_full := by
  intro h
  have := h true inC b!"a\n" ⟨.TNEWLINE, none, inC, 2, 0, false, 1⟩ (by decide +kernel)
  revert this
  decide +kernel

/-- what a new-line token gets instead: the line AFTER the one it ends, column 0 -/
theorem newline_tok_loc (nl : Bool) (file text : List UInt8) (t : PTok)
    (ht : t ∈ (run nl file text).toks) (hk : t.kind = .TNEWLINE) :
    t.file = presumedFile file (dirsOfRun (run nl file text)) t.off ∧
    t.line = presumedLine text (dirsOfRun (run nl file text)) t.off + 1 ∧ t.col = 0 := by
  obtain ⟨a, _, c⟩ := (run_ok nl file text).2.1 t ht
  exact ⟨a, (c hk).1, (c hk).2⟩

-- non-vacuity: a text with a marker, a splice and a multi-line comment delivers non-new-line tokens
example : ((run false inC b!"# 7 \"f.c\"\n/* a\n b */ x\\\ny z\n").toks.map
    fun t => (t.kind, t.file, t.line, t.col, t.off)) =
    [(.TIDENT, b!"f.c", 8, 7, 21), (.TIDENT, b!"f.c", 9, 3, 26), (.TEOF, b!"f.c", 10, 1, 28)] := by
  decide +kernel

example : ∃ t ∈ (run true inC b!"a\n").toks, t.kind = .TNEWLINE := by decide +kernel

/-! ## 2. Diagnostics of the preprocessor point at the presumed position of the offending token -/

/-- **`diag_loc_correct`** (restricted to offending tokens other than new-line): a diagnostic
raised at a token prints that token's presumed file, presumed line and column; every line
directive completed before it is taken into account, the directive being read is not. -/
theorem diag_loc_correct_partial (nl : Bool) (file text : List UInt8) (e : PErr) (t : PTok)
    (he : (run nl file text).err = some e) (ht : e.tok = some t) (hk : t.kind ≠ .TNEWLINE) :
    e.file = presumedFile file (dirsOfRun (run nl file text)) t.off ∧
    e.line = presumedLine text (dirsOfRun (run nl file text)) t.off ∧
    e.col = column text t.off := by
  obtain ⟨⟨a, b, _⟩, c, d, f, _⟩ := (run_ok nl file text).2.2.2.1 e he t ht
  exact ⟨by rw [c]; exact a, by rw [d]; exact (b hk).1, by rw [f]; exact (b hk).2⟩

def diag_loc_correct_full : Prop :=
  ∀ (nl : Bool) (file text : List UInt8) (e : PErr) (t : PTok),
    (run nl file text).err = some e → e.tok = some t →
    e.file = presumedFile file (dirsOfRun (run nl file text)) t.off ∧
    e.line = presumedLine text (dirsOfRun (run nl file text)) t.off ∧
    e.col = column text t.off

/-- False (same finding): `#line⏎` is diagnosed ("expected number after #line, saw newline") at
line 2, column 0, while the offending new-line is the sixth byte of line 1. -/
theorem diag_loc_correct_counterexample : ¬ diag_loc_correct_full := by
  intro h
  have := h false inC b!"#line\n"
    ⟨inC, 2, 0, .expected .TNUMBER .afterLine, some ⟨.TNEWLINE, none, inC, 2, 0, false, 5⟩, []⟩
    ⟨.TNEWLINE, none, inC, 2, 0, false, 5⟩ (by decide +kernel) rfl
  revert this
  decide +kernel

/-- a diagnostic at a new-line token names the next line, column 0 -/
theorem diag_at_newline (nl : Bool) (file text : List UInt8) (e : PErr) (t : PTok)
    (he : (run nl file text).err = some e) (ht : e.tok = some t) (hk : t.kind = .TNEWLINE) :
    e.file = presumedFile file (dirsOfRun (run nl file text)) t.off ∧
    e.line = presumedLine text (dirsOfRun (run nl file text)) t.off + 1 ∧ e.col = 0 := by
  obtain ⟨⟨a, _, b⟩, c, d, f, _⟩ := (run_ok nl file text).2.2.2.1 e he t ht
  exact ⟨by rw [c]; exact a, by rw [d]; exact (b hk).1, by rw [f]; exact (b hk).2⟩

example : ((run false inC b!"# 3 \"h.c\"\n#line\n").err.map
    fun e => (e.file, e.line, e.col, e.tok.map (fun t => (t.kind, t.off)))) =
    some (b!"h.c", 4, 0, some (.TNEWLINE, 15)) := by decide +kernel

-- non-vacuity: a diagnostic inside the SECOND directive, located under the numbering of the first
example : ((run false inC b!"#line 5 \"g.c\"\n\n#line 9 x\n").err.map
    fun e => (e.file, e.line, e.col, e.kind, e.tok.map (·.off))) =
    some (b!"g.c", 6, 9, .expected .TNEWLINE .afterDirective, some 23) := by decide +kernel

/-- **diagnostics of scan.c** ("EOF in comment", "newline in string literal", "invalid escape
sequence", …, which pass `&s->loc`): the diagnostic names the presumed file, and the presumed line
of some byte `o` that lies behind every delivered token (inside the offending literal or comment,
or the end of the text) — or, when that byte is a new-line character, the line after it (the
recorded finding again: "newline in string literal" names the line after the unterminated one).
Every line directive completed before is taken into account. -/
theorem scan_diag_loc (nl : Bool) (file text : List UInt8) (e : PErr) (k : ErrKind)
    (he : (run nl file text).err = some e) (hk : e.kind = .scan k) (ht : e.tok = none) :
    ∃ o, o ≤ text.length ∧ (∀ t' ∈ (run nl file text).toks, t'.off < o) ∧
      e.file = presumedFile file (dirsOfRun (run nl file text)) o ∧
      (text[o]? ≠ some NL → e.line = presumedLine text (dirsOfRun (run nl file text)) o) ∧
      (text[o]? = some NL → e.line = presumedLine text (dirsOfRun (run nl file text)) o + 1) := by
  obtain ⟨o, h1, h2, h3, h4, h5⟩ := (run_ok nl file text).2.2.2.2 e he ht k hk
  have hall := inEffect_all h4
  have hline : ∀ L : Nat, (locAt text o).line = (physAt text o).line + L →
      e.line = presumedLine text (dirsOfRun (run nl file text)) o + L := by
    intro L hL
    unfold presumedLine
    rw [hall]
    unfold shiftOf at h3
    rw [hL, physAt_line] at h3
    cases hD : (dirsOfRun (run nl file text)).getLast? with
    | none =>
      rw [hD] at h3
      simp only [] at h3 ⊢
      omega
    | some d =>
      rw [hD] at h3
      simp only [] at h3 ⊢
      have hd : d ∈ dirsOfRun (run nl file text) := List.mem_of_getLast? hD
      have := newlines_split text 0 d.endOff o (Nat.zero_le _) (h4 d hd)
      omega
  refine ⟨o, h1, h5, ?_, ?_, ?_⟩
  · rw [h2]; unfold presumedFile curFile; rw [hall]
  · intro hn
    have := hline 0 (by rw [locAt_plain text o hn]; rfl)
    simpa using this
  · intro hn
    exact hline 1 (by rw [locAt_nl text o hn])

example : ((run false inC b!"# 5 \"f.c\"\nx = \"abc\n").err.map fun e => (e.file, e.line, e.col, e.kind, e.tok)) =
    some (b!"f.c", 6, 0, .scan .nlStr, none) := by decide +kernel
example : ((run false inC b!"a\n/* b\n\n").err.map fun e => (e.file, e.line, e.col, e.kind)) =
    some (inC, 4, 1, .scan .eofComment) := by decide +kernel

/-! ## 3. The effect of a line directive -/

theorem getLast?_split {α : Type} : ∀ (l : List α) (d : α), l.getLast? = some d →
    ∃ l', l = l' ++ [d] := by
  intro l d h
  have hne : l ≠ [] := by intro e; rw [e] at h; cases h
  refine ⟨l.dropLast, ?_⟩
  have := List.dropLast_concat_getLast hne
  rw [List.getLast?_eq_some_getLast hne] at h
  rw [← Option.some.inj h]
  exact this.symm

/-- **`line_directive_effect`**: a token behind a line directive `d` (the last one that ends at
or before the token) is on line `d.line` + the number of new-line characters between the end of
the directive's line and the token, in the file `d` names (if it names one). -/
theorem line_directive_effect (nl : Bool) (file text : List UInt8) (t : PTok)
    (ht : t ∈ (run nl file text).toks) (hk : t.kind ≠ .TNEWLINE) (d : LineDir)
    (hd : (inEffect (dirsOfRun (run nl file text)) t.off).getLast? = some d) :
    t.line = d.line + newlines text d.endOff t.off ∧ (∀ f, d.file = some f → t.file = f) := by
  obtain ⟨a, b, _⟩ := tok_loc_correct_partial nl file text t ht hk
  constructor
  · rw [b]; unfold presumedLine; rw [hd]
  · intro f hf
    rw [a]; unfold presumedFile
    obtain ⟨l', hl'⟩ := getLast?_split _ _ hd
    rw [hl', List.filterMap_append]
    simp [hf]

/-- without a directive before it a token is on its physical line of the file as opened -/
theorem no_directive_physical (nl : Bool) (file text : List UInt8) (t : PTok)
    (ht : t ∈ (run nl file text).toks) (hk : t.kind ≠ .TNEWLINE)
    (hd : inEffect (dirsOfRun (run nl file text)) t.off = []) :
    t.line = 1 + newlines text 0 t.off ∧ t.file = file := by
  obtain ⟨a, b, _⟩ := tok_loc_correct_partial nl file text t ht hk
  constructor
  · rw [b]; unfold presumedLine; rw [hd]; rfl
  · rw [a]; unfold presumedFile; rw [hd]; rfl

/-- a directive takes effect BEHIND its own line: directives that end after an offset do not
change the presumed location of that offset (so the tokens of the directive's own line, and a
diagnostic inside it, are numbered by what was in force before) -/
theorem line_directive_not_before (file text : List UInt8) (D new : List LineDir) (o : Nat)
    (h : ∀ d ∈ new, o < d.endOff) :
    presumedLine text (D ++ new) o = presumedLine text D o ∧
    presumedFile file (D ++ new) o = presumedFile file D o :=
  presumed_stable file D new o h

/-- the directives are logged in text order: "the last one in the list that ends at or before
`o`" is the one with the greatest end among those -/
theorem dirs_increasing (nl : Bool) (file text : List UInt8) :
    (dirsOfRun (run nl file text)).Pairwise (fun a b => a.endOff < b.endOff) :=
  (run_ok nl file text).1

-- the regression witnesses of the fixed findings, on the model
-- line-directive-blank-line: a blank line right after the marker
example : ((run false inC b!"# 10 \"foo.c\"\n\nint x = y;\n").toks.map
    fun t => (t.file, t.line, t.col)) =
    [(b!"foo.c", 11, 1), (b!"foo.c", 11, 5), (b!"foo.c", 11, 7), (b!"foo.c", 11, 9),
     (b!"foo.c", 11, 10), (b!"foo.c", 12, 1)] := by decide +kernel
-- line-directive-octal: the digit sequence is decimal
example : ((run false inC b!"#line 010\nint x = y;\n").toks.head?.map (·.line)) = some 10 := by
  decide +kernel
-- dotdot-splice-line: `..` followed by a line splice keeps the line count
example : ((run false inC b!"..\\\nx\n y").toks.map fun t => (t.line, t.col, t.off)) =
    [(1, 1, 0), (1, 2, 1), (2, 1, 4), (3, 2, 7), (3, 3, 8)] := by decide +kernel
example : ((run false inC b!"#line 7 \"g.c\"\n\\\n\\\nx").dirs) = [(14, 7, some b!"g.c")] := by
  decide +kernel
example : (inEffect [⟨14, 7, some b!"g.c"⟩] 18).getLast? = some ⟨14, 7, some b!"g.c"⟩ := by decide

/-! ## 4. Monotonicity -/

/-- the delivered tokens appear in text order, without overlap of their first bytes -/
theorem tok_off_increasing (nl : Bool) (file text : List UInt8) :
    (run nl file text).toks.Pairwise (fun a b => a.off < b.off) := (run_ok nl file text).2.2.1

/-- the token a diagnostic points at lies behind every token delivered before the diagnostic -/
theorem diag_after_tokens (nl : Bool) (file text : List UInt8) (e : PErr) (t : PTok)
    (he : (run nl file text).err = some e) (ht : e.tok = some t) :
    ∀ t' ∈ (run nl file text).toks, t'.off < t.off :=
  ((run_ok nl file text).2.2.2.1 e he t ht).2.2.2.2

/-- between two line directives the presumed line never decreases along the text (spec) … -/
theorem presumedLine_mono (text : List UInt8) (D : List LineDir) (o1 o2 : Nat) (h : o1 ≤ o2)
    (hsame : inEffect D o1 = inEffect D o2) (hle : ∀ d ∈ inEffect D o1, d.endOff ≤ o1) :
    presumedLine text D o1 ≤ presumedLine text D o2 := by
  unfold presumedLine
  rw [← hsame]
  cases hl : (inEffect D o1).getLast? with
  | none =>
    have := newlines_split text 0 o1 o2 (Nat.zero_le _) h
    simp only []; omega
  | some d =>
    have hd := hle d (List.mem_of_getLast? hl)
    have := newlines_split text d.endOff o1 o2 hd h
    simp only []; omega

example : inEffect [⟨14, 7, none⟩, ⟨40, 2, none⟩] 20 = inEffect [⟨14, 7, none⟩, ⟨40, 2, none⟩] 30 ∧
    ∀ d ∈ inEffect [⟨14, 7, none⟩, ⟨40, 2, none⟩] 20, d.endOff ≤ 20 := by decide

/-- … hence so do the line numbers of the delivered tokens -/
theorem tok_line_monotone (nl : Bool) (file text : List UInt8) (t1 t2 : PTok)
    (h1 : t1 ∈ (run nl file text).toks) (h2 : t2 ∈ (run nl file text).toks)
    (k1 : t1.kind ≠ .TNEWLINE) (k2 : t2.kind ≠ .TNEWLINE) (hle : t1.off ≤ t2.off)
    (hsame : inEffect (dirsOfRun (run nl file text)) t1.off =
      inEffect (dirsOfRun (run nl file text)) t2.off) : t1.line ≤ t2.line := by
  rw [(tok_loc_correct_partial nl file text t1 h1 k1).2.1,
    (tok_loc_correct_partial nl file text t2 h2 k2).2.1]
  refine presumedLine_mono text _ _ _ hle hsame ?_
  intro d hd
  unfold inEffect at hd
  simpa using (List.mem_filter.mp hd).2

example : ((run false inC b!"a /*\n\n*/ b \\\nc\nd").toks.map fun t => (t.line, t.off)) =
    [(1, 0), (3, 9), (4, 13), (5, 15), (5, 16)] := by decide +kernel

/-! ## 5. Physical lines: what the spec counts (splices and comment new-lines are lines) -/

/-- every new-line character in front of an offset counts, whatever surrounds it -/
theorem newlines_count (text : List UInt8) (o : Nat) :
    newlines text 0 o = (text.take o).count NL := by
  simp [newlines]

/-- the model's physical location function `physAt` (what `nextchar` computes byte by byte,
`Lemmas/PPLineInv.lean: nextchar_after`) IS "1 + new-lines before, bytes since the last new-line" -/
theorem phys_is_declarative (text : List UInt8) (o : Nat) :
    (physAt text o).line = 1 + newlines text 0 o ∧ (physAt text o).col = sinceLineStart text o :=
  ⟨physAt_line text o, physAt_col text o⟩

/-! ## 6. The model's loops always have enough fuel; a clean run ends with `TEOF` -/

theorem run_no_fuel (nl : Bool) (file text : List UInt8) (e : PErr)
    (he : (run nl file text).err = some e) : e.kind ≠ .fuel ∧ e.kind ≠ .scan .fuel :=
  (runLoop_nf nl ((S.init text).inp.length + 2) (PS.init file text)
    (by show (S.init text).inp.length + 1 ≤ _; omega)).1 e he

theorem run_ends_with_eof (nl : Bool) (file text : List UInt8) (he : (run nl file text).err = none) :
    ∃ ts t, (run nl file text).toks = ts ++ [t] ∧ t.kind = .TEOF ∧ ∀ x ∈ ts, x.kind ≠ .TEOF :=
  (runLoop_nf nl ((S.init text).inp.length + 2) (PS.init file text)
    (by show (S.init text).inp.length + 1 ≤ _; omega)).2 he

example : (run false inC b!"#pragma once\nx").err = none := by decide +kernel
example : ((run false inC b!"#define A 1\n").err.map (·.kind)) = some .unmodelled := by decide +kernel

end CprocVerif.C11

import CprocVerif.Lemmas.DriverProps
import CprocVerif.Gen.DriverTables

/-!
# C17 — the driver runs exactly the documented stages with the documented arguments

Model: `Model/Driver.lean` (`plan`: what `/repo/driver.c` does with a command line).
Spec: `Spec/DriverDoc.lean` (cproc(1) as data; a command line is a list of items, each rendered
attached or detached).  All theorems quantify over EVERY well-formed command line `c : Cmd` (any
length, any option arguments, any mixture of attached/detached forms) and every configuration.

`Opts.manual` is the manual taken literally, `Opts.asImplemented` differs from it in the two
documented points the code does not follow (`-emit-qbe` default output, `-pthread` placement).
-/

namespace CprocVerif.C17
open CprocVerif.Driver CprocVerif.DriverDoc CprocVerif.DriverLemmas

/-! ## 0. Tables: extracted from `driver.c` = used by the model; model = documentation -/

theorem gen_suffixTable :
    Gen.DriverTables.suffixTable = suffixTable ∧ Gen.DriverTables.suffixDefault = FileType.obj := by decide
theorem gen_maskTable : Gen.DriverTables.maskTable = maskTable := by decide
theorem gen_langTable : Gen.DriverTables.langTable = langTable := by decide
theorem gen_archTable : Gen.DriverTables.archTable = archTable := by decide
theorem gen_wTable : Gen.DriverTables.wTable = wTable := by decide
theorem gen_optRows : Gen.DriverTables.optRows = optRows := by decide

/-- the model's tables say what the documentation says -/
theorem tables_agree_with_doc :
    suffixTable = docSuffixes ∧ langTable = docLangs ∧
    ([FileType.asm, .asmpp, .c, .chdr, .cppout, .obj, .qbe].all fun t => maskTable.lookup t == some (docStages t)) = true ∧
    maskTable.lookup FileType.none = none ∧
    ([Tool.cpp, .as, .ld].all fun t => wTable.lookup (wLetter t) == some (wStage t)) = true := by decide

/-- one rendering per kind of item -/
def sampleArgs : List Str :=
  [str "-nostdlib", str "-nostdinc", str "-static", str "-emit-qbe", str "-include", str "-idirafter",
   str "-isystem", str "-iquote", str "-pipe", str "-std=c11", str "-pedantic", str "-pthread", str "-c", str "-Dx",
   str "-E", str "-g", str "-Ix", str "-Lx", str "-lx", str "-M", str "-MM", str "-MD", str "-MMD", str "-MT",
   str "-MF", str "-O2", str "-ox", str "-P", str "-S", str "-s", str "-Ux", str "-v", str "-Wall", str "-xc"]

/-- every row of the option chain is selected by some documented spelling, except the
`-M<other>` fallback, which is a usage error -/
theorem optRows_all_reachable :
    (optRows.all fun r => r.act == .usage || sampleArgs.any fun a => firstMatch a == some r) = true := by decide

/-! ## 1. The plan of the model is the documented plan -/

/-- For every well-formed command line and configuration the model plans exactly what the
documentation (in the code's reading of the two deviating points) prescribes: same refusals, same
pipelines with the same argv and wiring, same link command, same temporaries. -/
theorem plan_eq_docPlan (cfg : Config) (c : Cmd) (h : c.WF = true) :
    toDoc (plan cfg c.argv) = docPlan .asImplemented cfg c :=
  DriverLemmas.plan_eq_docPlan cfg c h

/-- Full strength: the manual taken literally.  FALSE (two counterexamples below). -/
def manual_full : Prop :=
  ∀ (cfg : Config) (c : Cmd), c.WF = true → toDoc (plan cfg c.argv) = docPlan .manual cfg c

def sampleCfg : Config :=
  { target := str "x86_64-linux-gnu", startfiles := [str "crt1.o"], endfiles := [str "crtn.o"],
    preprocesscmd := [str "cpp", str "-U", str "__GNUC__"], compilecmd := [str "/bin/cproc-qbe"],
    codegencmd := [str "qbe"], assemblecmd := [str "as"], linkcmd := [str "ld", str "--dynamic-linker", str "/ld.so"] }

/-- `cproc -emit-qbe a.c` -/
def cexEmitQbe : Cmd := [(.emitQbe, false), (.input (str "a.c"), false)]
/-- `cproc -pthread a.o -lfoo` -/
def cexPthread : Cmd := [(.pthread, false), (.input (str "a.o"), false), (.lib (str "foo"), false)]

/-- `cproc -emit-qbe a.c` writes `a.qbe`; cproc(1) says standard output. -/
theorem manual_counterexample_emit_qbe : ¬ manual_full := by
  intro hf
  have h1 := hf sampleCfg cexEmitQbe (by decide)
  rw [DriverLemmas.plan_eq_docPlan sampleCfg cexEmitQbe (by decide)] at h1
  revert h1
  decide

/-- `cproc -pthread a.o -lfoo`: `-l pthread` precedes `-o` and every object; cproc(1) says
`-pthread` is `-lpthread`. -/
theorem manual_counterexample_pthread : ¬ manual_full := by
  intro hf
  have h1 := hf sampleCfg cexPthread (by decide)
  rw [DriverLemmas.plan_eq_docPlan sampleCfg cexPthread (by decide)] at h1
  revert h1
  decide

/-- Without `-pthread`, and unless `-emit-qbe` is used without `-o` on an input it applies to,
the model does exactly what the manual says. -/
theorem manual_partial (cfg : Config) (c : Cmd) (h : c.WF = true) (hd : deviations c = []) :
    toDoc (plan cfg c.argv) = docPlan .manual cfg c := by
  rw [docPlan_manual_eq cfg c hd]; exact DriverLemmas.plan_eq_docPlan cfg c h

/-- `cproc -c -D X=1 -I inc dir/a.c b.S -Wa,--x -o -`… a non-trivial line satisfying the hypotheses -/
def sampleCmd : Cmd :=
  [(.c, false), (.define (str "X=1"), true), (.incdir (str "inc"), false), (.input (str "dir/a.c"), false),
   (.input (str "b.S"), false), (.wtool .as [str "--x", str ""], false), (.lang (str "qbe"), true),
   (.input (str "-"), false), (.lib (str "m"), true), (.strip, false)]

example : sampleCmd.WF = true ∧ deviations sampleCmd = [] ∧ docRefuses sampleCmd = false := by decide

/-! ## 2. Routing -/

/-- Every tool of every pipeline receives its configured base command, the target flag where
applicable, and precisely the user options documented as belonging to it, in command-line order
(`docBase`; full strength: the manual's routing table `toolArgs`).  Nothing leaks to another tool. -/
theorem routing {cfg : Config} {c : Cmd} (h : c.WF = true) {p : Plan} (hp : plan cfg c.argv = .run p) :
    ∃ arch, docArch cfg.target = some arch ∧
      ∀ pl ∈ p.pipelines, ∀ inv ∈ pl.invs, inv.stage ≠ .link ∧ inv.base = docBase cfg arch c inv.stage := by
  obtain ⟨arch, ha, _, rfl⟩ := plan_run h hp
  refine ⟨arch, ha, ?_⟩
  intro pl hpl inv hinv
  obtain ⟨k, d, sts, _, _, _, hs, hinvs⟩ := mem_docPipelines hpl
  rw [hinvs] at hinv
  obtain ⟨hb, hst⟩ := docInvs_base hinv
  have hne := runStages_no_link hs _ hst
  exact ⟨hne, by rw [hb]; exact implBase_eq_docBase cfg arch c _ hne⟩

/-- full strength for the linker: its options are exactly the documented ones.  FALSE. -/
def routing_link_full : Prop :=
  ∀ (cfg : Config) (c : Cmd), c.WF = true → ∀ p a, plan cfg c.argv = .run p → p.link = some a →
    ∃ arch, docArch cfg.target = some arch ∧
      ∃ rest, a = (docBase cfg arch c .link).map .lit ++ Word.lit (str "-o") :: rest

theorem plan_of_doc {cfg : Config} {c : Cmd} (h : c.WF = true) {p : Plan}
    (hd : docPlan .asImplemented cfg c = .run p) : plan cfg c.argv = .run p := by
  have := DriverLemmas.plan_eq_docPlan cfg c h
  rw [hd] at this
  cases hq : plan cfg c.argv with
  | fatalTarget => simp [hq, toDoc] at this
  | refused r => simp [hq, toDoc] at this
  | run q => simp only [hq, toDoc, DocOutcome.run.injEq] at this; rw [this]

theorem routing_link_counterexample : ¬ routing_link_full := by
  intro hf
  have hrun : plan sampleCfg cexPthread.argv = .run (implPlan sampleCfg (str "x86_64-sysv", str "amd64_sysv") cexPthread) :=
    plan_of_doc (by decide) (by decide)
  obtain ⟨arch, ha, rest, hr⟩ := hf sampleCfg cexPthread (by decide) _ _ hrun rfl
  have : arch = (str "x86_64-sysv", str "amd64_sysv") := by
    have : docArch sampleCfg.target = some (str "x86_64-sysv", str "amd64_sysv") := by decide
    rw [this] at ha; exact (Option.some.inj ha).symm
  subst this
  have h3 := congrArg (fun l => (l.drop 3).head?) hr
  have hR : (((docBase sampleCfg (str "x86_64-sysv", str "amd64_sysv") cexPthread .link).map Word.lit ++
      Word.lit (str "-o") :: rest).drop 3).head? = some (Word.lit (str "-o")) := rfl
  simp only [hR] at h3
  revert h3
  decide

theorem routing_link_partial {cfg : Config} {c : Cmd} (h : c.WF = true) (hnp : Item.pthread ∉ c.items)
    {p : Plan} {a : List Word} (hp : plan cfg c.argv = .run p) (ha : p.link = some a) :
    ∃ arch, docArch cfg.target = some arch ∧
      ∃ rest, a = (docBase cfg arch c .link).map .lit ++ Word.lit (str "-o") :: rest := by
  obtain ⟨arch, har, _, rfl⟩ := plan_run h hp
  refine ⟨arch, har, ?_⟩
  simp only [implPlan] at ha
  split at ha
  · simp only [Option.some.injEq] at ha
    rw [implBase_link_noPthread cfg arch c hnp] at ha
    exact ⟨_, by rw [← ha]; simp only [List.append_assoc]; rfl⟩
  · simp at ha

example : Item.pthread ∉ sampleCmd.items := by decide


/-! ## 3. Stages -/

/-- Each input passes through exactly the stages implied by its type (suffix, or `-x`) and the
mode flag: `docStages type` cut at the mode, link excluded (`runStages`); an input whose type does
not reach the mode's stage, and every object/library, has no pipeline.  The link step exists iff
no mode flag was given. -/
theorem stages_correct {cfg : Config} {c : Cmd} (h : c.WF = true) {p : Plan} (hp : plan cfg c.argv = .run p) :
    p.pipelines.map (fun pl => (pl.input, pl.invs.map (·.stage))) =
      (docInputs c).zipIdx.filterMap (stagesOfInput (docMode c)) ∧
    (p.link.isSome ↔ docMode c = .link) := by
  obtain ⟨arch, _, _, rfl⟩ := plan_run h hp
  refine ⟨docPipelines_stages _ _ _ _ _ 0, ?_⟩
  simp only [implPlan]
  split <;> simp [*]

/-- `runStages` is `docStages(type) ∩ [.. mode]` without the link stage, and defined only when
the mode's stage is among the type's stages. -/
theorem runStages_spec (mode : Stage) (t : FileType) (st : Stage) :
    (∃ sts, runStages mode t = some sts ∧ st ∈ sts) ↔
      (mode ∈ docStages t ∧ st ∈ docStages t ∧ st.idx ≤ mode.idx ∧ st ≠ .link) := by
  unfold runStages
  by_cases hm : (docStages t).contains mode = true
  · simp only [hm, if_true, Option.some.injEq, exists_eq_left', List.mem_filter, Bool.and_eq_true,
      decide_eq_true_eq, bne_iff_ne, ne_eq]
    have : mode ∈ docStages t := by simpa using hm
    simp [this]
  · have : mode ∉ docStages t := by simpa using hm
    simp [hm, this]

/-! ## 4. Pipeline order and wiring -/

/-- The stages of a pipeline are in pipeline order; exactly the first one is not fed by the
previous stage, exactly the last one does not write into a pipe. -/
theorem pipeline_order {cfg : Config} {c : Cmd} (h : c.WF = true) {p : Plan} (hp : plan cfg c.argv = .run p)
    {pl : Pipeline} (hpl : pl ∈ p.pipelines) :
    (pl.invs.map (·.stage)).Pairwise (fun a b => a.idx < b.idx) ∧
    ∀ inv ∈ pl.invs,
      (inv.src = .prev ↔ (pl.invs.map (·.stage)).head? ≠ some inv.stage) ∧
      (inv.dst = .pipe ↔ (pl.invs.map (·.stage)).getLast? ≠ some inv.stage) := by
  obtain ⟨arch, _, _, rfl⟩ := plan_run h hp
  obtain ⟨k, d, sts, _, _, _, hs, hinvs⟩ := mem_docPipelines hpl
  rw [hinvs, docInvs_stages]
  refine ⟨runStages_sorted hs, ?_⟩
  intro inv hinv
  obtain ⟨h1, h2, _⟩ := docInvs_wiring hinv
  exact ⟨h1, h2⟩

/-! ## 5. Output names -/

/-- The stage that ends a pipeline writes where `docOutName` (code's reading: `-emit-qbe` like
`-c`/`-S`) says: the temporary object when linking, else `-o` (`-` = standard output), else the
input name with directory dropped and suffix replaced, else (`-E`) standard output. -/
theorem output_name_correct {cfg : Config} {c : Cmd} (h : c.WF = true) {p : Plan}
    (hp : plan cfg c.argv = .run p) {pl : Pipeline} (hpl : pl ∈ p.pipelines) :
    ∃ d, (docInputs c)[pl.input]? = some d ∧
      ∀ inv ∈ pl.invs, inv.dst ≠ .pipe →
        inv.dst = dstOf (docOutName false (docMode c) (docOutput c) pl.input d.name) := by
  obtain ⟨arch, _, _, rfl⟩ := plan_run h hp
  obtain ⟨k, d, sts, hk, hi, _, _, hinvs⟩ := mem_docPipelines hpl
  simp only [Nat.zero_add] at hi hinvs
  refine ⟨d, by rw [hi]; exact hk, ?_⟩
  intro inv hinv hne
  rw [hinvs] at hinv
  rw [hi]
  exact (docInvs_wiring hinv).2.2 hne

/-- full strength: the manual's naming rule (`-emit-qbe` → standard output).  FALSE. -/
def output_name_full : Prop :=
  ∀ (cfg : Config) (c : Cmd), c.WF = true → ∀ p, plan cfg c.argv = .run p → ∀ pl ∈ p.pipelines,
    ∃ d, (docInputs c)[pl.input]? = some d ∧
      ∀ inv ∈ pl.invs, inv.dst ≠ .pipe →
        inv.dst = dstOf (docOutName true (docMode c) (docOutput c) pl.input d.name)

theorem output_name_counterexample : ¬ output_name_full := by
  intro hf
  have hrun : plan sampleCfg cexEmitQbe.argv = .run (implPlan sampleCfg (str "x86_64-sysv", str "amd64_sysv") cexEmitQbe) :=
    plan_of_doc (by decide) (by decide)
  have hpl : (⟨0, docInvs (implBase sampleCfg (str "x86_64-sysv", str "amd64_sysv") cexEmitQbe) (some (str "a.c"))
      (some (.lit (str "a.qbe"))) [.preprocess, .compile]⟩ : Pipeline) ∈
      (implPlan sampleCfg (str "x86_64-sysv", str "amd64_sysv") cexEmitQbe).pipelines := by decide
  obtain ⟨d, hd, hall⟩ := hf sampleCfg cexEmitQbe (by decide) _ hrun _ hpl
  have hd' : d = ⟨str "a.c", .c, false, false⟩ := by
    have : (docInputs cexEmitQbe)[0]? = some ⟨str "a.c", .c, false, false⟩ := by decide
    rw [this] at hd; exact (Option.some.inj hd).symm
  subst hd'
  have := hall ⟨.compile, implBase sampleCfg (str "x86_64-sysv", str "amd64_sysv") cexEmitQbe .compile,
    [.lit (str "-o"), .lit (str "a.qbe")], .prev, .path (.lit (str "a.qbe"))⟩ (by decide) (by decide)
  revert this
  decide

theorem output_name_partial {cfg : Config} {c : Cmd} (h : c.WF = true)
    (hne : ¬(docMode c = .compile ∧ docOutput c = none)) {p : Plan}
    (hp : plan cfg c.argv = .run p) {pl : Pipeline} (hpl : pl ∈ p.pipelines) :
    ∃ d, (docInputs c)[pl.input]? = some d ∧
      ∀ inv ∈ pl.invs, inv.dst ≠ .pipe →
        inv.dst = dstOf (docOutName true (docMode c) (docOutput c) pl.input d.name) := by
  obtain ⟨d, hd, hall⟩ := output_name_correct h hp hpl
  exact ⟨d, hd, fun inv hi hn => by rw [docOutName_opts _ _ _ _ hne]; exact hall inv hi hn⟩

example : ¬(docMode sampleCmd = .compile ∧ docOutput sampleCmd = none) := by decide

/-- "replaced suffix": the directory part is dropped and the text from the last `.` of the file
name is replaced (`changeext` of the model = `replaceExt` of the specification). -/
theorem replaced_suffix (name ext : Str) : changeext name ext = stemOf (fileOf name) ++ '.' :: ext :=
  changeext_eq name ext

theorem fileOf_spec (name : Str) :
    (∃ dir, name = dir ++ '/' :: fileOf name ∧ '/' ∉ fileOf name) ∨ ('/' ∉ name ∧ fileOf name = name) := by
  unfold fileOf
  cases h : splitAtLast '/' name with
  | none => exact Or.inr ⟨splitAtLast_none.1 h, rfl⟩
  | some p => exact Or.inl ⟨p.1, splitAtLast_some (b := p.1) (a := p.2) h⟩

theorem stemOf_spec (file : Str) :
    (∃ ext, file = stemOf file ++ '.' :: ext ∧ '.' ∉ ext) ∨ ('.' ∉ file ∧ stemOf file = file) := by
  unfold stemOf
  cases h : splitAtLast '.' file with
  | none => exact Or.inr ⟨splitAtLast_none.1 h, rfl⟩
  | some p => exact Or.inl ⟨p.2, splitAtLast_some (b := p.1) (a := p.2) h⟩

/-! ## 6. Refusals are decided before anything is planned -/

/-- A well-formed command line is refused with a usage error exactly when the documentation
calls it invalid (`docRefuses`: unknown `-x` language, `-` without `-x`, no inputs, `-o -` with
`-c` or when linking, `-o file` with several inputs unless linking).  `plan` returns either a
refusal or a plan, never both: the refusal is computed by `parse` and `check` alone, `build` (the
only place where stages are planned) is not evaluated. -/
theorem usage_before_spawn {cfg : Config} {c : Cmd} (h : c.WF = true) {arch : Str × Str}
    (ha : docArch cfg.target = some arch) :
    ((∃ w, plan cfg c.argv = .refused (.usage w)) ↔ docRefuses c = true) ∧
    ((∃ p, plan cfg c.argv = .run p) ↔ docRefuses c = false) := by
  refine ⟨plan_refused_iff h ha, ?_⟩
  constructor
  · rintro ⟨p, hp⟩
    obtain ⟨_, _, hr, _⟩ := plan_run h hp
    exact hr
  · intro hr
    have := DriverLemmas.plan_eq_docPlan cfg c h
    rw [docPlan_impl, ha] at this
    simp only [hr, Bool.false_eq_true, if_false] at this
    cases hq : plan cfg c.argv with
    | fatalTarget => simp [hq, toDoc] at this
    | refused r => simp [hq, toDoc] at this
    | run q => exact ⟨q, rfl⟩

/-- `plan` decides every refusal in `parse`/`check`: a refused command line has no plan at all. -/
theorem refusal_plans_nothing (cfg : Config) (argv : List Str) (r : Refusal)
    (h : plan cfg argv = .refused r) : ∀ p, plan cfg argv ≠ .run p := by
  intro p hp; rw [hp] at h; cases h

/-- An unsupported target is fatal before the command line is even looked at. -/
theorem unsupported_target (cfg : Config) (argv : List Str) (h : docArch cfg.target = none) :
    plan cfg argv = .fatalTarget := by
  unfold plan; rw [archOf_eq, h]

/-- ANY argument `-<ch>…` whose second character begins no option is refused as unknown, wherever
it stands after a well-formed prefix that is itself not refused (arbitrary `rest`, arbitrary
following arguments `more`). -/
theorem unknown_option_refused {cfg : Config} {arch : Str × Str} (ha : docArch cfg.target = some arch)
    (c : Cmd) (h : c.WF = true) (hr : parseRefuses .none c.items = false)
    (ch : Char) (hch : ch ∉ knownSecond) (rest : Str) (more : List Str) :
    plan cfg (c.argv ++ ('-'::ch::rest) :: more) = .refused (.usage .unknownOpt) := by
  unfold plan
  rw [archOf_eq, ha]
  simp only
  rw [parse_cmd_append c h, updAll_ok c.items _ hr]
  simp only [cont]
  rw [parse_refuse (step_unknown _ ch rest _ hch)]

/-- An option that needs an argument, given last without one, is refused. -/
theorem missing_argument_refused {cfg : Config} {arch : Str × Str} (ha : docArch cfg.target = some arch)
    (c : Cmd) (h : c.WF = true) (hr : parseRefuses .none c.items = false)
    (flag : Str) (hf : flag ∈ danglingFlags) :
    plan cfg (c.argv ++ [flag]) = .refused (.usage .plain) := by
  unfold plan
  rw [archOf_eq, ha]
  simp only
  rw [parse_cmd_append c h, updAll_ok c.items _ hr]
  simp only [cont]
  rw [parse_refuse (step_dangling _ flag hf)]

example : parseRefuses .none sampleCmd.items = false ∧ ('z' ∉ knownSecond) ∧ ('-' ∉ knownSecond) := by decide

/-! ## 7. The link command -/

/-- The link step receives: configured command and linker options (`-L`, `-s`, `-static`,
`-Wl,` in command-line order; `-l pthread` for `-pthread`), `-o` with the output (`a.out` by
default), the start files unless `-nostdlib`, then objects, `-l` libraries and temporary objects
in command-line order of the inputs they come from (`linkWordsOfInput` over `docInputs` zipped
with their positions; inputs whose type does not include linking contribute nothing), then the
end files. -/
theorem link_inputs_order {cfg : Config} {c : Cmd} (h : c.WF = true) {p : Plan}
    (hp : plan cfg c.argv = .run p) {a : List Word} (ha : p.link = some a) :
    ∃ arch, docArch cfg.target = some arch ∧
      a = (implBase cfg arch c .link).map .lit ++
          [.lit (str "-o"), .lit ((docOutput c).getD (str "a.out"))] ++
          (if c.items.contains .nostdlib then [] else cfg.startfiles.map .lit) ++
          (docInputs c).zipIdx.flatMap linkWordsOfInput ++
          (if c.items.contains .nostdlib then [] else cfg.endfiles.map .lit) := by
  obtain ⟨arch, har, _, rfl⟩ := plan_run h hp
  refine ⟨arch, har, ?_⟩
  simp only [implPlan] at ha
  split at ha
  · simp only [Option.some.injEq] at ha
    rw [← ha, docLinkWords_zipIdx]
  · simp at ha

/-- The temporaries removed at exit are exactly those made for the compiled inputs. -/
theorem temporaries {cfg : Config} {c : Cmd} (h : c.WF = true) {p : Plan} (hp : plan cfg c.argv = .run p) :
    p.unlinks = if docMode c = .link then docUnlinks .asImplemented 0 (docInputs c) else [] := by
  obtain ⟨arch, _, _, rfl⟩ := plan_run h hp
  rfl

end CprocVerif.C17

import CprocVerif.Model.Map
import CprocVerif.Model.Scope
import CprocVerif.Lemmas.Map
import CprocVerif.Lemmas.Scope
/-!
# C16 — map.c is a dictionary for every hash function; scope lookup returns the innermost declaration

Model: `CprocVerif/Model/Map.lean` (map.c), `CprocVerif/Model/Scope.lean` (scope.c).
The hash of a key is a free field, so every theorem below quantifies over every hash assignment and
every collision pattern.  `Inv` is `CprocVerif.Map.Inv` (Lemmas/Map.lean): `cap = 2^e`, `4 ≤ cap`,
`slots.size = cap`, `len` = number of occupied slots, `len ≤ cap/2 + 1`, `NoDup`, `NoGap`.

FORCED HYPOTHESIS.  `4 ≤ cap` (not `2 ≤ cap`): `mapinit` only asserts `!(cap & cap-1)`, which accepts
0, 1 and 2.  With `cap = 2` two `mapput`s fill the table completely (growth is only triggered when
`cap/2 < len` at the START of `mapput`), and `mapget` of an absent key then never returns
(`cap2_full_table_loops` below).  All clients use 8, 32 or 64.
-/
namespace CprocVerif.C16
open CprocVerif.Map CprocVerif.Scope

/-! ## 0. `&` versus `%` -/

/-- `x & (cap-1) = x % cap` for the power-of-two capacities the code uses. -/
theorem mask_is_mod {cap e : Nat} (hc : cap = 2 ^ e) (x : Nat) : x &&& (cap - 1) = x % cap :=
  mask_eq_mod hc x

/-- The probe loop written with `&` as in map.c is the modelled loop (written with `%`). -/
theorem keyindex_mask {m : Map} (hI : Inv m) (k : Key) : keyindexMask m k = keyindex m k := by
  obtain ⟨e, he⟩ := hI.pow2
  exact keyindexMask_eq m he k

/-! ## 1. The invariant -/

theorem init_inv {cap e : Nat} (hc : cap = 2 ^ e) (h4 : 4 ≤ cap) : Inv (init cap) :=
  init_inv' hc h4

theorem put_inv {m : Map} (hI : Inv m) (k : Key) (v : Nat) : Inv (put m k v) :=
  (put_spec hI k v).1

theorem grow_inv {m : Map} (hI : Inv m) : Inv (grow m) :=
  (grow_spec hI).1

theorem putKeep_inv {m : Map} (hI : Inv m) (k : Key) (v : Nat) : Inv (putKeep m k v).1 :=
  (putKeep_spec hI k v).1

/-- Every table reachable from `mapinit` by `put`s satisfies the invariant. -/
theorem run_inv {cap e : Nat} (hc : cap = 2 ^ e) (h4 : 4 ≤ cap) (ops : List (Key × Nat)) :
    Inv (run cap ops) :=
  (run_spec hc h4 ops).1

/-! ## 2. Termination of the probe loop -/

/-- The `while` loop of `keyindex` stops within `cap` steps: there is always an empty slot. -/
theorem keyindex_terminates {m : Map} (hI : Inv m) (k : Key) : (keyindex m k).isSome :=
  keyindex_isSome hI k

/-- …and the index it returns is inside the arrays. -/
theorem keyindex_in_bounds {m : Map} (hI : Inv m) (k : Key) {i : Nat} (h : keyindex m k = some i) :
    i < m.slots.size := by
  rw [hI.size]; exact keyindex_lt hI k h

/-- `cap = 2` passes the assertion of `mapinit` but is not safe: after two `put`s the table is full,
    and the probe loop for a third key does not terminate. -/
theorem cap2_full_table_loops :
    keyindex (run 2 [(⟨0, [97]⟩, 1), (⟨1, [98]⟩, 2)]) ⟨0, [99]⟩ = none := by decide

/-! ## 3. get/put laws (growth included) -/

theorem get_put_same {m : Map} (hI : Inv m) (k : Key) (v : Nat) : get (put m k v) k = v := by
  obtain ⟨h1, h2, _, _⟩ := put_spec hI k v
  exact get_of_upd_same h1 h2

theorem get_put_other {m : Map} (hI : Inv m) (k : Key) (v : Nat) {k' : Key} (hne : k' ≠ k) :
    get (put m k v) k' = get m k' := by
  obtain ⟨h1, h2, _, _⟩ := put_spec hI k v
  exact get_of_upd_other hI h1 hne h2

/-- Growth alone does not change any lookup. -/
theorem get_grow {m : Map} (hI : Inv m) (k : Key) : get (grow m) k = get m k := by
  obtain ⟨hG, _, _, hh⟩ := grow_spec hI
  rcases get_cases hI k with h | ⟨h0, habs⟩
  · exact get_of_holds hG ((hh _ _).mpr h)
  · rw [h0]; exact get_of_absent hG (fun w hw => habs w ((hh _ _).mp hw))

theorem get_init (cap : Nat) {e : Nat} (hc : cap = 2 ^ e) (h4 : 4 ≤ cap) (k : Key) :
    get (init cap) k = 0 :=
  get_of_absent (init_inv' hc h4) (fun w => init_empty cap k w)

/-- `entry = mapput(..); if (!*entry) *entry = v;` returns / stores the old non-NULL value, else `v`. -/
theorem putKeep_value {m : Map} (hI : Inv m) (k : Key) (v : Nat) :
    (putKeep m k v).2 = if get m k ≠ 0 then get m k else v :=
  (putKeep_spec hI k v).2.1

theorem get_putKeep_same {m : Map} (hI : Inv m) (k : Key) (v : Nat) :
    get (putKeep m k v).1 k = (putKeep m k v).2 := by
  obtain ⟨h1, _, h3⟩ := putKeep_spec hI k v
  exact get_of_upd_same h1 h3

theorem get_putKeep_other {m : Map} (hI : Inv m) (k : Key) (v : Nat) {k' : Key} (hne : k' ≠ k) :
    get (putKeep m k v).1 k' = get m k' := by
  obtain ⟨h1, _, h3⟩ := putKeep_spec hI k v
  exact get_of_upd_other hI h1 hne h3

/-- The slot index reported by `mapput` is where `keyindex` finds the key afterwards, and the arrays
    are only ever accessed in bounds. -/
theorem mapput_index {m : Map} (hI : Inv m) (k : Key) :
    keyindex (mapput m k).1 k = some (mapput m k).2 ∧ (mapput m k).2 < (mapput m k).1.slots.size := by
  obtain ⟨h1, _, h3, _⟩ := mapput_spec hI k
  obtain ⟨i, hi, hk, hc⟩ := keyindexS_cases h1.rinv h1.hasEmpty k
  have hlt : (mapput m k).2 < (mapput m k).1.slots.size := by
    apply Classical.byContradiction; intro hge
    rw [sl_of_ge _ _ (by omega)] at h3; cases h3
  refine ⟨?_, hlt⟩
  show keyindexS _ _ k = _
  rw [hk]
  rcases hc with ⟨_, habs, _⟩ | ⟨w, hw⟩
  · exact (habs _ ⟨_, h3⟩).elim
  · congr 1
    exact h1.nodup i _ k (keyAt_some.mpr ⟨w, hw⟩) (keyAt_some.mpr ⟨_, h3⟩)

/-! ## 4. Refinement: the table is a plain dictionary -/

/-- For every initial power-of-two capacity ≥ 4, every history of `put`s (any length, any keys, any
    hash fields, any values including NULL) and every key: `get` returns the value of the LAST `put`
    of that key, else 0.  (`run cap ops = ops.foldl (fun m kv => put m kv.1 kv.2) (init cap)`,
    `dict ops k = ((ops.reverse.find? (·.1 = k)).map (·.2)).getD 0`.) -/
theorem map_refines (cap k0 : Nat) (ops : List (Key × Nat)) (hc : cap = 2 ^ k0) (h4 : 4 ≤ cap)
    (k : Key) :
    get (ops.foldl (fun m kv => put m kv.1 kv.2) (init cap)) k =
      ((ops.reverse.find? (fun kv => decide (kv.1 = k))).map (·.2)).getD 0 :=
  (run_spec hc h4 ops).2.1 k

/-! ## 5. Independence of the hash function -/

/-- Replacing every hash field by ANY function `f` of the bytes (and starting from any other valid
    capacity) changes no lookup result, provided the original history is hash-consistent
    (keys with equal bytes have equal hash — true for every real hash function). -/
theorem hash_independent (f : List Nat → Nat) {cap e cap' e' : Nat}
    (hc : cap = 2 ^ e) (h4 : 4 ≤ cap) (hc' : cap' = 2 ^ e') (h4' : 4 ≤ cap')
    (ops : List (Key × Nat)) (k : Key) (hcons : HashConsistent (k :: ops.map (·.1))) :
    get (run cap' (ops.map (fun kv => (rekey f kv.1, kv.2)))) (rekey f k) = get (run cap ops) k := by
  rw [(run_spec hc' h4' _).2.1, (run_spec hc h4 ops).2.1]
  exact dict_rekey f ops k hcons

/-- Two hash functions `f`, `g` on the same history of byte strings give the same lookups. -/
theorem hash_independent' (f g : List Nat → Nat) {cap e cap' e' : Nat}
    (hc : cap = 2 ^ e) (h4 : 4 ≤ cap) (hc' : cap' = 2 ^ e') (h4' : 4 ≤ cap')
    (ops : List (List Nat × Nat)) (b : List Nat) :
    get (run cap (ops.map (fun bv => (⟨f bv.1, bv.1⟩, bv.2)))) ⟨f b, b⟩ =
      get (run cap' (ops.map (fun bv => (⟨g bv.1, bv.1⟩, bv.2)))) ⟨g b, b⟩ := by
  have hcons : HashConsistent ((⟨f b, b⟩ : Key) ::
      (ops.map (fun bv => ((⟨f bv.1, bv.1⟩ : Key), bv.2))).map (·.1)) := by
    have hall : ∀ k : Key, k ∈ ((⟨f b, b⟩ : Key) ::
        (ops.map (fun bv => ((⟨f bv.1, bv.1⟩ : Key), bv.2))).map (·.1)) → k.hash = f k.bytes := by
      intro k hk
      rcases List.mem_cons.mp hk with rfl | hk
      · rfl
      · simp only [List.map_map, List.mem_map, Function.comp] at hk
        obtain ⟨bv, _, rfl⟩ := hk
        rfl
    intro k1 h1 k2 h2 hb
    rw [hall k1 h1, hall k2 h2, hb]
  have := hash_independent g hc h4 hc' h4' _ _ hcons
  rw [List.map_map] at this
  exact this.symm

/-! ## 6. `len` counts the distinct keys -/

theorem distinctKeys_nodup (ops : List (Key × Nat)) : (distinctKeys ops).Nodup :=
  distinctKeys_nodup' ops

theorem mem_distinctKeys (ops : List (Key × Nat)) (k : Key) :
    k ∈ distinctKeys ops ↔ k ∈ ops.map (·.1) :=
  mem_distinctKeys' ops k

/-- `h->len` = number of distinct keys put so far (`distinctKeys` is a duplicate-free list with
    exactly the keys of the history, by the two theorems above). -/
theorem len_counts {cap e : Nat} (hc : cap = 2 ^ e) (h4 : 4 ≤ cap) (ops : List (Key × Nat)) :
    (run cap ops).len = (distinctKeys ops).length :=
  (run_spec hc h4 ops).2.2.1

/-- In any state satisfying the invariant `len` is the number of occupied slots and leaves room. -/
theorem len_occupancy {m : Map} (hI : Inv m) :
    m.len = m.slots.countP (·.isSome) ∧ m.len ≤ m.cap / 2 + 1 ∧ m.len < m.cap := by
  have := hI.cap4
  exact ⟨hI.len_occ, hI.len_le, by have := hI.len_le; omega⟩

/-! ## 7. Scopes -/

/-- Recursive lookup returns the value in the first scope (innermost first) that holds a non-NULL
    value for the name, else 0. -/
theorem scope_innermost (c : Chain) (k : Key) :
    getDecl c k true = ((c.map (·.declOf k)).find? (fun d => d != 0)).getD 0 :=
  getDecl_innermost c k

theorem scope_innermost_tag (c : Chain) (k : Key) :
    getTag c k true = ((c.map (·.tagOf k)).find? (fun d => d != 0)).getD 0 :=
  getTag_innermost c k

/-- Non-recursive lookup looks in the head scope only. -/
theorem scope_norecurse (s : Scope) (p : Chain) (k : Key) :
    getDecl (s :: p) k false = s.declOf k ∧ getTag (s :: p) k false = s.tagOf k := by
  rw [getDecl_cons, getTag_cons]; simp

/-- What one scope answers after a declaration in it (lazy `mapinit(…, 32)` included). -/
theorem scope_putDecl_lookup {s : Scope} (h : ScopeWf s) (k : Key) (v : Nat) (k' : Key) :
    (s.putDecl k v).declOf k' = if k' = k then v else s.declOf k' :=
  declOf_putDecl h k v k'

theorem scope_putTag_lookup {s : Scope} (h : ScopeWf s) (k : Key) (v : Nat) (k' : Key) :
    (s.putTag k v).tagOf k' = if k' = k then v else s.tagOf k' :=
  tagOf_putTag h k v k'

/-- A (non-NULL) declaration in the innermost scope shadows every outer one. -/
theorem scope_shadow {c : Chain} (hw : ChainWf c) (hne : c ≠ []) (k : Key) {v : Nat} (hv : v ≠ 0)
    (r : Bool) : getDecl (putDecl c k v) k r = v := by
  cases c with
  | nil => exact (hne rfl).elim
  | cons s p =>
    rw [putDecl, getDecl_cons, declOf_putDecl (hw s (List.mem_cons_self ..))]
    simp [hv]

/-- …and does not disturb the lookup of any other name. -/
theorem scope_putDecl_other {c : Chain} (hw : ChainWf c) (k : Key) (v : Nat) {k' : Key} (hne : k' ≠ k)
    (r : Bool) : getDecl (putDecl c k v) k' r = getDecl c k' r := by
  cases c with
  | nil => rfl
  | cons s p =>
    rw [putDecl, getDecl_cons, getDecl_cons, declOf_putDecl (hw s (List.mem_cons_self ..)), if_neg hne]

/-- The two name spaces do not interact. -/
theorem tags_decls_independent (c : Chain) (k : Key) (v : Nat) (k' : Key) (r : Bool) :
    getDecl (putTag c k v) k' r = getDecl c k' r ∧ getTag (putDecl c k v) k' r = getTag c k' r := by
  cases c with
  | nil => exact ⟨rfl, rfl⟩
  | cons s p =>
    constructor
    · rw [putTag, getDecl_cons, getDecl_cons, declOf_putTag]
    · rw [putDecl, getTag_cons, getTag_cons, tagOf_putDecl]

/-- Opening and closing a scope restores the chain; a fresh scope is transparent for recursive lookup
    and empty for non-recursive lookup. -/
theorem mkscope_delscope (c : Chain) :
    delscope (mkscope c) = c ∧
      (∀ k, getDecl (mkscope c) k true = getDecl c k true ∧ getTag (mkscope c) k true = getTag c k true) ∧
      (∀ k, getDecl (mkscope c) k false = 0 ∧ getTag (mkscope c) k false = 0) := by
  refine ⟨rfl, ?_, ?_⟩
  · intro k
    unfold mkscope
    rw [getDecl_cons, getTag_cons, fresh_declOf, fresh_tagOf]
    cases c <;> simp [getDecl, getTag]
  · intro k
    unfold mkscope
    rw [getDecl_cons, getTag_cons, fresh_declOf, fresh_tagOf]
    simp

/-- Whatever a block body does (declarations, tags, properly nested inner blocks), after its closing
    `delscope` the chain is exactly the chain before `mkscope`: the block's declarations vanish and
    the outer ones reappear. -/
theorem block_scope_vanishes (c : Chain) (body : List Op) (h : bodyDepth body 1 = some 1) :
    delscope (body.foldl step (mkscope c)) = c ∧
      ∀ k r, getDecl (delscope (body.foldl step (mkscope c))) k r = getDecl c k r ∧
        getTag (delscope (body.foldl step (mkscope c))) k r = getTag c k r := by
  have := block_restores c body h
  exact ⟨this, fun k r => by rw [this]; exact ⟨rfl, rfl⟩⟩

/-- Full refinement for scopes: after ANY sequence of scope operations starting from the file scope,
    lookups in the model equal lookups in the specification (a chain of per-scope association-list
    dictionaries, `aGetDecl` = last value declared in the innermost scope having a non-NULL one). -/
theorem scope_refines (ops : List Op) (k : Key) (r : Bool) :
    getDecl (ops.foldl step fileChain) k r = aGetDecl (ops.foldl aStep [⟨[], []⟩]) k r ∧
      getTag (ops.foldl step fileChain) k r = aGetTag (ops.foldl aStep [⟨[], []⟩]) k r :=
  ⟨getDecl_of_CRel k r (CRel_run ops CRel_file), getTag_of_CRel k r (CRel_run ops CRel_file)⟩

/-- Every chain reachable from the file scope is well formed (each map uninitialised or `Inv`). -/
theorem scope_run_wf (ops : List Op) : ChainWf (ops.foldl step fileChain) :=
  run_wf ops fileChain_wf

/-! ## Non-vacuity: a concrete state

Nine `put`s of seven distinct keys starting from capacity 4: hashes 3, 7, 11, 19 collide in the low
two bits (3, 11, 19 also in the low three bits, 3 and 19 in the low four), two keys have the SAME hash
3 and different bytes, one key is overwritten, one gets NULL written.  The table grows twice
(4 → 8 → 16). -/

def exOps : List (Key × Nat) :=
  [ (⟨3, [97]⟩, 1), (⟨7, [98]⟩, 2), (⟨11, [99]⟩, 3), (⟨19, [100]⟩, 4), (⟨3, [101]⟩, 5),
    (⟨0, []⟩, 6), (⟨3, [97]⟩, 7), (⟨4, [102, 103]⟩, 8), (⟨7, [98]⟩, 0) ]

def exMap : Map := run 4 exOps

theorem exInv : Inv exMap := run_inv (e := 2) (by decide) (by decide) exOps

example : exMap.cap = 16 ∧ exMap.len = 7 := by decide
example : (exMap.slots.toList.filter (·.isSome)).length = 7 := by decide
/- collisions really happened: three keys with home slot 3 sit in slots 3, 4, 5 -/
example : keyindex exMap ⟨3, [97]⟩ = some 3 ∧ keyindex exMap ⟨19, [100]⟩ = some 4 ∧
    keyindex exMap ⟨3, [101]⟩ = some 5 ∧ keyindex exMap ⟨4, [102, 103]⟩ = some 6 := by decide
example : get exMap ⟨3, [97]⟩ = 7 ∧ get exMap ⟨3, [101]⟩ = 5 ∧ get exMap ⟨7, [98]⟩ = 0 ∧
    get exMap ⟨3, [102]⟩ = 0 ∧ get exMap ⟨19, [100]⟩ = 4 := by decide

example : Inv (init 8) := init_inv (e := 3) (by decide) (by decide)
example : (0xdeadbeef : Nat) &&& (64 - 1) = 0xdeadbeef % 64 := mask_is_mod (e := 6) (by decide) _
example : Inv (put exMap ⟨35, [104]⟩ 9) := put_inv exInv _ _
example : Inv (putKeep exMap ⟨35, [104]⟩ 9).1 := putKeep_inv exInv _ _
example : 8 < exMap.slots.size := keyindex_in_bounds exInv ⟨35, [104]⟩ (by decide)
example : get (grow exMap) ⟨3, [101]⟩ = get exMap ⟨3, [101]⟩ := get_grow exInv _
example : get (init 64) ⟨3, [101]⟩ = 0 := get_init 64 (e := 6) (by decide) (by decide) _
example : get (putKeep exMap ⟨7, [98]⟩ 42).1 ⟨7, [98]⟩ = (putKeep exMap ⟨7, [98]⟩ 42).2 :=
  get_putKeep_same exInv _ _
example : get (putKeep exMap ⟨7, [98]⟩ 42).1 ⟨3, [97]⟩ = get exMap ⟨3, [97]⟩ :=
  get_putKeep_other exInv _ _ (by decide)
example : keyindex (mapput exMap ⟨35, [104]⟩).1 ⟨35, [104]⟩ = some (mapput exMap ⟨35, [104]⟩).2 :=
  (mapput_index exInv _).1
example : (mapput exMap ⟨35, [104]⟩).2 = 8 ∧ (mapput exMap ⟨19, [100]⟩).2 = 4 := by decide +kernel
example : Inv (grow exMap) := grow_inv exInv
example : (grow exMap).cap = 32 ∧ get (grow exMap) ⟨3, [101]⟩ = 5 := by decide
example : (keyindex exMap ⟨35, [104]⟩).isSome := keyindex_terminates exInv _
example : keyindex exMap ⟨35, [104]⟩ = some 8 := by decide
example : keyindexMask exMap ⟨35, [104]⟩ = keyindex exMap ⟨35, [104]⟩ := keyindex_mask exInv _
example : get (put exMap ⟨35, [104]⟩ 9) ⟨35, [104]⟩ = 9 := get_put_same exInv _ _
example : get (put exMap ⟨35, [104]⟩ 9) ⟨3, [101]⟩ = get exMap ⟨3, [101]⟩ :=
  get_put_other exInv _ _ (by decide)
example : get (put exMap ⟨35, [104]⟩ 9) ⟨35, [104]⟩ = 9 ∧ get (put exMap ⟨35, [104]⟩ 9) ⟨3, [101]⟩ = 5 := by
  decide +kernel
example : (putKeep exMap ⟨3, [101]⟩ 42).2 = 5 ∧ (putKeep exMap ⟨7, [98]⟩ 42).2 = 42 := by decide +kernel
example : (putKeep exMap ⟨3, [101]⟩ 42).2 = if get exMap ⟨3, [101]⟩ ≠ 0 then get exMap ⟨3, [101]⟩ else 42 :=
  putKeep_value exInv _ _
example : exMap.len = (distinctKeys exOps).length := len_counts (e := 2) (by decide) (by decide) exOps
example : (distinctKeys exOps).length = 7 := by decide
example : ∀ k, get exMap k = dict exOps k :=
  fun k => map_refines 4 2 exOps (by decide) (by decide) k

/- hash independence: the same byte strings under the constant-zero hash (every key collides) -/
example : HashConsistent (⟨3, [97]⟩ :: exOps.map (·.1)) := by
  intro k1 h1 k2 h2
  revert k1 k2
  decide
example : get (run 8 (exOps.map (fun kv => (rekey (fun _ => 0) kv.1, kv.2)))) (rekey (fun _ => 0) ⟨3, [97]⟩) = 7 := by
  decide
example : get (run 8 (exOps.map (fun kv => (rekey (fun _ => 0) kv.1, kv.2)))) (rekey (fun _ => 0) ⟨3, [97]⟩) =
    get (run 4 exOps) ⟨3, [97]⟩ :=
  hash_independent (fun _ => 0) (e := 2) (e' := 3) (by decide) (by decide) (by decide) (by decide) exOps _
    (by intro k1 h1 k2 h2; revert k1 k2; decide)
example : get (run 4 ([([97], 1), ([98], 2), ([97], 3)].map (fun bv => (⟨bv.1.length, bv.1⟩, bv.2)))) ⟨1, [97]⟩ =
    get (run 64 ([([97], 1), ([98], 2), ([97], 3)].map (fun bv => (⟨bv.1.sum, bv.1⟩, bv.2)))) ⟨97, [97]⟩ :=
  hash_independent' (fun b => b.length) (fun b => b.sum) (e := 2) (e' := 6)
    (by decide) (by decide) (by decide) (by decide) _ [97]

/-! ### Scopes -/

def exScopeOps : List Op :=
  [ .decl ⟨1, [120]⟩ 10, .tag ⟨1, [120]⟩ 20, .decl ⟨33, [121]⟩ 11,   -- file scope: x, struct x, y
    .mk, .decl ⟨1, [120]⟩ 12,                                           -- { int x;
    .mk, .tag ⟨65, [122]⟩ 21 ]                                          --   { struct z;

def exChain : Chain := exScopeOps.foldl step fileChain

theorem exChainWf : ChainWf exChain := scope_run_wf exScopeOps

example : exChain.length = 3 := by decide
example : getDecl exChain ⟨1, [120]⟩ true = 12 ∧ getDecl exChain ⟨1, [120]⟩ false = 0 ∧
    getDecl exChain ⟨33, [121]⟩ true = 11 ∧ getTag exChain ⟨1, [120]⟩ true = 20 ∧
    getTag exChain ⟨65, [122]⟩ false = 21 ∧ getDecl exChain ⟨65, [122]⟩ true = 0 := by decide
example : getDecl (delscope (delscope exChain)) ⟨1, [120]⟩ true = 10 := by decide
example : getDecl (putDecl exChain ⟨1, [120]⟩ 13) ⟨1, [120]⟩ true = 13 :=
  scope_shadow exChainWf (by decide) _ (by decide) _
example : getDecl (putDecl exChain ⟨1, [120]⟩ 13) ⟨33, [121]⟩ true = getDecl exChain ⟨33, [121]⟩ true :=
  scope_putDecl_other exChainWf _ _ (by decide) _
example : ∀ s p, exChain = s :: p → (s.putDecl ⟨1, [120]⟩ 13).declOf ⟨1, [120]⟩ = 13 := by
  intro s p h
  have hw : ScopeWf s := exChainWf s (by rw [h]; exact List.mem_cons_self ..)
  rw [scope_putDecl_lookup hw]; simp
example : ∀ s p, exChain = s :: p → (s.putTag ⟨65, [122]⟩ 23).tagOf ⟨65, [122]⟩ = 23 := by
  intro s p h
  have hw : ScopeWf s := exChainWf s (by rw [h]; exact List.mem_cons_self ..)
  rw [scope_putTag_lookup hw]; simp
example : bodyDepth [.decl ⟨1, [120]⟩ 14, .mk, .tag ⟨1, [120]⟩ 22, .del, .decl ⟨2, [119]⟩ 15] 1 = some 1 := by
  decide
example : delscope ([Op.decl ⟨1, [120]⟩ 14, .mk, .tag ⟨1, [120]⟩ 22, .del, .decl ⟨2, [119]⟩ 15].foldl step
    (mkscope exChain)) = exChain :=
  (block_scope_vanishes exChain _ (by decide)).1

end CprocVerif.C16

/-
  Property C01, fragment 𝔽₁ (pure scalar integer expressions over parameters, including casts,
  `?:`, `&&`, `||`): semantic preservation of cproc's lowering to QBE IL.

  * source semantics: `CSem.evalC` (C11 on mathematical integers, `none` = undefined behaviour),
  * lowering: `Lower.emitFunc` (transliteration of `qbe.c`; tied to the real compiler by text
    comparison of `drv_c01 emit` with `cproc-qbe`),
  * target semantics: `Qbe.runFunc` (`Spec/Qbe.lean`).

  Main theorem `lower_correct`: a well-typed function whose body has a defined value `v` on the
  arguments `ρ` is lowered to IL which, run on (representations of) `ρ`, returns a representation
  of `v` for every sufficiently large fuel — in particular it never gets stuck, traps, or touches
  memory outside its own parameter slots, and it produces no output.
-/
import CprocVerif.Lemmas.LowerMain
import CprocVerif.Lemmas.Lower2Prog
import CprocVerif.Model.CSem3
import CprocVerif.Spec.QbeWf

namespace CprocVerif.C01
open CprocVerif.Qbe CprocVerif.Lower CprocVerif.CSem CprocVerif.CInt CprocVerif.LowerArith
open CprocVerif.LowerMach

/-- The program consisting of the emitted function only. -/
def prog (f : Qbe.Func) : Prog := Prog.ofModule (moduleOf f)

theorem prog_funcs (F : Qbe.Func) : (prog F).funcs[F.name]? = some (FuncInfo.of F) := by
  have h : (prog F).funcs = ({} : Std.HashMap String FuncInfo).insertIfNew F.name (FuncInfo.of F) := by
    simp [prog, Prog.ofModule, moduleOf, Module.funcs, mkFuncTable]
  rw [h, Std.HashMap.getElem?_insertIfNew]
  simp

theorem prog_initMem (F : Qbe.Func) : (prog F).initMem = ⟨#[], #[], stackTop⟩ := by
  simp [prog, Prog.ofModule, moduleOf, Module.datas, applyRelocs, layoutData]

/-- The value-representation invariant for the returned value (see `Lemmas/LowerRep.lean`):
    the result has the kind of the return class (`l` for 8-byte types, `w` otherwise, upper half
    zero); for an 8-byte type its 64 bits are `v mod 2^64`, for a type of `s ≤ 4` bytes its low
    `8s` bits are `v mod 2^(8s)`. -/
abbrev RetRep := LowerMach.RetRep

/-- **Semantic preservation for 𝔽₁** (in any program that contains the emitted function and starts
    with an empty stack). -/
theorem lower_correct_in (cs : Bool) (startid : Nat) (f : CSem.Func) (ρ : List Int) (v : Int)
    (hwt : WT f) (henv : EnvOK cs f.params ρ) (hsmall : f.params.length ≤ 1000000)
    (hev : evalC cs ρ f.body = some v) (p : Prog) (ext : Ext)
    (hfun : p.funcs[f.name]? = some (FuncInfo.of (emitFunc cs startid f)))
    (hstack : p.initMem.stack = #[]) (hsp : p.initMem.sp = stackTop) :
    ∃ fuel₀ r, RetRep f.ret v r ∧ ∀ fuel, fuel₀ ≤ fuel →
      runFunc p ext f.name (argsOf f.params ρ) fuel = ⟨#[], .ret (.scalar r)⟩ :=
  lower_correct_prog cs startid f ρ v hwt henv hsmall hev p ext hfun hstack hsp

/-- **Semantic preservation for 𝔽₁.**  `cs`: signedness of plain `char` on the target; `startid`:
    value of `mkblock`'s counter before the function. -/
theorem lower_correct (cs : Bool) (startid : Nat) (f : CSem.Func) (ρ : List Int) (v : Int)
    (ext : Ext) (hwt : WT f) (henv : EnvOK cs f.params ρ) (hsmall : f.params.length ≤ 1000000)
    (hev : evalC cs ρ f.body = some v) :
    ∃ fuel₀ r, RetRep f.ret v r ∧ ∀ fuel, fuel₀ ≤ fuel →
      runFunc (prog (emitFunc cs startid f)) ext f.name (argsOf f.params ρ) fuel =
        ⟨#[], .ret (.scalar r)⟩ := by
  refine lower_correct_prog cs startid f ρ v hwt henv hsmall hev _ ext
    (prog_funcs (emitFunc cs startid f)) ?_ ?_
  · rw [prog_initMem]
  · rw [prog_initMem]

/-- For a return type of at least `int` size the returned machine value is determined:
    `v mod 2^32` at class `w`, `v mod 2^64` at class `l` (this is `(argOf t v).2`). -/
theorem retRep_exact {t : CSem.Ty} (ht : 4 ≤ t.size) {v : Int} {r : RVal} (h : RetRep t v r) :
    r = (argOf t v).2 := by
  obtain ⟨hrep, hk, hlt⟩ := h
  cases r with
  | mk kind bits =>
    rcases size_cases t with hs | hs | hs | hs
    · omega
    · omega
    · rw [rep_w hs] at hrep
      obtain ⟨x, hx, hxv⟩ := hrep
      simp only [cls, hs, Nat.reduceEqDiff, if_false, Cls.kind, forall_const] at hk hlt
      subst hk
      simp only [asW_mk_w, Except.ok.injEq] at hx
      subst hx
      simp only [argOf, hs, Nat.reduceEqDiff, if_false]
      congr 1
      apply UInt64.toNat_inj.1
      rw [UInt64.toNat_ofNat']
      rw [toNat_and_mask32] at hxv
      omega
    · rw [rep_l hs] at hrep
      obtain ⟨x, hx, hxv⟩ := hrep
      simp only [cls, hs, if_true, Cls.kind] at hk
      subst hk
      simp only [asL_mk_l, Except.ok.injEq] at hx
      subst hx
      simp only [argOf, hs, if_true]
      congr 1
      apply UInt64.toNat_inj.1
      rw [UInt64.toNat_ofNat']
      have := bits.toNat_lt
      omega

/-- `lower_correct` for functions returning `int`, `unsigned`, `long`, …: the outcome is an equation. -/
theorem lower_correct_exact (cs : Bool) (startid : Nat) (f : CSem.Func) (ρ : List Int) (v : Int)
    (ext : Ext) (hwt : WT f) (henv : EnvOK cs f.params ρ) (hsmall : f.params.length ≤ 1000000)
    (hret : 4 ≤ f.ret.size) (hev : evalC cs ρ f.body = some v) :
    ∃ fuel₀, ∀ fuel, fuel₀ ≤ fuel →
      runFunc (prog (emitFunc cs startid f)) ext f.name (argsOf f.params ρ) fuel =
        ⟨#[], .ret (.scalar (argOf f.ret v).2)⟩ := by
  obtain ⟨n, r, hr, h⟩ := lower_correct cs startid f ρ v ext hwt henv hsmall hev
  exact ⟨n, fun fuel hf => by rw [h fuel hf, retRep_exact hret hr]⟩

/-- Stated, not proved: the emitted module passes the IL validator of C03 (`wf_sound` would then
    give the absence of "undefined temporary / unknown label / class mismatch" for ALL inputs,
    including those on which the C program is undefined).  Checked per function by `drv_c01 eval`
    (field `wf=`). -/
def emit_wf_full : Prop :=
  ∀ (cs : Bool) (startid : Nat) (f : CSem.Func), WT f →
    wf (moduleOf (emitFunc cs startid f)) = .ok ()

/-! ## Non-vacuity -/

/-- `int f(int a, unsigned char b, long c) { return (a + b) * c >> 3 < 5 ? a : ~b; }` as cproc
    types it (the condition folded by `eval`: `5` is a `long` constant). -/
def ex1 : CSem.Func :=
  { name := "f", ret := .int, params := [.int, .uchar, .long],
    body := .cond .int
      (.bin .lt .int
        (.bin .shr .long
          (.bin .mul .long (.cast .long (.bin .add .int (.param .int 0) (.cast .int (.param .uchar 1))))
            (.param .long 2))
          (.const .int 3))
        (.const .long 5))
      (.param .int 0)
      (.bin .bxor .int (.cast .int (.param .uchar 1)) (.const .int 18446744073709551615)) }

example : WT ex1 := by decide
example : EnvOK true ex1.params [3, 4, 5] := ⟨rfl, by
  intro i t v ht hv
  match i, ht, hv with
  | 0, ht, hv => cases ht; cases hv; decide
  | 1, ht, hv => cases ht; cases hv; decide
  | 2, ht, hv => cases ht; cases hv; decide⟩
example : evalC true [3, 4, 5] ex1.body = some 3 := by decide
example : evalC true [100, 200, 1000000] ex1.body = some (-201) := by decide
/-- signed overflow in `a + b` is undefined -/
example : evalC true [2147483647, 1, 1] ex1.body = none := by decide

/-- `unsigned long g(signed char a, unsigned b, long long c) { return a && b / c || -a > b; }` -/
def ex2 : CSem.Func :=
  { name := "g", ret := .ulong, params := [.schar, .uint, .llong],
    body := .cast .ulong
      (.bin .lor .int
        (.bin .land .int (.param .schar 0)
          (.bin .div .llong (.cast .llong (.param .uint 1)) (.param .llong 2)))
        (.bin .gt .int (.cast .uint (.neg .int (.cast .int (.param .schar 0)))) (.param .uint 1))) }

example : WT ex2 := by decide
example : evalC true [-3, 7, 2] ex2.body = some 1 := by decide
/-- `&&` does not evaluate the division when `a == 0`; `-0 > 7u` is false -/
example : evalC true [0, 7, 0] ex2.body = some 0 := by decide
/-- division by zero is undefined -/
example : evalC true [1, 7, 0] ex2.body = none := by decide

/-- `char h(short a, unsigned long b) { return (_Bool)(a % 7) + (b << (a & 63)); }` -/
def ex3 : CSem.Func :=
  { name := "h", ret := .char, params := [.short, .ulong],
    body := .cast .char
      (.bin .add .ulong
        (.cast .ulong (.cast .bool (.bin .mod .int (.cast .int (.param .short 0)) (.const .int 7))))
        (.bin .shl .ulong (.param .ulong 1)
          (.bin .band .int (.cast .int (.param .short 0)) (.const .int 63)))) }

example : WT ex3 := by decide
example : evalC true [-9, 3] ex3.body = some 1 := by decide
example : evalC false [10, 3] ex3.body = some 1 := by decide

/-- the theorem applied to `ex1` -/
example : ∃ fuel₀, ∀ fuel, fuel₀ ≤ fuel →
    runFunc (prog (emitFunc true 0 ex1)) noExt "f" (argsOf ex1.params [100, 200, 1000000]) fuel =
      ⟨#[], .ret (.scalar ⟨.w, 4294967095⟩)⟩ := by
  have hval : (argOf ex1.ret (-201)).2 = ⟨.w, 4294967095⟩ := by decide
  rw [← hval]
  exact lower_correct_exact true 0 ex1 [100, 200, 1000000] (-201) noExt (by decide)
    ⟨rfl, by
      intro i t v ht hv
      match i, ht, hv with
      | 0, ht, hv => cases ht; cases hv; decide
      | 1, ht, hv => cases ht; cases hv; decide
      | 2, ht, hv => cases ht; cases hv; decide⟩
    (by decide) (by decide) (by decide)

/-! # Fragment 𝔽₂ — function bodies with statements

  * source semantics: `CSem2.exec` / `CSem2.runC` (fuel-indexed big-step execution over a store of the
    parameters and the block-scope integer objects; `none` = undefined behaviour — of an expression, or
    the read of an object whose value is indeterminate — or fuel exhausted),
  * lowering: `Lower2.emitFunc` (transliteration of `stmt.c`, `decl.c`'s `funcinit` path and `qbe.c`'s
    `funcalloc`/`funcstore`/`funcload`/`funclabel`/`funcjmp`/`funcjnz`/`funcret`; tied to the real
    compiler by text comparison of `drv_c01 emit` with `cproc-qbe`),
  * target semantics: `Qbe.runFunc`.

  𝔽₂ = functions over integer parameters whose body is built from: `;`, declarations of integer
  block-scope objects with and without initialiser, assignment and compound assignment to variables,
  `++`/`--` on variables, expression statements, compound statements, `if`, `if`-`else`, `while`, `do`,
  `for` (any clause may be missing, the first may be a declaration), `switch` with `case`/`default` labels
  (fall-through, any order, the comparison ladder over the AVL tree of `tree.c` as `casesearch` emits it —
  connected to `C15.switch_w_correct`/`switch_l_correct`), `break`, `continue`, `return`; the
  expressions are those of 𝔽₁ over parameters and locals.  `CSem2.WT` (decidable) is what the parser
  guarantees (typing, declaration before use, `case` constants distinct after conversion, labels only
  directly in the body of their `switch`) plus one restriction of the MODEL: no statement other than a
  `case`/`default` label follows a `return`/`break`/`continue` in the same block, and a `switch` body
  begins with a label (there cproc opens a block `dead.N` lazily, which `Lower2` places differently).
  The theorems hold
  for ALL such functions: any size, any nesting of loops and branches, any number of variables (up to
  the stack bound), all in-range arguments, any fuel of the C execution. -/

/-- **Semantic preservation for 𝔽₂** (in any program that contains the emitted function and starts with
    an empty stack): if the C execution of the body on the arguments `ρ` reaches `return` with value `v`
    within some fuel, without undefined behaviour, then the emitted IL, run on representations of `ρ`,
    returns a representation of `v` for every sufficiently large fuel — it does not get stuck, trap,
    touch memory outside its own slots, or produce output.  (`hpw`: the function called with a list of
    integers has no array parameter — see "Read-only array parameters" below.) -/
theorem lower2_correct_in (cs : Bool) (startid : Nat) (f : CSem2.Func) (ρ : List Int) (v : Int)
    (hwt : CSem2.WT f) (hpw : f.pwin = []) (henv : EnvOK cs f.params ρ)
    (hsmall : f.params.length + f.locals.length ≤ 1000000)
    (cfuel : Nat) (hev : CSem2.runC cs cfuel f ρ = some v) (p : Prog) (ext : Ext)
    (hfun : p.funcs[f.name]? = some (FuncInfo.of (Lower2.emitFunc cs startid f)))
    (hstack : p.initMem.stack = #[]) (hsp : p.initMem.sp = stackTop) :
    ∃ fuel₀ r, RetRep f.ret v r ∧ ∀ fuel, fuel₀ ≤ fuel →
      runFunc p ext f.name (argsOf f.params ρ) fuel = ⟨#[], .ret (.scalar r)⟩ := by
  have hex : CSem2.exec cs [] cfuel (CSem2.initStore f ρ) f.body = some (.ret v) := by
    unfold CSem2.runC at hev
    split at hev
    · rename_i w h; cases hev; exact h
    · cases hev
  exact LowerMach2.lower2_correct_prog cs startid f ρ v hwt hpw henv hsmall cfuel hex p ext hfun hstack hsp

/-- **Semantic preservation for 𝔽₂.**  `cs`: signedness of plain `char` on the target; `startid`:
    value of `mkblock`'s counter before the function; `cfuel`: fuel of the C execution. -/
theorem lower2_correct (cs : Bool) (startid : Nat) (f : CSem2.Func) (ρ : List Int) (v : Int)
    (ext : Ext) (hwt : CSem2.WT f) (hpw : f.pwin = []) (henv : EnvOK cs f.params ρ)
    (hsmall : f.params.length + f.locals.length ≤ 1000000)
    (cfuel : Nat) (hev : CSem2.runC cs cfuel f ρ = some v) :
    ∃ fuel₀ r, RetRep f.ret v r ∧ ∀ fuel, fuel₀ ≤ fuel →
      runFunc (prog (Lower2.emitFunc cs startid f)) ext f.name (argsOf f.params ρ) fuel =
        ⟨#[], .ret (.scalar r)⟩ := by
  refine lower2_correct_in cs startid f ρ v hwt hpw henv hsmall cfuel hev _ ext
    (prog_funcs (Lower2.emitFunc cs startid f)) ?_ ?_
  · rw [prog_initMem]
  · rw [prog_initMem]

/-- `lower2_correct` for functions returning `int`, `unsigned`, `long`, …: the outcome is an equation. -/
theorem lower2_correct_exact (cs : Bool) (startid : Nat) (f : CSem2.Func) (ρ : List Int) (v : Int)
    (ext : Ext) (hwt : CSem2.WT f) (hpw : f.pwin = []) (henv : EnvOK cs f.params ρ)
    (hsmall : f.params.length + f.locals.length ≤ 1000000) (hret : 4 ≤ f.ret.size)
    (cfuel : Nat) (hev : CSem2.runC cs cfuel f ρ = some v) :
    ∃ fuel₀, ∀ fuel, fuel₀ ≤ fuel →
      runFunc (prog (Lower2.emitFunc cs startid f)) ext f.name (argsOf f.params ρ) fuel =
        ⟨#[], .ret (.scalar (argOf f.ret v).2)⟩ := by
  obtain ⟨n, r, hr, h⟩ := lower2_correct cs startid f ρ v ext hwt hpw henv hsmall cfuel hev
  exact ⟨n, fun fuel hf => by rw [h fuel hf, retRep_exact hret hr]⟩

/-- Stated, not proved (and not claimed): the emitted module passes the IL validator of C03 for every
    well-formed function of 𝔽₂, whatever the arguments.  Checked per generated function by
    `drv_c01 eval` (field `wf=`). -/
def emit2_wf_full : Prop :=
  ∀ (cs : Bool) (startid : Nat) (f : CSem2.Func), CSem2.WT f →
    wf (moduleOf (Lower2.emitFunc cs startid f)) = .ok ()

/-! ## Stage D — programs with calls

  `CSem2.Stmt.call` (`[x =] f(args);`) is lowered by `Lower2.funcstmt` as qbe.c's `EXPRCALL` does (arguments in
  order, `call $f(w %a, l %b)` with the classes of the converted arguments and of the return type, cast
  and store of the result) and `CSem2.exec` with the list of the program's functions (`CSem3.runP`) gives
  programs their C meaning: direct calls, recursion.  For a single function (`CSem2.runC`: the empty
  program) a call has no meaning, so `lower2_correct` says nothing about executions that reach one. -/

/-- the functions of a program, emitted one after the other (`mkblock`'s counter runs on) -/
abbrev emitProg (cs : Bool) : Nat → List CSem2.Func → List Qbe.Func := Lower2.emitProg cs

/-- **Semantic preservation for programs of 𝔽₂ functions** (in any IL program that has the emitted functions
    and starts with an empty stack).  `P`: the C program, well-formed (`wtP`: every function is, every call
    names a function of `P` with arguments of the parameter types and the declared return type); `K`: bound
    on the number of variables of a function plus the number of further array elements (`Func.extra`); `cfuel`: fuel of the C execution, which also bounds the depth
    of the calls — the IL stack (64 MiB, 64 bytes per activation and at most 32 per variable) must have room
    for `cfuel + 1` activations (`hroom`).  If the C execution of `entry(ρ)` returns `v` without undefined
    behaviour, the IL run of `entry` on representations of `ρ` returns a representation of `v` for every
    sufficiently large fuel: it does not get stuck, trap, overflow the stack or produce output.  (`hpw`: the
    ENTRY function has no array parameter; the other functions of `P` may have, and receive local arrays of
    their callers.) -/
theorem lower3_correct_in (cs : Bool) (P : CSem3.Prog) (entry : String) (f : CSem2.Func) (ρ : List Int)
    (v : Int) (hwt : CSem3.wtP P = true) (hlk : CSem3.lookup P entry = some f)
    (hpw : f.pwin = []) (henv : EnvOK cs f.params ρ) (K : Nat) (hK : ∀ g ∈ P, g.params.length + g.locals.length + g.extra ≤ K)
    (cfuel : Nat) (hroom : (cfuel + 1) * (64 + 32 * K) + 64 ≤ 67108864)
    (hev : CSem3.runP cs cfuel P entry ρ = some v) (p : Prog) (ext : Ext)
    (hfuncs : ∀ fn g, CSem3.lookup P fn = some g →
      ∃ sid, p.funcs[fn]? = some (FuncInfo.of (Lower2.emitFunc cs sid g)))
    (hstack : p.initMem.stack = #[]) (hsp : p.initMem.sp = stackTop) :
    ∃ fuel₀ r, RetRep f.ret v r ∧ ∀ fuel, fuel₀ ≤ fuel →
      runFunc p ext entry (argsOf f.params ρ) fuel = ⟨#[], .ret (.scalar r)⟩ := by
  have hex : CSem2.exec cs P cfuel (CSem2.initStore f ρ) f.body = some (.ret v) := by
    unfold CSem3.runP at hev
    rw [hlk] at hev
    simp only at hev
    split at hev
    · rename_i w h; cases hev; exact h
    · cases hev
  have hall : ∀ fn g, CSem2.lookup P fn = some g →
      CSem2.WT g ∧ CSem2.callsOK P g.body = true ∧ g.vtys.length + g.extra ≤ K := by
    intro fn g hl
    have hmem : g ∈ P := List.mem_of_find?_eq_some hl
    have := List.all_eq_true.1 hwt g hmem
    simp only [Bool.and_eq_true] at this
    refine ⟨this.1, this.2, ?_⟩
    have := hK g hmem
    simp only [CSem2.Func.vtys, List.length_append]
    exact this
  have hname : f.name = entry := by
    have := List.find?_some hlk
    simpa using this
  obtain ⟨sid, hfun⟩ := hfuncs entry f hlk
  obtain ⟨hwf, hcalls, hKf⟩ := hall entry f hlk
  rw [← hname] at hfun ⊢
  refine LowerMach2.run_entry cs sid f ρ v hwf hpw henv P p ext K cfuel hfuncs hall
    (LowerMach2.frag_of_callsOK _ _ _ hcalls (LowerMach2.wt_arrsOK hwf) (LowerMach2.wt_ptrsOK hwf)) hKf hfun hstack hsp ?_ cfuel (Or.inr (Nat.le_refl _)) hex
  have h1 : (cfuel + 1) * (K + 1) ≤ (cfuel + 1) * (64 + 32 * K) := Nat.mul_le_mul_left _ (by omega)
  constructor
  · rw [hsp, stackTop_val, stackLimit_val]; omega
  · rw [hstack]
    have : (2 : Nat) ^ 64 = 18446744073709551616 := by decide
    simp only [Array.size_empty, Nat.zero_add]
    omega

/-- **Semantic preservation for programs**: the IL module consisting of all emitted functions of `P`. -/
theorem lower3_correct (cs : Bool) (startid : Nat) (P : CSem3.Prog) (entry : String) (f : CSem2.Func)
    (ρ : List Int) (v : Int) (ext : Ext) (hwt : CSem3.wtP P = true) (hlk : CSem3.lookup P entry = some f)
    (hpw : f.pwin = []) (henv : EnvOK cs f.params ρ) (K : Nat) (hK : ∀ g ∈ P, g.params.length + g.locals.length + g.extra ≤ K)
    (cfuel : Nat) (hroom : (cfuel + 1) * (64 + 32 * K) + 64 ≤ 67108864)
    (hev : CSem3.runP cs cfuel P entry ρ = some v) :
    ∃ fuel₀ r, RetRep f.ret v r ∧ ∀ fuel, fuel₀ ≤ fuel →
      runFunc (Prog.ofModule ⟨((emitProg cs startid P).map Def.func).toArray⟩) ext entry
        (argsOf f.params ρ) fuel = ⟨#[], .ret (.scalar r)⟩ := by
  refine lower3_correct_in cs P entry f ρ v hwt hlk hpw henv K hK cfuel hroom hev _ ext
    (fun fn g hl => LowerMach2.ofModule_lookup cs startid P fn g hl) ?_ ?_
  · rw [LowerMach2.ofModule_initMem]
  · rw [LowerMach2.ofModule_initMem]

/-- `lower3_correct` for entry functions returning `int`, `unsigned`, `long`, …: the outcome is an equation. -/
theorem lower3_correct_exact (cs : Bool) (startid : Nat) (P : CSem3.Prog) (entry : String) (f : CSem2.Func)
    (ρ : List Int) (v : Int) (ext : Ext) (hwt : CSem3.wtP P = true) (hlk : CSem3.lookup P entry = some f)
    (hpw : f.pwin = []) (henv : EnvOK cs f.params ρ) (K : Nat) (hK : ∀ g ∈ P, g.params.length + g.locals.length + g.extra ≤ K)
    (hret : 4 ≤ f.ret.size)
    (cfuel : Nat) (hroom : (cfuel + 1) * (64 + 32 * K) + 64 ≤ 67108864)
    (hev : CSem3.runP cs cfuel P entry ρ = some v) :
    ∃ fuel₀, ∀ fuel, fuel₀ ≤ fuel →
      runFunc (Prog.ofModule ⟨((emitProg cs startid P).map Def.func).toArray⟩) ext entry
        (argsOf f.params ρ) fuel = ⟨#[], .ret (.scalar (argOf f.ret v).2)⟩ := by
  obtain ⟨n, r, hr, h⟩ := lower3_correct cs startid P entry f ρ v ext hwt hlk hpw henv K hK cfuel hroom hev
  exact ⟨n, fun fuel hf => by rw [h fuel hf, retRep_exact hret hr]⟩

/-- `short g(int a) { return a + 1; }` -/
def exG : CSem2.Func :=
  { name := "g", ret := .short, params := [.int], locals := [],
    body := .ret (.cast .short (.bin .add .int (.param .int 0) (.const .int 1))) }
/-- `int h(int n) { int t; if (n <= 0) return 1; t = h(n - 1); t = g(t); return t * 2; }` -/
def exH : CSem2.Func :=
  { name := "h", ret := .int, params := [.int], locals := [.int],
    body := .seq (.decl 1 .int none)
      (.seq (.ite (.bin .le .int (.param .int 0) (.const .int 0)) (.ret (.const .int 1)))
      (.seq (.call (some (1, .int)) .int "h" [.bin .sub .int (.param .int 0) (.const .int 1)])
      (.seq (.call (some (1, .int)) .short "g" [.param .int 1])
            (.ret (.bin .mul .int (.param .int 1) (.const .int 2)))))) }
def exProg : CSem3.Prog := [exG, exH]
example : CSem3.wtP exProg = true := by decide
/-- h(0) = 1, h(n) = 2·(h(n-1) + 1): h(3) = 22 -/
example : CSem3.runP true 40 exProg "h" [3] = some 22 := by decide
example : CSem3.runP true 40 exProg "g" [32767] = some (-32768) := by decide

/-- the theorem applied: the module of `g` and `h`, run from `h(3)`, returns 22 -/
example : ∃ fuel₀, ∀ fuel, fuel₀ ≤ fuel →
    runFunc (Prog.ofModule ⟨((emitProg true 0 exProg).map Def.func).toArray⟩) noExt "h"
      (argsOf exH.params [3]) fuel = ⟨#[], .ret (.scalar ⟨.w, 22⟩)⟩ := by
  have hval : (argOf exH.ret 22).2 = ⟨.w, 22⟩ := by decide
  rw [← hval]
  exact lower3_correct_exact true 0 exProg "h" exH [3] 22 noExt (by decide) rfl rfl
    ⟨rfl, by
      intro i t v ht hv
      match i, ht, hv with
      | 0, ht, hv => cases ht; cases hv; decide⟩
    2 (by decide) (by decide) 40 (by decide) (by decide)

/-! ## Non-vacuity (𝔽₂) -/

/-- `int f(int a, unsigned char b) { long x = a + b; short y; y = x * 2; x = y; { int z = 3; x = x + z; } return x; }` -/
def ex4 : CSem2.Func :=
  { name := "f", ret := .int, params := [.int, .uchar], locals := [.long, .short, .int],
    body :=
      .seq (.decl 2 .long (some (.cast .long (.bin .add .int (.param .int 0) (.cast .int (.param .uchar 1))))))
      (.seq (.decl 3 .short none)
      (.seq (.assign 3 .short (.cast .short (.bin .mul .long (.param .long 2) (.cast .long (.const .int 2)))))
      (.seq (.assign 2 .long (.cast .long (.param .short 3)))
      (.seq (.seq (.decl 4 .int (some (.const .int 3)))
                  (.assign 2 .long (.bin .add .long (.param .long 2) (.cast .long (.param .int 4)))))
            (.ret (.cast .int (.param .long 2))))))) }

example : CSem2.WT ex4 := by decide
example : CSem2.runC true 20 ex4 [100, 200] = some 603 := by decide
/-- declaration without initialiser, then read = undefined -/
example : CSem2.runC true 20
    { name := "g", ret := .int, params := [], locals := [.int],
      body := .seq (.decl 0 .int none) (.ret (.param .int 0)) } [] = none := by decide
/-- expression statement, `;`, compound assignment `x += 5` as cproc rewrites it -/
def ex5 : CSem2.Func :=
  { name := "h", ret := .uint, params := [.short], locals := [],
    body := .seq (.expr (.bin .add .int (.cast .int (.param .short 0)) (.const .int 1)))
      (.seq .skip
      (.seq (.assign 0 .short (.cast .short (.bin .add .int (.cast .int (.param .short 0)) (.const .int 5))))
      (.ret (.cast .uint (.param .short 0))))) }
example : CSem2.WT ex5 := by decide
example : CSem2.runC true 20 ex5 [32767] = some 4294934532 := by decide   -- (short)32772 = -32764
/-- signed overflow in the initialiser is undefined -/
example : CSem2.runC true 20 ex4 [2147483647, 1] = none := by decide

/-- `if` / `if`-`else` / `++`, `return` inside a branch:
    `int g(int a) { int r; if (a > 3) { r = 1; } else r = 2; if (a) return r; a++; return a + r; }` -/
def ex6 : CSem2.Func :=
  { name := "g", ret := .int, params := [.int], locals := [.int],
    body :=
      .seq (.decl 1 .int none)
      (.seq (.itee (.bin .gt .int (.param .int 0) (.const .int 3)) (.assign 1 .int (.const .int 1))
              (.assign 1 .int (.const .int 2)))
      (.seq (.ite (.param .int 0) (.ret (.param .int 1)))
      (.seq (.incdec 0 .int true)
            (.ret (.bin .add .int (.param .int 0) (.param .int 1)))))) }
example : CSem2.WT ex6 := by decide
example : CSem2.runC true 20 ex6 [7] = some 1 := by decide
example : CSem2.runC true 20 ex6 [0] = some 3 := by decide
/-- `x--` on `short` wraps through `int`; on `int` at `INT_MIN` it is undefined -/
example : CSem2.runC true 20
    { name := "d", ret := .int, params := [.short], locals := [],
      body := .seq (.incdec 0 .short false) (.ret (.cast .int (.param .short 0))) } [-32768] = some 32767 := by
  decide
example : CSem2.runC true 20
    { name := "d", ret := .int, params := [.int], locals := [],
      body := .seq (.incdec 0 .int false) (.ret (.param .int 0)) } [-2147483648] = none := by decide

/-- `++`/`--` on `_Bool` (`loadub`, `add`/`sub`, `cnew`, `storeb`): `b--` turns 0 into 1 -/
def ex8 : CSem2.Func :=
  { name := "b", ret := .int, params := [.bool], locals := [],
    body := .seq (.incdec 0 .bool false) (.seq (.incdec 0 .bool true) (.seq (.incdec 0 .bool false)
      (.ret (.cast .int (.param .bool 0))))) }
example : CSem2.WT ex8 := by decide
example : CSem2.runC true 20 ex8 [0] = some 0 := by decide   -- 0 → 1 → 1 → 0
example : CSem2.runC true 20 ex8 [1] = some 0 := by decide   -- 1 → 0 → 1 → 0

/-- `switch`: `int w(int a, long b) { int r = 0; switch (a) { case 1: r = 10; break; case -2: r = 20;
    case 300: r = r + 1; break; default: r = 7; } switch (b) { case 5: return 1; case 7: r = r + 2; } return r; }` -/
def ex9 : CSem2.Func :=
  { name := "w", ret := .int, params := [.int, .long], locals := [.int],
    body :=
      .seq (.decl 2 .int (some (.const .int 0)))
      (.seq (.switch_ (.param .int 0)
        (.seq (.case_ 1) (.seq (.assign 2 .int (.const .int 10)) (.seq .break_
        (.seq (.case_ 18446744073709551614) (.seq (.assign 2 .int (.const .int 20))
        (.seq (.case_ 300) (.seq (.assign 2 .int (.bin .add .int (.param .int 2) (.const .int 1))) (.seq .break_
        (.seq .default_ (.assign 2 .int (.const .int 7))))))))))))
      (.seq (.switch_ (.param .long 1)
        (.seq (.case_ 5) (.seq (.ret (.const .int 1))
        (.seq (.case_ 7) (.assign 2 .int (.bin .add .int (.param .int 2) (.const .int 2)))))))
      (.ret (.param .int 2)))) }
example : CSem2.WT ex9 := by decide
example : CSem2.runC true 30 ex9 [1, 0] = some 10 := by decide
/-- `case -2` falls through into `case 300`; the second switch selects `case 7` -/
example : CSem2.runC true 30 ex9 [-2, 7] = some 23 := by decide
example : CSem2.runC true 30 ex9 [300, 5] = some 1 := by decide
/-- no case matches: `default`; then no case and no default: the body is skipped -/
example : CSem2.runC true 30 ex9 [4, 6] = some 7 := by decide

/-- the theorem applied to `ex9` (`switch`) -/
example : ∃ fuel₀, ∀ fuel, fuel₀ ≤ fuel →
    runFunc (prog (Lower2.emitFunc true 0 ex9)) noExt "w" (argsOf ex9.params [-2, 7]) fuel =
      ⟨#[], .ret (.scalar ⟨.w, 23⟩)⟩ := by
  have hval : (argOf ex9.ret 23).2 = ⟨.w, 23⟩ := by decide
  rw [← hval]
  exact lower2_correct_exact true 0 ex9 [-2, 7] 23 noExt (by decide) rfl
    ⟨rfl, by
      intro i t v ht hv
      match i, ht, hv with
      | 0, ht, hv => cases ht; cases hv; decide
      | 1, ht, hv => cases ht; cases hv; decide⟩
    (by decide) (by decide) 30 (by decide)

/-- loops: `int k(int n) { int s = 0; int i; for (i = 0; i < n; i = i + 1) { if (i == 3) continue;
    if (i > 7) break; s = s + i; } while (n) { n = n - 1; } do { s = s + 1; } while (s < 3); return s; }` -/
def ex7 : CSem2.Func :=
  { name := "k", ret := .int, params := [.int], locals := [.int, .int],
    body :=
      .seq (.decl 1 .int (some (.const .int 0)))
      (.seq (.decl 2 .int none)
      (.seq (.seq (.assign 2 .int (.const .int 0))
        (.for_ (some (.bin .lt .int (.param .int 2) (.param .int 0)))
          (.assign 2 .int (.bin .add .int (.param .int 2) (.const .int 1)))
          (.seq (.ite (.bin .eq .int (.param .int 2) (.const .int 3)) .continue_)
          (.seq (.ite (.bin .gt .int (.param .int 2) (.const .int 7)) .break_)
                (.assign 1 .int (.bin .add .int (.param .int 1) (.param .int 2)))))))
      (.seq (.while_ (.param .int 0) (.assign 0 .int (.bin .sub .int (.param .int 0) (.const .int 1))))
      (.seq (.dowhile (.assign 1 .int (.bin .add .int (.param .int 1) (.const .int 1)))
              (.bin .lt .int (.param .int 1) (.const .int 3)))
            (.ret (.param .int 1)))))) }
example : CSem2.WT ex7 := by decide
/-- 0+1+2+4+5+6+7 = 25, `break` at i = 8, then `+1` by the `do` -/
example : CSem2.runC true 100 ex7 [20] = some 26 := by decide
example : CSem2.runC true 100 ex7 [0] = some 3 := by decide
/-- not enough fuel for the C execution: no claim -/
example : CSem2.runC true 5 ex7 [20] = none := by decide
/-- `for (;;)` without condition, left by `return` -/
example : CSem2.runC true 100
    { name := "w", ret := .int, params := [.int], locals := [],
      body := .for_ none .skip (.seq (.incdec 0 .int true)
        (.ite (.bin .gt .int (.param .int 0) (.const .int 9)) (.ret (.param .int 0)))) } [3] = some 10 := by
  decide

/-- the theorem applied to `ex7` (loops) -/
example : ∃ fuel₀, ∀ fuel, fuel₀ ≤ fuel →
    runFunc (prog (Lower2.emitFunc true 0 ex7)) noExt "k" (argsOf ex7.params [20]) fuel =
      ⟨#[], .ret (.scalar ⟨.w, 26⟩)⟩ := by
  have hval : (argOf ex7.ret 26).2 = ⟨.w, 26⟩ := by decide
  rw [← hval]
  exact lower2_correct_exact true 0 ex7 [20] 26 noExt (by decide) rfl
    ⟨rfl, by
      intro i t v ht hv
      match i, ht, hv with
      | 0, ht, hv => cases ht; cases hv; decide⟩
    (by decide) (by decide) 100 (by decide)

/-- the theorem applied to `ex6` (branches) -/
example : ∃ fuel₀, ∀ fuel, fuel₀ ≤ fuel →
    runFunc (prog (Lower2.emitFunc true 0 ex6)) noExt "g" (argsOf ex6.params [0]) fuel =
      ⟨#[], .ret (.scalar ⟨.w, 3⟩)⟩ := by
  have hval : (argOf ex6.ret 3).2 = ⟨.w, 3⟩ := by decide
  rw [← hval]
  exact lower2_correct_exact true 0 ex6 [0] 3 noExt (by decide) rfl
    ⟨rfl, by
      intro i t v ht hv
      match i, ht, hv with
      | 0, ht, hv => cases ht; cases hv; decide⟩
    (by decide) (by decide) 20 (by decide)

/-- the theorem applied to `ex4` (straight-line) -/
example : ∃ fuel₀, ∀ fuel, fuel₀ ≤ fuel →
    runFunc (prog (Lower2.emitFunc true 0 ex4)) noExt "f" (argsOf ex4.params [100, 200]) fuel =
      ⟨#[], .ret (.scalar ⟨.w, 603⟩)⟩ := by
  have hval : (argOf ex4.ret 603).2 = ⟨.w, 603⟩ := by decide
  rw [← hval]
  exact lower2_correct_exact true 0 ex4 [100, 200] 603 noExt (by decide) rfl
    ⟨rfl, by
      intro i t v ht hv
      match i, ht, hv with
      | 0, ht, hv => cases ht; cases hv; decide
      | 1, ht, hv => cases ht; cases hv; decide⟩
    (by decide) (by decide) 20 (by decide)

/-! ## Stage E — local arrays

  `T a[n];`, `x = a[i];`, `a[i] = e;` (`CSem2.Stmt.adecl/aload/astore`): an array is a variable with `n`
  elements (`Func.lcnts`), its element 0 is the variable's own cell, the others are further cells of the
  store; an access outside `0 ≤ i < n` or a read of an element without value is undefined.  The lowering
  computes `(unsigned long)i * sizeof *a` and adds it to the address of the one allocation of `a`.  The
  theorems `lower2_correct*` and `lower3_correct*` cover functions with such arrays (`WT` bounds the
  number of further elements of a function by 10⁶). -/

/-- `int f(int n) { int a[4]; int i; int s; a[0] = n; a[1] = n + 1; a[2] = n * 2; a[3] = 7; s = 0;
      for (i = 0; i < 4; i++) { int x; x = a[i]; s = s + x; } return s; }` -/
def ex10 : CSem2.Func :=
  { name := "q", ret := .int, params := [.int], locals := [.int, .int, .int, .int], lcnts := [4, 1, 1, 1],
    body :=
      .seq (.adecl 1 .int 4 5)
      (.seq (.decl 2 .int none)
      (.seq (.decl 3 .int none)
      (.seq (.astore 1 .int 4 5 (.const .int 0) (.param .int 0))
      (.seq (.astore 1 .int 4 5 (.const .int 1) (.bin .add .int (.param .int 0) (.const .int 1)))
      (.seq (.astore 1 .int 4 5 (.const .int 2) (.bin .mul .int (.param .int 0) (.const .int 2)))
      (.seq (.astore 1 .int 4 5 (.const .int 3) (.const .int 7))
      (.seq (.assign 3 .int (.const .int 0))
      (.seq (.seq (.assign 2 .int (.const .int 0))
        (.for_ (some (.bin .lt .int (.param .int 2) (.const .int 4))) (.incdec 2 .int true)
          (.seq (.decl 4 .int none)
          (.seq (.aload 4 .int 1 .int 4 5 (.param .int 2))
                (.assign 3 .int (.bin .add .int (.param .int 3) (.param .int 4)))))))
        (.ret (.param .int 3)))))))))) }
example : CSem2.WT ex10 := by decide
/-- 5 + 6 + 10 + 7 -/
example : CSem2.runC true 60 ex10 [5] = some 28 := by decide
/-- `a[4]` does not exist -/
example : CSem2.runC true 60
    { ex10 with body := .seq (.adecl 1 .int 4 5) (.seq (.decl 2 .int none) (.seq (.decl 3 .int none)
      (.seq (.decl 4 .int none) (.seq (.aload 4 .int 1 .int 4 5 (.const .int 4)) (.ret (.param .int 4)))))) }
    [5] = none := by decide

/-- the theorem applied to `ex10` -/
example : ∃ fuel₀, ∀ fuel, fuel₀ ≤ fuel →
    runFunc (prog (Lower2.emitFunc true 0 ex10)) noExt "q" (argsOf ex10.params [5]) fuel =
      ⟨#[], .ret (.scalar ⟨.w, 28⟩)⟩ := by
  have hval : (argOf ex10.ret 28).2 = ⟨.w, 28⟩ := by decide
  rw [← hval]
  exact lower2_correct_exact true 0 ex10 [5] 28 noExt (by decide) rfl
    ⟨rfl, by
      intro i t v ht hv
      match i, ht, hv with
      | 0, ht, hv => cases ht; cases hv; decide⟩
    (by decide) (by decide) 60 (by decide)

/-! ## Array reads and calls inside expressions

  The expressions of assignments, initialisers, expression statements and `return` may read array elements and
  call functions (`CSem2.Expr3`: `a[i]` and `f(args)` with pure index / arguments, nested freely under casts,
  unary minus, binary operators, `&&`, `||`, `?:`, the comma operator — except an array read inside the first operand of `?:`,
  which `condexpr` would constant-fold).  A callee cannot touch the objects of its caller, so evaluation
  stays free of side effects (`CSem2.evalE3` with the function `callOf` for the calls). -/

/-- `int fact(int n) { if (n <= 0) return 1; return n * fact(n - 1); }` -/
def exFact : CSem2.Func :=
  { name := "fact", ret := .int, params := [.int], locals := [],
    body := .seq (.ite (.bin .le .int (.param .int 0) (.const .int 0)) (.ret (.const .int 1)))
      (.ret (.bin .mul .int (.param .int 0)
        (.call .int "fact" [.bin .sub .int (.param .int 0) (.const .int 1)]))) }
example : CSem3.wtP [exFact] = true := by decide
example : CSem3.runP true 40 [exFact] "fact" [5] = some 120 := by decide
/-- 13! does not fit `int`: undefined -/
example : CSem3.runP true 60 [exFact] "fact" [13] = none := by decide

/-- the theorem applied: the IL of `fact`, run on 5, returns 120 -/
example : ∃ fuel₀, ∀ fuel, fuel₀ ≤ fuel →
    runFunc (Prog.ofModule ⟨((emitProg true 0 [exFact]).map Def.func).toArray⟩) noExt "fact"
      (argsOf exFact.params [5]) fuel = ⟨#[], .ret (.scalar ⟨.w, 120⟩)⟩ := by
  have hval : (argOf exFact.ret 120).2 = ⟨.w, 120⟩ := by decide
  rw [← hval]
  exact lower3_correct_exact true 0 [exFact] "fact" exFact [5] 120 noExt (by decide) rfl rfl
    ⟨rfl, by
      intro i t v ht hv
      match i, ht, hv with
      | 0, ht, hv => cases ht; cases hv; decide⟩
    1 (by decide) (by decide) 40 (by decide) (by decide)

/-- `int sum(int n) { int a[3]; int s; a[0] = n; a[1] = 2; a[2] = 3; s = a[0] * a[1] + a[n & 1]; return s; }` -/
def ex11 : CSem2.Func :=
  { name := "sum", ret := .int, params := [.int], locals := [.int, .int], lcnts := [3, 1],
    body :=
      .seq (.adecl 1 .int 3 3)
      (.seq (.decl 2 .int none)
      (.seq (.astore 1 .int 3 3 (.const .int 0) (.param .int 0))
      (.seq (.astore 1 .int 3 3 (.const .int 1) (.const .int 2))
      (.seq (.astore 1 .int 3 3 (.const .int 2) (.const .int 3))
      (.seq (.assign 2 .int (.bin .add .int
          (.bin .mul .int (.idx .int 1 3 3 (.const .int 0)) (.idx .int 1 3 3 (.const .int 1)))
          (.idx .int 1 3 3 (.bin .band .int (.param .int 0) (.const .int 1)))))
        (.ret (.param .int 2))))))) }
example : CSem2.WT ex11 := by decide
/-- 7·2 + a[1] -/
example : CSem2.runC true 30 ex11 [7] = some 16 := by decide
example : CSem2.runC true 30 ex11 [4] = some 12 := by decide

/-! ## Array initialisers

  `T a[n] = {e₀, e₁, [5] = e₅, …};` is `adecl` followed by one `CSem2.Stmt.ainit` per element in increasing
  order: an element without initialiser gets the constant `0` (6.7.9p21), the initialisers are expressions
  of `Expr3` converted to the element type.  The lowering is `funcinit`'s: for every element the address
  (`add %slot, offset`; the slot itself for offset 0), then the value, then the store — for the zeros that
  is what `zero()` emits for an array of integers (one store of the element's size per element). -/

/-- `long f(int x) { long a[4] = {[1] = x, 7}; return a[0] + a[1] + a[2] + a[3]; }` -/
def ex12 : CSem2.Func :=
  { name := "ini", ret := .long, params := [.int], locals := [.long], lcnts := [4],
    body :=
      .seq (.adecl 1 .long 4 2)
      (.seq (.ainit 1 .long 4 2 0 (.const .long 0))
      (.seq (.ainit 1 .long 4 2 1 (.cast .long (.param .int 0)))
      (.seq (.ainit 1 .long 4 2 2 (.cast .long (.const .int 7)))
      (.seq (.ainit 1 .long 4 2 3 (.const .long 0))
        (.ret (.bin .add .long (.bin .add .long (.bin .add .long
          (.idx .long 1 4 2 (.const .int 0)) (.idx .long 1 4 2 (.const .int 1)))
          (.idx .long 1 4 2 (.const .int 2))) (.idx .long 1 4 2 (.const .int 3)))))))) }
example : CSem2.WT ex12 := by decide
example : CSem2.runC true 30 ex12 [-5] = some 2 := by decide

/-- the theorem applied to `ex12` -/
example : ∃ fuel₀, ∀ fuel, fuel₀ ≤ fuel →
    runFunc (prog (Lower2.emitFunc true 0 ex12)) noExt "ini" (argsOf ex12.params [-5]) fuel =
      ⟨#[], .ret (.scalar ⟨.l, 2⟩)⟩ := by
  have hval : (argOf ex12.ret 2).2 = ⟨.l, 2⟩ := by decide
  rw [← hval]
  exact lower2_correct_exact true 0 ex12 [-5] 2 noExt (by decide) rfl
    ⟨rfl, by
      intro i t v ht hv
      match i, ht, hv with
      | 0, ht, hv => cases ht; cases hv; decide⟩
    (by decide) (by decide) 30 (by decide)

/-! ## The comma operator and `sizeof`

  `(a, b)` (`CSem2.Expr3.comma`, 6.5.17): `a` is evaluated and discarded — so it must be defined —, the result
  is `b`; `funcexpr` lowers the operands in order and returns the last value.  `sizeof` of an object or a type
  is a constant of type `unsigned long` after parsing (its operand is not evaluated): it needs no constructor,
  the generator writes `sizeof x` in the C text and the constant in the tree. -/

/-- `int f(int x) { return (7 / x, x + 1); }` -/
def ex13 : CSem2.Func :=
  { name := "cm", ret := .int, params := [.int], locals := [],
    body := .ret (.comma .int (.bin .div .int (.const .int 7) (.param .int 0))
      (.bin .add .int (.param .int 0) (.const .int 1))) }
example : CSem2.WT ex13 := by decide
example : CSem2.runC true 10 ex13 [2] = some 3 := by decide
/-- the discarded operand divides by zero -/
example : CSem2.runC true 10 ex13 [0] = none := by decide

/-- the theorem applied to `ex13` -/
example : ∃ fuel₀, ∀ fuel, fuel₀ ≤ fuel →
    runFunc (prog (Lower2.emitFunc true 0 ex13)) noExt "cm" (argsOf ex13.params [2]) fuel =
      ⟨#[], .ret (.scalar ⟨.w, 3⟩)⟩ := by
  have hval : (argOf ex13.ret 3).2 = ⟨.w, 3⟩ := by decide
  rw [← hval]
  exact lower2_correct_exact true 0 ex13 [2] 3 noExt (by decide) rfl
    ⟨rfl, by
      intro i t v ht hv
      match i, ht, hv with
      | 0, ht, hv => cases ht; cases hv; decide⟩
    (by decide) (by decide) 10 (by decide)

/-! ## Read-only array parameters

  `T f(const int p[3], …)`: a parameter declared as an array is a pointer (6.7.6.3p7); the fragment has
  such parameters as the FIRST parameters of a function (`Func.pwin`), read with `x = p[i];`
  (`CSem2.Stmt.pload`) and never written, and calls that pass LOCAL ARRAYS of the caller to them
  (`CSem2.Stmt.callp`).  The C semantics gives the callee a copy of the elements in further cells of its store
  (`CSem2.windows`: exact, since the callee only reads and the caller is suspended meanwhile; an index outside
  the declared length, or an element without value, is undefined); the lowering passes the address in the
  array's slot as an `l` argument, spills it like every parameter, and `p[i]` loads the pointer, adds
  `(unsigned long)i * sizeof *p` and loads from the CALLER's allocation.  `lower3_correct*` cover programs
  with such functions; the entry function itself has no array parameter (`hpw`: a list of integers cannot
  supply one). -/

/-- `int at(const int p[3], int i) { int x; x = p[i]; return x; }` -/
def exAt : CSem2.Func :=
  { name := "at", ret := .int, params := [.ulong, .int], locals := [.int], pwin := [(.int, 3)],
    body := .seq (.decl 2 .int none) (.seq (.pload 2 .int 0 .int 3 3 (.param .int 1)) (.ret (.param .int 2))) }
/-- `int use(int k) { int a[3]; int r; int t; a[0] = 10; a[1] = 20; a[2] = k; r = at(a, 2); t = at(a, 0);
      return r + t; }` -/
def exUse : CSem2.Func :=
  { name := "use", ret := .int, params := [.int], locals := [.int, .int, .int], lcnts := [3, 1, 1],
    body :=
      .seq (.adecl 1 .int 3 4)
      (.seq (.decl 2 .int none)
      (.seq (.decl 3 .int none)
      (.seq (.astore 1 .int 3 4 (.const .int 0) (.const .int 10))
      (.seq (.astore 1 .int 3 4 (.const .int 1) (.const .int 20))
      (.seq (.astore 1 .int 3 4 (.const .int 2) (.param .int 0))
      (.seq (.callp (some (2, .int)) .int "at" [(1, .int, 3, 4)] [.const .int 2])
      (.seq (.callp (some (3, .int)) .int "at" [(1, .int, 3, 4)] [.const .int 0])
            (.ret (.bin .add .int (.param .int 2) (.param .int 3)))))))))) }
def exArrProg : CSem3.Prog := [exAt, exUse]
example : CSem3.wtP exArrProg = true := by decide
/-- a[2] + a[0] -/
example : CSem3.runP true 40 exArrProg "use" [7] = some 17 := by decide
/-- `p[3]` is outside the declared length of the parameter -/
example : CSem3.runP true 40
    [exAt, { exUse with body := .seq (.adecl 1 .int 3 4) (.seq (.decl 2 .int none)
      (.seq (.astore 1 .int 3 4 (.const .int 0) (.const .int 10))
      (.seq (.callp (some (2, .int)) .int "at" [(1, .int, 3, 4)] [.const .int 3]) (.ret (.param .int 2))))) }]
    "use" [7] = none := by decide
/-- `a[1]` has no value when `at` reads it -/
example : CSem3.runP true 40
    [exAt, { exUse with body := .seq (.adecl 1 .int 3 4) (.seq (.decl 2 .int none)
      (.seq (.astore 1 .int 3 4 (.const .int 0) (.const .int 10))
      (.seq (.callp (some (2, .int)) .int "at" [(1, .int, 3, 4)] [.const .int 1]) (.ret (.param .int 2))))) }]
    "use" [7] = none := by decide

/-- the theorem applied: the module of `at` and `use`, run from `use(7)`, returns 17 -/
example : ∃ fuel₀, ∀ fuel, fuel₀ ≤ fuel →
    runFunc (Prog.ofModule ⟨((emitProg true 0 exArrProg).map Def.func).toArray⟩) noExt "use"
      (argsOf exUse.params [7]) fuel = ⟨#[], .ret (.scalar ⟨.w, 17⟩)⟩ := by
  have hval : (argOf exUse.ret 17).2 = ⟨.w, 17⟩ := by decide
  rw [← hval]
  exact lower3_correct_exact true 0 exArrProg "use" exUse [7] 17 noExt (by decide) rfl rfl
    ⟨rfl, by
      intro i t v ht hv
      match i, ht, hv with
      | 0, ht, hv => cases ht; cases hv; decide⟩
    6 (by decide) (by decide) 40 (by decide) (by decide)

end CprocVerif.C01

import CprocVerif.Gen.ErrorSites
import CprocVerif.Gen.C10Catalogue
import CprocVerif.Lemmas.C10Sites
import CprocVerif.Lemmas.C10Types
import CprocVerif.Lemmas.C10Accept
import CprocVerif.Lemmas.Layout
import CprocVerif.Props.C05
import CprocVerif.Props.C07
import CprocVerif.Props.C09
import CprocVerif.Props.C13
import CprocVerif.Props.C14
import CprocVerif.Props.C15

/-!
# C10 — constraint violations and unsupported features are diagnosed, never accepted

Two kinds of theorem.

1. **Catalogue coverage**, over tables regenerated from `/repo` on every run: every diagnostic site
   of the current sources has an entry in `catalogue/c10.json`, whose violating templates
   `checks/c10.py` compiles at every position of generated programs.
2. **Acceptance soundness** of the modelled front-end components, for ALL inputs: *if the model of
   the component accepts, the C11 constraint holds*.  The constraints are stated in
   `Spec/Constraints.lean` (6.5.x), `Spec/Link.lean` (6.2.2/6.7/6.9), `Spec/Lex.lean` (6.4.4.4/6.4.5)
   and below, independently of the models' code; the models are those of the other properties
   (each tied to `/repo` by its own correspondence run).  Where the full statement is false on
   the current tree it is kept as `def …_full`, refuted by `…_counterexample`, and the provable
   restriction is `…_partial`.

## 1. Catalogue coverage (regenerated from `/repo` on every run)
-/

namespace CprocVerif.C10
open CprocVerif.Gen CprocVerif.Sites

/-- EVERY diagnostic site of the current source (`error`/`fatal`/`usage`/`tokencheck`/`expect` call,
keyed by file, enclosing function and format string) has an entry in `catalogue/c10.json`.  A
diagnostic added to `/repo` without a catalogue entry breaks this theorem. -/
theorem sites_covered : ∀ c ∈ ErrorSites.codes, ∃ e ∈ C10Catalogue.codes, e.1 = c := by
  have h : sub ErrorSites.codes (C10Catalogue.codes.map (·.1)) = true := by decide +kernel
  intro c hc
  obtain ⟨e, he, rfl⟩ := List.mem_map.mp (sub_sound _ _ h c hc)
  exact ⟨e, he, rfl⟩

/-- no catalogue entry is stale: each one names a diagnostic site that exists in the current source.
Deleting a diagnostic from `/repo` breaks this theorem (and `checks/c10.py` then looks for the now
accepted violating program among that entry's templates). -/
theorem no_stale_entries : ∀ e ∈ C10Catalogue.codes, e.1 ∈ ErrorSites.codes := by
  have h : sub (C10Catalogue.codes.map (·.1)) ErrorSites.codes = true := by decide +kernel
  intro e he
  exact sub_sound _ _ h e.1 (List.mem_map.mpr ⟨e, he, rfl⟩)

/-- the site table has no duplicate key -/
theorem sites_nodup : ErrorSites.codes.Nodup :=
  strictAsc_nodup _ (by decide +kernel)

/-- the catalogue has exactly one entry per key -/
theorem catalogue_nodup : (C10Catalogue.codes.map (·.1)).Nodup :=
  strictAsc_nodup _ (by decide +kernel)

/-- every entry is of class 0 (has ≥ 1 violating template, run by `checks/c10.py` at every position),
1 (internal-error site no input reaches; reason in the catalogue) or 2 (I/O, command line) -/
theorem classes_valid : ∀ e ∈ C10Catalogue.codes, e.2 ≤ 2 := by decide +kernel

/-- how many entries there are of each class (the triple is printed by `tools/gen_c10.py`) -/
theorem class_counts :
    (countClass 0 C10Catalogue.codes, countClass 1 C10Catalogue.codes, countClass 2 C10Catalogue.codes)
      = C10Catalogue.classCounts ∧
    C10Catalogue.classCounts.1 + C10Catalogue.classCounts.2.1 + C10Catalogue.classCounts.2.2
      = C10Catalogue.codes.length := by decide +kernel

/-- at least nine in ten diagnostic sites are exercised by a violating template -/
theorem template_majority : 9 * ErrorSites.codes.length ≤ 10 * countClass 0 C10Catalogue.codes := by
  decide +kernel

/-! ## 2. Acceptance soundness: expressions (`expr.c`, model `Model/Types.lean`) -/

section Expressions
open CprocVerif.Types CprocVerif.Spec CprocVerif.Spec.Constraints CprocVerif.Types.Lemmas CprocVerif.C10Types

/-- **Binary operators.**  Whenever `mkbinaryexpr` accepts `l op r` (any of the 18 operators, any
operand types: arithmetic incl. enums and bit-fields, pointers, `void`, structs, functions), the
Constraints paragraph of the operator's clause holds: 6.5.5p2, 6.5.6p2-3, 6.5.7p2, 6.5.8p2, 6.5.9p2,
6.5.10-12p2, 6.5.13-14p2.  (Holds at full strength since fixes 6e57e5d, 826c347, ac293b9.) -/
theorem binop_accept_sound (sc : Bool) (op : BinOp) (l r : Operand) (t : Ty)
    (ol : OperandOk l) (or' : OperandOk r) (h : binopType sc op l r = some t) :
    Constraints.binop op l r = true :=
  binop_sound sc op l r t ol or' h

example : OperandOk { ty := .ptr {} Ty.int } ∧ OperandOk { ty := .arith (.enum 3 .uint), width := some 5 } :=
  ⟨trivial, rfl, by decide⟩
example : binopType true .sub { ty := .ptr {} Ty.int } { ty := .ptr { c := true } Ty.int } = some Ty.long := by decide
-- the witnesses of the repaired defects are rejected by the model:
example : binopType true .band { ty := .arith (.basic .double) } { ty := Ty.int } = none := by decide
example : binopType true .eql { ty := .ptr {} .void, nullconst := true } { ty := .arith (.basic .double) } = none := by
  decide
example : binopType true .sub { ty := .ptr {} (.arr {} (.const 3) {} Ty.int) }
    { ty := .ptr {} (.arr {} .incomplete {} Ty.int) } = none := by decide

/-- …and conversely on operands that satisfy the constraint and are typed by C11, nothing is
rejected (`C05.binop_type_correct`): acceptance is exactly the constraint. -/
theorem binop_accepts_valid (sc : Bool) (op : BinOp) (l r : Operand) (t : Ty)
    (ol : OperandOk l) (or' : OperandOk r) (h : binopOk sc op l r t = true) :
    binopType sc op l r = some t ∧ Constraints.binop op l r = true := by
  have h1 := C05.binop_type_correct sc op l r t ol or' h
  exact ⟨h1, binop_sound sc op l r t ol or' h1⟩

/-- **Unary operators.**  Whenever `unaryexpr`/`mkunaryexpr`/`mkincdecexpr` accept, 6.5.3.2p1-2,
6.5.3.3p1, 6.5.3.4p1 and 6.5.2.4p1/6.5.3.1p1 hold.  For `++`/`--` the typing code leaves "real or
pointer type" to the code generator (`qbe.c:funcexpr`, "not a scalar"), hence the hypothesis `har`.
(Full strength since fixes df57034 and fcded40: `&g()` on a structure rvalue used to be accepted.) -/
theorem unary_accept_sound (sc : Bool) (op : UnOp) (e o : Operand) (ok : OperandOk e)
    (har : (op = .preinc ∨ op = .predec ∨ op = .postinc ∨ op = .postdec) →
      e.ty.isArith = true ∨ e.ty.isPtr = true)
    (h : unaryOp sc op e = some o) : Constraints.unop op e = true :=
  unop_sound sc op e o ok har h

example : unaryOp true .addr { ty := .struct 0 } = none := by decide   -- fix fcded40
example : (unaryOp true .postinc { ty := .ptr {} Ty.int, lvalue := true }).map (·.ty) = some (.ptr {} Ty.int) := by decide
example : unaryOp true .postinc { ty := .ptr {} .void, lvalue := true } = none := by decide   -- fix df57034
example : unaryOp true .addr { ty := Ty.int, lvalue := true, width := some 3 } = none := by decide
example : unaryOp true .sizeofE { ty := .ptr {} Ty.int, decayedFrom := some (.arr {} .incomplete {} Ty.int, {}) } = none := by
  decide

/-- **Casts**, 6.5.4p2: void, or scalar to scalar. -/
theorem cast_accept_sound (t : Ty) (e o : Operand) (h : castType t e = some o) : castScalar t e = true :=
  cast_sound t e o h

/-- 6.5.4p4 (no conversion between pointer and floating types) at full strength -/
def cast_ptr_float_full : Prop := ∀ (t : Ty) (e o : Operand), castType t e = some o → castNoPtrFloat t e = true

/-- `(double)p` is accepted (and compiled as `ultof`): cproc checks this constraint nowhere. -/
theorem cast_ptr_float_counterexample : ¬ cast_ptr_float_full := by
  intro h
  have := h (.arith (.basic .double)) { ty := .ptr {} Ty.int } _ rfl
  exact absurd this (by decide)

example : castType (.struct 1) { ty := Ty.int } = none ∧ castType Ty.int { ty := .struct 1 } = none := by decide

/-- `sizeof (type-name)`, `_Alignof (type-name)`: 6.5.3.4p1. -/
theorem sizeof_typename_accept_sound (t r : Ty) (h : Types.sizeofType t = some r) : sizeofTypeName t = true :=
  sizeofType_sound t r h

/-- **Simple assignment** `l = r`, full strength: the left operand is an lvalue (6.5.16p2) and the
operand types satisfy 6.5.16.1p1.  (The assignment OPERATOR applies `exprassign` since fix 7e9d66c:
`int *p; int x; p = x;` used to be accepted.) -/
def assign_accept_sound_full : Prop :=
  ∀ (l r o : Operand), assignType l r = some o → assignLvalue l = true ∧ simpleAssign l.ty r = true

/-- `void g(void); void *p; p = g;` — pointer to function next to pointer to void (see
`ptr_assign_accept_sound_counterexample`) -/
theorem assign_accept_sound_counterexample : ¬ assign_accept_sound_full := by
  intro h
  have := (h { ty := .ptr {} .void, lvalue := true } { ty := .ptr {} (.func {} .void [] false) } _ rfl).2
  exact absurd this (by decide)

theorem assign_accept_sound_partial (l r o : Operand) (hx : voidVsFuncPtr l.ty r.ty = false)
    (h : assignType l r = some o) : assignLvalue l = true ∧ simpleAssign l.ty r = true :=
  assign_sound l r o hx h

-- the witnesses of `assign-operator-unchecked` are rejected: p = x, p = 1.5, s = t
example : assignType { ty := .ptr {} Ty.int, lvalue := true } { ty := Ty.int } = none ∧
    assignType { ty := .ptr {} Ty.int, lvalue := true } { ty := .arith (.basic .double) } = none ∧
    assignType { ty := .struct 1, lvalue := true } { ty := .struct 2 } = none := by decide
example : (assignType { ty := .ptr {} Ty.int, lvalue := true } { ty := Ty.int, nullconst := true }).isSome = true := by decide
/-- a member of array type is not an lvalue (fix 71be578: `p->m += 2`, `p->m = q`, `s.arr++`) -/
example : (memberType true { ty := .ptr {} (.struct 0) } (.arr {} (.const 4) {} Ty.int) {} none).map (·.lvalue) = some false := by
  decide
example : (memberType true { ty := .ptr {} (.struct 0) } Ty.int {} none).map (·.lvalue) = some true := by decide

/-- **Compound assignment** `l op= r`: the left operand is an lvalue and the operands satisfy the
constraint of the binary operator (6.5.16.2p1-2). -/
theorem compound_assign_accept_sound (sc : Bool) (op : BinOp) (l r o : Operand) (ol : OperandOk l)
    (or' : OperandOk r) (h : compoundAssignType sc op l r = some o) :
    assignLvalue l = true ∧ Constraints.binop op { l with decayedFrom := none } r = true :=
  compound_assign_sound sc op l r o ol or' h

example : compoundAssignType true .mod { ty := .arith (.basic .double), lvalue := true } { ty := Ty.int } = none := by
  decide

/-- simple assignment / initialisation / argument passing / `return` to a pointer (6.5.16.1p1) -/
def ptr_assign_accept_sound_full : Prop :=
  ∀ (t : Ty) (e : Operand), ptrAssignOk t e = true → assignToPointer t e = true

/-- `void g(void); void *p = g;` — a pointer to *function* next to a pointer to void is accepted
(`exprassign` asks for "compatible or void"); gcc/clang reject it only with -pedantic-errors. -/
theorem ptr_assign_accept_sound_counterexample : ¬ ptr_assign_accept_sound_full := by
  intro h
  have := h (.ptr {} .void) { ty := .ptr {} (.func {} .void [] false) } (by decide)
  exact absurd this (by decide)

theorem ptr_assign_accept_sound_partial (t : Ty) (e : Operand) (hx : voidVsFuncPtr t e.ty = false)
    (h : ptrAssignOk t e = true) : assignToPointer t e = true :=
  ptrAssign_sound t e hx h

example : voidVsFuncPtr (.ptr {} Ty.int) (.ptr { c := true } Ty.int) = false ∧
    ptrAssignOk (.ptr {} Ty.int) { ty := .ptr { c := true } Ty.int } = false := by decide

/-- **Function calls**, 6.5.2.2p1-2: the callee is a pointer to function and the number of arguments
agrees with the prototype (at least the named parameters for a variadic one; full strength since
fix 49541f0). -/
theorem call_accept_sound (f o : Operand) (n : Nat) (h : callType f n = some o) : Constraints.call f n = true :=
  call_sound f o n h

example : callType { ty := .ptr {} (.func {} Ty.int [Ty.int, Ty.int] true) } 1 = none := by decide   -- fix 49541f0
example : (callType { ty := .ptr {} (.func {} Ty.int [Ty.int] true) } 3).isSome = true := by decide
example : callType { ty := .ptr {} (.func {} Ty.int [Ty.int] false) } 2 = none ∧
    callType { ty := Ty.int } 0 = none := by decide

/-- **Member access**, 6.5.2.3p1-2 -/
theorem member_accept_sound (arrow : Bool) (e o : Operand) (mty : Ty) (mq : Qual) (bits : Option Nat)
    (h : memberType arrow e mty mq bits = some o) : Constraints.member arrow e = true :=
  member_sound arrow e o mty mq bits h

/-- **Array subscripting**, 6.5.2.1p1 (`wf`: the sub-expressions have well-formed arithmetic types) -/
theorem subscript_accept_sound (tg : Target) (a i : Expr) (o : Operand)
    (wf : ∀ e x, typeOf tg e = some x → OperandOk x) (h : typeOf tg (.index a i) = some o) :
    ∃ x y, typeOf tg a = some x ∧ typeOf tg i = some y ∧ subscript x y = true :=
  index_sound tg a i o wf h

/-- **Conditional operator**, 6.5.15p2-3 (C23 adds: both operands `nullptr_t`) -/
def cond_accept_sound_full : Prop :=
  ∀ (sc : Bool) (c l r : Operand) (t : Ty), converted l.ty = true → condType sc c l r = some t →
    condFirst c = true ∧ (condArms l r = true ∨ (l.ty = .nullptr ∧ r.ty = .nullptr))

/-- `c ? (void *)p : fn` with a pointer to function: accepted (gcc/clang: pedantic error). -/
theorem cond_accept_sound_counterexample : ¬ cond_accept_sound_full := by
  intro h
  have := (h true { ty := Ty.int } { ty := .ptr {} .void } { ty := .ptr {} (.func {} .void [] false) } _
    (by decide) rfl).2
  exact absurd this (by decide)

theorem cond_accept_sound_partial (sc : Bool) (c l r : Operand) (t : Ty) (hl : converted l.ty = true)
    (hx : voidVsFuncPtr l.ty r.ty = false) (h : condType sc c l r = some t) :
    condFirst c = true ∧ (condArms l r = true ∨ (l.ty = .nullptr ∧ r.ty = .nullptr)) :=
  cond_sound sc c l r t hl hx h

example : condType true { ty := .struct 0 } { ty := Ty.int } { ty := Ty.int } = none := by decide   -- fix 98b06a1
/-- `(1 ? x : y)` is not an lvalue although the condition is constant and both arms are (fix f22c49c):
`(1 ? x : y) = 3`, `&(0 ? x : y)`, `(1 ? x : y)++` are rejected by `assign_accept_sound` /
`unary_accept_sound` -/
example : (condOperand true { ty := Ty.int, constval := some true } { ty := Ty.int, lvalue := true }
    { ty := Ty.int, lvalue := true }).map (·.lvalue) = some false := by decide
example : condType true { ty := Ty.int } { ty := .ptr {} Ty.int } { ty := .ptr {} (.arith (.basic .double)) } = none := by
  decide

/-- **Generic selection**, 6.5.1.1p2 (as far as cproc checks it: the controlling type matches at
most one association, exactly one without `default`) -/
theorem generic_accept_sound (want : Ty) (assocs : List (Ty × Qual)) (d : Bool) (r : Option Nat)
    (h : genericSelect want assocs d = some r) : Constraints.generic want assocs d :=
  generic_sound want assocs d r h

/-- the other half of 6.5.1.1p2, "No two generic associations in the same generic selection shall
specify compatible types", at full strength -/
def generic_distinct_assocs_full : Prop :=
  ∀ (want : Ty) (assocs : List (Ty × Qual)) (d : Bool) (r : Option Nat), genericSelect want assocs d = some r →
    assocs.Pairwise (fun a b => ¬ (compatible a.1 b.1 = true ∧ a.2 = b.2))

/-- `_Generic(1L, int: 1, T: 2, default: 0)` with `typedef int T;` is accepted: cproc compares the
associations with the controlling type only, never with each other (checked nowhere). -/
theorem generic_distinct_assocs_counterexample : ¬ generic_distinct_assocs_full := by
  intro h
  have := h Ty.long [(Ty.int, {}), (Ty.int, {})] true none (by decide)
  rw [List.pairwise_cons] at this
  exact this.1 _ List.mem_cons_self ⟨by decide, rfl⟩

example : genericSelect Ty.int [(Ty.int, {}), (Ty.int, {})] true = none ∧
    genericSelect Ty.int [(Ty.long, {})] false = none := by decide

/-- **Integer constants**, 6.4.4p2: "the value of a constant shall be in the range of representable
values for its type": the type `inttype` picks can represent the value. -/
theorem intconst_accept_sound (sc : Bool) (v : Nat) (hv : v < 2 ^ 64) (decimal : Bool) (s : String) (b : Basic)
    (h : inttype sc v decimal s = .ty b) : inRange (rangeB sc b) (v : Int) := by
  have key : ∀ fuel i step, scanLimits sc v step fuel i = .ty b →
      typehasint sc (.basic b) v false = true ∧ b.isInt = true ∧ b ≠ .bool := by
    intro fuel
    induction fuel with
    | zero => intro i step h; simp [scanLimits] at h
    | succ n ih =>
      intro i step h
      simp only [scanLimits] at h
      split at h
      · cases h
      · rename_i b' e1 e2 hb'
        split at h
        · rename_i hh
          cases h
          have hm : (b, e1, e2) ∈ limits := List.mem_of_getElem? hb'
          refine ⟨hh, ?_⟩
          simp only [limits, List.mem_cons, Prod.mk.injEq, List.mem_nil_iff, or_false] at hm
          rcases hm with ⟨rfl, _⟩ | ⟨rfl, _⟩ | ⟨rfl, _⟩ | ⟨rfl, _⟩ | ⟨rfl, _⟩ | ⟨rfl, _⟩ <;> exact ⟨rfl, by decide⟩
        · exact ih _ _ h
  unfold inttype at h
  split at h
  · cases h
  · obtain ⟨h1, h2, h3⟩ := key _ _ _ h
    have := hasint_basic sc b h2 h3 v hv false
    rw [h1] at this
    have hd : decode v false = (v : Int) := by simp [decode]
    rw [hd] at this
    exact of_decide_eq_true this.symm

example : inttype true (2 ^ 63) true "" = .noType ∧ inttype true 5 true "q" = .badSuffix := by decide

/-- **Enumerator values**, 6.7.2.2p2 / C23 6.7.2.2p5: an enumerator `tagspec` accepts for a (fixed or
chosen) underlying type is representable in it — every integer type, `_Bool` included (full strength
since fix 08f8fa4: `enum E : _Bool { A = 2 };` used to be accepted). -/
theorem enum_value_accept_sound (sc : Bool) (t : ATy) (hwf : t.wf = true) (hi : t.isInt = true)
    (v : Nat) (hv : v < 2 ^ 64) (sign : Bool)
    (h : typehasint sc t v sign = true) : inRange (range sc t) (decode v sign) := by
  have := C05.hasint_correct sc t hwf hi v hv sign
  rw [h] at this
  exact of_decide_eq_true this.symm

example : typehasint true (.enum 0 .bool) 2 false = false ∧ typehasint true (.enum 0 .bool) 1 false = true := by decide

end Expressions

/-! ## 3. Acceptance soundness: declarations, statements, literals, initialisers -/

section Linkage
open CprocVerif.Linkage CprocVerif.Link

/-- **Linkage** (6.2.2, 6.7p3, 6.7.1, 6.7.9p5, 6.9): an accepted history of declarations of one
identifier violates no constraint — at full strength -/
def linkage_accept_sound_full : Prop :=
  ∀ (h : List Form) (s : _), run h = .ok s → ¬ Link.violates h

/-- `void u(void){ extern int x; } _Thread_local int x;` (C09 `thread-local-mismatch-unseen-block-extern`) -/
theorem linkage_accept_sound_counterexample : ¬ linkage_accept_sound_full := by
  intro hfull
  apply C09.rejects_violations_counterexample
  intro h hv
  cases hr : run h with
  | error e => exact ⟨e, rfl⟩
  | ok s => exact absurd hv (hfull h s hr)

/-- every accepted history violates at most that one clause -/
theorem linkage_accept_sound_partial (h : List Form) (s : _) (hr : run h = .ok s) (c : Clause)
    (hc : classify h = .violates c) : c = .c6_7_1p3_threadMismatchUnseenBlockExtern := by
  apply Classical.byContradiction
  intro hne
  obtain ⟨e, he⟩ := C09.rejects_violations_partial h c hc hne
  rw [hr] at he
  cases he

example : ∃ s, run [C09.On0, C09.On0] = .ok s := ⟨_, rfl⟩
example : classify [C09.On0, C09.Ot0] = .violates .c6_7_1p3_threadMismatchSameScope ∧
    (∃ e, run [C09.On0, C09.Ot0] = .error e) := ⟨by decide, _, rfl⟩

end Linkage

section Switch
open CprocVerif.Tree CprocVerif.Tree.T CprocVerif.Accept

/-- **Case labels**, 6.8.4.2p3: "no two of the case constant expressions in the same switch
statement shall have the same value after conversion" — for a promoted controlling type of 4 bytes
(conversion = the low 32 bits) and of 8 bytes, any number of labels, either signedness.
`switchCases` = `qbe.c:switchcase` run on the labels in order. -/
theorem case_labels_accept_sound (s : Bool) (cs : List Nat) (t : T) :
    (switchCases 4 s nil cs = some t → (cs.map (· % 2 ^ 32)).Nodup) ∧
    (switchCases 8 s nil cs = some t → (cs.map (· % 2 ^ 64)).Nodup) := by
  constructor <;> intro h
  · have := (switchCases_iff 4 s cs nil trivial).1 (by rw [h]; rfl)
    exact (nodup_map_congr _ _ (fun a b => caseKey_four_eq_iff s a b) cs).1 this.1
  · have := (switchCases_iff 8 s cs nil trivial).1 (by rw [h]; rfl)
    exact (nodup_map_congr _ _ (fun a b => by rw [caseKey_eight, caseKey_eight]) cs).1 this.1

/-- …and duplicate-free label lists are accepted (the diagnostic is exact). -/
theorem case_labels_accepts_valid (s : Bool) (cs : List Nat) (h : (cs.map (· % 2 ^ 32)).Nodup) :
    (switchCases 4 s nil cs).isSome = true :=
  (switchCases_iff 4 s cs nil trivial).2
    ⟨(nodup_map_congr _ _ (fun a b => caseKey_four_eq_iff s a b) cs).2 h, fun _ _ hm => by simp [toList] at hm⟩

example : switchCases 4 true nil [0, 0x100000000] = none := by decide      -- fix 4f4b330
example : (switchCases 4 true nil [3, 1, 2 ^ 32 - 1, 7]).isSome = true := by decide

end Switch

section Members
open CprocVerif.Layout

private theorem wfDecls_each {isUnion pack : Bool} : ∀ {ds : List Decl}, WfDecls isUnion pack ds →
    ∀ d ∈ ds, (d.ty.incomplete = true → d.ty.isArray = true) ∧
      (isUnion = false → d.ty.flexible = false) ∧
      (match d.width with
       | none => d.align = 0 ∨ (Pow2 d.align ∧ d.ty.align ≤ d.align)
       | some w => d.ty.isInt = true ∧ d.align = 0 ∧ pack = false ∧ (w = 0 → d.named = false) ∧
           w ≤ 8 * d.ty.size)
  | [], _, d, hd => by cases hd
  | d0 :: ds, hw, d, hd => by
    obtain ⟨h1, _, h3⟩ := hw
    rcases List.mem_cons.mp hd with rfl | hd
    · obtain ⟨_, a, b, c⟩ := h1
      refine ⟨a, b, ?_⟩
      cases hwd : d.width with
      | none => simpa [hwd] using c
      | some w =>
        simp only [hwd] at c
        exact ⟨c.1, c.2.1, c.2.2.1, c.2.2.2.1, c.2.2.2.2.1⟩
    · exact wfDecls_each h3 d hd

private theorem wfDecls_flexible_last {isUnion pack : Bool} (hu : isUnion = false) :
    ∀ {ds : List Decl}, WfDecls isUnion pack ds →
    ∀ pre d post, ds = pre ++ d :: post → d.ty.incomplete = true → post = []
  | [], _, pre, d, post, e, _ => by cases pre <;> cases e
  | d0 :: ds, hw, pre, d, post, e, hinc => by
    obtain ⟨_, h2, h3⟩ := hw
    cases pre with
    | nil =>
      simp only [List.nil_append, List.cons.injEq] at e
      obtain ⟨rfl, rfl⟩ := e
      exact h2 hu hinc
    | cons p pre =>
      simp only [List.cons_append, List.cons.injEq] at e
      exact wfDecls_flexible_last hu h3 pre d post e.2 hinc

/-- **Structure and union members**, 6.7.2.1p3-5, 6.7.5p2-4: whenever `addmember`/`tagspec` accept a
member list (of parser-produced type descriptors), for every member: no incomplete type except an
incomplete array; in a struct no member containing a flexible array member and nothing after a
flexible array member; an `_Alignas` is a power of two not less strict than the type's alignment;
a bit-field has integer type, no `_Alignas`, is not in a packed struct, a zero width has no
declarator, the width does not exceed the width of the type; and there is at least one member. -/
theorem members_accept_sound {isUnion pack : Bool} {ds : List Decl} {L : Layout.Layout} (ht : TypesWf ds)
    (h : Layout.layout isUnion pack ds = .ok L) :
    (∀ d ∈ ds, (d.ty.incomplete = true → d.ty.isArray = true) ∧
      (isUnion = false → d.ty.flexible = false) ∧
      (match d.width with
       | none => d.align = 0 ∨ (Pow2 d.align ∧ d.ty.align ≤ d.align)
       | some w => d.ty.isInt = true ∧ d.align = 0 ∧ pack = false ∧ (w = 0 → d.named = false) ∧
           w ≤ 8 * d.ty.size)) ∧
    (isUnion = false → ∀ pre d post, ds = pre ++ d :: post → d.ty.incomplete = true → post = []) ∧
    ds.any Decl.hasMember = true := by
  obtain ⟨hw, hm, _⟩ := layout_ok_wf ht h
  exact ⟨wfDecls_each hw, fun hu => wfDecls_flexible_last hu hw, hm⟩

private theorem run_flexible {isUnion pack : Bool} : ∀ {ds : List Decl} {st st' : St} {ms : List Member},
    (∀ d ∈ ds, TypeWf d) → Layout.run isUnion pack st ds = .ok (st', ms) →
    st'.flexible = (st.flexible || ds.any (fun d => d.ty.incomplete || d.ty.flexible))
  | [], st, st', ms, _, h => by
    simp only [Layout.run, Except.ok.injEq, Prod.mk.injEq] at h
    simp [← h.1]
  | d :: ds, st, st', ms, ht, h => by
    simp only [Layout.run] at h
    cases h1 : addmember isUnion pack st d with
    | error e => simp [h1] at h
    | ok r =>
      obtain ⟨st1, m⟩ := r
      simp only [h1] at h
      cases h2 : Layout.run isUnion pack st1 ds with
      | error e => simp [h2] at h
      | ok r2 =>
        obtain ⟨st2, ms2⟩ := r2
        simp only [h2, Except.ok.injEq, Prod.mk.injEq] at h
        have a := (addmember_ok_wf (ht d List.mem_cons_self) h1).2.2.1
        have b := run_flexible (fun x hx => ht x (List.mem_cons_of_mem _ hx)) h2
        simp only at a
        rw [← h.1, b, a]
        simp [Bool.or_assoc]

/-- **Flexible array members propagate** (6.7.2.1p3: "such a structure (and any union containing, possibly
recursively, a member that is such a structure) shall not be a member of a structure"): the type
`tagspec` builds is marked flexible exactly when one of its members is an incomplete array or has a
flexible type — for a union that is how the mark travels upwards through any number of nested
unions — and by `members_accept_sound` a structure never has a member whose type carries the mark.
(Seeded change C10b dropped the propagation through unions.) -/
theorem flexible_propagates {isUnion pack : Bool} {ds : List Decl} {L : Layout.Layout} (ht : TypesWf ds)
    (h : Layout.layout isUnion pack ds = .ok L) :
    L.flexible = ds.any (fun d => d.ty.incomplete || d.ty.flexible) := by
  unfold Layout.layout at h
  cases h1 : Layout.run isUnion pack {} ds with
  | error e => simp [h1] at h
  | ok r =>
    obtain ⟨st, ms⟩ := r
    simp only [h1] at h
    split at h
    · cases h
    · cases h
      simpa using run_flexible ht.1 h1

/-- `struct F { int n; int a[]; }` inside `union U`, `union U` inside `union V`: the demos of seed C10b -/
def flexStruct : CType := .su false false (.cons (some "n") (.scalar 4 4 true) 0 none (.cons (some "a") (.array (.scalar 4 4 true) none) 0 none .nil))
def flexUnion : CType := .su true false (.cons (some "f") flexStruct 0 none (.cons (some "r") (.scalar 4 4 true) 0 none .nil))
def flexUnion2 : CType := .su true false (.cons (some "u") flexUnion 0 none (.cons (some "b") (.array (.scalar 1 1 true) (some 8)) 0 none .nil))

-- the union alone is fine and carries the mark; a structure containing it, at any depth, is rejected
example : (tinfo flexUnion).toOption.map (·.flexible) = some true ∧
    (tinfo flexUnion2).toOption.map (·.flexible) = some true := by decide
example : tinfo (.su false false (.cons (some "u") flexUnion 0 none (.cons (some "c") (.scalar 4 4 true) 0 none .nil)))
    = .error .containsFlexible := by decide
example : tinfo (.su false false (.cons (some "i") (.scalar 4 4 true) 0 none
    (.cons (some "v") flexUnion2 0 none (.cons (some "t") (.scalar 4 4 true) 0 none .nil)))) = .error .containsFlexible := by
  decide
/-- STATED LIMIT of the layout model: the array-element clause of 6.7.2.1p3 (`struct F fa[2];`,
`struct S { struct F fa[2]; };`) is diagnosed by `decl.c:declarator` since fix 878d11a ("array element
contains flexible array member"), but `Model/Layout.lean:tinfo` (property C06's model) has no such branch in
its array case and still accepts it; for C10 that diagnostic is covered by the catalogue templates, the corpus
witness and the `flexible-struct-member` mutation kind, not by a theorem. -/
example : (tinfo (.su false false (.cons (some "fa") (.array flexStruct (some 2)) 0 none .nil))).toOption.isSome = true := by
  decide

end Members

section Literals
open CprocVerif.Scan CprocVerif.Spec.Lex

/-- **Character constants and string literals**, 6.4.4.4 / 6.4.5 syntax: when the scanner delivers a
token for text that starts with a quote, the lexeme is a complete literal — closed by the same
quote before any new-line or end of file, every escape sequence one of 6.4.4.4p1.  (Unterminated
literals, new-lines, NUL bytes and invalid escapes are the `error` branches of `scan.c`.) -/
theorem literal_accept_sound (str : Bool) (t : List UInt8) (tok : Tok) (rest : List UInt8)
    (h : first (quoteOf str :: t) = .ok (tok, rest)) :
    ∃ w, tok.lit = some w ∧ IsQuoted (quoteOf str) w ∧ quoteOf str :: t = w ++ rest := by
  rcases C13.quote_starts_literal str t with ⟨e, he, _⟩ | ⟨w, rest', hr, hq, _, hcat⟩
  · rw [h] at he; cases he
  · rw [h] at hr
    cases hr
    exact ⟨w, rfl, hq, hcat⟩

example : first b!"\"a\\q\"" = .error .escape ∧ first b!"'a" = .error .eofChar ∧
    first b!"\"a\nb\"" = .error .nlStr := by decide +kernel

end Literals

section CharValues
open CprocVerif.CharLit CprocVerif.Unicode

/-- **UTF-8 in literals**: when `decodechar` accepts a character position that does not start with a
backslash, some prefix of at most 4 bytes is a well-formed UTF-8 sequence (no stray continuation
byte, overlong form, surrogate or value above U+10FFFF is ever accepted). -/
theorem utf8_accept_sound {bs : List Nat} (hne : bs ≠ []) (hb : ∀ b ∈ bs, b < 256) (h5c : bs.headD 0 ≠ 0x5c)
    (r : _) (h : decodechar bs = .ok r) : ∃ l, l ≤ 4 ∧ WellFormed8 (bs.take l) := by
  apply Classical.byContradiction
  intro hn
  have := C14.decodechar_rejects_invalid hne hb h5c (fun l hl hw => hn ⟨l, hl, hw⟩)
  rw [h] at this
  cases this

end CharValues

section Initialisers
open CprocVerif.Init

/-- **Initialisers**, 6.7.9p2: "No initializer shall attempt to provide a value for an object not
contained within the entity being initialized" — full strength -/
def init_accept_sound_full : Prop := C07.offsets_inside_full

/-- `int a[0] = {1};` / a flexible array member (C19 `flexible-init-assert`) -/
theorem init_accept_sound_counterexample : ¬ init_accept_sound_full := C07.offsets_inside_counterexample

/-- for every type of known, non-zero-length shape and EVERY initialiser tree `parseinit` accepts,
each initialised range lies inside the object -/
theorem init_accept_sound_partial {t : Ty} {i : Ini} {st : St} (ht : TyOk t) (e : parseinit t false i = .ok st) :
    ∀ ev ∈ st.log, match ev with
      | .add x => x.start ≤ x.stop ∧ x.stop ≤ t.size
      | .clear a b => a ≤ b ∧ b ≤ t.size :=
  C07.offsets_inside ht e

end Initialisers

end CprocVerif.C10

import CprocVerif.Gen.ErrorSites
import CprocVerif.Gen.C10Catalogue
import CprocVerif.Lemmas.C10Sites

/-!
# C10 — constraint violations and unsupported features are diagnosed, never accepted

## 1. Catalogue coverage (regenerated from `/repo` on every run)
-/

namespace CprocVerif.C10
open CprocVerif.Gen CprocVerif.Sites

/-- EVERY diagnostic site of the current source (`error`/`fatal`/`usage`/`tokencheck`/`expect` call,
keyed by file, enclosing function and format string) has an entry in `catalogue/c10.json`.  A
diagnostic added to `/repo` without a catalogue entry breaks this theorem. -/
theorem sites_covered : ∀ c ∈ ErrorSites.codes, ∃ e ∈ C10Catalogue.codes, e.1 = c := by
  have h : sub ErrorSites.codes (C10Catalogue.codes.map (·.1)) = true := by decide +kernel
  intro c hc
  obtain ⟨e, he, rfl⟩ := List.mem_map.mp (sub_sound _ _ h c hc)
  exact ⟨e, he, rfl⟩

/-- no catalogue entry is stale: each one names a diagnostic site that exists in the current source.
Deleting a diagnostic from `/repo` breaks this theorem (and `checks/c10.py` then looks for the now
accepted violating program among that entry's templates). -/
theorem no_stale_entries : ∀ e ∈ C10Catalogue.codes, e.1 ∈ ErrorSites.codes := by
  have h : sub (C10Catalogue.codes.map (·.1)) ErrorSites.codes = true := by decide +kernel
  intro e he
  exact sub_sound _ _ h e.1 (List.mem_map.mpr ⟨e, he, rfl⟩)

/-- the site table has no duplicate key -/
theorem sites_nodup : ErrorSites.codes.Nodup :=
  strictAsc_nodup _ (by decide +kernel)

/-- the catalogue has exactly one entry per key -/
theorem catalogue_nodup : (C10Catalogue.codes.map (·.1)).Nodup :=
  strictAsc_nodup _ (by decide +kernel)

/-- every entry is of class 0 (has ≥ 1 violating template, run by `checks/c10.py` at every position),
1 (internal-error site no input reaches; reason in the catalogue) or 2 (I/O, command line) -/
theorem classes_valid : ∀ e ∈ C10Catalogue.codes, e.2 ≤ 2 := by decide +kernel

/-- how many entries there are of each class (the triple is printed by `tools/gen_c10.py`) -/
theorem class_counts :
    (countClass 0 C10Catalogue.codes, countClass 1 C10Catalogue.codes, countClass 2 C10Catalogue.codes)
      = C10Catalogue.classCounts ∧
    C10Catalogue.classCounts.1 + C10Catalogue.classCounts.2.1 + C10Catalogue.classCounts.2.2
      = C10Catalogue.codes.length := by decide +kernel

/-- at least nine in ten diagnostic sites are exercised by a violating template -/
theorem template_majority : 9 * ErrorSites.codes.length ≤ 10 * countClass 0 C10Catalogue.codes := by
  decide +kernel

end CprocVerif.C10

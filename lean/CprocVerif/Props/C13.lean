import CprocVerif.Lemmas.ScanFirst
import CprocVerif.Lemmas.ScanTokens
import CprocVerif.Lemmas.Keyword

/-!
# C13 — source text is split into tokens by C11 6.4 maximal munch

Property theorems about the model of `/repo/scan.c` and `pp.c:keyword` (`Model/Scan.lean`)
against the reference of 6.4 (`Spec/Lex.lean`).  No theorem bounds the length of the input.

Vocabulary: `first cs` is what `scan` delivers for a scanner standing at the start of the
phase-2 text `cs` (token without location, and the text that remains); `Ready s` = the scanner is
between two tokens; `IsLongest P cs w` = `w` is the longest prefix of `cs` with `P w` (6.4p4).
Statements about `scankind … s` hold for every scanner state `s`, wherever the backslash-newline
pairs were (`s.stream` is the text after phase 2).
-/

namespace CprocVerif.C13
open CprocVerif.Scan CprocVerif.Spec.Lex CprocVerif.Gen.TokenKinds

/-! ## 1. Punctuators: the longest one wins -/

/-- The spec's punctuator list (6.4.6 without digraphs, plus `::`) is exactly the set of
`tokstr[]` spellings that do not start like an identifier. -/
theorem punct_table :
    (∀ p ∈ punctuators, ∃ e ∈ Gen.TokenKinds.tokstr, e.2 = p) ∧
    (∀ e ∈ Gen.TokenKinds.tokstr, (e.2.head?.map isNondigit = some false) → e.2 ∈ punctuators) := by
  constructor <;> decide +kernel

/-- For every text that starts with a punctuator character (and neither with a comment opener
nor with `.` digit) the scanner returns the kind whose spelling is the LONGEST punctuator that is
a prefix of the text, and stands right behind it. -/
theorem punct_longest (cs : List UInt8) (c : UInt8) (h0 : cs[0]? = some c)
    (hp : isPunctStart c = true)
    (hnc : ¬ (c = c! '/' ∧ (cs[1]? = some (c! '/') ∨ cs[1]? = some (c! '*'))))
    (hnd : ¬ (c = c! '.' ∧ onChr isdigit cs[1]? = true)) :
    ∃ k p, first cs = .ok (⟨k, none, false⟩, cs.drop p.length) ∧ tokstr k = some p ∧
      IsLongest (· ∈ punctuators) cs p := by
  obtain ⟨k, p, s', h1, h2, h3, h4, h5, h6, h7⟩ :=
    scankind_punct (cs.length + 1) (ofStream cs) cs (stream_ofStream cs) rfl rfl c h0 hp hnc hnd
  refine ⟨k, p, ?_, h2, h3⟩
  rw [first_of_scankind cs k _ _ s' h1, h6, h4, h7]
  rfl

/-- the same for a scanner in any state between two tokens (any placement of line splices) -/
theorem punct_longest_any (f : Nat) (s : S) (hr : Ready s) (c : UInt8)
    (h0 : s.stream[0]? = some c) (hp : isPunctStart c = true)
    (hnc : ¬ (c = c! '/' ∧ (s.stream[1]? = some (c! '/') ∨ s.stream[1]? = some (c! '*'))))
    (hnd : ¬ (c = c! '.' ∧ onChr isdigit s.stream[1]? = true)) :
    ∃ k p s', scankind (f + 1) s = .ok (k, s.loc, s.pos, s') ∧ tokstr k = some p ∧
      IsLongest (· ∈ punctuators) s.stream p ∧ s'.stream = s.stream.drop p.length ∧ Ready s' ∧
      s'.sawspace = s.sawspace := by
  obtain ⟨k, p, s', h1, h2, h3, h4, h5, h6, h7⟩ :=
    scankind_punct f s s.stream rfl hr.1 hr.2 c h0 hp hnc hnd
  exact ⟨k, p, s', h1, h2, h3, h4, ⟨h5, h6⟩, h7⟩

example : first b!"<<=1" = .ok (⟨.TSHLASSIGN, none, false⟩, b!"1") := by decide +kernel
example : first b!"+++b" = .ok (⟨.TINC, none, false⟩, b!"+b") := by decide +kernel
example : first b!"..x" = .ok (⟨.TPERIOD, none, false⟩, b!".x") := by decide +kernel
example : first b!"->*" = .ok (⟨.TARROW, none, false⟩, b!"*") := by decide +kernel

/-! ## 2. Identifiers -/

theorem drop_takeWhile_length (p : UInt8 → Bool) : ∀ l : List UInt8,
    l.drop (l.takeWhile p).length = l.dropWhile p := by
  intro l
  induction l with
  | nil => rfl
  | cons a t ih =>
    simp only [List.takeWhile_cons, List.dropWhile_cons]
    split
    · simpa using ih
    · rfl

/-- An identifier start that is not an encoding prefix glued to a quote yields `TIDENT` whose
lexeme is the longest identifier at the start of the text. -/
theorem ident_longest (c : UInt8) (r : List UInt8) (hc : isNondigit c = true)
    (hp : prefixedQuote (c :: r) = false) :
    ∃ w, first (c :: r) = .ok (⟨.TIDENT, some w, false⟩, (c :: r).drop w.length) ∧
      IsLongest IsIdentifier (c :: r) w := by
  obtain ⟨s', h1, h2, h3, h4, h5⟩ := scankind_ident ((c :: r).length + 1) (ofStream (c :: r)) c r
    (stream_ofStream _) (ready_ofStream _) hc hp
  refine ⟨c :: r.takeWhile isIdentCont, ?_, isLongest_ident c r hc⟩
  rw [first_of_scankind _ _ _ _ s' h1, h4, h2, h3, h5]
  simp only [if_true, List.length_cons, List.drop_succ_cons, drop_takeWhile_length]
  rfl

theorem ident_longest_any (f : Nat) (s : S) (hr : Ready s) (c : UInt8) (r : List UInt8)
    (hs : s.stream = c :: r) (hc : isNondigit c = true) (hp : prefixedQuote (c :: r) = false) :
    ∃ w s', scankind (f + 1) s = .ok (.TIDENT, s.loc, s.pos, s') ∧ s'.buf = w ∧ s'.usebuf = true ∧
      IsLongest IsIdentifier s.stream w ∧ s'.stream = s.stream.drop w.length ∧
      s'.sawspace = s.sawspace := by
  obtain ⟨s', h1, h2, h3, h4, h5⟩ := scankind_ident f s c r hs hr hc hp
  refine ⟨_, s', h1, h2, h4, by rw [hs]; exact isLongest_ident c r hc, ?_, h5⟩
  rw [h3, hs]
  simp only [List.length_cons, List.drop_succ_cons, drop_takeWhile_length]

example : first b!"u8x+1" = .ok (⟨.TIDENT, some b!"u8x", false⟩, b!"+1") := by decide +kernel
example : prefixedQuote b!"u8x+1" = false := by decide

/-! ## 3. Preprocessing numbers -/

/-- A text starting with a digit yields `TNUMBER` whose lexeme is the longest pp-number (6.4.8). -/
theorem ppnumber_longest_digit (d : UInt8) (r : List UInt8) (hd : isDigit d = true) :
    ∃ w, first (d :: r) = .ok (⟨.TNUMBER, some w, false⟩, (d :: r).drop w.length) ∧
      IsLongest PPNumber (d :: r) w := by
  obtain ⟨s', h1, h2, h3, h4, h5⟩ := scankind_number ((d :: r).length + 1) (ofStream (d :: r)) d r
    (stream_ofStream _) (ready_ofStream _) hd
  refine ⟨d :: r.take (ppTailLen r), ?_, isLongest_ppNumber_digit d r hd⟩
  rw [first_of_scankind _ _ _ _ s' h1, h4, h2, h3, h5]
  have := ppTailLen_le r
  simp only [if_true, List.length_cons, List.length_take, List.drop_succ_cons,
    Nat.min_eq_left this]
  rfl

/-- A text starting with `.` digit yields `TNUMBER` with the longest pp-number as well. -/
theorem ppnumber_longest_dot (d : UInt8) (r : List UInt8) (hd : isDigit d = true) :
    ∃ w, first (c! '.' :: d :: r) = .ok (⟨.TNUMBER, some w, false⟩, (c! '.' :: d :: r).drop w.length) ∧
      IsLongest PPNumber (c! '.' :: d :: r) w := by
  obtain ⟨s', h1, h2, h3, h4, h5⟩ := scankind_dotnumber ((c! '.' :: d :: r).length + 1)
    (ofStream (c! '.' :: d :: r)) d r (stream_ofStream _) (ready_ofStream _) hd
  refine ⟨c! '.' :: d :: r.take (ppTailLen r), ?_, isLongest_ppNumber_dot d r hd⟩
  rw [first_of_scankind _ _ _ _ s' h1, h4, h2, h3, h5]
  have := ppTailLen_le r
  simp only [if_true, List.length_cons, List.length_take, List.drop_succ_cons,
    Nat.min_eq_left this]
  rfl

theorem ppnumber_longest_any (f : Nat) (s : S) (hr : Ready s) (d : UInt8) (r : List UInt8)
    (hs : s.stream = d :: r ∨ s.stream = c! '.' :: d :: r) (hd : isDigit d = true) :
    ∃ w s', scankind (f + 1) s = .ok (.TNUMBER, s.loc, s.pos, s') ∧ s'.buf = w ∧ s'.usebuf = true ∧
      IsLongest PPNumber s.stream w ∧ s'.stream = s.stream.drop w.length ∧
      s'.sawspace = s.sawspace := by
  have hl := ppTailLen_le r
  rcases hs with hs | hs
  · obtain ⟨s', h1, h2, h3, h4, h5⟩ := scankind_number f s d r hs hr hd
    refine ⟨_, s', h1, h2, h4, by rw [hs]; exact isLongest_ppNumber_digit d r hd, ?_, h5⟩
    rw [h3, hs]
    simp only [List.length_cons, List.length_take, List.drop_succ_cons, Nat.min_eq_left hl]
  · obtain ⟨s', h1, h2, h3, h4, h5⟩ := scankind_dotnumber f s d r hs hr hd
    refine ⟨_, s', h1, h2, h4, by rw [hs]; exact isLongest_ppNumber_dot d r hd, ?_, h5⟩
    rw [h3, hs]
    simp only [List.length_cons, List.length_take, List.drop_succ_cons, Nat.min_eq_left hl]

example : first b!"1e+5-1" = .ok (⟨.TNUMBER, some b!"1e+5", false⟩, b!"-1") := by decide +kernel
example : first b!"0xe+1;" = .ok (⟨.TNUMBER, some b!"0xe+1", false⟩, b!";") := by decide +kernel
example : first b!"1e+-3" = .ok (⟨.TNUMBER, some b!"1e+", false⟩, b!"-3") := by decide +kernel
example : first b!".5.e+.x y" = .ok (⟨.TNUMBER, some b!".5.e+.x", false⟩, b!" y") := by decide +kernel

/-! ## 4. Encoding prefixes bind to an immediately following quote; literals are literals -/

/-- what a literal token looks like: kind by quote, lexeme = a 6.4.4.4 / 6.4.5 literal that
begins with the given prefix and quote, followed in the text by what remains -/
def LiteralResult (str : Bool) (p cs : List UInt8) (r : Except ErrKind (Tok × List UInt8)) : Prop :=
  (∃ e, r = .error e ∧ e ≠ .fuel) ∨
  (∃ w rest, r = .ok (⟨if str then .TSTRINGLIT else .TCHARCONST, some w, false⟩, rest) ∧
    IsQuoted (quoteOf str) w ∧ (p ++ [quoteOf str]) <+: w ∧ cs = w ++ rest)

/-- `L'…'`, `u"…"`, `U'…'`, `u8"…"` …: when an encoding prefix is directly followed by a quote the
scanner never delivers an identifier: it enters the literal (and either diagnoses it or delivers
a character constant / string literal that starts with prefix and quote). -/
theorem prefix_binds_quote (p : List UInt8) (str : Bool) (t : List UInt8)
    (hp : p = b!"L" ∨ p = b!"u" ∨ p = b!"U" ∨ p = b!"u8") :
    LiteralResult str p (p ++ quoteOf str :: t) (first (p ++ quoteOf str :: t)) := by
  obtain ⟨s2, h1, h2, h3, h4, h5⟩ := scankind_prefixquote ((p ++ quoteOf str :: t).length + 1)
    (ofStream (p ++ quoteOf str :: t)) p str t hp (stream_ofStream _) (ready_ofStream _)
  have hc : s2.chr = some (quoteOf str) := by rw [chr_eq, h3]; rfl
  cases hq : quoted str s2 with
  | error e =>
    rw [hq] at h1
    left
    refine ⟨e.kind, first_of_scankind_error _ e h1, ?_⟩
    cases str
    · exact charconst_nofuel s2 e hq
    · exact stringlit_nofuel s2 e hq
  | ok r =>
    obtain ⟨k, s'⟩ := r
    rw [hq] at h1
    obtain ⟨items, hi, hb, hs, hu, hw, hk⟩ := quoted_moved str s2 k s' hc hq
    right
    refine ⟨s'.buf, s'.stream, ?_, ?_, ?_, ?_⟩
    · rw [first_of_scankind _ k _ _ s' h1, hu, hw, h5, hk]; rfl
    · rw [hb, h2]
      refine ⟨p, items, ?_, hi, by simp⟩
      rcases hp with h | h | h | h <;> subst h <;> simp [prefixes]
    · rw [hb, h2]; simp
    · rw [hb, h2]
      rw [h3] at hs
      simp only [List.append_assoc, List.cons_append] at hs ⊢
      have := List.cons.inj hs
      rw [this.2]

/-- an unprefixed `'` or `"` starts a literal as well -/
theorem quote_starts_literal (str : Bool) (t : List UInt8) :
    LiteralResult str [] (quoteOf str :: t) (first (quoteOf str :: t)) := by
  have hc : (ofStream (quoteOf str :: t)).chr = some (quoteOf str) := by
    rw [chr_eq, stream_ofStream]; rfl
  have h1 := scankind_quote ((quoteOf str :: t).length + 1) (ofStream (quoteOf str :: t)) str hc
  cases hq : quoted str (ofStream (quoteOf str :: t)) with
  | error e =>
    rw [hq] at h1
    left
    refine ⟨e.kind, first_of_scankind_error _ e h1, ?_⟩
    cases str
    · exact charconst_nofuel _ e hq
    · exact stringlit_nofuel _ e hq
  | ok r =>
    obtain ⟨k, s'⟩ := r
    rw [hq] at h1
    obtain ⟨items, hi, hb, hs, hu, hw, hk⟩ := quoted_moved str _ k s' hc hq
    right
    refine ⟨s'.buf, s'.stream, ?_, ?_, ?_, ?_⟩
    · rw [first_of_scankind _ k _ _ s' h1, hu, hw, hk]; rfl
    · rw [hb]
      exact ⟨[], items, by simp [prefixes], hi, by simp [ofStream]⟩
    · rw [hb]; simp [ofStream]
    · rw [hb]
      rw [stream_ofStream] at hs
      simpa [ofStream] using hs

example : first b!"L'a'+" = .ok (⟨.TCHARCONST, some b!"L'a'", false⟩, b!"+") := by decide +kernel
example : first b!"u8\"x\\n\";" = .ok (⟨.TSTRINGLIT, some b!"u8\"x\\n\"", false⟩, b!";") := by
  decide +kernel
example : first b!"u8 \"x\"" = .ok (⟨.TIDENT, some b!"u8", false⟩, b!" \"x\"") := by decide +kernel
example : first b!"L'a" = .error .eofChar := by decide +kernel
example : first b!"\"\\q\"" = .error .escape := by decide +kernel

/-! ## 5. White space and comments produce no token, set the space flag, join/split nothing

The scanner state after a comment is *the state before it* with the comment's characters
removed from the text and the space flag set — nothing of the previous token can leak in (it was
delivered before), and the next token is scanned from a fresh start (`scankind f s'`). -/

theorem blank_is_space (f : Nat) (s : S) (c : UInt8) (r : List UInt8) (hs : s.stream = c :: r)
    (hb : isBlank c = true) (hu : s.usebuf = false) :
    ∃ s', scankind (f + 1) s = scankind f s' ∧ s'.view = ⟨r, s.buf, false, true⟩ := by
  refine ⟨_, scankind_blank f s c (by rw [chr_eq, hs]; rfl) hb, ?_⟩
  obtain ⟨h1, h2, h3, h4⟩ := nextchar_nouse ({ s with sawspace := true } : S) c r hs hu
  simp only [S.view, h1, h2, h3, h4]

/-- A `/* … */` comment (ending at the FIRST `*/`) is skipped whole. -/
theorem comment_is_space (f : Nat) (s : S) (w rest : List UInt8) (hw : IsBlockComment w)
    (hs : s.stream = w ++ rest) (hu : s.usebuf = false) :
    ∃ s', scankind (f + 1) s = scankind f s' ∧ s'.view = ⟨rest, s.buf, false, true⟩ := by
  obtain ⟨body, rfl, hfirst⟩ := hw
  have hs' : s.stream = c! '/' :: c! '*' :: (body ++ b!"*/" ++ rest) := by
    rw [hs]; simp
  have := scankind_blockcomment f s _ hs' hu
  rw [findCommentEnd_first body rest hfirst] at this
  obtain ⟨s', h1, h2⟩ := this
  refine ⟨s', h1, ?_⟩
  rw [h2]
  congr 1
  rw [List.append_assoc, List.drop_append]
  simp

/-- an unterminated `/*` is diagnosed (never silently eaten as something else) -/
theorem comment_unterminated (f : Nat) (s : S) (t : List UInt8)
    (hs : s.stream = c! '/' :: c! '*' :: t) (hu : s.usebuf = false)
    (hno : findCommentEnd t = none) :
    ∃ e, scankind (f + 1) s = .error e ∧ e.kind = .eofComment := by
  have := scankind_blockcomment f s t hs hu
  rw [hno] at this
  exact this

/-- A `//` comment is skipped up to, not including, the next new-line (or the end of the text). -/
theorem line_comment_is_space (f : Nat) (s : S) (w rest : List UInt8) (hw : IsLineComment w)
    (hrest : rest = [] ∨ rest.head? = some NL)
    (hs : s.stream = w ++ rest) (hu : s.usebuf = false) :
    ∃ s', scankind (f + 1) s = scankind f s' ∧ s'.view = ⟨rest, s.buf, false, true⟩ := by
  obtain ⟨body, rfl, hnl⟩ := hw
  have hs' : s.stream = c! '/' :: c! '/' :: (body ++ rest) := by rw [hs]; simp
  obtain ⟨s', h1, h2⟩ := scankind_linecomment f s _ hs' hu
  refine ⟨s', h1, ?_⟩
  rw [h2]
  congr 1
  rcases hrest with h | h
  · subst h; simp only [List.append_nil]; exact dropWhile_ne_nl_eof body hnl
  · cases rest with
    | nil => simp at h
    | cons a r =>
      simp only [List.head?_cons, Option.some.injEq] at h
      subst h
      exact dropWhile_ne_nl body r hnl

example : first b!"a/**/b" = .ok (⟨.TIDENT, some b!"a", false⟩, b!"/**/b") := by decide +kernel
example : first b!"/**/b" = .ok (⟨.TIDENT, some b!"b", true⟩, []) := by decide +kernel
example : first b!"+/*x*/+" = .ok (⟨.TADD, none, false⟩, b!"/*x*/+") := by decide +kernel
example : first b!"/*/ */+" = .ok (⟨.TADD, none, true⟩, []) := by decide +kernel
example : first b!"//x\ny" = .ok (⟨.TNEWLINE, none, true⟩, b!"y") := by decide +kernel
example : IsBlockComment b!"/*/ */" := ⟨b!"/ ", rfl, by decide⟩

/-! ## 6. New-line, end of input, stray characters -/

theorem newline_token (t : List UInt8) :
    first (NL :: t) = .ok (⟨.TNEWLINE, none, false⟩, t) := by
  have hc : (ofStream (NL :: t)).chr = some (c! '\n') := by rw [chr_eq, stream_ofStream]; rfl
  rw [first_of_scankind _ _ _ _ _ (scankind_newline _ _ hc)]
  obtain ⟨h1, h2, h3, h4⟩ := nextchar_nouse (ofStream (NL :: t)) NL t (stream_ofStream _) rfl
  rw [h1, h2, h3, h4]
  rfl

theorem eof_token : first [] = .ok (⟨.TEOF, none, false⟩, []) := by decide +kernel

/-- a character that can start no token of 6.4 is delivered on its own as `TOTHER` -/
theorem stray_char (c : UInt8) (t : List UInt8) (hc : isStray c = true) :
    first (c :: t) = .ok (⟨.TOTHER, some [c], false⟩, t) := by
  have hchr : (ofStream (c :: t)).chr = some c := by rw [chr_eq, stream_ofStream]; rfl
  rw [first_of_scankind _ _ _ _ _ (scankind_other _ _ c hchr hc)]
  obtain ⟨h1, h2, h3, h4⟩ := nextchar_use ({ ofStream (c :: t) with usebuf := true } : S) c t
    (stream_ofStream _) rfl
  rw [h1, h2, h3, h4]
  rfl

example : isStray (c! '@') = true ∧ isStray (c! '\\') = true ∧ isStray 0x80 = true ∧ isStray 13 = true := by
  decide

/-! ## 7. Backslash-newline pairs neither join nor split tokens -/

/-- **Tokenisation is a function of the phase-2 text**: two source texts that agree after the
single left-to-right removal of backslash-newline pairs yield the same kinds, lexemes, space
flags and diagnostic kind (locations differ). -/
theorem splice_invariant (t1 t2 : List UInt8) (h : unsplice t1 = unsplice t2) :
    eraseRun (tokensP t1) = eraseRun (tokensP t2) := tokensP_rel t1 t2 h

/-- the literal reading "re-tokenising the spliced text gives the same tokens" -/
def splice_invariant_full : Prop :=
  ∀ text, eraseRun (tokensP text) = eraseRun (tokensP (unsplice text))

/-- It is false, and rightly so (5.1.1.2 phase 2 is ONE pass): in `\\` `\\` NL NL the second
backslash and the first new-line go; what remains is backslash, new-line — two tokens — which a
second pass would delete. -/
theorem splice_invariant_counterexample : ¬ splice_invariant_full := by
  intro h
  have := h b!"\\\\\n\n"
  revert this
  decide +kernel

/-- it holds whenever the spliced text contains no further backslash-newline pair -/
theorem splice_invariant_partial (text : List UInt8)
    (h : unsplice (unsplice text) = unsplice text) :
    eraseRun (tokensP text) = eraseRun (tokensP (unsplice text)) :=
  splice_invariant _ _ h.symm

example : unsplice (unsplice b!"a\\\nb+\\\n+") = unsplice b!"a\\\nb+\\\n+" := by decide
example : eraseRun (tokensP b!"a\\\nb+\\\n+") = eraseRun (tokensP b!"ab++") := by decide +kernel

/-! ## 8. Progress and termination -/

/-- every `scan` that does not deliver `TEOF` consumes at least one character -/
theorem scan_progress (s : S) (t : Token) (s' : S) (h : scan s = .ok (t, s'))
    (hk : t.kind ≠ .TEOF) : s'.inp.length < s.inp.length := Scan.scan_progress s t s' h hk

/-- the fuel of the model's loops is never exhausted: a diagnostic is always one of scan.c's -/
theorem tokens_no_fuel (text : List UInt8) (e : Err) (h : tokens text = .error e) :
    e.kind ≠ .fuel := by
  unfold tokens at h
  have := tokensLoop_end ((S.init text).inp.length + 1) (S.init text) (by simp [S.len])
  unfold tokensP at h
  rcases this with ⟨e1, h1, h2⟩ | ⟨h1, _⟩
  · split at h
    · cases h
    · rename_i ts e2 heq
      simp only [Except.error.injEq] at h
      subst h
      rw [Prod.ext_iff] at heq
      simp only [h1, Option.some.injEq] at heq
      rw [← heq.2]; exact h2
  · split at h
    · cases h
    · rename_i ts e2 heq
      rw [Prod.ext_iff] at heq
      simp only [h1] at heq
      cases heq.2

/-- a successful run ends with exactly one `TEOF`, at the end -/
theorem tokens_end_with_eof (text : List UInt8) (ts : List Token) (h : tokens text = .ok ts) :
    ∃ ts' t, ts = ts' ++ [t] ∧ t.kind = .TEOF ∧ ∀ x ∈ ts', x.kind ≠ .TEOF := by
  unfold tokens at h
  have := tokensLoop_end ((S.init text).inp.length + 1) (S.init text) (by simp [S.len])
  unfold tokensP at h
  rcases this with ⟨e1, h1, _⟩ | ⟨_, ts', t, h2, h3, h4⟩
  · split at h
    · rename_i ts0 heq
      rw [Prod.ext_iff] at heq
      simp only [h1] at heq
      cases heq.2
    · cases h
  · split at h
    · rename_i ts0 heq
      simp only [Except.ok.injEq] at h
      subst h
      rw [Prod.ext_iff] at heq
      exact ⟨ts', t, by have := heq.1; simp only [] at this; rw [← this]; exact h2, h3, h4⟩
    · cases h

/-! ## 9. Keywords -/

/-- `keywords[]` is strictly ascending in `strcmp` order — what the bisection needs
(re-evaluated on the generated table at every build). -/
theorem keywords_sorted : Sorted Gen.Keywords.table := Scan.keywords_sorted

/-- the bisection of `keyword()` finds an identifier iff it is in the table, with its kind -/
theorem bsearch_correct (lit : List UInt8) (k : Kind) :
    keyword lit = some k ↔ (lit, k) ∈ Gen.Keywords.table :=
  bsearch_mem Gen.Keywords.table Scan.keywords_sorted lit k

theorem bsearch_sound (lit : List UInt8) (k : Kind) (h : keyword lit = some k) :
    (lit, k) ∈ Gen.Keywords.table := (bsearch_correct lit k).mp h

theorem bsearch_complete (lit : List UInt8) (k : Kind) (h : (lit, k) ∈ Gen.Keywords.table) :
    keyword lit = some k := (bsearch_correct lit k).mpr h

/-- The table is exactly the keyword set of C11 6.4.1 + the C23 additions + the GNU alternate
spellings, each with its kind: nothing is missing, nothing else is recognised. -/
theorem keyword_set_correct :
    (∀ e ∈ Gen.Keywords.table, e ∈ keywords) ∧ (∀ e ∈ keywords, e ∈ Gen.Keywords.table) := by
  constructor <;> decide +kernel

/-- the reference dictionary has one entry per spelling -/
theorem keywords_nodup : (keywords.map (·.1)).Nodup := by decide +kernel

theorem find_key : ∀ (l : List (List UInt8 × Kind)), (l.map (·.1)).Nodup → ∀ (w : List UInt8) (k : Kind),
    (w, k) ∈ l → (l.find? (·.1 = w)).map (·.2) = some k := by
  intro l
  induction l with
  | nil => intro _ w k h; cases h
  | cons e t ih =>
    intro hnd w k h
    simp only [List.map_cons, List.nodup_cons] at hnd
    rcases List.mem_cons.mp h with h | h
    · subst h; simp
    · have hne : e.1 ≠ w := by
        intro he
        apply hnd.1
        rw [he]
        exact List.mem_map.mpr ⟨(w, k), h, rfl⟩
      simp only [List.find?_cons, hne, decide_false]
      exact ih hnd.2 w k h

theorem keywordOf_iff (w : List UInt8) (k : Kind) : keywordOf w = some k ↔ (w, k) ∈ keywords := by
  unfold keywordOf
  constructor
  · intro h
    cases hf : keywords.find? (·.1 = w) with
    | none => rw [hf] at h; cases h
    | some e =>
      rw [hf] at h
      simp only [Option.map_some, Option.some.injEq] at h
      have h1 := List.find?_some hf
      have h2 := List.mem_of_find?_eq_some hf
      simp only [decide_eq_true_eq] at h1
      rw [← h1, ← h]
      exact h2
  · intro h
    exact find_key keywords keywords_nodup w k h

/-- **Every keyword spelling is recognised as that keyword and nothing else is**: `keyword()`
agrees with the reference dictionary on every byte string. -/
theorem keyword_correct (w : List UInt8) : keyword w = keywordOf w := by
  cases h : keywordOf w with
  | some k =>
    exact bsearch_complete w k (keyword_set_correct.2 _ ((keywordOf_iff w k).mp h))
  | none =>
    cases h2 : keyword w with
    | none => rfl
    | some k =>
      have := (keywordOf_iff w k).mpr (keyword_set_correct.1 _ (bsearch_sound w k h2))
      rw [h] at this; cases this

example : keyword b!"__typeof__" = some .TTYPEOF ∧ keyword b!"_BitInt" = some .T_BITINT ∧
    keyword b!"typeof_" = none ∧ keyword b!"Int" = none ∧ keyword [] = none := by decide +kernel

/-! ## 10. `tokstr[]` round trip -/

/-- the token `next()` delivers for a lone spelling: `scan`, then `keyword` on identifiers -/
def ppFirst (cs : List UInt8) : Except ErrKind (Tok × List UInt8) :=
  match first cs with
  | .error e => .error e
  | .ok (t, r) =>
    if t.kind = .TIDENT then
      match t.lit.bind keyword with
      | some k => .ok (⟨k, none, t.space⟩, r)
      | none => .ok (t, r)
    else .ok (t, r)

/-- Scanning the spelling `tokstr[k]` of any punctuator or keyword kind yields exactly kind `k`,
with nothing left over. -/
theorem tokstr_roundtrip :
    ∀ e ∈ Gen.TokenKinds.tokstr, ppFirst e.2 = .ok (⟨e.1, none, false⟩, []) := by
  decide +kernel

/-- …and every kind has at most one spelling in `tokstr[]` -/
theorem tokstr_functional : (Gen.TokenKinds.tokstr.map (·.1)).Nodup := by decide +kernel

/-! ## 11. The reader: `S.readHead` on the pre-parsed input is the `for (;;)` loop of `nextchar` -/

/-- `readRaw` (the literal loop on raw bytes) delivers the first grouped character, leaves bytes
that group to the rest, and moves the location as `readHead` does. -/
theorem readRaw_group : ∀ (t : List UInt8) (loc : Loc),
    (readRaw t loc).1 = ((group t 0).1.head?).map (·.2) ∧
    (group (readRaw t loc).2.1 0).1 = (group t 0).1.tail := by
  intro t
  suffices h : ∀ (t : List UInt8) (k : Nat) (loc : Loc),
      (readRaw t loc).1 = ((group t k).1.head?).map (·.2) ∧
      (group (readRaw t loc).2.1 0).1 = (group t k).1.tail from fun loc => h t 0 loc
  intro t k
  fun_induction group t k with
  | case1 => intro loc; simp [readRaw, group]
  | case2 c k =>
    intro loc
    simp only [readRaw]
    split <;> simp [group]
  | case3 c d r k h ih =>
    intro loc
    obtain ⟨hc, hd⟩ := h
    subst hc hd
    simp only [readRaw]
    simp only [show ¬ ((92 : UInt8) = 10) by decide, if_false, and_self, if_true]
    exact ih _
  | case4 c d r k h ih1 =>
    intro loc
    simp only [readRaw]
    by_cases hnl : c = 10
    · simp [hnl]
    · have : ¬ (c = 92 ∧ d = 10) := h
      simp [hnl, this]

end CprocVerif.C13

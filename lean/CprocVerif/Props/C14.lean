import CprocVerif.Lemmas.CharLit
import CprocVerif.Gen.Targets

/-!
# C14 — character constants and string literals denote the standard-mandated values

Theorems relating the model of `/repo/utf.c`, `/repo/expr.c` (`decodechar`, `encodechar*`,
`stringconcat`, `primaryexpr` case `TCHARCONST`), the literal part of `/repo/scan.c` and the
`alltargs` table of `/repo/targ.c` (`Model/CharLit.lean`) to `Spec/Unicode.lean` (RFC 3629, UTF-16,
C11 6.4.4.4 / 6.4.5 + the documented C23 `u8` rule).  No theorem bounds the length of a literal,
the number of adjacent tokens, the number of hexadecimal digits or the byte values that follow.

One clause of the property is false for the code as it is (known finding `escape-out-of-range`):
octal/hexadecimal escapes whose value does not fit the element type (and hexadecimal escapes
≥ 2^32, which wrap in `decodechar`) are accepted and truncated instead of being rejected.  The
full-strength statements are kept as `…_full`, refuted by `…_counterexample`, and proved with the
excluding hypothesis as `…_partial`.
-/

namespace CprocVerif.C14
open CprocVerif.CharLit CprocVerif.Unicode

/-! ## 1. UTF-8 (`utf8enc`, `utf8dec`) -/

/-- `utf8enc` is the RFC 3629 encoding on scalar values and asserts on everything else. -/
theorem utf8enc_spec (c : Nat) (hc : c < 2 ^ 32) :
    utf8enc c = if isScalar c then some (utf8Encode c) else none := utf8enc_eq c hc

/-- Decoding what was encoded gives the character back, whatever follows and for every limit `n`
that covers the sequence (`decodechar` passes 4). -/
theorem utf8_roundtrip {c : Nat} (hc : isScalar c) (rest : List Nat) (n : Nat)
    (hn : (utf8Encode c).length ≤ n) :
    utf8dec (utf8Encode c ++ rest) n = some (c, (utf8Encode c).length) := by
  rw [utf8Encode_length] at hn ⊢
  unfold utf8dec; rw [utf8dec_encode hc rest n hn]

/-- The same through the model's own encoder. -/
theorem utf8_roundtrip_model {c : Nat} {bs : List Nat} (hc : c < 2 ^ 32) (h : utf8enc c = some bs)
    (rest : List Nat) : utf8dec (bs ++ rest) 4 = some (c, bs.length) := by
  rw [utf8enc_eq c hc] at h
  by_cases hs : isScalar c
  · rw [if_pos hs] at h; cases h
    exact utf8_roundtrip hs rest 4 (by rw [utf8Encode_length]; exact (len8_bounds c).2)
  · rw [if_neg hs] at h; cases h

/-- Whatever `utf8dec` accepts is a scalar value spelled in its canonical (shortest) form: no
overlong forms, no surrogates, nothing above U+10FFFF; and `utf8enc` reproduces those bytes. -/
theorem utf8dec_canonical {bs : List Nat} {n c l : Nat} (hne : bs ≠ []) (hb : ∀ b ∈ bs, b < 256)
    (h : utf8dec bs n = some (c, l)) :
    isScalar c ∧ bs.take l = utf8Encode c ∧ utf8enc c = some (bs.take l) := by
  obtain ⟨hc, _, ht⟩ := utf8dec_canonical' hne hb h
  exact ⟨hc, ht, by rw [utf8enc_eq c (isScalar_lt32 hc), if_pos hc, ht]⟩

/-- `utf8dec` reads `s[0] .. s[r-1]` only (`r` = `(utf8decR bs n).2`): `1 ≤ r ≤ 4`, `r ≤ n` unless
only byte 0 was read, no byte after a NUL terminator is read (all bytes before the last one read are
non-zero), the result depends on those `r` bytes only, and an accepted sequence has length `r`. -/
theorem utf8dec_total_safe (bs : List Nat) (n : Nat) :
    1 ≤ (utf8decR bs n).2 ∧ (utf8decR bs n).2 ≤ 4 ∧ ((utf8decR bs n).2 ≤ n ∨ (utf8decR bs n).2 = 1) ∧
    (∀ i, i + 1 < (utf8decR bs n).2 → rd bs i ≠ 0) ∧
    (∀ bs', bs'.take (utf8decR bs n).2 = bs.take (utf8decR bs n).2 → utf8decR bs' n = utf8decR bs n) ∧
    (∀ c l, utf8dec bs n = some (c, l) → l = (utf8decR bs n).2) := utf8decR_safe bs n

/-- The spec's two descriptions of UTF-8 agree: the ABNF of RFC 3629 section 4 accepts exactly
the encodings (section 3) of the scalar values. -/
theorem wellFormed8_iff_encode (w : List Nat) : WellFormed8 w ↔ ∃ c, isScalar c ∧ w = utf8Encode c :=
  ⟨wellFormed_decode, fun ⟨_, hc, e⟩ => e ▸ wellFormed_encode hc⟩

/-- Every accepted prefix is well-formed per RFC 3629. -/
theorem utf8dec_wellformed {bs : List Nat} {n c l : Nat} (hne : bs ≠ []) (hb : ∀ b ∈ bs, b < 256)
    (h : utf8dec bs n = some (c, l)) : WellFormed8 (bs.take l) := by
  obtain ⟨hc, _, ht⟩ := utf8dec_canonical' hne hb h
  exact ht ▸ wellFormed_encode hc

/-- Every byte string none of whose prefixes is a well-formed UTF-8 character — a stray
continuation byte, `C0`/`C1`/`F5`..`FF`, a truncated sequence, an overlong form, an encoded
surrogate, a value above U+10FFFF — is rejected. -/
theorem utf8dec_rejects_invalid {bs : List Nat} {n : Nat} (hne : bs ≠ []) (hb : ∀ b ∈ bs, b < 256)
    (hbad : ∀ l, l ≤ 4 → ¬ WellFormed8 (bs.take l)) : utf8dec bs n = none := by
  cases h : utf8dec bs n with
  | none => rfl
  | some cn =>
    obtain ⟨c, l⟩ := cn
    obtain ⟨_, hl, _⟩ := utf8dec_canonical' hne hb h
    exact absurd (utf8dec_wellformed hne hb h) (hbad l (hl ▸ (len8_bounds c).2))

/-- Conversely every well-formed prefix within the limit is accepted with exactly that length. -/
theorem utf8dec_accepts_wellformed {bs : List Nat} {n l : Nat} (hl : l ≤ bs.length) (hn : l ≤ n)
    (hw : WellFormed8 (bs.take l)) : ∃ c, isScalar c ∧ utf8dec bs n = some (c, l) := by
  obtain ⟨c, hc, e⟩ := wellFormed_decode hw
  have hlen : l = (utf8Encode c).length := by rw [← e, List.length_take]; omega
  refine ⟨c, hc, ?_⟩
  have := utf8_roundtrip hc (bs.drop l) n (by omega)
  rw [← e, List.take_append_drop] at this
  rw [this, e, ← hlen]

/-- In a literal: a character position holding ill-formed UTF-8 makes `decodechar` end the
compilation with the diagnostic "… contains invalid UTF-8" (never a silently altered value). -/
theorem decodechar_rejects_invalid {bs : List Nat} (hne : bs ≠ []) (hb : ∀ b ∈ bs, b < 256)
    (h5c : bs.headD 0 ≠ 0x5c) (hbad : ∀ l, l ≤ 4 → ¬ WellFormed8 (bs.take l)) :
    decodechar bs = .error .invalidUtf8 := decodechar_invalid hne hb h5c hbad

/-! ## 2. UTF-16 (`utf16enc`) -/

theorem utf16enc_spec (c : Nat) (hc : c < 2 ^ 32) :
    utf16enc c = if isScalar c then some (utf16Encode c) else none := utf16enc_eq c hc

/-- The emitted units decode (by the definition of UTF-16) to the character; one unit for the
BMP, a surrogate pair otherwise; every unit fits 16 bits. -/
theorem utf16_roundtrip {c : Nat} (hc : isScalar c) (rest : List Nat) :
    ∃ us, utf16enc c = some us ∧ (us.length = 1 ∨ us.length = 2) ∧ (∀ u ∈ us, u < 2 ^ 16) ∧
      utf16Decode (us ++ rest) = some (c, us.length) := by
  obtain ⟨h1, h2, h3⟩ := utf16_roundtrip_spec hc rest
  exact ⟨utf16Encode c, by rw [utf16enc_eq c (isScalar_lt32 hc), if_pos hc], h2, h3, h1⟩

/-! ## 3. Escape sequences (`decodechar`) -/

/-- `decodechar`'s table of simple escapes is the table of 6.4.4.4 — for every character,
including those that are not an escape. -/
theorem simple_escape_table (ch : Nat) : simpleEsc ch = simpleEscape ch := simpleEsc_eq ch

theorem simple_escape_correct {ch v : Nat} (rest : List Nat) (h : simpleEscape ch = some v) :
    decodechar (0x5c :: ch :: rest) = .ok (v, false, 2) := decodechar_simple rest h

/-- An octal escape of 1–3 digits (maximal: 3 digits, or followed by a non-octal character such as
`8`) has the value of its digits and consumes exactly them. -/
theorem octal_escape_correct {ds : List Nat} (rest : List Nat) (h1 : 1 ≤ ds.length) (h3 : ds.length ≤ 3)
    (hds : ∀ d ∈ ds, isOctDigit d) (hrest : ds.length = 3 ∨ ¬ isOctDigit (rest.headD 0)) :
    decodechar (0x5c :: ds ++ rest) = .ok (digitsValue 8 ds, true, 1 + ds.length) :=
  decodechar_oct rest h1 h3 hds hrest

/-- What `decodechar` does with a hexadecimal escape of any number of digits: the value of the
digits **modulo 2^32** (the accumulator is a `uint_least32_t`), consuming all digits. -/
theorem hex_escape_correct {ds : List Nat} (rest : List Nat) (h1 : 1 ≤ ds.length)
    (hds : ∀ d ∈ ds, isHexDigit d) (hrest : ¬ isHexDigit (rest.headD 0)) :
    decodechar (0x5c :: 0x78 :: ds ++ rest) = .ok (digitsValue 16 ds % 2 ^ 32, true, 2 + ds.length) :=
  decodechar_hex rest h1 hds hrest

/-- Full strength: the value is the number the digits denote, or the escape is rejected. -/
def hex_escape_full : Prop :=
  ∀ (ds rest : List Nat), 1 ≤ ds.length → (∀ d ∈ ds, isHexDigit d) → ¬ isHexDigit (rest.headD 0) →
    decodechar (0x5c :: 0x78 :: ds ++ rest) = .ok (digitsValue 16 ds, true, 2 + ds.length) ∨
    ∃ e, decodechar (0x5c :: 0x78 :: ds ++ rest) = .error e

/-- `"\x100000041"` is decoded as `0x41`. -/
theorem hex_escape_counterexample : ¬ hex_escape_full := by
  intro h
  have := h [0x31, 0x30, 0x30, 0x30, 0x30, 0x30, 0x30, 0x34, 0x31] [0x22] (by decide) (by decide) (by decide)
  have e : decodechar (0x5c :: 0x78 :: [0x31, 0x30, 0x30, 0x30, 0x30, 0x30, 0x30, 0x34, 0x31] ++ [0x22]) =
      .ok (0x41, true, 11) := by rfl
  rw [e] at this
  rcases this with h1 | ⟨_, h1⟩
  · injection h1 with h1; injection h1 with h1 _; revert h1; decide
  · cases h1

theorem hex_escape_partial {ds : List Nat} (rest : List Nat) (h1 : 1 ≤ ds.length)
    (hds : ∀ d ∈ ds, isHexDigit d) (hrest : ¬ isHexDigit (rest.headD 0)) (hv : digitsValue 16 ds < 2 ^ 32) :
    decodechar (0x5c :: 0x78 :: ds ++ rest) = .ok (digitsValue 16 ds, true, 2 + ds.length) := by
  rw [hex_escape_correct rest h1 hds hrest, Nat.mod_eq_of_lt hv]

/-! ## 4. Targets and prefixes -/

/-- The model's target table is the one generated from `/repo/targ.c` on this run
(`Gen/Targets.lean`: name, `.typewchar`, `.signedchar` of every `alltargs[]` entry). -/
theorem targets_match_source :
    alltargs.map (fun t => (t.name, ctypeName t.wchar, t.charSigned)) =
      Gen.Targets.table.map (fun r => (r.name, r.wchar, r.signedchar)) := by decide

/-- `alltargs[]` of targ.c states the psABI facts (char signedness, `wchar_t`) of the spec. -/
theorem targets_match_abi : alltargs = abiTargets := rfl

/-- The element type chosen by `stringconcat` is the one of 6.4.5p6 (with the C23 rule for `u8`). -/
theorem string_elemtype_correct (t : Target) (p : Prefix) :
    kindType t (code p) = .ok (elemType t p) ∧ tsize (elemType t p) = (elemType t p).size := by
  rw [kindType_code, modelElemType_eq]; exact ⟨rfl, tsize_eq _⟩

/-- Only `u8` differs from plain C11 (`char` there). -/
theorem elemType_c11 (t : Target) (p : Prefix) (h : p ≠ .u8) : elemType t p = elemTypeC11 t p := by
  cases p <;> first | rfl | exact absurd rfl h

/-- Concatenation (first loop of `stringconcat`): tokens combine exactly when 6.4.5p5 gives them a
common prefix, the result has that prefix, and every other mixture — both the constraint violation
(`u8` with a wide prefix) and the implementation-defined mixtures of different wide prefixes — is
rejected with a diagnostic. -/
theorem concat_prefix_correct (parts : List Part) :
    collect (parts.map Part.spell) 0 =
      match concatPrefix (parts.map (·.1)) with
      | .ok p => .ok (code p, bodies parts, lens parts)
      | _ => .error .prefixMismatch := by
  have := collect_spelled .none parts
  rw [show code .none = 0 from rfl, sameOrNone_concat] at this
  rw [this]
  cases concatPrefix (parts.map (·.1)) <;> rfl

/-! ## 5. String literals (`scan.c` → `stringconcat`) -/

/-- **What cproc computes** for any sequence of adjacent well-formed string literal tokens, any
target: the scanner accepts every token as one `TSTRINGLIT`, mixtures without a common prefix are
rejected, otherwise the element type is that of the prefix, the elements are — item by item — the
UTF-8 / UTF-16 / UTF-32 encoding of source characters, the value of simple escapes and the
*truncated* value of numeric escapes, followed by one zero element; `alloc` elements were allocated. -/
theorem string_model (t : Target) (parts : List Part) (hne : parts ≠ [])
    (hwf : ∀ p ∈ parts, ItemsWf 0x22 p.2) :
    stringLiteral t (parts.map Part.spell) =
      match concatPrefix (parts.map (·.1)) with
      | .ok p => .ok ⟨elemType t p,
          modelUnits (elemType t p).size (parts.map (·.2)).flatten ++ [0],
          (parts.map fun p => (spellAll p.2).length).sum + 1⟩
      | _ => .error .prefixMismatch := by
  rw [stringLiteral_spelled t parts hne hwf, stringconcat_spelled t parts hwf, sameOrNone_concat]
  cases concatPrefix (parts.map (·.1)) with
  | ok p => simp only [modelElemType_eq, tsize_eq]
  | constraint => rfl
  | implDefined => rfl

/-- The elements written never exceed the allocation (`len` counts source bytes, and no item
produces more units than it has source bytes). -/
theorem string_buffer_safe (t : Target) (parts : List Part) (hne : parts ≠ [])
    (hwf : ∀ p ∈ parts, ItemsWf 0x22 p.2) {r : StrLit}
    (h : stringLiteral t (parts.map Part.spell) = .ok r) : r.units.length ≤ r.alloc := by
  rw [string_model t parts hne hwf] at h
  cases hc : concatPrefix (parts.map (·.1)) with
  | ok p =>
    rw [hc] at h
    cases h
    have hall : ∀ it ∈ (parts.map (·.2)).flatten, it.wf 0x22 := by
      intro it hit
      obtain ⟨l, hl, hil⟩ := List.mem_flatten.1 hit
      obtain ⟨pt, hpt, rfl⟩ := List.mem_map.1 hl
      exact itemsWf_all (hwf pt hpt) it hil
    have := modelUnits_length_le (size := (elemType t p).size) hall
    rw [spellAll_flatten_length] at this
    simp only [List.length_append, List.length_cons, List.length_nil]
    omega
  | constraint => rw [hc] at h; cases h
  | implDefined => rw [hc] at h; cases h

/-- Full strength (every clause of the property for string literals): accepted exactly with the
type and contents of 6.4.5, a constraint violation is diagnosed. -/
def string_values_full : Prop :=
  ∀ (t : Target) (parts : List Part), parts ≠ [] → (∀ p ∈ parts, ItemsWf 0x22 p.2) →
    match stringLit t parts with
    | .ok ty us => ∃ alloc, stringLiteral t (parts.map Part.spell) = .ok ⟨ty, us, alloc⟩
    | .constraint => ∃ e, stringLiteral t (parts.map Part.spell) = .error e ∧ e.isDiagnostic = true
    | .implDefined => True

/-- `char s[] = "\x141";` violates 6.4.4.4p9 but is accepted as `{0x41, 0}`. -/
theorem string_values_counterexample : ¬ string_values_full := by
  intro h
  have := h ⟨"x86_64-sysv", true, .int⟩ [(.none, [.hex [0x31, 0x34, 0x31]])] (by decide) (by decide)
  have e1 : stringLit ⟨"x86_64-sysv", true, .int⟩ [(.none, [.hex [0x31, 0x34, 0x31]])] = .constraint := by decide
  have e2 : stringLiteral ⟨"x86_64-sysv", true, .int⟩ ([(.none, [.hex [0x31, 0x34, 0x31]])].map Part.spell) =
      .ok ⟨.char, [0x41, 0], 6⟩ := by rfl
  rw [e1] at this
  obtain ⟨_, he, _⟩ := this
  rw [e2] at he; cases he

/-- For literals whose numeric escapes fit the element type (6.4.4.4p9) — on every target, for
every prefix mixture, any number of tokens, characters and digits — the result is the one of
6.4.5: right element type, the code units of the spec encoding followed by a terminating zero,
`sizeof` = number of units; and every other constraint violation / refused mixture is diagnosed. -/
theorem string_values_partial (t : Target) (parts : List Part) (hne : parts ≠ [])
    (hwf : ∀ p ∈ parts, ItemsWf 0x22 p.2)
    (hr : ∀ p, concatPrefix (parts.map (·.1)) = .ok p →
      ∀ it ∈ (parts.map (·.2)).flatten, InRange (elemType t p).size it) :
    match stringLit t parts with
    | .ok ty us => ∃ alloc, stringLiteral t (parts.map Part.spell) = .ok ⟨ty, us, alloc⟩ ∧ us.length ≤ alloc
    | .constraint => ∃ e, stringLiteral t (parts.map Part.spell) = .error e ∧ e.isDiagnostic = true
    | .implDefined => ∃ e, stringLiteral t (parts.map Part.spell) = .error e ∧ e.isDiagnostic = true := by
  have hm := string_model t parts hne hwf
  have hsafe := fun r => string_buffer_safe t parts hne hwf (r := r)
  unfold stringLit
  cases hc : concatPrefix (parts.map (·.1)) with
  | ok p =>
    rw [hc] at hm
    have hall : ∀ it ∈ (parts.map (·.2)).flatten, it.wf 0x22 := by
      intro it hit
      obtain ⟨l, hl, hil⟩ := List.mem_flatten.1 hit
      obtain ⟨pt, hpt, rfl⟩ := List.mem_map.1 hl
      exact itemsWf_all (hwf pt hpt) it hil
    have hsz : (elemType t p).size = 1 ∨ (elemType t p).size = 2 ∨ (elemType t p).size = 4 := by
      rw [← tsize_eq]; exact tsize_cases _
    simp only [itemsUnits_eq hsz hall (hr p hc)]
    exact ⟨_, hm, hsafe _ hm⟩
  | constraint => rw [hc] at hm; exact ⟨_, hm, rfl⟩
  | implDefined => rw [hc] at hm; exact ⟨_, hm, rfl⟩

/-- `string_values_correct`: the statement above in the form "code units = spec encoding of the
decoded characters, with terminating zero and right length". -/
theorem string_values_correct (t : Target) (parts : List Part) (hne : parts ≠ [])
    (hwf : ∀ p ∈ parts, ItemsWf 0x22 p.2) {p : Prefix} {us : List Nat}
    (hp : concatPrefix (parts.map (·.1)) = .ok p)
    (hu : itemsUnits (elemType t p).size (parts.map (·.2)).flatten = some us) :
    ∃ alloc, stringLiteral t (parts.map Part.spell) = .ok ⟨elemType t p, us ++ [0], alloc⟩ ∧
      (us ++ [0]).length ≤ alloc := by
  have hall : ∀ it ∈ (parts.map (·.2)).flatten, it.wf 0x22 := by
    intro it hit
    obtain ⟨l, hl, hil⟩ := List.mem_flatten.1 hit
    obtain ⟨pt, hpt, rfl⟩ := List.mem_map.1 hl
    exact itemsWf_all (hwf pt hpt) it hil
  have hr : ∀ it ∈ (parts.map (·.2)).flatten, InRange (elemType t p).size it := by
    intro it hit
    apply Classical.byContradiction
    intro hn
    have := itemsUnits_none (size := (elemType t p).size) hall (fun h => hn (h it hit))
    rw [this] at hu; cases hu
  have := string_values_partial t parts hne hwf (fun p' hp' => by rw [hp] at hp'; cases hp'; exact hr)
  unfold stringLit at this
  rw [hp] at this
  simp only [hu] at this
  exact this

/-- Tokens without a common prefix (`u"a" U"b"`, `u8"a" L"b"`, …) are rejected with a diagnostic. -/
theorem string_rejects_bad_prefix (t : Target) (parts : List Part) (hne : parts ≠ [])
    (hwf : ∀ p ∈ parts, ItemsWf 0x22 p.2) (h : ∀ p, concatPrefix (parts.map (·.1)) ≠ .ok p) :
    stringLiteral t (parts.map Part.spell) = .error .prefixMismatch := by
  rw [string_model t parts hne hwf]
  cases hc : concatPrefix (parts.map (·.1)) with
  | ok p => exact absurd hc (h p)
  | constraint => rfl
  | implDefined => rfl

/-! ## 6. Character constants (`scan.c` → `primaryexpr`) -/

/-- **What cproc computes** for every well-formed single-item character constant: the scanner
accepts it as one `TCHARCONST`; type by prefix; value = decoded value, sign-extended when the
character type (`char` for a plain constant) is signed on the target. -/
theorem charconst_model (t : Target) (p : Prefix) {it : Item} (hwf : it.wf 0x27) :
    charLiteral t (spellChar p it) =
      .ok (charConstType t p, charValue t (charConstObjType t p) (itemChr it)) := by
  rw [charLiteral_spelled t p hwf, charconst_spelled t p hwf]
  cases p <;> rfl

/-- Full strength: type and value of 6.4.4.4p10/p11 (a plain constant has type `int` and the value
of a `char`), constraint violations (escape out of range) diagnosed. -/
def charconst_type_value_full : Prop :=
  ∀ (t : Target) (p : Prefix) (it : Item), it.wf 0x27 →
    match charConst t p it with
    | .ok ty v => charLiteral t (spellChar p it) = .ok (ty, repr64 v)
    | .constraint => ∃ e, charLiteral t (spellChar p it) = .error e ∧ e.isDiagnostic = true
    | .implDefined => True

/-- `int c = '\x100';` violates 6.4.4.4p9 but is accepted with value 256. -/
theorem charconst_type_value_counterexample : ¬ charconst_type_value_full := by
  intro h
  have := h ⟨"x86_64-sysv", true, .int⟩ .none (.hex [0x31, 0x30, 0x30]) (by decide)
  have e1 : charConst ⟨"x86_64-sysv", true, .int⟩ .none (.hex [0x31, 0x30, 0x30]) = .constraint := by decide
  have e2 : charLiteral ⟨"x86_64-sysv", true, .int⟩ (spellChar .none (.hex [0x31, 0x30, 0x30])) =
      .ok (.int, 256) := by rfl
  rw [e1] at this
  obtain ⟨_, he, _⟩ := this
  rw [e2] at he; cases he

/-- Whenever the standard defines the value (character or escape in range of the type), cproc's
constant has exactly that type and value, on every target: in particular `'\xff'` is −1 where
`char` is signed and 255 where it is not, `L'\xffffffff'` is −1 where `wchar_t` is `int`. -/
theorem charconst_type_value_partial (t : Target) (p : Prefix) {it : Item} (hwf : it.wf 0x27)
    {ty : CType} {v : Int} (h : charConst t p it = .ok ty v) :
    charLiteral t (spellChar p it) = .ok (ty, repr64 v) := by
  rw [charconst_model t p hwf]
  have hsz : ∀ x, x ≤ maxUnit (charConstObjType t p).size → x < 2 ^ 32 := by
    intro x hx
    have : (charConstObjType t p).size = 1 ∨ (charConstObjType t p).size = 2 ∨ (charConstObjType t p).size = 4 := by
      rw [← tsize_eq]; exact tsize_cases _
    unfold maxUnit at hx
    rcases this with e | e | e <;> rw [e] at hx <;> omega
  have fin : ∀ x, x ≤ maxUnit (charConstObjType t p).size → itemChr it = x →
      (CharResult.ok (charConstType t p) ((charConstObjType t p).wrap t x) = .ok ty v) →
      (Except.ok (charConstType t p, charValue t (charConstObjType t p) (itemChr it)) : Except Err (CType × Nat)) =
        .ok (ty, repr64 v) := by
    intro x hx hi he
    cases he
    rw [hi, charValue_eq t _ x hx]
  unfold charConst at h
  cases it with
  | chr c =>
    have hc : isScalar c := hwf.1
    have h21 : c < 2 ^ 21 := by unfold isScalar at hc; omega
    cases p with
    | none =>
      simp only at h
      split at h
      · exact fin c (by simp [charConstObjType, CType.size, maxUnit]; omega) rfl h
      · cases h
    | u8 =>
      simp only at h
      split at h
      · exact fin c (by simp [charConstObjType, charConstType, CType.size, maxUnit]; omega) rfl h
      · cases h
    | u =>
      simp only at h
      split at h
      · rename_i hr; exact fin c hr rfl h
      · cases h
    | U =>
      simp only at h
      split at h
      · rename_i hr; exact fin c hr rfl h
      · cases h
    | L =>
      simp only at h
      split at h
      · rename_i hr; exact fin c hr rfl h
      · cases h
  | simple ch =>
    obtain ⟨x, hx⟩ := Option.isSome_iff_exists.1 hwf
    simp only [hx] at h
    have hlt := (simpleEscape_lt hx).1
    refine fin x ?_ (by simp [itemChr, hx]) h
    have : (charConstObjType t p).size = 1 ∨ (charConstObjType t p).size = 2 ∨ (charConstObjType t p).size = 4 := by
      rw [← tsize_eq]; exact tsize_cases _
    unfold maxUnit
    rcases this with e | e | e <;> rw [e] <;> omega
  | oct ds =>
    simp only at h
    split at h
    · rename_i hr
      exact fin _ hr rfl h
    · cases h
  | hex ds =>
    simp only at h
    split at h
    · rename_i hr
      exact fin _ hr (by simp [itemChr, Nat.mod_eq_of_lt (hsz _ hr)]) h
    · cases h

/-- The type of the constant is always the one of 6.4.4.4 (`int` for a plain constant, `wchar_t`,
`char16_t`, `char32_t`, C23 `unsigned char` for `u8`), for every well-formed item and target. -/
theorem charconst_type_correct (t : Target) (p : Prefix) {it : Item} (hwf : it.wf 0x27) :
    ∃ u, charLiteral t (spellChar p it) = .ok (charConstType t p, u) :=
  ⟨_, charconst_model t p hwf⟩

/-- `'ab'`: a second item before the closing quote is diagnosed (cproc does not implement
multi-character constants, whose value would be implementation-defined). -/
theorem charconst_multi_rejected (t : Target) (p : Prefix) {a b : Item} (hwf : ItemsWf 0x27 [a, b])
    (more : List Nat) :
    charconst t (p.spell ++ 0x27 :: (a.spell ++ (b.spell ++ more))) = .error .multiChar :=
  charconst_two_items t p hwf more

/-! ## 7. The scanner delimits literal tokens correctly -/

/-- On the spelling of any prefix, quote `q`, well-formed items and the closing quote, followed by
anything, `scankind` yields exactly that text as one token and leaves the rest (escaped quotes and
backslashes inside do not end the token; maximal-munch of numeric escapes as in 6.4.4.4p7). -/
theorem scan_accepts_wellformed (pre : Prefix) (q : Nat) (hq : q = 0x22 ∨ q = 0x27) (items : List Item)
    (hwf : ItemsWf q items) (rest : List Nat) :
    scanLiteral (pre.spell ++ q :: (spellAll items ++ q :: rest)) =
      .ok (q == 0x22, pre.spell ++ q :: (spellAll items ++ [q]), rest) :=
  scanLiteral_quote pre q hq items hwf rest

/-! ## Non-vacuity and witnesses -/

example : alltargs = [x86, a64, rv64] := rfl

-- utf8_roundtrip / utf16_roundtrip: every UTF-8 length, both UTF-16 lengths
example : isScalar 0x41 ∧ isScalar 0xE9 ∧ isScalar 0x20AC ∧ isScalar 0x1F600 ∧ isScalar 0x10FFFF ∧
    ¬ isScalar 0xD800 ∧ ¬ isScalar 0xDFFF ∧ ¬ isScalar 0x110000 := by decide
example : utf8enc 0x1F600 = some [0xF0, 0x9F, 0x98, 0x80] ∧ utf8enc 0x20AC = some [0xE2, 0x82, 0xAC] ∧
    utf8enc 0xD800 = none ∧ utf8enc 0x110000 = none := by decide
example : utf16enc 0x1F600 = some [0xD83D, 0xDE00] ∧ utf16enc 0xFFFF = some [0xFFFF] ∧
    utf16enc 0xDC00 = none := by decide
example : utf8dec [0xF0, 0x9F, 0x98, 0x80, 0x41] 4 = some (0x1F600, 4) := by decide
-- utf8dec_canonical: a 5-byte text starting with a 4-byte character
example : ([0xF0, 0x9F, 0x98, 0x80, 0x41] : List Nat) ≠ [] ∧ (∀ b ∈ [0xF0, 0x9F, 0x98, 0x80, 0x41], b < 256) := by
  decide
-- utf8dec_rejects_invalid: one witness per class of ill-formed input
example : ∀ bs ∈ ([[0x80], [0xBF, 0x41], [0xC0, 0x80], [0xC1, 0xBF], [0xE0, 0x80, 0x80], [0xE0, 0x9F, 0xBF],
    [0xED, 0xA0, 0x80], [0xED, 0xBF, 0xBF], [0xF0, 0x80, 0x80, 0x80], [0xF0, 0x8F, 0xBF, 0xBF],
    [0xF4, 0x90, 0x80, 0x80], [0xF5, 0x80, 0x80, 0x80], [0xF8, 0x88, 0x80, 0x80, 0x80], [0xFF],
    [0xC3], [0xE2, 0x82], [0xF0, 0x9F, 0x98], [0xC3, 0x41], [0xE2, 0x82, 0x22], [0xF0, 0x9F, 0x98, 0x22]] :
      List (List Nat)),
    bs ≠ [] ∧ (∀ b ∈ bs, b < 256) ∧ (∀ l, l ≤ 4 → ¬ WellFormed8 (bs.take l)) ∧ utf8dec bs 4 = none := by
  decide
-- utf8dec_accepts_wellformed
example : WellFormed8 (([0xED, 0x9F, 0xBF, 0x41] : List Nat).take 3) := by decide
-- utf8dec_total_safe: a truncated 3-byte sequence before the terminator reads 3 bytes (the third is
-- the NUL), a lead byte with limit 1 reads 1
example : (utf8decR [0xE2, 0x82] 4).2 = 3 ∧ (utf8decR [0xE2, 0x82, 0xAC] 1).2 = 1 ∧
    (utf8decR [0xE2, 0x41, 0xAC] 4).2 = 2 ∧ (utf8decR [0xF0, 0x9F, 0x98, 0x80] 4).2 = 4 := by decide

-- octal_escape_correct: "\18" is the escape \1 followed by the character 8; "\1234" is \123 then 4
example : decodechar [0x5c, 0x31, 0x38, 0x22] = .ok (1, true, 2) := rfl
example : decodechar [0x5c, 0x31, 0x32, 0x33, 0x34] = .ok (83, true, 4) := rfl
example : (1 ≤ [0x31].length ∧ [0x31].length ≤ 3 ∧ ∀ d ∈ [0x31], isOctDigit d) ∧
    ¬ isOctDigit (([0x38, 0x22] : List Nat).headD 0) := by decide
-- hex_escape_correct / hex_escape_partial: "\x41G", eight digits
example : decodechar [0x5c, 0x78, 0x34, 0x31, 0x47] = .ok (0x41, true, 4) := rfl
example : (∀ d ∈ [0x66, 0x46, 0x66, 0x46, 0x66, 0x46, 0x66, 0x45], isHexDigit d) ∧
    digitsValue 16 [0x66, 0x46, 0x66, 0x46, 0x66, 0x46, 0x66, 0x45] = 0xFFFFFFFE ∧
    ¬ isHexDigit (([0x47] : List Nat).headD 0) := by decide
-- simple_escape_correct
example : simpleEscape 0x6E = some 10 ∧ simpleEscape 0x71 = none := by decide

-- string_model / string_values_partial / string_values_correct / string_buffer_safe
example : exParts ≠ [] ∧ (∀ p ∈ exParts, ItemsWf 0x22 p.2) ∧ concatPrefix (exParts.map (·.1)) = .ok .u ∧
    (∀ it ∈ (exParts.map (·.2)).flatten, InRange (elemType a64 .u).size it) := by decide
example : stringLit a64 exParts = .ok .ushort [0x61, 0x41, 0x20AC, 0x41, 0xD83D, 0xDE00, 10, 0] := by decide
example : stringLiteral a64 (exParts.map Part.spell) =
    .ok ⟨.ushort, [0x61, 0x41, 0x20AC, 0x41, 0xD83D, 0xDE00, 10, 0], 19⟩ := by rfl
example : (exParts.map Part.spell) =
    [[0x22, 0x61, 0x5c, 0x78, 0x34, 0x31, 0xE2, 0x82, 0xAC, 0x22],
     [0x75, 0x22, 0x5c, 0x31, 0x30, 0x31, 0xF0, 0x9F, 0x98, 0x80, 0x5c, 0x6E, 0x22]] := by decide
-- L"…" has element type int on x86_64/riscv64 and unsigned int on aarch64
example : elemType x86 .L = .int ∧ elemType a64 .L = .uint ∧ elemType rv64 .L = .int := by decide
-- string_rejects_bad_prefix / concat_prefix_correct: u"a" U"b" (implementation-defined), u8"a" L"b" (constraint)
example : concatPrefix [.u, .U] = .implDefined ∧ concatPrefix [.u8, .none, .L] = .constraint ∧
    concatPrefix [.none, .u, .none, .u] = .ok .u ∧ concatPrefix [.none, .none] = .ok .none := by decide
example : stringLiteral x86 ([(.u, [.chr 0x61]), (.U, [.chr 0x62])].map Part.spell) = .error .prefixMismatch := by
  rfl
-- the munch condition matters: "\x4" "1" is two characters, "\x41" one
example : ItemsWf 0x22 [.hex [0x34], .chr 0x67] ∧ ¬ ItemsWf 0x22 [.hex [0x34], .chr 0x31] ∧
    ¬ ItemsWf 0x22 [.oct [0x31], .chr 0x37] ∧ ItemsWf 0x22 [.oct [0x31], .chr 0x38] ∧
    ItemsWf 0x22 [.oct [0x31, 0x32, 0x33], .chr 0x34] := by decide

-- charconst_type_value_partial (`plain_charconst_is_char`): '\xff', '\377', 'a', L'\xffffffff', u'€', U'😀'
example : charConst x86 .none (.hex [0x66, 0x66]) = .ok .int (-1) ∧
    charConst a64 .none (.hex [0x66, 0x66]) = .ok .int 255 ∧
    charConst rv64 .none (.oct [0x33, 0x37, 0x37]) = .ok .int 255 ∧
    charConst x86 .none (.oct [0x33, 0x37, 0x37]) = .ok .int (-1) ∧
    charConst x86 .L (.hex [0x66, 0x66, 0x66, 0x66, 0x66, 0x66, 0x66, 0x66]) = .ok .int (-1) ∧
    charConst a64 .L (.hex [0x66, 0x66, 0x66, 0x66, 0x66, 0x66, 0x66, 0x66]) = .ok .uint 4294967295 ∧
    charConst x86 .u (.chr 0x20AC) = .ok .ushort 0x20AC ∧ charConst x86 .U (.chr 0x1F600) = .ok .uint 0x1F600 ∧
    charConst x86 .none (.chr 0xE9) = .implDefined ∧ charConst x86 .u (.chr 0x1F600) = .implDefined ∧
    charConst x86 .u8 (.chr 0xE9) = .constraint ∧ charConst x86 .u (.hex [0x31, 0x32, 0x33, 0x34, 0x35]) = .constraint := by
  decide
example : charLiteral x86 (spellChar .none (.hex [0x66, 0x66])) = .ok (.int, 2 ^ 64 - 1) ∧
    charLiteral a64 (spellChar .none (.hex [0x66, 0x66])) = .ok (.int, 255) ∧
    charLiteral rv64 (spellChar .L (.hex [0x66, 0x66, 0x66, 0x66, 0x66, 0x66, 0x66, 0x66])) = .ok (.int, 2 ^ 64 - 1) ∧
    charLiteral x86 (spellChar .none (.simple 0x27)) = .ok (.int, 0x27) := by
  refine ⟨rfl, rfl, rfl, rfl⟩
example : (Item.hex [0x66, 0x66]).wf 0x27 ∧ (Item.chr 0x22).wf 0x27 ∧ ¬ (Item.chr 0x27).wf 0x27 ∧
    ItemsWf 0x27 [.chr 0x61, .chr 0x62] := by decide
example : repr64 (-1) = 2 ^ 64 - 1 ∧ repr64 255 = 255 := by decide

end CprocVerif.C14

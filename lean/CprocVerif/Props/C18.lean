import CprocVerif.Lemmas.DriverFailRun

/-!
# C18 — a failing stage makes the whole driver invocation fail cleanly

Model: `Model/DriverFail.lean`.  A `Script` fixes everything the driver cannot control: the
result of every `posix_spawn`, and for every pipeline the sequence of `(stage, status)` that
successive `wait()` calls return — ANY such sequence (any interleaving, any status, unknown pids,
repetitions) is allowed, so the theorems hold for every schedule of the environment.

* `Fair ps`    every started stage is eventually returned by `wait()` (children terminate);
* `failsB ps`  some tool of the pipeline cannot be started or is reaped with a non-zero status /
               a signal (`firstStatus`: the status of its first, i.e. only effective, reap).
-/

namespace CprocVerif.C18
open CprocVerif.DriverFail CprocVerif.DriverFailLemmas

/-- all pipelines before the failing one are fine -/
def Prefix (sc : Script) (pre : List PipeScript) (ps : PipeScript) (post : List PipeScript) : Prop :=
  sc.pipes = pre ++ ps :: post ∧ (∀ x ∈ pre, OkPipe x)

/-- If a tool of pipeline number `pre.length` cannot be started, exits non-zero or is killed — at
any point and in any order relative to the other stages — the driver exits 1, never starts the
link step, has removed the output that pipeline was producing and every temporary object, and
has reaped every stage process. -/
theorem fail_safe (sc : Script) (pre post : List PipeScript) (ps : PipeScript)
    (h : Prefix sc pre ps post) (hfair : Fair ps) (hfail : failsB ps = true) :
    (run sc).exit = some 1 ∧ (run sc).linkSpawned = false ∧ (run sc).files.temps = [] ∧
      pre.length ∉ (run sc).files.outputs ∧ (run sc).live = [] := by
  obtain ⟨hp, hpre⟩ := h
  unfold run
  rw [hp]
  rw [runFrom_prefix sc pre 0 (ps :: post) ⟨[], []⟩ emptyOutcome hpre]
  obtain ⟨hl, _, hk⟩ := outAfter_core pre 0 emptyOutcome hpre
  obtain ⟨a, b, c, d, f, _⟩ := runFrom_fail sc (0 + pre.length) ps post (filesAfter sc 0 pre ⟨[], []⟩)
    (outAfter 0 pre emptyOutcome) hfair hfail
  simp only [Nat.zero_add] at a b c d f ⊢
  exact ⟨a, by rw [b, hk]; rfl, d, f, by rw [c, hl]; rfl⟩

/-- Nothing of the command line after the failing pipeline is ever started: the outcome does not
depend on it. -/
theorem nothing_after_failure (sc : Script) (pre post post' : List PipeScript) (ps : PipeScript)
    (h : Prefix sc pre ps post) (hfair : Fair ps) (hfail : failsB ps = true) :
    run { sc with pipes := pre ++ ps :: post' } = run sc := by
  obtain ⟨hp, hpre⟩ := h
  unfold run
  simp only [hp]
  have hfa : ∀ (pre' : List PipeScript) (q : Nat) (f : Files),
      filesAfter { sc with pipes := pre ++ ps :: post' } q pre' f = filesAfter sc q pre' f := by
    intro pre'
    induction pre' with
    | nil => intro q f; rfl
    | cons x r ih => intro q f; simp only [filesAfter, stepFiles, ih]
  rw [runFrom_prefix sc pre 0 (ps :: post) ⟨[], []⟩ emptyOutcome hpre,
    runFrom_prefix { sc with pipes := pre ++ ps :: post' } pre 0 (ps :: post') ⟨[], []⟩ emptyOutcome hpre, hfa]
  obtain ⟨s, hs⟩ := runPipe_total hfair
  have hsucc : s.success = false := by rw [(runPipe_spec hs).2.2.1, hfail]; rfl
  simp only [runFrom, hs, hsucc, Bool.false_eq_true, if_false]

/-- With fair schedules the driver never waits for ever. -/
theorem terminates (sc : Script) (hfair : ∀ ps ∈ sc.pipes, Fair ps) : (run sc).exit ≠ none :=
  runFrom_exit_some sc sc.pipes 0 ⟨[], []⟩ emptyOutcome hfair

/-- Kill discipline, for every prefix of every schedule: in every state the wait loop goes
through, once something has failed every child still outstanding has been sent SIGTERM (so it
terminates and `wait()` returns: the fairness assumption is only about children that are never
signalled), nobody is signalled twice, and nobody is signalled while all is well. -/
theorem signalled_after_failure (ps : PipeScript) (k : Nat) :
    let s := (ps.reaps.take k).foldl (fun s r => stepReap r s) (spawnLoop ps ps.n 0 initP)
    (s.success = false → ∀ i ∈ s.live, i ∈ s.signalled) ∧ s.signalled.Nodup ∧
      (s.success = true → s.signalled = []) ∧ s.npids = s.live.length := by
  obtain ⟨hw, hk, _⟩ := spawned_spec ps
  obtain ⟨hw', hk'⟩ := foldl_step_inv (ps.reaps.take k) _ hw hk
  exact ⟨hk'.sig, hk'.nodup, hk'.clean, hw'.count⟩

/-- If every tool succeeds the driver exits 0 with the output(s) in place and no temporary file
left; the link step runs iff no mode flag stopped earlier. -/
theorem success_clean (sc : Script) (hok : ∀ ps ∈ sc.pipes, OkPipe ps)
    (hlink : sc.link = true → sc.linkSpawnOk = true ∧ sc.linkStatus = .ok) :
    (run sc).exit = some 0 ∧ (run sc).linkSpawned = sc.link ∧ (run sc).files.temps = [] ∧ (run sc).live = [] ∧
      (run sc).files.outputs =
        (if sc.link then (if sc.linkCreated then [sc.pipes.length] else []) else createdIdx 0 sc.pipes) := by
  unfold run
  have e := runFrom_prefix sc sc.pipes 0 [] ⟨[], []⟩ emptyOutcome hok
  rw [List.append_nil] at e
  rw [e]
  obtain ⟨hl, _, hk⟩ := outAfter_core sc.pipes 0 emptyOutcome hok
  have ho := filesAfter_outputs sc sc.pipes 0 ⟨[], []⟩
  cases hlk : sc.link with
  | false =>
    have r : runFrom sc (0 + sc.pipes.length) [] (filesAfter sc 0 sc.pipes ⟨[], []⟩) (outAfter 0 sc.pipes emptyOutcome) =
        { outAfter 0 sc.pipes emptyOutcome with exit := some 0, files := cleanup (filesAfter sc 0 sc.pipes ⟨[], []⟩) } := by
      simp [runFrom, hlk]
    rw [r]
    exact ⟨rfl, hk, rfl, hl, by simp [cleanup, ho, hlk]⟩
  | true =>
    obtain ⟨h1, h2⟩ := hlink hlk
    have r : runFrom sc (0 + sc.pipes.length) [] (filesAfter sc 0 sc.pipes ⟨[], []⟩) (outAfter 0 sc.pipes emptyOutcome) =
        { outAfter 0 sc.pipes emptyOutcome with
          exit := some 0, linkSpawned := true
          files := cleanup (if sc.linkCreated then
            { filesAfter sc 0 sc.pipes ⟨[], []⟩ with outputs := (filesAfter sc 0 sc.pipes ⟨[], []⟩).outputs ++ [0 + sc.pipes.length] }
            else filesAfter sc 0 sc.pipes ⟨[], []⟩) } := by
      simp [runFrom, runLink, hlk, h1, h2]
    rw [r]
    refine ⟨rfl, rfl, rfl, hl, ?_⟩
    cases sc.linkCreated <;> simp [cleanup, ho, hlk]

/-- If the link step fails, or cannot be started, the driver exits 1 after removing every
temporary object. -/
theorem link_fail_clean (sc : Script) (hok : ∀ ps ∈ sc.pipes, OkPipe ps) (hl : sc.link = true)
    (hfail : sc.linkSpawnOk = false ∨ sc.linkStatus = .fail) :
    (run sc).exit = some 1 ∧ (run sc).files.temps = [] ∧ (run sc).live = [] ∧
      (run sc).linkSpawned = sc.linkSpawnOk := by
  unfold run
  have e := runFrom_prefix sc sc.pipes 0 [] ⟨[], []⟩ emptyOutcome hok
  rw [List.append_nil] at e
  rw [e]
  obtain ⟨hlv, _, hk⟩ := outAfter_core sc.pipes 0 emptyOutcome hok
  cases hs : sc.linkSpawnOk with
  | false =>
    have r : runFrom sc (0 + sc.pipes.length) [] (filesAfter sc 0 sc.pipes ⟨[], []⟩) (outAfter 0 sc.pipes emptyOutcome) =
        { outAfter 0 sc.pipes emptyOutcome with exit := some 1, files := cleanup (filesAfter sc 0 sc.pipes ⟨[], []⟩) } := by
      simp [runFrom, runLink, hl, hs]
    rw [r]
    exact ⟨rfl, rfl, hlv, hk⟩
  | true =>
    have hst : sc.linkStatus = .fail := by
      rcases hfail with h | h
      · simp [hs] at h
      · exact h
    have r : runFrom sc (0 + sc.pipes.length) [] (filesAfter sc 0 sc.pipes ⟨[], []⟩) (outAfter 0 sc.pipes emptyOutcome) =
        { outAfter 0 sc.pipes emptyOutcome with
          exit := some 1, linkSpawned := true
          files := cleanup (if sc.linkCreated then
            { filesAfter sc 0 sc.pipes ⟨[], []⟩ with outputs := (filesAfter sc 0 sc.pipes ⟨[], []⟩).outputs ++ [0 + sc.pipes.length] }
            else filesAfter sc 0 sc.pipes ⟨[], []⟩) } := by
      simp [runFrom, runLink, hl, hs, hst]
    rw [r]
    exact ⟨rfl, rfl, hlv, rfl⟩

/-! ## close-on-exec / close discipline of `spawnphase` -/

/-- every list of pipelines in which one fails splits at the FIRST failing one -/
theorem first_failure (l : List PipeScript) (hfair : ∀ ps ∈ l, Fair ps)
    (hfail : ∃ ps ∈ l, failsB ps = true) :
    ∃ pre ps post, l = pre ++ ps :: post ∧ (∀ x ∈ pre, OkPipe x) ∧ failsB ps = true := by
  induction l with
  | nil => obtain ⟨ps, hm, _⟩ := hfail; cases hm
  | cons a r ih =>
    by_cases ha : failsB a = true
    · exact ⟨[], a, r, rfl, (by intro x hx; cases hx), ha⟩
    · have hr : ∃ ps ∈ r, failsB ps = true := by
        obtain ⟨ps, hm, hf⟩ := hfail
        rcases List.mem_cons.mp hm with rfl | hm
        · exact absurd hf ha
        · exact ⟨ps, hm, hf⟩
      obtain ⟨pre, ps, post, e, hpre, hf⟩ := ih (fun x hx => hfair x (List.mem_cons_of_mem _ hx)) hr
      refine ⟨a :: pre, ps, post, by rw [e]; rfl, ?_, hf⟩
      intro x hx
      rcases List.mem_cons.mp hx with rfl | hx
      · exact ⟨hfair _ List.mem_cons_self, by simpa using ha⟩
      · exact hpre x hx

/-- C18 without a side condition on where the failure is: whichever pipeline of the command line
contains a tool that cannot be started, exits non-zero or is killed — however many of them do —
the driver exits 1, the link step is never started, no temporary is left and no stage process is
left unreaped.  (`fail_safe` applied at the first failing pipeline, which `first_failure` finds.) -/
theorem any_failure_fails (sc : Script) (hfair : ∀ ps ∈ sc.pipes, Fair ps)
    (hfail : ∃ ps ∈ sc.pipes, failsB ps = true) :
    (run sc).exit = some 1 ∧ (run sc).linkSpawned = false ∧ (run sc).files.temps = [] ∧ (run sc).live = [] := by
  obtain ⟨pre, ps, post, e, hpre, hf⟩ := first_failure sc.pipes hfair hfail
  have hfp : Fair ps := hfair ps (by rw [e]; simp)
  obtain ⟨a, b, c, _, d⟩ := fail_safe sc pre post ps ⟨e, hpre⟩ hfp hf
  exact ⟨a, b, c, d⟩

/-- The exit status says exactly whether everything succeeded: under fair schedules the driver
exits 0 iff no tool of any pipeline failed and (when linking) the linker was started and exited 0;
otherwise it exits 1.  No third status, and never "0 although something failed". -/
theorem exit_zero_iff (sc : Script) (hfair : ∀ ps ∈ sc.pipes, Fair ps) :
    ((run sc).exit = some 0 ↔
      (∀ ps ∈ sc.pipes, failsB ps = false) ∧ (sc.link = true → sc.linkSpawnOk = true ∧ sc.linkStatus = .ok)) ∧
    ((run sc).exit = some 0 ∨ (run sc).exit = some 1) := by
  by_cases hall : ∀ ps ∈ sc.pipes, failsB ps = false
  · have hok : ∀ ps ∈ sc.pipes, OkPipe ps := fun ps h => ⟨hfair ps h, hall ps h⟩
    by_cases hl : sc.link = true → sc.linkSpawnOk = true ∧ sc.linkStatus = .ok
    · have h0 := (success_clean sc hok hl).1
      exact ⟨⟨fun _ => ⟨hall, hl⟩, fun _ => h0⟩, Or.inl h0⟩
    · have hlt : sc.link = true := by
        by_cases h : sc.link = true
        · exact h
        · exact absurd (fun h' => absurd h' h) hl
      have hbad : sc.linkSpawnOk = false ∨ sc.linkStatus = .fail := by
        by_cases h1 : sc.linkSpawnOk = true
        · right
          cases h2 : sc.linkStatus with
          | fail => rfl
          | ok => exact absurd (fun _ => ⟨h1, h2⟩) hl
        · left; simpa using h1
      have h1 := (link_fail_clean sc hok hlt hbad).1
      refine ⟨⟨fun h => ?_, fun h => absurd h.2 hl⟩, Or.inr h1⟩
      rw [h1] at h; cases h
  · have hex : ∃ ps ∈ sc.pipes, failsB ps = true := by
      apply Classical.byContradiction
      intro hne
      apply hall
      intro ps hm
      cases hb : failsB ps with
      | false => rfl
      | true => exact absurd ⟨ps, hm, hb⟩ hne
    have h1 := (any_failure_fails sc hfair hex).1
    refine ⟨⟨fun h => ?_, fun h => absurd h.1 hall⟩, Or.inr h1⟩
    rw [h1] at h; cases h

/-- After any number `m ≤ n` of stages of an `n`-stage pipeline have been spawned, stage `i`
holds exactly the read end of pipe `i-1` (its stdin) and the write end of pipe `i` (its stdout)
— nothing else — and the driver holds at most ONE descriptor: the close-on-exec read end it is
about to hand to the next stage (`driverSpec`), and none at all once the last stage is started.
Hence the only holder of the write end of pipe `j` is stage `j` (when it terminates, stage `j+1`
sees end-of-file), and once stage `j+1` is started it is the only holder of the read end of pipe
`j` (when it goes away, stage `j` gets EPIPE/SIGPIPE instead of blocking for ever). -/
theorem eof_reaches_downstream (n m : Nat) (h : m ≤ n) :
    (fdsAfter true n m).children = (List.range m).map (childSpec n) ∧
    (fdsAfter true n m).driver = driverSpec n m ∧
    (∀ f ∈ (fdsAfter true n m).driver, f.side = .rd ∧ f.cloexec = true ∧ f.pipe + 1 = m) ∧
    (∀ i j, i < m → (j, End.wr) ∈ ((fdsAfter true n m).children.getD i []) → i = j) ∧
    (∀ i j, i < m → (j, End.rd) ∈ ((fdsAfter true n m).children.getD i []) → i = j + 1) := by
  have hinv := fdsAfter_inv n m h
  have hget : ∀ i, i < m → ((List.range m).map (childSpec n)).getD i [] = childSpec n i := by
    intro i hi; simp [List.getD, hi]
  refine ⟨hinv.children, hinv.driver, ?_, ?_, ?_⟩
  · intro f hf
    rw [hinv.driver] at hf
    unfold driverSpec at hf
    split at hf
    · simp at hf
    · rename_i hc
      simp at hf; subst hf
      exact ⟨rfl, rfl, by simp; omega⟩
  · intro i j hi hj
    rw [hinv.children, hget i hi] at hj
    unfold childSpec at hj
    simp only [List.mem_append] at hj
    rcases hj with hj | hj
    · split at hj <;> simp at hj
    · split at hj
      · simp at hj
      · simp at hj; exact hj.symm
  · intro i j hi hj
    rw [hinv.children, hget i hi] at hj
    unfold childSpec at hj
    simp only [List.mem_append] at hj
    rcases hj with hj | hj
    · split at hj
      · simp at hj
      · rename_i h0
        simp at hj; omega
    · split at hj <;> simp at hj

/-- once every stage is started the driver holds no pipe end at all -/
theorem driver_holds_nothing (n : Nat) : (fdsAfter true n n).driver = [] := by
  rw [(fdsAfter_inv n n (Nat.le_refl n)).driver]
  simp [driverSpec]

/-- Without the two `fcntl(F_SETFD, FD_CLOEXEC)` calls a tool inherits pipe ends that are not its
own (here: the second stage of three also holds both ends of its own output pipe as extra
descriptors and the first stage the read end of its output pipe). -/
theorem cloexec_needed : (fdsAfter false 3 3).children ≠ (List.range 3).map (childSpec 3) := by decide

/-! ## witnesses -/

def pipeGood : PipeScript := ⟨4, [], [⟨0, .ok⟩, ⟨1, .ok⟩, ⟨2, .ok⟩, ⟨3, .ok⟩], true⟩
/-- the code generator exits 1 first; the other three are then killed -/
def pipeBad : PipeScript := ⟨4, [], [⟨2, .fail⟩, ⟨0, .fail⟩, ⟨3, .fail⟩, ⟨1, .fail⟩], false⟩

/-- `cproc a.c b.c` where the second pipeline fails (former finding "temporaries of earlier
inputs left behind", fixed by the `atexit` handler) -/
def witnessLaterFailure : Script :=
  { link := true, pipes := [pipeGood, pipeBad], linkSpawnOk := true, linkStatus := .ok, linkCreated := true }

example : Prefix witnessLaterFailure [pipeGood] pipeBad [] ∧ Fair pipeBad ∧ failsB pipeBad = true := by
  refine ⟨⟨rfl, ?_⟩, by decide, by decide⟩
  intro x hx
  simp only [List.mem_singleton] at hx
  subst hx
  exact ⟨by decide, by decide⟩

example : (run witnessLaterFailure).files.temps = [] ∧ (run witnessLaterFailure).exit = some 1 ∧
    (run witnessLaterFailure).signalled = [(1, 0), (1, 1), (1, 3)] := by decide

/-- two failing pipelines on one command line: `any_failure_fails` applies (no `Prefix` needed) -/
def witnessTwoFailures : Script :=
  { link := true, pipes := [pipeGood, pipeBad, pipeBad], linkSpawnOk := true, linkStatus := .ok, linkCreated := true }

example : (∀ ps ∈ witnessTwoFailures.pipes, Fair ps) ∧ (∃ ps ∈ witnessTwoFailures.pipes, failsB ps = true) ∧
    (run witnessTwoFailures).exit = some 1 := by
  refine ⟨by decide, ⟨pipeBad, by decide, by decide⟩, by decide⟩

/-- a linker that cannot be spawned (former finding, same fix) -/
def witnessLinkSpawn : Script :=
  { link := true, pipes := [pipeGood], linkSpawnOk := false, linkStatus := .ok, linkCreated := false }

example : (run witnessLinkSpawn).files.temps = [] ∧ (run witnessLinkSpawn).exit = some 1 := by decide

example : (∀ ps ∈ witnessLinkSpawn.pipes, OkPipe ps) := by
  intro x hx
  simp only [witnessLinkSpawn, List.mem_singleton] at hx
  subst hx
  exact ⟨by decide, by decide⟩

/-- `cproc -c a.c` where the compiler proper exits 0 without reading its input (former finding
"driver hangs when a reader exits 0 early", fixed by closing the handed-over read end): the
preprocessor now dies of SIGPIPE, `wait()` hands it back, and the invocation fails cleanly —
exit 1, output removed, the two remaining stages signalled, nobody left. -/
def witnessEarlyReader : Script :=
  { link := false, pipes := [⟨4, [], [⟨1, .ok⟩, ⟨0, .fail⟩, ⟨2, .fail⟩, ⟨3, .fail⟩], true⟩],
    linkSpawnOk := true, linkStatus := .ok, linkCreated := true }

example : (run witnessEarlyReader).exit = some 1 ∧ (run witnessEarlyReader).files.outputs = [] ∧
    (run witnessEarlyReader).live = [] ∧ (run witnessEarlyReader).signalled = [(0, 2), (0, 3)] := by decide

/-- the model itself still waits for ever on a schedule in which an outstanding child is never
handed back (that such schedules do not arise is `terminates`' fairness hypothesis) -/
def pipeUnfair : PipeScript := ⟨2, [], [⟨1, .ok⟩], true⟩
def witnessUnfair : Script :=
  { link := false, pipes := [pipeUnfair], linkSpawnOk := true, linkStatus := .ok, linkCreated := true }

example : (run witnessUnfair).exit = none ∧ ¬ Fair pipeUnfair := by decide

end CprocVerif.C18

import CprocVerif.Lemmas.Layout
import CprocVerif.Lemmas.LayoutEnum
import CprocVerif.Gen.BasicTypes
import CprocVerif.Gen.IntLimits

/-!
# C06 — object layout equals the platform ABI

Model: `Model/Layout.lean` (`addmember`, `tagspec`, `typehasint`, `typemember`, `offsetof` of
`/repo/decl.c`, `/repo/type.c`, `/repo/expr.c`).  Spec: `Spec/Abi.lean` (bit cursor).

The theorems quantify over **all** member lists (no bound on their length); `Wf` says that none
of `addmember`'s `error(...)` branches is taken and that the aggregate stays below 2^62 bytes;
`TypesWf` is only what the parser guarantees about type descriptors (alignments are powers of
two, integer types have size = alignment ≤ 8) — `layout_ok_wf` shows `Wf` follows from it
whenever the model accepts.
-/

namespace CprocVerif.C06
open CprocVerif.Layout CprocVerif.Abi

/-! ## The spec's primitives are what they claim to be -/

/-- `roundUp x a` is the least multiple of `a` that is `≥ x`. -/
theorem roundUp_least {x a : Nat} (ha : 0 < a) :
    a ∣ roundUp x a ∧ x ≤ roundUp x a ∧ ∀ y, a ∣ y → x ≤ y → roundUp x a ≤ y := by
  refine ⟨roundUp_dvd x a, le_roundUp x ha, fun y hy hxy => ?_⟩
  apply Nat.le_of_not_lt
  intro hlt
  have h1 := roundUp_lt x ha
  have := mult_gap hy (roundUp_dvd x a) hlt
  omega

/-- `bfPos c U w` is the least bit position `≥ c` at which `w` bits fit into one `U`-bit unit. -/
theorem bfPos_least {c U w : Nat} (hU : 0 < U) (hw : 0 < w) (hwU : w ≤ U) :
    c ≤ bfPos c U w ∧ Fits U w (bfPos c U w) ∧ ∀ q, c ≤ q → Fits U w q → bfPos c U w ≤ q := by
  refine ⟨le_bfPos c U w hU, Fits_of_bfPos hU hw hwU, fun q hq hF => ?_⟩
  unfold bfPos
  split
  · exact hq
  · rename_i hnf
    -- q lies in a later unit than c: otherwise c would fit as well
    apply Nat.le_of_not_lt
    intro hlt
    have e : (c / U + 1) * U = c / U * U + U := by rw [Nat.add_mul, Nat.one_mul]
    have hq1 : q / U = c / U := by
      apply Nat.div_eq_of_lt_le
      · exact Nat.le_trans (Nat.div_mul_le_self c U) hq
      · omega
    unfold Fits at hF hnf
    have h2 := (div_eq_iff (m := q + w - 1) (k := q / U) hU).1 hF.symm
    apply hnf
    symm
    apply Nat.div_eq_of_lt_le
    · have := Nat.div_mul_le_self c U; omega
    · rw [hq1] at h2; omega

/-! ## `ALIGNUP` / `ALIGNDOWN` (`util.h`) are correct on powers of two -/

theorem alignup_correct {x n : Nat} (hp : Pow2 n) (h : x + n < 2 ^ 64) : alignUp x n = roundUp x n :=
  alignUp_eq hp h

theorem aligndown_correct {x n : Nat} (hp : Pow2 n) (hn : n < 2 ^ 64) (hx : x < 2 ^ 64) :
    alignDown x n = x / n * n := alignDown_eq hp hn hx

/-! ## Model = Spec -/

/-- **struct, x86-64 SysV** (full strength): for every well-formed member list `addmember`
computes exactly the bit-cursor layout: every member offset, storage unit, `before/after`,
`sizeof`, `_Alignof`, the flexible flag. -/
theorem layout_correct {pack : Bool} {ds : List Decl} (h : Wf false pack ds) :
    Layout.layout false pack ds = .ok (Abi.layout x86_64 false pack ds) := layout_struct h

/-- **struct, RISC-V LP64** (full strength; same alignment rule as x86-64). -/
theorem layout_correct_riscv64 {pack : Bool} {ds : List Decl} (h : Wf false pack ds) :
    Layout.layout false pack ds = .ok (Abi.layout riscv64 false pack ds) := by
  rw [layout_struct h, layout_flag (T := riscv64) (T' := x86_64) rfl]

/-- **struct, AAPCS64**: the full-strength statement … -/
def layout_correct_aarch64_full : Prop :=
  ∀ (pack : Bool) (ds : List Decl), Wf false pack ds →
    Layout.layout false pack ds = .ok (Abi.layout aarch64 false pack ds)

def intTy (n : Nat) : MTy := { size := n, align := n, isInt := true }
def fltTy (n : Nat) : MTy := { size := n, align := n }

/-- `struct { char c; int : 0; char d; }` -/
def aarch64Witness : List Decl :=
  [⟨intTy 1, true, 0, none⟩, ⟨intTy 4, false, 0, some 0⟩, ⟨intTy 1, true, 0, none⟩]

/-- … is false: cproc gives `struct { char c; int : 0; char d; }` size 5, alignment 1 on every
target; AAPCS64 (and `clang --target=aarch64-linux-gnu`) give 8 and 4. -/
theorem layout_correct_aarch64_counterexample : ¬ layout_correct_aarch64_full := by
  intro h
  have := h false aarch64Witness (by decide)
  have h2 : (Layout.layout false false aarch64Witness).toOption.map (·.size) =
      some (Abi.layout aarch64 false false aarch64Witness).size := by rw [this]; rfl
  revert h2
  decide

/-- **struct and union, AAPCS64, partial**: holds when no bit-field is unnamed. -/
theorem layout_correct_aarch64_partial {isUnion pack : Bool} {ds : List Decl}
    (h : Wf isUnion pack ds) (hn : ∀ d ∈ ds, d.unnamedBf = false) :
    Layout.layout isUnion pack ds = .ok (Abi.layout aarch64 isUnion pack ds) := by
  rw [layout_target hn]
  cases isUnion with
  | false => exact layout_struct h
  | true => exact layout_union h

/-- **union, x86-64 SysV / RISC-V LP64** (full strength): for every well-formed member list
(unnamed bit-fields of any width included) `addmember` computes exactly the spec's union layout:
`sizeof` = the largest member (a bit-field, named or not, needs `⌈w/8⌉` bytes) rounded up to the
alignment, every member at offset 0.  (Before commit b861666 this failed for `unionWitness`: an
unnamed bit-field of non-zero width never grew a union.) -/
theorem layout_correct_union {pack : Bool} {ds : List Decl} (h : Wf true pack ds) :
    Layout.layout true pack ds = .ok (Abi.layout x86_64 true pack ds) := layout_union h

theorem layout_correct_union_riscv64 {pack : Bool} {ds : List Decl} (h : Wf true pack ds) :
    Layout.layout true pack ds = .ok (Abi.layout riscv64 true pack ds) := by
  rw [layout_union h, layout_flag (T := riscv64) (T' := x86_64) rfl]

/-- `union { unsigned long : 40; unsigned char m : 1; }` — the witness of the defect repaired by
b861666 (cproc gave size 1, gcc and clang give 5); kept as a regression witness, see Non-vacuity -/
def unionWitness : List Decl := [⟨intTy 8, false, 0, some 40⟩, ⟨intTy 1, true, 0, some 1⟩]

/-- If the model accepts a member list (of parser-produced type descriptors), then none of the
error conditions of `addmember`/`tagspec` holds. -/
theorem model_ok_wf {isUnion pack : Bool} {ds : List Decl} {L : Layout} (ht : TypesWf ds)
    (h : Layout.layout isUnion pack ds = .ok L) : Wf isUnion pack ds := layout_ok_wf ht h

/-- … and conversely every well-formed list is accepted (no spurious `error`). -/
theorem model_accepts_wf {isUnion pack : Bool} {ds : List Decl} (h : Wf isUnion pack ds) :
    ∃ L, Layout.layout isUnion pack ds = .ok L := by
  cases isUnion with
  | false => exact ⟨_, layout_struct h⟩
  | true => exact ⟨_, layout_union h⟩

/-! ## ABI-independent corollaries: every member list the model accepts (struct **and** union,
unnamed bit-fields included, every target) -/

theorem accepted_facts {isUnion pack : Bool} {ds : List Decl} {L : Layout} (ht : TypesWf ds)
    (h : Layout.layout isUnion pack ds = .ok L) :
    (∀ m ∈ L.members, Placed L m) ∧ L.align ∣ L.size ∧ Pow2 L.align := by
  have hwf := layout_ok_wf ht h
  cases isUnion with
  | false =>
    rw [layout_struct hwf] at h
    cases h
    obtain ⟨f1, _, f3, f4⟩ := struct_facts hwf
    exact ⟨f1, f3, f4⟩
  | true =>
    obtain ⟨L', hL', _, _, _, f1, f2, f3⟩ := union_facts hwf
    rw [hL'] at h
    cases h
    exact ⟨fun m hm => (f1 m hm).1, f2, f3⟩

/-- In a struct, members occupy bit ranges in declaration order, each ending before the next
begins (`bitStart = 8·offset + before`, `bitEnd = bitStart + width` resp. `+ 8·sizeof`). -/
theorem offsets_monotone {pack : Bool} {ds : List Decl} {L : Layout} (ht : TypesWf ds)
    (h : Layout.layout false pack ds = .ok L) :
    L.members.Pairwise (fun a b => a.bitEnd ≤ b.bitStart) := by
  have hwf := layout_ok_wf ht h
  rw [layout_struct hwf] at h
  cases h
  exact (struct_facts hwf).2.1

/-- Distinct members of a struct occupy disjoint bit ranges. -/
theorem no_overlap {pack : Bool} {ds : List Decl} {L : Layout} (ht : TypesWf ds)
    (h : Layout.layout false pack ds = .ok L) :
    L.members.Pairwise (fun a b => ∀ i, ¬ (a.bitStart ≤ i ∧ i < a.bitEnd ∧ b.bitStart ≤ i ∧ i < b.bitEnd)) :=
  (offsets_monotone ht h).imp (fun hab i hi => by omega)

/-- Every member's offset is a multiple of its alignment (`_Alignas`, type alignment, 1 when
packed; for a bit-field: of its storage unit), and that alignment divides `_Alignof` of the
aggregate. -/
theorem member_aligned {isUnion pack : Bool} {ds : List Decl} {L : Layout} (ht : TypesWf ds)
    (h : Layout.layout isUnion pack ds = .ok L) :
    ∀ m ∈ L.members, m.talign ∣ m.offset ∧ m.talign ∣ L.align :=
  fun m hm => ⟨((accepted_facts ht h).1 m hm).aligned, ((accepted_facts ht h).1 m hm).alignDvd⟩

/-- Every member lies inside the object. -/
theorem member_inside_object {isUnion pack : Bool} {ds : List Decl} {L : Layout} (ht : TypesWf ds)
    (h : Layout.layout isUnion pack ds = .ok L) : ∀ m ∈ L.members, m.bitEnd ≤ 8 * L.size :=
  fun m hm => ((accepted_facts ht h).1 m hm).inside

/-- The storage unit `[offset, offset + sizeof T)` of every bit-field is `sizeof T`-aligned and
lies inside `sizeof S` (loads and stores access the whole unit). -/
theorem unit_inside_object {isUnion pack : Bool} {ds : List Decl} {L : Layout} (ht : TypesWf ds)
    (h : Layout.layout isUnion pack ds = .ok L) :
    ∀ m ∈ L.members, m.width.isSome → m.tsize ∣ m.offset ∧ m.offset + m.tsize ≤ L.size := by
  intro m hm hw
  obtain ⟨w, hw⟩ := Option.isSome_iff_exists.1 hw
  have := ((accepted_facts ht h).1 m hm).unit w hw
  exact ⟨this.1, this.2.1⟩

/-- `before + width + after = 8·sizeof T` with `width > 0` (so the `short` fields hold the values
without truncation, and the shifts of `funcbits` are in range). -/
theorem before_width_after {isUnion pack : Bool} {ds : List Decl} {L : Layout} (ht : TypesWf ds)
    (h : Layout.layout isUnion pack ds = .ok L) :
    ∀ m ∈ L.members, ∀ w, m.width = some w → m.before + w + m.after = 8 * m.tsize ∧ 0 < w := by
  intro m hm w hw
  have := ((accepted_facts ht h).1 m hm).unit w hw
  exact this.2.2

/-- `sizeof` is a multiple of `_Alignof` (packed structs included), and `_Alignof` is a power of
two. -/
theorem size_multiple_of_align {isUnion pack : Bool} {ds : List Decl} {L : Layout} (ht : TypesWf ds)
    (h : Layout.layout isUnion pack ds = .ok L) : L.align ∣ L.size ∧ Pow2 L.align :=
  (accepted_facts ht h).2

/-- Every member of a union is at offset 0, bit 0. -/
theorem union_members_at_zero {pack : Bool} {ds : List Decl} {L : Layout} (ht : TypesWf ds)
    (h : Layout.layout true pack ds = .ok L) : ∀ m ∈ L.members, m.offset = 0 ∧ m.before = 0 := by
  have hwf := layout_ok_wf ht h
  obtain ⟨L', hL', _, _, _, f1, _⟩ := union_facts hwf
  rw [hL'] at h
  cases h
  exact fun m hm => (f1 m hm).2

/-- `sizeof` of a union, stated on the model's result: the largest member — a non-bit-field needs
`sizeof T` bytes, a bit-field (named **or unnamed**) `⌈w/8⌉` — rounded up to the alignment, which
is the largest alignment contribution of a member. -/
theorem union_size {pack : Bool} {ds : List Decl} {L : Layout} (ht : TypesWf ds)
    (h : Layout.layout true pack ds = .ok L) :
    L.size = roundUp (unionMax ds) L.align ∧ L.align = aggAlign x86_64 pack ds := by
  have hwf := layout_ok_wf ht h
  rw [layout_union hwf] at h
  cases h
  exact ⟨rfl, rfl⟩

/-! ## Enumerations -/

/-- `typehasint` is "the value is in the range of the type" (for 1/2/4/8-byte integer types and
any 64-bit pattern read with the given signedness). -/
theorem typehasint_correct {t : IntTy} (ht : ValidTy t) {i : Nat} (hi : i < 2 ^ 64) (sign : Bool) :
    typehasint t i sign = true ↔ Represents t (val64 i sign) := typehasint_iff ht hi sign

/-- Whenever `tagspec` accepts an enum, the underlying type it chooses is the spec's choice
(C23 6.7.2.2 enumerator values; GCC's rule: `unsigned int` if no enumerator is negative and all
fit, else `int`, else the 64-bit type of that signedness; the fixed type if one is given). -/
theorem enum_underlying_correct {fixed : Option IntTy} {items : List EnumItem} {t : IntTy}
    (hw : ItemsWf items) (hf : ∀ b, fixed = some b → ValidTy b)
    (h : Layout.enumUnderlying fixed items = .ok t) : Abi.enumUnderlying fixed items = some t := by
  cases fixed with
  | none => exact enumUnderlying_nofix hw h
  | some b => exact enumUnderlying_fix (hf b rfl) hw h

/-- The spec's choice represents every enumerator; without a fixed type it is signed exactly
when some enumerator is negative, and it is 4 bytes wide whenever that suffices. -/
theorem enum_spec_represents {items : List EnumItem} {t : IntTy}
    (h : Abi.enumUnderlying none items = some t) :
    ∃ vals, enumValues 0 true items = some vals ∧ (∀ v ∈ vals, Represents t v) ∧
      (t.signed = true ↔ ∃ v ∈ vals, v < 0) ∧
      (t.size = 4 ∨ (t.size = 8 ∧ ¬ ∀ v ∈ vals, Represents ⟨4, t.signed⟩ v)) := by
  simp only [Abi.enumUnderlying] at h
  cases hv : enumValues 0 true items with
  | none => simp [hv] at h
  | some vals =>
    simp only [hv] at h
    refine ⟨vals, rfl, ?_⟩
    generalize hsg : vals.any (fun v => decide (v < 0)) = sg at h
    have hsg' : sg = true ↔ ∃ v ∈ vals, v < 0 := by
      rw [← hsg]; simp [List.any_eq_true]
    simp only [List.find?] at h
    cases h4 : vals.all (fun v => decide (Represents ⟨4, sg⟩ v)) with
    | true =>
      simp only [h4, Option.some.injEq] at h
      subst h
      refine ⟨by simpa [List.all_eq_true] using h4, hsg', Or.inl rfl⟩
    | false =>
      simp only [h4] at h
      cases h8 : vals.all (fun v => decide (Represents ⟨8, sg⟩ v)) with
      | true =>
        simp only [h8, Option.some.injEq] at h
        subst h
        refine ⟨by simpa [List.all_eq_true] using h8, hsg', Or.inr ⟨rfl, ?_⟩⟩
        intro hall
        have : vals.all (fun v => decide (Represents ⟨4, sg⟩ v)) = true := by
          simpa [List.all_eq_true] using hall
        rw [h4] at this; cases this
      | false => simp [h8] at h

theorem enum_spec_represents_fixed {b : IntTy} {items : List EnumItem} {t : IntTy}
    (h : Abi.enumUnderlying (some b) items = some t) :
    t = b ∧ ∀ v ∈ enumValuesFixed 0 items, Represents b v := by
  simp only [Abi.enumUnderlying] at h
  split at h
  · rename_i hall
    simp only [Option.some.injEq] at h
    exact ⟨h.symm, by simpa [List.all_eq_true] using hall⟩
  · cases h

/-- Corollary for the model: the chosen type represents every enumerator. -/
theorem enum_underlying_represents {items : List EnumItem} {t : IntTy} (hw : ItemsWf items)
    (h : Layout.enumUnderlying none items = .ok t) :
    ∃ vals, enumValues 0 true items = some vals ∧ ∀ v ∈ vals, Represents t v := by
  obtain ⟨vals, h1, h2, _⟩ := enum_spec_represents (enumUnderlying_nofix hw h)
  exact ⟨vals, h1, h2⟩

/-- **Acceptance** (full strength): every enum the spec gives a type to is accepted by `tagspec`
with that type — no spurious `error`.  (Before commit bb180d9 this failed for
`enum E : unsigned { A };`: the wrap-around test `value == 0 && !et->u.basic.issigned` also fired
on the first enumerator; `enumAcceptsWitness` below is that input, kept as a regression witness.) -/
theorem enum_accepts {fixed : Option IntTy} {items : List EnumItem} {t : IntTy}
    (hw : ItemsWf items) (hf : ∀ b, fixed = some b → ValidTy b)
    (h : Abi.enumUnderlying fixed items = some t) : Layout.enumUnderlying fixed items = .ok t := by
  cases fixed with
  | none => exact enumUnderlying_nofix_complete hw h
  | some b => exact enumUnderlying_fix_complete (hf b rfl) hw h

/-- Model and spec agree on acceptance *and* on the type: `tagspec` accepts an enum with type `t`
exactly when the spec gives it the type `t`. -/
theorem enum_underlying_iff {fixed : Option IntTy} {items : List EnumItem} {t : IntTy}
    (hw : ItemsWf items) (hf : ∀ b, fixed = some b → ValidTy b) :
    Layout.enumUnderlying fixed items = .ok t ↔ Abi.enumUnderlying fixed items = some t :=
  ⟨enum_underlying_correct hw hf, enum_accepts hw hf⟩

/-! ## Nested types and member lookup -/

/-- For every type whose (nested) definitions are well-formed, `sizeof`/`_Alignof`/flexibility
computed by the model (`declarator`'s array rule with its overflow guard, `tagspec` recursively)
are the spec's. -/
theorem type_layout_correct {t : CType} (h : WfType t) :
    Layout.tinfo t = .ok (Abi.tinfo x86_64 t) := tinfo_ok t h

/-- `typemember` (what `offsetof` and `.`/`->` use): same member, same accumulated offset through
anonymous struct/union members as the spec's lookup. -/
theorem typemember_correct {t : CType} (name : String) (h : WfType t) :
    Layout.typemember t name = Abi.member x86_64 t name := typemember_ok t name h

/-! ## Tie to `/repo`'s own tables (`Gen/` is regenerated from `type.c`/`decl.c` on every run) -/

/-- Every integer type object of `type.c` meets the hypotheses `TypeWf`/`ValidTy` put on bit-field
and enum base types: size = alignment ∈ {1, 2, 4, 8}. -/
theorem basic_int_types_wf : ∀ r ∈ Gen.BasicTypes.table, "PROPINT" ∈ r.props →
    r.size = r.align ∧ r.size ≤ 8 ∧ Pow2 r.align ∧ ValidTy ⟨r.size, r.issigned⟩ := by decide

/-- Every basic type's alignment is a power of two (and equals its size). -/
theorem basic_types_pow2 : ∀ r ∈ Gen.BasicTypes.table, Pow2 r.align ∧ r.size = r.align := by decide

def basicIntTy (var : String) : Option IntTy :=
  (Gen.BasicTypes.table.find? (·.var == var)).map fun r => ⟨r.size, r.issigned⟩

/-- `tagspec`'s candidate table `inttypes[][2]` is the model's `inttypes`. -/
theorem enum_candidates_tied : ∀ sign : Bool,
    Gen.IntLimits.enumTypes.map (fun p => basicIntTy (if sign then p.2 else p.1)) =
      (inttypes sign).map some := by decide

/-! ## Non-vacuity -/

/-- `struct S {char c; int x:5; long y:40; char d; int z:7; int :0; short w:9;}` -/
def exStruct : List Decl :=
  [⟨intTy 1, true, 0, none⟩, ⟨intTy 4, true, 0, some 5⟩, ⟨intTy 8, true, 0, some 40⟩,
   ⟨intTy 1, true, 0, none⟩, ⟨intTy 4, true, 0, some 7⟩, ⟨intTy 4, false, 0, some 0⟩,
   ⟨intTy 2, true, 0, some 9⟩]

example : Wf false false exStruct ∧ TypesWf exStruct := by decide
example : (Layout.layout false false exStruct).toOption.map (fun L => (L.size, L.align, L.members.map (fun m => (m.offset, m.before, m.after)))) =
    some (16, 8, [(0, 0, 0), (0, 8, 19), (0, 13, 11), (7, 0, 0), (8, 0, 25), (12, 0, 7)]) := by decide

/-- packed struct with an over-aligned member and a flexible array:
`struct __attribute__((packed)) {short a, b; _Alignas(8) float c; char d; long e[];}` -/
def exPacked : List Decl :=
  [⟨intTy 2, true, 0, none⟩, ⟨intTy 2, true, 0, none⟩, ⟨fltTy 4, true, 8, none⟩, ⟨intTy 1, true, 0, none⟩,
   ⟨{ size := 0, align := 8, incomplete := true, isArray := true }, true, 0, none⟩]

example : Wf false true exPacked ∧ TypesWf exPacked := by decide
example : (Layout.layout false true exPacked).toOption.map (fun L => (L.size, L.align, L.flexible, L.members.map (·.offset))) =
    some (16, 8, true, [0, 2, 8, 12, 13]) := by decide

/-- `union { int a; char b:3; long :0; double d; }` -/
def exUnion : List Decl :=
  [⟨intTy 4, true, 0, none⟩, ⟨intTy 1, true, 0, some 3⟩, ⟨intTy 8, false, 0, some 0⟩, ⟨fltTy 8, true, 0, none⟩]

example : Wf true false exUnion ∧ TypesWf exUnion := by decide
example : (Layout.layout true false exUnion).toOption.map (fun L => (L.size, L.align)) = some (8, 8) := by decide
-- the former counterexample of the union statement: now size 5, alignment 1, on both sides
example : Wf true false unionWitness ∧ TypesWf unionWitness ∧
    (Layout.layout true false unionWitness).toOption.map (fun L => (L.size, L.align, L.members.length)) = some (5, 1, 1) ∧
    (Abi.layout x86_64 true false unionWitness).size = 5 := by decide
-- `union { unsigned : 17; char c; }` = 3/1, `union { int : 0; char c; }` = 1/1,
-- `union { short : 9; short s; char : 3; }` = 2/2, `union { long : 64; char c; }` = 8/1
example : [[⟨intTy 4, false, 0, some 17⟩, ⟨intTy 1, true, 0, none⟩],
           [⟨intTy 4, false, 0, some 0⟩, ⟨intTy 1, true, 0, none⟩],
           [⟨intTy 2, false, 0, some 9⟩, ⟨intTy 2, true, 0, none⟩, ⟨intTy 1, false, 0, some 3⟩],
           [⟨intTy 8, false, 0, some 64⟩, ⟨intTy 1, true, 0, none⟩]].map
      (fun ds => (decide (Wf true false ds), (Layout.layout true false ds).toOption.map (fun L => (L.size, L.align)))) =
    [(true, some (3, 1)), (true, some (1, 1)), (true, some (2, 2)), (true, some (8, 1))] := by decide
example : ∀ d ∈ exStruct.take 5, d.unnamedBf = false := by decide
example : Wf false false (exStruct.take 5) := by decide
-- the witness of the counterexample is a well-formed input
example : Wf false false aarch64Witness := by decide
example : Pow2 64 ∧ ¬ Pow2 48 := by decide
example : Fits 32 5 8 ∧ ¬ Fits 32 28 8 ∧ bfPos 8 32 28 = 32 ∧ bfPos 36 32 20 = 36 := by decide


/-- `enum { A = -1, B, C = 0xffffffff }` → `long`;  `enum { A = 0x7fffffff, B }` → `unsigned int` -/
example : ItemsWf [.explicit (2 ^ 64 - 1) tInt, .implicit, .explicit 0xffffffff tUInt] ∧
    Layout.enumUnderlying none [.explicit (2 ^ 64 - 1) tInt, .implicit, .explicit 0xffffffff tUInt] = .ok tLong := by
  decide
example : Layout.enumUnderlying none [.explicit 0x7fffffff tInt, .implicit] = .ok tUInt ∧
    Abi.enumUnderlying none [.explicit 0x7fffffff tInt, .implicit] = some tUInt := by decide
example : ValidTy ⟨2, false⟩ ∧ ItemsWf [.explicit 65535 tInt] ∧
    Layout.enumUnderlying (some ⟨2, false⟩) [.explicit 65535 tInt] = .ok ⟨2, false⟩ := by decide
-- enum_accepts: `enum E : unsigned short { A = 65535 }`, `enum E : long { A, B = -1 }`
example : ValidTy ⟨2, false⟩ ∧ ItemsWf [.explicit 65535 tInt] ∧
    Abi.enumUnderlying (some ⟨2, false⟩) [.explicit 65535 tInt] = some ⟨2, false⟩ := by decide
example : ValidTy tLong ∧ ItemsWf [.implicit, .explicit (2 ^ 64 - 1) tInt] ∧
    Abi.enumUnderlying (some tLong) [.implicit, .explicit (2 ^ 64 - 1) tInt] = some tLong := by decide
/-- `enum E : unsigned { A, B };` — the witness of the defect repaired by bb180d9 (the old code, and
the old model, answered `error enum-no-type`) -/
def enumAcceptsWitness : List EnumItem := [.implicit, .implicit]
example : ValidTy tUInt ∧ ItemsWf enumAcceptsWitness ∧
    Abi.enumUnderlying (some tUInt) enumAcceptsWitness = some tUInt ∧
    Layout.enumUnderlying (some tUInt) enumAcceptsWitness = .ok tUInt := by decide
-- the wrap-around test still rejects what it is meant to reject (both sides):
-- `enum E : unsigned long { A = -1UL, B }`, `enum E : long { A = LONG_MAX, B }`, `enum { A = -1ULL, B }`
example : Layout.enumUnderlying (some tULong) [.explicit (2 ^ 64 - 1) tULong, .implicit] = .error .enumNoType ∧
    Abi.enumUnderlying (some tULong) [.explicit (2 ^ 64 - 1) tULong, .implicit] = none ∧
    Layout.enumUnderlying (some tLong) [.explicit (2 ^ 63 - 1) tLong, .implicit] = .error .enumNoType ∧
    Abi.enumUnderlying (some tLong) [.explicit (2 ^ 63 - 1) tLong, .implicit] = none ∧
    Layout.enumUnderlying none [.explicit (2 ^ 64 - 1) tULong, .implicit] = .error .enumNoType ∧
    Abi.enumUnderlying none [.explicit (2 ^ 64 - 1) tULong, .implicit] = none := by decide
-- an explicit 0 after an enumerator is not a wrap-around: `enum E : unsigned { A = 5, B = 0, C }`
example : Layout.enumUnderlying (some tUInt) [.explicit 5 tInt, .explicit 0 tInt, .implicit] = .ok tUInt := by decide
example : typehasint tInt (2 ^ 64 - 2 ^ 31) true = true ∧ typehasint tInt (2 ^ 64 - 2 ^ 31 - 1) true = false ∧
    typehasint tUInt (2 ^ 32) false = false := by decide


/-- `struct { char a; union { void *p; _Alignas(16) struct { short u; long double v; } q[3]; }; int f[]; }` -/
def exNested : CType :=
  .su false false (.cons (some "a") (.scalar 1 1 true) 0 none
    (.cons none (.su true false
        (.cons (some "p") (.scalar 8 8 false) 0 none
        (.cons (some "q") (.array (.su false false
            (.cons (some "u") (.scalar 2 2 true) 0 none
            (.cons (some "v") (.scalar 16 16 false) 0 none .nil))) (some 3)) 16 none .nil))) 0 none
    (.cons (some "f") (.array (.scalar 4 4 true) none) 0 none .nil)))

example : WfType exNested := by
  unfold exNested
  simp only [WfType, WfFields, and_true]
  decide
example : (Layout.tinfo exNested).toOption.map (fun t => (t.size, t.align, t.flexible)) = some (112, 16, true) := by
  decide
example : (Layout.offsetof exNested "q" [.index 2, .field "v"]).toOption.map (·.1) = some 96 := by decide

end CprocVerif.C06

import CprocVerif.Model.PP
import CprocVerif.Spec.MacroRef

/-! # C12 — macro definition and expansion follow C11 6.10.3 on the implemented subset
(theorems are being added; see Lemmas/PP*.lean) -/

namespace CprocVerif.C12
open CprocVerif.PP

/-- out of fuel is the distinct result `Err.fuel` -/
theorem exec_zero (c : Call) (st : St) : exec 0 c st = .error .fuel := rfl

end CprocVerif.C12

import CprocVerif.Lemmas.PPDefine
import CprocVerif.Lemmas.PPEqual
import CprocVerif.Lemmas.PPString
import CprocVerif.Lemmas.PPFuel
import CprocVerif.Lemmas.PPInv
import CprocVerif.Lemmas.PPObjMain
import CprocVerif.Lemmas.PPArgs
import CprocVerif.Lemmas.PPArgsExec
import CprocVerif.Lemmas.PPSubst
import CprocVerif.Lemmas.PPObjFuel
import CprocVerif.Lemmas.PPFunStep
import CprocVerif.Lemmas.PPFunSim6
import CprocVerif.Lemmas.PPPre8
import CprocVerif.Lemmas.PPTerm3

/-!
# C12 — macro definition and expansion follow C11 6.10.3 on the implemented subset

Property theorems about the model of `/repo/pp.c` (`Model/PP.lean`) against the reference of
6.10.3 (`Spec/MacroRef.lean`).  No theorem bounds the number or size of macros, parameters,
arguments or the length of the input.

Vocabulary: `define st` is `define()` entered with `st.tok` = the token after `define`;
`Macro.WF` collects what 6.10.3p5/p6 and 6.10.3.2p1 demand of a definition (plus "no `##`", which
is outside the implemented subset); `Scanned t` = the token has a spelling exactly when its kind
has one (what `scan()` delivers); `Spellable t` = its spelling is not empty and does not end in a
blank; `InvC ctx ms d` = the hide-flag invariant of the context stack.
-/

namespace CprocVerif.C12
open CprocVerif.PP CprocVerif.Spec CprocVerif.Gen.TokenKinds

def tk (k : Kind) (lit : Option (List UInt8) := none) (space : Bool := false) : Tok := ⟨k, lit, space, false⟩
def ident (s : List UInt8) (space : Bool := false) : Tok := ⟨.TIDENT, some s, space, false⟩
def num (s : List UInt8) (space : Bool := false) : Tok := ⟨.TNUMBER, some s, space, false⟩
def NL : Tok := ⟨.TNEWLINE, none, false, false⟩

/-! ## 1. Definitions: what `define` rejects -/

/-- Every definition `define` accepts is well formed (`Macro.WF`) and is afterwards found under
its name, not hidden. -/
theorem define_accepts_only_wellformed {st st' : St} (h : define st = .ok st') :
    ∃ m, macroget st'.macros (st.tok.lit.getD []) = some m ∧ m.name = st.tok.lit.getD [] ∧ m.WF ∧ m.hide = false :=
  define_wf h

/-- `##` anywhere in a replacement list: rejected (the operator is not implemented). -/
theorem define_rejects_hashhash {st st' : St} (h : define st = .ok st') :
    ∃ m, macroget st'.macros (st.tok.lit.getD []) = some m ∧ ∀ t ∈ m.body, t.kind ≠ .THASHHASH := by
  obtain ⟨m, h1, _, h3, _⟩ := define_wf h
  exact ⟨m, h1, h3.noHashHash⟩

/-- 6.10.3p5: `__VA_ARGS__` in the replacement list of a macro that is not variadic (the first
token included, since `40f4bc5`): rejected. -/
theorem define_rejects_bad_va_args {st st' : St} (h : define st = .ok st') :
    ∃ m, macroget st'.macros (st.tok.lit.getD []) = some m ∧
      (macrovarargs m.func m.params = false → ∀ t ∈ m.body, ¬ (t.kind = .TIDENT ∧ t.lit = some vaName)) := by
  obtain ⟨m, h1, _, h3, _⟩ := define_wf h
  exact ⟨m, h1, h3.vaOnlyVariadic⟩

/-- 6.10.3p6: two parameters of the same name (since `e1e687a`): rejected. -/
theorem define_rejects_duplicate_parameter {st st' : St} (h : define st = .ok st') :
    ∃ m, macroget st'.macros (st.tok.lit.getD []) = some m ∧
      ((m.params.filter (fun p => !p.fvar)).map (·.name)).Nodup := by
  obtain ⟨m, h1, _, h3, _⟩ := define_wf h
  exact ⟨m, h1, h3.distinct⟩

/-- 6.10.3.2p1: in a function-like macro a `#` that is not followed by a parameter (a `#` at the
end of the replacement list included): rejected.  Stated on the replacement list in reverse
(`RevOk`): every `#` has a parameter name right after it, up to the terminating new-line. -/
theorem define_rejects_hash_without_parameter {st st' : St} (h : define st = .ok st') :
    ∃ m, macroget st'.macros (st.tok.lit.getD []) = some m ∧
      (m.func = true → ∃ e, (e.kind = .TNEWLINE ∨ e.kind = .TEOF) ∧ RevOk (pnames m.params) (e :: m.body.reverse)) := by
  obtain ⟨m, h1, _, h3, _⟩ := define_wf h
  exact ⟨m, h1, h3.hashParam⟩

/-- in particular the replacement list of an accepted function-like macro does not end in `#` -/
theorem define_rejects_trailing_hash {st st' : St} (h : define st = .ok st') :
    ∃ m, macroget st'.macros (st.tok.lit.getD []) = some m ∧
      (m.func = true → ∀ x r, m.body.reverse = x :: r → x.kind ≠ .THASH) := by
  obtain ⟨m, h1, _, h3, _⟩ := define_wf h
  refine ⟨m, h1, ?_⟩
  intro hf x r hx
  obtain ⟨e, he, hr⟩ := h3.hashParam hf
  rw [hx] at hr
  exact revOk_last_not_hash hr he

/-- the call is diagnosed with exactly this class -/
def failsWith (r : Except Err St) (e : Err) : Bool :=
  match r with
  | .error e' => e' == e
  | .ok _ => false

/-- the state in which `define()` runs for the line `#define <toks>` (the new-line included) -/
def defState (toks : List Tok) (ms : List Macro := []) : St :=
  { raw := toks.drop 1, macros := ms, tok := toks.headD NL }

-- non-vacuity: `#define F(a, ...) a # a __VA_ARGS__` is accepted …
example : (define (defState [ident b!"F", tk .TLPAREN, ident b!"a", tk .TCOMMA, tk .TELLIPSIS, tk .TRPAREN,
    ident b!"a" true, tk .THASH none true, ident b!"a" true, ident b!"__VA_ARGS__" true, NL])).toBool = true := by
  decide +kernel
-- … and each violation is rejected with the diagnostic of its class
example : failsWith (define (defState [ident b!"A", num b!"1" true, tk .THASHHASH none true, num b!"2" true, NL])) .hashhash = true := by decide +kernel
example : failsWith (define (defState [ident b!"A", ident b!"__VA_ARGS__" true, NL])) .vaArgs = true := by decide +kernel
example : failsWith (define (defState [ident b!"F", tk .TLPAREN, ident b!"x", tk .TCOMMA, ident b!"x", tk .TRPAREN,
    ident b!"x" true, NL])) .dupParam = true := by decide +kernel
example : failsWith (define (defState [ident b!"F", tk .TLPAREN, ident b!"x", tk .TRPAREN, tk .THASH none true,
    ident b!"y", NL])) .hashNotParam = true := by decide +kernel
example : failsWith (define (defState [ident b!"F", tk .TLPAREN, ident b!"x", tk .TRPAREN, ident b!"x" true,
    tk .THASH none true, NL])) .hashIdent = true := by decide +kernel

/-! ## 2. Redefinition: `macroequal` -/

/-- **`macroequal` decides**: same kind of macro, same parameters (names, `...`, use flags), same
sequence of tokens by class and spelling.  (For tokens shaped as `scan()` shapes them.) -/
theorem macroequal_equiv (m1 m2 : Macro) (h1 : ∀ a ∈ m1.body, Scanned a) (h2 : ∀ b ∈ m2.body, Scanned b) :
    macroequal m1 m2 = true ↔
      (m1.func = m2.func ∧ (m1.func = true → m1.params = m2.params) ∧
       m1.body.map Tok.key = m2.body.map Tok.key) :=
  macroequal_iff m1 m2 h1 h2

/-- the definition as the reference sees it -/
def toDef (m : Macro) : MacroRef.MacroDef :=
  { name := m.name, func := m.func, params := (m.params.filter (fun p => !p.fvar)).map (·.name),
    variadic := m.params.any (·.fvar), body := m.body.map toP }

/-- Full strength (6.10.3p2): a redefinition is accepted exactly when the two definitions are
identical, *white-space separation included*.  False of the current tree: -/
def macroequal_c11_full : Prop :=
  ∀ m1 m2 : Macro, (∀ a ∈ m1.body, Scanned a) → (∀ b ∈ m2.body, Scanned b) → m1.params = m2.params →
    (macroequal m1 m2 = true ↔ MacroRef.identical (toDef m1) (toDef m2) = true)

def mA1 : Macro := { func := false, name := b!"A", body := [tk .TLPAREN none true, num b!"1", tk .TRPAREN] }
def mA2 : Macro := { func := false, name := b!"A", body := [tk .TLPAREN none true, num b!"1" true, tk .TRPAREN none true] }

/-- known finding `macroequal-ignores-space`: `#define A (1)` then `#define A ( 1 )` is accepted -/
theorem macroequal_c11_counterexample : ¬ macroequal_c11_full := by
  intro h
  have := h mA1 mA2 (by decide) (by decide) rfl
  revert this
  decide +kernel

/-- what does hold: acceptance is identity *up to* white-space separation … -/
theorem macroequal_partial (m1 m2 : Macro) (h1 : ∀ a ∈ m1.body, Scanned a) (h2 : ∀ b ∈ m2.body, Scanned b)
    (hp : m1.params = m2.params) :
    macroequal m1 m2 = true ↔ MacroRef.identicalModSpace (toDef m1) (toDef m2) = true := by
  rw [macroequal_iff m1 m2 h1 h2]
  unfold MacroRef.identicalModSpace toDef
  simp only [hp, List.map_map, Bool.and_eq_true, decide_eq_true_eq, and_true, implies_true, true_and]
  have : (MacroRef.PTok.key ∘ toP) = Tok.key := by funext t; rfl
  rw [this]

/-- … so every benign redefinition is accepted (identical ⇒ accepted) … -/
theorem benign_redefinition_accepted (m1 m2 : Macro) (h1 : ∀ a ∈ m1.body, Scanned a)
    (h2 : ∀ b ∈ m2.body, Scanned b) (hp : m1.params = m2.params)
    (hid : MacroRef.identical (toDef m1) (toDef m2) = true) : macroequal m1 m2 = true := by
  rw [macroequal_partial m1 m2 h1 h2 hp]
  unfold MacroRef.identical at hid
  unfold MacroRef.identicalModSpace
  simp only [Bool.and_eq_true, decide_eq_true_eq] at hid ⊢
  refine ⟨hid.1, ?_⟩
  generalize (toDef m1).body = a at hid
  generalize (toDef m2).body = b at hid
  have hs := hid.2
  clear hid
  cases a with
  | nil => cases b with
    | nil => rfl
    | cons _ _ => simp [MacroRef.sameSpacing] at hs
  | cons x xs => cases b with
    | nil => simp [MacroRef.sameSpacing] at hs
    | cons y ys =>
      simp only [MacroRef.sameSpacing, Bool.and_eq_true, decide_eq_true_eq, List.all_eq_true] at hs
      simp only [List.map_cons, List.cons.injEq]
      refine ⟨hs.1.1, ?_⟩
      apply List.ext_getElem
      · simp [hs.2]
      · intro i h1 h2
        simp only [List.getElem_map]
        have hz : (xs[i]'(by simpa using h1), ys[i]'(by simpa using h2)) ∈ xs.zip ys := by
          rw [List.mem_iff_getElem]
          exact ⟨i, by simp only [List.length_zip]; simp at h1 h2; omega, by simp⟩
        exact (hs.1.2 _ hz).1

/-- … and every redefinition that changes a token, the kind, or a parameter is rejected. -/
theorem incompatible_redefinition_rejected (m1 m2 : Macro) (h1 : ∀ a ∈ m1.body, Scanned a)
    (h2 : ∀ b ∈ m2.body, Scanned b)
    (hd : m1.func ≠ m2.func ∨ (m1.func = true ∧ m1.params ≠ m2.params) ∨ m1.body.map Tok.key ≠ m2.body.map Tok.key) :
    macroequal m1 m2 = false := by
  cases h : macroequal m1 m2 with
  | false => rfl
  | true =>
    have := (macroequal_iff m1 m2 h1 h2).mp h
    rcases hd with hd | ⟨hf, hd⟩ | hd
    · exact absurd this.1 hd
    · exact absurd (this.2.1 hf) hd
    · exact absurd this.2.2 hd

example : macroequal mA1 mA1 = true := by decide +kernel
example : macroequal mA1 { mA1 with body := [num b!"2"] } = false := by decide +kernel

/-! ## 3. Stringification (6.10.3.2p2) -/

/-- **The string literal built for `# parameter` is the 6.10.3.2p2 spelling** of the tokens fed
to `stringize`: spellings in order, exactly one blank where white space separated two tokens,
none at either end, a `\` before each `"` and `\` inside string literals and character constants. -/
theorem stringize_correct (ts : List Tok) (hs : ∀ t ∈ ts, Spellable t) :
    some (stringizeAll ts) = (MacroRef.stringizeRef (ts.map toP)).lit :=
  stringizeAll_eq ts hs

example : stringizeAll [ident b!"a" true, tk .TADD none true, ⟨.TSTRINGLIT, some b!"\"b\\n\"", true, false⟩, ident b!"c"]
    = b!"\"a + \\\"b\\\\n\\\"c\"" := by decide +kernel
example : ∀ t ∈ [ident b!"a" true, tk .TADD none true], Spellable t := by decide +kernel

/-! ## 4. Painting, the hide flag, fuel -/

/-- **A painted identifier is never expanded** (6.10.3.4p2, last sentence): `expand` on a token
whose `hide` flag is set leaves the state alone and reports "not expanded", whatever the macro
table and the context stack are. -/
theorem painted_never_expands (n : Nat) (t : Tok) (st : St) (h : t.hide = true) :
    exec (n + 1) (.expand t) st = .ok { st with rb := false, rt := t } := by
  have ht : ({ t with hide := true } : Tok) = t := by cases t; simp_all
  show expandBody (exec n) t st = _
  unfold expandBody
  split
  · rfl
  · split
    · rw [ht]
    · simp only [ht, ite_self, h, ↓reduceIte]

example : (ident b!"A" false).hide = false := rfl
example : exec 1 (.expand { ident b!"A" with hide := true }) { raw := [], macros := [mA1] }
    = .ok { raw := [], macros := [mA1], rb := false, rt := { ident b!"A" with hide := true } } :=
  painted_never_expands 0 _ _ rfl

/-- **`macrodone` keeps "hidden ⇔ has a live frame"**: the loop at the head of `ctxnext` that pops
exhausted frames preserves the invariant for every macro table, and changes nothing but flags. -/
theorem hide_iff_active_pop (ctx : List Frame) (ms : List Macro) (d : Nat) (h : InvC ctx ms d) :
    InvC (popDone ctx ms d).1 (popDone ctx ms d).2.1 (popDone ctx ms d).2.2 :=
  (popDone_inv ctx ms d h).1

/-- **`expand` keeps it**: pushing the replacement list of a macro of the table that is not hidden,
setting its flag and counting it. -/
theorem hide_iff_active_push {ctx : List Frame} {ms : List Macro} {d : Nat} {m : Macro} (toks : List Tok)
    (h : InvC ctx ms d) (hm : m ∈ ms) (hh : m.hide = false) :
    InvC (⟨toks, some m.name⟩ :: ctx) (setHide ms m.name true) (d + 1) :=
  invC_push toks h hm hh

example : InvC [] [mA1] 0 := ⟨by decide, by decide, by decide, rfl⟩

/-- **Fuel monotonicity**: a call that completes — with a state or with a diagnostic other than
"out of fuel" — gives the same result with any larger amount of fuel. -/
theorem fuel_monotone (n k : Nat) (c : Call) (st : St) (h : exec n c st ≠ .error .fuel) :
    exec (n + k) c st = exec n c st :=
  exec_mono n k c st h

/-- the same for the whole expanded token stream -/
theorem fuel_monotone_run (n k : Nat) (st : St) (h : (run n st).2 ≠ some .fuel) :
    run (n + k) st = run n st :=
  run_mono n k st h

example : (run 20 (St.init [ident b!"A", NL, ⟨.TEOF, none, false, false⟩] false)).2 ≠ some .fuel := by decide +kernel

/-! ## 5. Argument count (6.10.3p4) -/

/-- **A surplus argument is rejected, an empty one included** (since `09a3a09`): when the comma that
ends the argument for the last parameter is met at invocation level outside parentheses, the
invocation is diagnosed "too many arguments". -/
theorem too_many_args_rejected (rec : Call → St → Res) (e : EF) (st : St)
    (hlvl : st.depth ≤ e.depth) (hp : e.paren = 0) (ht : e.t.kind = .TCOMMA)
    (hv : (e.m.params.getD e.i default).fvar = false) (hi : e.i + 1 = e.m.params.length) :
    efLoopBody rec e st = .error .tooManyArgs := by
  unfold efLoopBody efFinish
  simp only [List.getD_eq_getElem?_getD] at hv
  simp [ht, hlvl, hp, hv, hi]


/-! ## 6. Sets of object-like macros: the model is the hide-set algorithm

`Good st`: every macro of the table is object-like, the rest of the input has no directive (no
`#`), tokens are not painted, the hide-flag invariant holds.  `absSt st` is the source still to
be processed as the reference sees it: the tokens left in the frames of the context stack, each
with the hide set "macros with a live frame at or below it", then the tokens the scanner still
holds (new-lines dropped). -/

/-- **Any set of object-like macros (mutual and self reference included): the token stream of the
model is the token stream of the reference.**  If the model's run completes, the reference —
with `J` units of fuel or more — completes without diagnostic and delivers the same tokens by
class and spelling (after `keyword()`; the model's final `TEOF` aside). -/
theorem object_like_correct (n : Nat) (st : St) (g : Good st) (hrun : (run n st).2 = none) :
    ∃ J, ∀ K,
      (MacroRef.expandH false (K + J) (toTbl st.macros) (absSt st)).2.1 = none ∧
      (MacroRef.expandH false (K + J) (toTbl st.macros) (absSt st)).1.map (fun t => kwKey t.tok.key)
        = runKeys (run n st).1 := by
  obtain ⟨J, hJ⟩ := run_sim n st g hrun
  refine ⟨J, fun K => ?_⟩
  have := hJ K
  constructor
  · have h1 := congrArg Prod.snd this.1
    exact h1
  · have h2 := this.2
    simp only [outKeys, List.map_map] at h2
    exact h2

/-- the initial state of a unit whose macro table is `ms` and whose remaining text is `raw` -/
theorem good_init (ms : List Macro) (raw : List Tok)
    (hnames : (ms.map (·.name)).Nodup) (hobj : ∀ m ∈ ms, m.func = false) (hhide : ∀ m ∈ ms, m.hide = false)
    (hbody : ∀ m ∈ ms, ∀ t ∈ m.body, okKind t)
    (hraw : ∀ t ∈ raw, t.kind ≠ .THASH ∧ t.kind ≠ .TNONE ∧ t.kind ≠ .TEOF ∧ t.hide = false) :
    Good { raw := raw, macros := ms } :=
  ⟨⟨hnames, List.nodup_nil, (by intro m hm; simp [liveNames, hhide m hm]), rfl⟩, hobj,
   (fun t ht => ⟨(hraw t ht).1, (hraw t ht).2.1, (hraw t ht).2.2.1⟩), (fun t ht => (hraw t ht).2.2.2),
   (by intro f hf; cases hf), hbody, rfl⟩

/-- **A macro is marked ineligible exactly while one of its frames is live** — after every
completed `next()` on a good state (object-like macro sets, any mutual or self reference). -/
theorem hide_iff_active (n : Nat) (st st' : St) (g : Good st) (h : exec n .next st = .ok st') :
    ∀ m ∈ st'.macros, (m.hide = true ↔ ∃ f ∈ st'.ctx, f.mac = some m.name) := by
  have g' := (next_sim n st st' g h).1
  intro m hm
  rw [g'.inv.hideIff m hm]
  simp only [liveNames, List.mem_filterMap]

/-- **Termination with an explicit fuel bound** (rescanning with hide flags terminates): on a good
state `pot st + 4` units of fuel complete the run, where `pot st` adds up, over the tokens still on
the context stack and in the scanner, the number of tokens each can turn into when every macro is
replaced at most once along a chain of replacements (`wt`). -/
theorem object_like_terminates (n : Nat) (st : St) (g : Good st) (hn : pot st + 4 ≤ n) : (run n st).2 = none :=
  run_terminates n st g hn

/-- … so `object_like_correct` needs no termination hypothesis: with `pot st + 4` units of fuel the
model's stream is complete and is the reference's. -/
theorem object_like_correct_total (st : St) (g : Good st) :
    (run (pot st + 4) st).2 = none ∧
    ∃ J, ∀ K,
      (MacroRef.expandH false (K + J) (toTbl st.macros) (absSt st)).2.1 = none ∧
      (MacroRef.expandH false (K + J) (toTbl st.macros) (absSt st)).1.map (fun t => kwKey t.tok.key)
        = runKeys (run (pot st + 4) st).1 :=
  ⟨run_terminates _ st g (Nat.le_refl _), object_like_correct _ st g (run_terminates _ st g (Nat.le_refl _))⟩

-- non-vacuity: `#define A B x` / `#define B A y` / `#define C C` (mutual and self reference), text `A C B`
def mAB : Macro := { func := false, name := b!"A", body := [ident b!"B" true, ident b!"x" true] }
def mBA : Macro := { func := false, name := b!"B", body := [ident b!"A" true, ident b!"y" true] }
def mCC : Macro := { func := false, name := b!"C", body := [ident b!"C" true] }
def stObj : St := { raw := [ident b!"A", ident b!"C" true, NL, ident b!"B"], macros := [mAB, mBA, mCC] }

example : Good stObj :=
  good_init _ _ (by decide) (by decide) (by decide) (by unfold okKind; decide) (by decide)
example : (run 40 stObj).2 = none := by decide +kernel
example : pot stObj = 13 := by decide +kernel            -- so 17 units of fuel are enough

example : runKeys (run 40 stObj).1 =
    [(.TIDENT, some b!"A"), (.TIDENT, some b!"y"), (.TIDENT, some b!"x"), (.TIDENT, some b!"C"),
     (.TIDENT, some b!"B"), (.TIDENT, some b!"x"), (.TIDENT, some b!"y")] := by decide +kernel


/-! ## 7. Argument collection (6.10.3p10–p12)

`collect ps i paren cur done ts` is the pair of nested loops of `expandfunc` on a token list `ts`
(each token at invocation level, `expand` declining it): same tests in the same order as
`efLoopBody` — parenthesis count, comma unless the parameter is `...`, the two count checks. -/

/-- **The collected arguments are the top-level-comma split of the parenthesised token list,
variadic tail joined**: whenever the loops accept, the `)` they stop at is the one the reference
finds as matching (`matchParen`), and the arguments are what the reference's `splitTop` cuts out of
the tokens in between — at every comma outside nested parentheses, but at most as many times as
there are named parameters when the last parameter is `...` (6.10.3p12). -/
theorem split_args_correct (ps : List Param) (hv : VarLast ps) (hne : 0 < ps.length)
    (ts : List Tok) (args : List (List Tok)) (rest : List Tok)
    (h : collect ps 0 0 [] [] ts = .ok (args, rest)) :
    ∃ seg rp, ts = seg ++ rp :: rest ∧ rp.kind = .TRPAREN ∧
      MacroRef.matchParen (ts.map iT) 0 [] = some (seg.map hT, hT rp, rest.map iT, false) ∧
      args.map (·.map hT) = MacroRef.splitTop (splitsLeft ps 0 seg) 0 (seg.map hT) [] := by
  obtain ⟨seg, rp, h1, h2, h3, h4⟩ := collect_spec ps hv ts 0 0 [] [] args rest hne h
  exact ⟨seg, rp, h1, h2, h3, by simpa using h4⟩

def pA : Param := { name := b!"a", ftok := true }
def pV : Param := { name := b!"__VA_ARGS__", ftok := true, fvar := true }
-- non-vacuity: `(a, ...)` applied to `1 , ( 2 , 3 ) , 4 ) x`: two arguments, `1` and `( 2 , 3 ) , 4`
example : VarLast [pA, pV] := by
  intro j hj
  have : j = 0 := by simp at hj; omega
  subst this; rfl
def errOf {α : Type} (r : Except Err α) : Option Err :=
  match r with
  | .error e => some e
  | .ok _ => none

example : (collect [pA, pV] 0 0 [] []
    [num b!"1", tk .TCOMMA, tk .TLPAREN, num b!"2", tk .TCOMMA, num b!"3", tk .TRPAREN, tk .TCOMMA, num b!"4",
     tk .TRPAREN, ident b!"x"]).toOption =
    some ([[num b!"1"], [tk .TLPAREN, num b!"2", tk .TCOMMA, num b!"3", tk .TRPAREN, tk .TCOMMA, num b!"4"]],
         [ident b!"x"]) := by decide +kernel
-- a surplus argument, a missing one, an unterminated invocation
example : errOf (collect [pA] 0 0 [] [] [num b!"1", tk .TCOMMA, tk .TRPAREN]) = some .tooManyArgs := by decide +kernel
example : errOf (collect [pA, pA] 0 0 [] [] [num b!"1", tk .TRPAREN]) = some .notEnoughArgs := by decide +kernel
example : errOf (collect [pA] 0 0 [] [] [tk .TLPAREN, num b!"1"]) = some .eofInArgs := by decide +kernel

/-- **`expandfunc`, as executed by `exec`, is `collect`** — for an invocation whose tokens come
straight from the scanner (empty context stack) and — as far as `collect` reads them (`PlainFor`:
up to the closing parenthesis when it accepts) — contain no new-line, `#`, end of file, scanner
diagnostic or macro name: the same verdict (`Agrees`: accepted, or the same diagnostic),
exactly the tokens up to `collect`'s `)` consumed, and for every parameter the argument `collect`
cut out is stored — its tokens (identifiers painted) if the parameter is used plainly, its
`stringize` string if it is used with `#` (`mkArg`).  With `split_args_correct` and
`stringize_correct`: the stored arguments are the top-level-comma split of the reference and their
6.10.3.2p2 spellings. -/
theorem expandfunc_is_collect (m : Macro) (st : St) (hctx : st.ctx = [])
    (hpl : PlainFor st.macros st.raw (collect m.params 0 0 [] [] st.raw)) (hne : 0 < m.params.length) :
    Agrees m.params m.name st (.expandfunc m) (collect m.params 0 0 [] [] st.raw) :=
  expandfunc_collect m st hctx hpl hne

def mF : Macro := { func := true, name := b!"F", params := [pA, pV] }
def stF : St := { raw := [num b!"1", tk .TCOMMA, tk .TLPAREN, num b!"2", tk .TCOMMA, ident b!"y", tk .TRPAREN,
                          tk .TRPAREN, ident b!"x"], macros := [mF] }
example : stF.ctx = [] ∧ PlainFor stF.macros stF.raw (collect mF.params 0 0 [] [] stF.raw) ∧ 0 < mF.params.length :=
  ⟨rfl, plainFor_of_all (by decide +kernel) _, by decide⟩

/-! ## 7b. Lazy parameter substitution (6.10.3.1, 6.10.3.2)

`ctxnext` replaces a parameter only when it reaches it.  `flat ms ctx` is the eager description of
what the context stack holds: for the frame of a function-like macro its remaining replacement list
with every parameter replaced by the stored argument (`substBody`: first token of a replacement
takes the white-space flag of the parameter's place, `# parameter` is the stored string), for any
other frame its tokens. -/

/-- **Each `ctxnext()` delivers the next token of `flat`** — through parameter replacement, empty
arguments (`goto again`), `#` strings and exhausted frames (`macrodone`) — and reports "nothing"
exactly when `flat` is empty.  Fuel: one unit more than there are tokens on the stack. -/
theorem ctxnext_delivers_flat (k : Nat) (st : St) (hk : ctxSize st.ctx ≤ k) (hW : CtxWF st.macros st.ctx) :
    ∃ s, exec (k + 1) .ctxnext st = .ok s ∧ s.raw = st.raw ∧ CtxWF s.macros s.ctx ∧
      ((s.rb = false ∧ s.ctx = [] ∧ flat st.macros st.ctx = []) ∨
       (s.rb = true ∧ flat st.macros st.ctx = s.rt :: flat s.macros s.ctx)) :=
  ctxnext_flat k st hk hW

/-- **What the frame delivers is the reference's substituted replacement list**: if the stored
arguments are the reference's completely macro-replaced arguments (`full`) and the stored strings
the reference's spellings of the arguments as written (`raw`), then `substBody` equals
`Spec.MacroRef.subst` on the parsed replacement list, token by token in class, spelling and
"never replace" mark. -/
theorem lazy_substitution_correct (m : Macro) (md : MacroRef.MacroDef) (hf : md.func = true)
    (hidx : ∀ t : Tok, MacroRef.paramIndex md (toP t) = macroparam m.params t)
    (raw full : Nat → List MacroRef.HTok)
    (hargs : ∀ i, ((m.args.getD i default).toks).map kh = (full i).map kh')
    (hstr : ∀ i, kh (m.args.getD i default).str =
      ((MacroRef.stringizeRef ((raw i).map (·.tok))).kind, (MacroRef.stringizeRef ((raw i).map (·.tok))).lit, false))
    (body : List Tok) (hb : ∀ t ∈ body, t.hide = false) (pend : Bool) :
    (substBody m body).map kh = (MacroRef.subst raw full (MacroRef.elems md (body.map toP)) pend).map kh' :=
  substBody_spec m md hf hidx raw full hargs hstr body hb pend

/-- the well-formedness `ctxnext_delivers_flat` asks of function-like frames is what `define`
guarantees (with `define_accepts_only_wellformed`) -/
theorem define_hash_followed {m : Macro} (h : m.WF) (hf : m.func = true) : HashFollowed m.params m.body :=
  wf_hashFollowed h hf

-- non-vacuity: `#define G(a, b) a # b x` invoked with a = `1 2`, b = `y`; the frame holds the whole body
def mG : Macro :=
  { func := true, name := b!"G", params := [{ name := b!"a", ftok := true }, { name := b!"b", fstr := true }],
    args := [⟨[num b!"1", num b!"2" true], default⟩, ⟨[], strTok b!"\"y\""⟩],
    body := [ident b!"a" true, tk .THASH none true, ident b!"b", ident b!"x" true] }
example : HashFollowed mG.params mG.body := by
  simp [HashFollowed, mG, ident, tk, macroparam]
  decide
example : flat [mG] [⟨mG.body, some b!"G"⟩] =
    [num b!"1" true, num b!"2" true, ⟨.TSTRINGLIT, some b!"\"y\"", true, false⟩, ident b!"x" true] := by decide +kernel
example : ∃ s, exec 5 .ctxnext { raw := [], ctx := [⟨mG.body, some b!"G"⟩], macros := [mG] } = .ok s ∧
    s.rb = true ∧ s.rt = num b!"1" true := ⟨_, rfl, rfl, rfl⟩

/-! ## 7c. One simple function-like invocation, end to end

`SimpleFun F`: function-like, at least one parameter, no `...`, no `#`, use flags as `define` sets
them.  The invocation is read from the source text (empty context stack), its arguments contain no
macro name, new-line or `#` (`PlainFor`, only as far as `collect` reads), and `collect` accepts. -/

/-- **The model's new context is the reference's new source.**  `expand` completes, consumes exactly
`( … )` (the `)` that the reference's `matchParen` finds), and what the pushed frame will deliver
(`flat`: the replacement list with parameters lazily replaced) equals — by class and spelling — the
list `B` that the reference puts in front of the rest of the source in its own step on this
invocation (second conjunct: `expandH` with one more unit of fuel on `name ( args ) X` is `expandH`
on `B ++ X`, for every continuation `X`). -/
theorem function_like_step_correct (F : Macro) (T lp : Tok) (r : List Tok) (st : St) (args : List (List Tok))
    (rest : List Tok) (hsf : SimpleFun F) (hnd : (st.macros.map (·.name)).Nodup)
    (hctx : st.ctx = []) (hprag : st.prag = false) (hTk : T.kind = .TIDENT) (hTh : T.hide = false)
    (hget : macroget st.macros (T.lit.getD []) = some F) (hFh : F.hide = false)
    (hraw : st.raw = lp :: r) (hlp : lp.kind = .TLPAREN)
    (hcol : collect F.params 0 0 [] [] r = .ok (args, rest))
    (hpl : PlainFor st.macros r (collect F.params 0 0 [] [] r)) :
    ∃ seg rp, r = seg ++ rp :: rest ∧ rp.kind = .TRPAREN ∧
    ∃ n s2, exec n (.expand T) st = .ok s2 ∧ s2.rb = true ∧ s2.raw = rest ∧ s2.depth = st.depth + 1 ∧
      (flat s2.macros s2.ctx).map Tok.key =
        (MacroRef.respace (MacroRef.hsadd [F.name]
          (MacroRef.subst (fun i => (MacroRef.splitTop (seg.length + 1) 0 (seg.map hT) []).getD i [])
                 (fun i => (MacroRef.splitTop (seg.length + 1) 0 (seg.map hT) []).getD i [])
                 (MacroRef.elems (toDefF F) (toDefF F).body) false)) T.space).1.map k2' ∧
      ∀ (K : Nat) (X : List MacroRef.Item), seg.length < K →
        outKeys (MacroRef.expandH false (K + 1) (tblF st.macros)
            (.tok (mkH [] T) :: .tok (mkH [] lp) :: (seg.map iT ++ iT rp :: X))) =
          outKeys (MacroRef.expandH false K (tblF st.macros)
            ((MacroRef.respace (MacroRef.hsadd [F.name]
                (MacroRef.subst (fun i => (MacroRef.splitTop (seg.length + 1) 0 (seg.map hT) []).getD i [])
                       (fun i => (MacroRef.splitTop (seg.length + 1) 0 (seg.map hT) []).getD i [])
                       (MacroRef.elems (toDefF F) (toDefF F).body) false)) T.space).1.map MacroRef.Item.tok ++
             MacroRef.pendItems (MacroRef.respace (MacroRef.hsadd [F.name]
                (MacroRef.subst (fun i => (MacroRef.splitTop (seg.length + 1) 0 (seg.map hT) []).getD i [])
                       (fun i => (MacroRef.splitTop (seg.length + 1) 0 (seg.map hT) []).getD i [])
                       (MacroRef.elems (toDefF F) (toDefF F).body) false)) T.space).2 X)) :=
  funclike_step F T lp r st args rest hsf hnd hctx hprag hTk hTh hget hFh hraw hlp hcol hpl

-- non-vacuity: `#define H(a, b) b + a a` and the text `H ( 1 , ( 2 , y ) ) x`
def pB : Param := { name := b!"b", ftok := true }
def mH : Macro := { func := true, name := b!"H", params := [pA, pB],
                    body := [ident b!"b" true, tk .TADD none true, ident b!"a" true, ident b!"a" true] }
def rawH : List Tok := [num b!"1", tk .TCOMMA, tk .TLPAREN, num b!"2", tk .TCOMMA, ident b!"y", tk .TRPAREN,
                        tk .TRPAREN, ident b!"x"]
example : SimpleFun mH :=
  ⟨rfl, by decide, by decide, by decide, by
    intro t ht i hi
    simp only [mH, List.mem_cons, List.mem_nil_iff, or_false] at ht
    rcases ht with rfl | rfl | rfl | rfl <;> revert hi <;> revert i <;> decide⟩
example : (collect mH.params 0 0 [] [] rawH).toOption =
    some ([[num b!"1"], [tk .TLPAREN, num b!"2", tk .TCOMMA, ident b!"y", tk .TRPAREN]], [ident b!"x"]) := by decide +kernel
example : PlainFor [mH] rawH (collect mH.params 0 0 [] [] rawH) := plainFor_of_all (by decide +kernel) _

/-! ## 7d. Tables with function-like macros: the whole stream

The class.  `TblOK ms0` (table): distinct names; no empty replacement list; replacement lists of
unpainted tokens, none of them the name of a function-like macro (object-like macros may refer
to each other and to themselves in any way); every function-like macro is `SimpleFun` (at least
one parameter, no `...`, no `#`).  `TextOK ms0 raw` (text): no directive; every occurrence of the
name of a function-like macro is an invocation that `collect` accepts, whose arguments hold no
macro name, new-line or `#` and none of which is empty; the list may end with the end-of-file token.  `GoodF ms0 st` (state): the table of
`st` is `ms0` up to the hide flags and the stored arguments, the hide-flag invariant holds, and
what the context stack still holds (`flat`) is free of function-like names.  `absF st` is the
source still to be processed as the reference sees it: the tokens the context stack will deliver
(parameters lazily replaced), each with the hide set "macros with a live frame at or below it",
then the text up to its end-of-file token (new-lines dropped). -/

/-- **Object-like and simple function-like macros together: the token stream of the model is the
token stream of the reference.**  If the model's run completes, the reference — with `J` units
of fuel or more — completes without diagnostic and delivers the same tokens by class and
spelling (after `keyword()`; the model's final `TEOF` aside). -/
theorem function_like_correct_partial (ms0 : List Macro) (hTb : TblOK ms0) (n : Nat) (st : St) (g : GoodF ms0 st)
    (ht : TextOK ms0 st.raw) (hrun : (run n st).2 = none) :
    ∃ J, ∀ K, J ≤ K →
      (MacroRef.expandH false K (tblF ms0) (absF st)).2.1 = none ∧
      (MacroRef.expandH false K (tblF ms0) (absF st)).1.map (fun t => kwKey t.tok.key) = runKeys (run n st).1 := by
  obtain ⟨L, hL, hlink⟩ := run_simF ms0 hTb n st g ht hrun
  obtain ⟨J, hJ⟩ := hlink.final
  refine ⟨J, fun K hK => ?_⟩
  have := hJ K hK
  simp only [outKeys, Prod.mk.injEq] at this
  refine ⟨this.2, ?_⟩
  rw [← hL, ← this.1, List.map_map]
  rfl

/-- the same from the start of a text, with the class given by its executable tests (`tblOKb`,
`textOKb`: what the check's driver evaluates to count the units this theorem covers) -/
theorem function_like_correct_init (ms0 : List Macro) (raw : List Tok) (n : Nat) (h1 : tblOKb ms0 = true)
    (h2 : ∀ m ∈ ms0, m.hide = false) (h3 : textOKb ms0 (raw.length + 1) raw = true)
    (hrun : (run n { raw := raw, macros := ms0 }).2 = none) :
    ∃ J, ∀ K, J ≤ K →
      (MacroRef.expandH false K (tblF ms0) ((absRawF raw).map .tok)).2.1 = none ∧
      (MacroRef.expandH false K (tblF ms0) ((absRawF raw).map .tok)).1.map (fun t => kwKey t.tok.key)
        = runKeys (run n { raw := raw, macros := ms0 }).1 :=
  function_like_correct_partial ms0 (tblOK_of_b h1) n { raw := raw, macros := ms0 }
    (goodF_init ms0 raw (tblOK_of_b h1) h2) (textOK_of_b ms0 _ raw h3) hrun

-- non-vacuity: `#define H(a, b) b + a a` / `#define A B x` / `#define B A H`, and the text
-- `A H ( 1 , ( 2 , y ) ) x` new-line `B H(z,z)`
def mAB' : Macro := { func := false, name := b!"A", body := [ident b!"B" true, ident b!"x" true] }
def mBA' : Macro := { func := false, name := b!"B", body := [ident b!"A" true, num b!"7" true] }
def tblHAB : List Macro := [mH, mAB', mBA']
def rawHAB : List Tok := ident b!"A" :: ident b!"H" true :: tk .TLPAREN none true :: rawH ++
  [NL, ident b!"B", ident b!"H" true, tk .TLPAREN, ident b!"z", tk .TCOMMA, ident b!"z", tk .TRPAREN, NL, tk .TEOF]
example : tblOKb tblHAB = true := by decide +kernel
example : ∀ m ∈ tblHAB, m.hide = false := by decide
example : textOKb tblHAB (rawHAB.length + 1) rawHAB = true := by decide +kernel
example : (run 60 { raw := rawHAB, macros := tblHAB }).2 = none := by decide +kernel
example : runKeys (run 60 { raw := rawHAB, macros := tblHAB }).1 =
    [ident b!"A", num b!"7", ident b!"x", tk .TLPAREN, num b!"2", tk .TCOMMA, ident b!"y", tk .TRPAREN, tk .TADD,
     num b!"1", num b!"1", ident b!"x", ident b!"B", ident b!"x", num b!"7", ident b!"z", tk .TADD, ident b!"z",
     ident b!"z"].map (fun t => (t.kind, t.lit)) := by decide +kernel

/-! ## 7e. Arguments with macro names and nested invocations: complete replacement before substitution (6.10.3.1)

The class of texts grows (`TextP`, `ArgsOK`): the tokens between the parentheses of an invocation may
name object-like macros of the table and may hold complete invocations of function-like macros
(`F(G(A), (F(1, G(2)), y))`), to any depth; the name of a function-like macro is always followed by
its parenthesised arguments; no new-line, no `#` token in the text.  The class of tables grows too
(`TblOKS`): the replacement list of a function-like macro may hold `# parameter` (`SimpleFunS`: as
`define` accepts it; no parameter is used both with `#` and outside: there lives the recorded finding
stringize-nested-call), and the string the model builds while it reads the argument is the spelling the
reference computes (`stringize_correct`).  `expandfunc` reads
the arguments through `expand`: the replacement of a macro named in an argument is pushed on the
context stack and delivered into the argument while the nesting depth tells it apart from the
text of the invocation; the reference isolates each argument and replaces it completely on its
own.  The abstraction carries paint marks (`mkHp`: a hidden token that names a macro), because a
macro name painted inside an argument must stay painted when the replacement list is rescanned. -/

/-- **Complete macro replacement of the arguments, then substitution, then rescanning: the token
stream of the model is the token stream of the reference** on tables of object-like and simple
function-like macros and texts whose invocations have arguments with object-like macro names and
nested invocations.  If
the model's run completes, the reference — with `J` units of fuel or more — completes without
diagnostic and delivers the same tokens by class and spelling (after `keyword()`). -/
theorem function_like_args_correct_partial (ms0 : List Macro) (hTb : TblOKS ms0) (n : Nat) (st : St) (g : GoodP ms0 st)
    (ht : TextP ms0 st.raw) (hrun : (run n st).2 = none) :
    ∃ J, ∀ K, J ≤ K →
      (MacroRef.expandH false K (tblF ms0) (absP ms0 st)).2.1 = none ∧
      (MacroRef.expandH false K (tblF ms0) (absP ms0 st)).1.map (fun t => kwKey t.tok.key) = runKeys (run n st).1 := by
  obtain ⟨L, hL, hlink⟩ := run_simP ms0 hTb n st g ht hrun
  obtain ⟨J, hJ⟩ := hlink.final
  refine ⟨J, fun K hK => ?_⟩
  have := hJ K hK
  simp only [outKeys, Prod.mk.injEq] at this
  refine ⟨this.2, ?_⟩
  rw [← hL, ← this.1, List.map_map]
  rfl

/-- the same from the start of a text, with the class given by its executable tests (`tblOKb`,
`textPb`), and the source of the reference written without paint marks (`absRawF`) -/
theorem function_like_args_correct_init (ms0 : List Macro) (raw : List Tok) (n : Nat) (h1 : tblOKSb ms0 = true)
    (h2 : ∀ m ∈ ms0, m.hide = false) (h3 : textPb ms0 (raw.length + 1) raw = true)
    (hrun : (run n { raw := raw, macros := ms0 }).2 = none) :
    ∃ J, ∀ K, J ≤ K →
      (MacroRef.expandH false K (tblF ms0) ((absRawF raw).map .tok)).2.1 = none ∧
      (MacroRef.expandH false K (tblF ms0) ((absRawF raw).map .tok)).1.map (fun t => kwKey t.tok.key)
        = runKeys (run n { raw := raw, macros := ms0 }).1 := by
  have ht := textP_of_b ms0 _ raw h3
  have := function_like_args_correct_partial ms0 (tblOKS_of_b h1) n { raw := raw, macros := ms0 }
    (goodP_init ms0 raw (tblOKS_of_b h1) h2) ht hrun
  have e : absP ms0 { raw := raw, macros := ms0 } = (absRawF raw).map .tok := by
    show absX ms0 _ _ = _
    rw [absX_nil_ctx ms0 _ _ rfl]
    show (absRawP ms0 raw).map _ = _
    rw [absRawP_eq ht]
  rw [e] at this
  exact this

-- non-vacuity: the table above, and the text `H ( A , ( B , y ) ) x`: the first argument is replaced
-- by `A 7 x` (inner `A` painted), the second by `( B x 7 , y )` (inner `B` painted)
def rawArgs : List Tok := [ident b!"H", tk .TLPAREN none true, ident b!"A" true, tk .TCOMMA none true, tk .TLPAREN none true,
  ident b!"B" true, tk .TCOMMA none true, ident b!"y" true, tk .TRPAREN none true, tk .TRPAREN none true, ident b!"x" true,
  NL, tk .TEOF]
-- and `H ( H ( 1 , A ) , B ) ;`: an invocation nested in an argument
def rawNest : List Tok := [ident b!"H", tk .TLPAREN none true, ident b!"H" true, tk .TLPAREN none true, num b!"1" true,
  tk .TCOMMA none true, ident b!"A" true, tk .TRPAREN none true, tk .TCOMMA none true, ident b!"B" true,
  tk .TRPAREN none true, tk .TSEMICOLON none true, NL, tk .TEOF]
example : textPb tblHAB (rawNest.length + 1) rawNest = true := by decide +kernel
example : (run 120 { raw := rawNest, macros := tblHAB }).2 = none := by decide +kernel
-- and `#define S(a, b) #a b` with the text `S ( H ( 1 , A ) "q" , B )`: the first argument is spelled, not replaced
def pAs : Param := { name := b!"a", fstr := true }
def mS : Macro := { func := true, name := b!"S", params := [pAs, pB],
                    body := [tk .THASH none true, ident b!"a", ident b!"b" true] }
def tblS : List Macro := mS :: tblHAB
def rawS : List Tok := [ident b!"S", tk .TLPAREN none true, ident b!"H" true, tk .TLPAREN none true, num b!"1" true,
  tk .TCOMMA none true, ident b!"A" true, tk .TRPAREN none true, tk .TSTRINGLIT (some b!"\"q\"") true, tk .TCOMMA none true,
  ident b!"B" true, tk .TRPAREN none true, NL, tk .TEOF]
example : tblOKSb tblS = true := by decide +kernel
example : tblOKb tblS = false := by decide +kernel
example : textPb tblS (rawS.length + 1) rawS = true := by decide +kernel
example : runKeys (run 80 { raw := rawS, macros := tblS }).1 =
    [tk .TSTRINGLIT (some b!"\"H ( 1 , A ) \\\"q\\\"\""), ident b!"B", ident b!"x", num b!"7"].map (fun t => (t.kind, t.lit)) := by
  decide +kernel
example : tblOKSb tblHAB = true := by decide +kernel
example : textPb tblHAB (rawArgs.length + 1) rawArgs = true := by decide +kernel
example : textOKb tblHAB (rawArgs.length + 1) rawArgs = false := by decide +kernel
example : (run 80 { raw := rawArgs, macros := tblHAB }).2 = none := by decide +kernel
example : runKeys (run 80 { raw := rawArgs, macros := tblHAB }).1 =
    [tk .TLPAREN, ident b!"B", ident b!"x", num b!"7", tk .TCOMMA, ident b!"y", tk .TRPAREN, tk .TADD,
     ident b!"A", num b!"7", ident b!"x", ident b!"A", num b!"7", ident b!"x", ident b!"x"].map (fun t => (t.kind, t.lit)) := by
  decide +kernel

/-- **A macro is marked ineligible exactly while one of its frames is live** — after every
completed `next()` on a good state of this class too (function-like frames and argument frames
included). -/
theorem hide_iff_active_funclike (ms0 : List Macro) (hTb : TblOKS ms0) (n : Nat) (st st' : St) (g : GoodP ms0 st)
    (ht : TextP ms0 st.raw) (h : exec n .next st = .ok st') :
    ∀ m ∈ st'.macros, (m.hide = true ↔ ∃ f ∈ st'.ctx, f.mac = some m.name) := by
  have g' := (next_simP ms0 hTb n st st' g ht h).1
  intro m hm
  rw [g'.inv.hideIff m hm]
  simp only [liveNames, List.mem_filterMap]

/-! ## 7f. Termination with function-like macros

The run of the model completes on every good state over a text of the class (`TextP`): the
context stack has a potential (`potW`: the weights `W` of the tokens it will deliver, each against
the macros without a live frame at or below it; a replacement trades a token's weight for one unit
less), the argument loop completes on the text of every invocation (`loopTot_of_argsOK`, by
induction on the structure of the arguments, with the potential for the replacements inside an
argument), and the text gets shorter.  No bound is computed: the statement is that enough fuel
exists, and then (`fuel_monotone_run`) any larger amount gives the same run. -/

/-- **Termination without a fuel hypothesis** for object-like and simple function-like macros,
arguments with macro names and nested invocations. -/
theorem function_like_terminates (ms0 : List Macro) (hTb : TblOKS ms0) (st : St) (g : GoodP ms0 st)
    (ht : TextP ms0 st.raw) : ∃ N, ∀ n, N ≤ n → (run n st).2 = none :=
  run_totalP ms0 hTb st g ht

/-- **Total correctness on the class**: with enough fuel on both sides the model's run completes and
is what the reference delivers (no hypothesis that the run completes). -/
theorem function_like_correct_total (ms0 : List Macro) (raw : List Tok) (h1 : tblOKSb ms0 = true)
    (h2 : ∀ m ∈ ms0, m.hide = false) (h3 : textPb ms0 (raw.length + 1) raw = true) :
    ∃ N J, ∀ n K, N ≤ n → J ≤ K →
      (run n { raw := raw, macros := ms0 }).2 = none ∧
      (MacroRef.expandH false K (tblF ms0) ((absRawF raw).map .tok)).2.1 = none ∧
      (MacroRef.expandH false K (tblF ms0) ((absRawF raw).map .tok)).1.map (fun t => kwKey t.tok.key)
        = runKeys (run n { raw := raw, macros := ms0 }).1 := by
  have hTb := tblOKS_of_b h1
  have ht := textP_of_b ms0 _ raw h3
  have g := goodP_init ms0 raw hTb h2
  obtain ⟨N, hN⟩ := function_like_terminates ms0 hTb { raw := raw, macros := ms0 } g ht
  obtain ⟨J, hJ⟩ := function_like_args_correct_init ms0 raw N h1 h2 h3 (hN N (Nat.le_refl _))
  refine ⟨N, J, fun n K hn hK => ?_⟩
  have hrun : run n { raw := raw, macros := ms0 } = run N { raw := raw, macros := ms0 } := by
    obtain ⟨d, hd⟩ := Nat.exists_eq_add_of_le hn
    rw [hd]
    exact run_mono N d _ (by rw [hN N (Nat.le_refl _)]; intro hh; cases hh)
  rw [hrun]
  exact ⟨hN N (Nat.le_refl _), (hJ K hK).1, (hJ K hK).2⟩

/-! ## 8. Function-like macros: the full statement, and why it is false today

Full strength: on every translation unit on which both complete, model and reference deliver the
same tokens.  It holds for units with object-like macros (`object_like_correct`), and its
function-like ingredients are proved separately (`split_args_correct`, `stringize_correct`,
`painted_never_expands`, `too_many_args_rejected`, `define_*`); as a whole it is false of the
current tree, by the recorded known findings: -/

def unit_correct_full : Prop :=
  ∀ (unit : List Tok) (n k : Nat),
    (run n (St.init unit false)).2 = none → (MacroRef.expandUnit k (unit.map toP)).err = none →
    runKeys (run n (St.init unit false)).1 = (MacroRef.expandUnit k (unit.map toP)).toks.map (fun t => kwKey t.key)

def HASH : Tok := tk .THASH
def EOFT : Tok := tk .TEOF

/-- `#define N(x) x` / `#define M(p) p #p` / `M(N(2))`  (known finding `stringize-nested-call`) -/
def unitNested : List Tok :=
  [HASH, ident b!"define", ident b!"N" true, tk .TLPAREN, ident b!"x", tk .TRPAREN, ident b!"x" true, NL,
   HASH, ident b!"define", ident b!"M" true, tk .TLPAREN, ident b!"p", tk .TRPAREN, ident b!"p" true,
     tk .THASH none true, ident b!"p", NL,
   ident b!"M", tk .TLPAREN, ident b!"N", tk .TLPAREN, num b!"2", tk .TRPAREN, tk .TRPAREN, NL, EOFT]

/-- the model (like pp.c) delivers `2 "N"`, C11 6.10.3.2p2 demands `2 "N(2)"` -/
theorem unit_correct_counterexample : ¬ unit_correct_full := by
  intro h
  have := h unitNested 200 200 (by decide +kernel) (by decide +kernel)
  revert this
  decide +kernel

/-- `#define S(x) #x` / `#define T(y) S(a y+b)` / `T()`  (known finding `empty-expansion-space`):
the model delivers `"a+b"`, the reference `"a +b"` -/
def unitEmptySpace : List Tok :=
  [HASH, ident b!"define", ident b!"S" true, tk .TLPAREN, ident b!"x", tk .TRPAREN, tk .THASH none true, ident b!"x", NL,
   HASH, ident b!"define", ident b!"T" true, tk .TLPAREN, ident b!"y", tk .TRPAREN, ident b!"S" true, tk .TLPAREN,
     ident b!"a", ident b!"y" true, tk .TADD, ident b!"b", tk .TRPAREN, NL,
   ident b!"T", tk .TLPAREN, tk .TRPAREN, NL, EOFT]

theorem empty_expansion_space_witness :
    runKeys (run 200 (St.init unitEmptySpace false)).1 = [(.TSTRINGLIT, some b!"\"a+b\"")] ∧
    (MacroRef.expandUnit 200 (unitEmptySpace.map toP)).toks.map (·.key) = [(.TSTRINGLIT, some b!"\"a +b\"")] := by
  decide +kernel

/-- units on which the full statement does hold are not rare: e.g. a variadic macro with an
argument containing parentheses and commas, stringification, self reference:
`#define F(x, ...) #x __VA_ARGS__ F` / `F(a + 1, (3, 4), 5)` -/
def unitFine : List Tok :=
  [HASH, ident b!"define", ident b!"F" true, tk .TLPAREN, ident b!"x", tk .TCOMMA, tk .TELLIPSIS, tk .TRPAREN,
     tk .THASH none true, ident b!"x", ident b!"__VA_ARGS__" true, ident b!"F" true, NL,
   ident b!"F", tk .TLPAREN, ident b!"a", tk .TADD none true, num b!"1", tk .TCOMMA, tk .TLPAREN, num b!"3",
     tk .TCOMMA, num b!"4", tk .TRPAREN, tk .TCOMMA, num b!"5", tk .TRPAREN, NL, EOFT]

example : (run 120 (St.init unitFine false)).2 = none ∧
    runKeys (run 120 (St.init unitFine false)).1 =
      (MacroRef.expandUnit 120 (unitFine.map toP)).toks.map (fun t => kwKey t.key) := by decide +kernel

end CprocVerif.C12

import CprocVerif.Lemmas.LinkageCor

/-!
# C09 — linkage and the unit's symbol table follow C11 6.2.2 / 6.9

`Model/Linkage.lean` transliterates `decl.c` (`getlinkage`, `declcommon`, the object and function
branches of `decl`, `emittentativedefns`) and the naming of `qbe.c:mkglobal`; `Spec/Link.lean` states
C11 on the whole history of declarations of one identifier.  The theorems quantify over histories
of any length.
-/
namespace CprocVerif.C09
open CprocVerif.Linkage CprocVerif.Link

theorem run_eq (h : List Form) :
    run h = (match stepsRev h.reverse with | .ok s => .ok (finish s) | .error e => .error e) := by
  unfold run
  rw [steps_eq_rev]
  cases stepsRev h.reverse <;> rfl

/-- decidable form of "the model accepts `h` with the symbols the spec prescribes" -/
def agrees (h : List Form) : Bool :=
  match run h with
  | .ok s => decide (symbols s = Link.symbols h)
  | .error _ => false

theorem agrees_of {h : List Form} (hx : ∃ s, run h = .ok s ∧ symbols s = Link.symbols h) :
    agrees h = true := by
  obtain ⟨s, hs, hsym⟩ := hx
  simp [agrees, hs, hsym]

theorem classify_ok {h : List Form} (hok : Link.ok h) : verdictRev h.reverse = .ok := by
  unfold Link.ok classify at hok
  cases hv : verdictRev h.reverse <;> rw [hv] at hok <;> simp_all

theorem classify_violates {h : List Form} {c : Clause} (hc : classify h = .violates c) :
    verdictRev h.reverse = .violates c := by
  unfold classify at hc
  cases hv : verdictRev h.reverse with
  | ok =>
    rw [hv] at hc
    simp only [judgeEnd] at hc
    split at hc <;> cases hc
  | violates c' => rw [hv] at hc; exact hc
  | undefined c' => rw [hv] at hc; cases hc
  | unspecified c' => rw [hv] at hc; cases hc

/-! ## The property at full strength, and why it does not hold today -/

/-- Full strength: whatever history C11 accepts, the model accepts and yields the prescribed
symbols. -/
def linkage_history_correct_full : Prop :=
  ∀ h : List Form, Link.ok h → ∃ s, run h = .ok s ∧ symbols s = Link.symbols h

def Fi1 : Form := ⟨.func, .none, true, .file, true, none⟩     -- inline int f(void){…}
def Fe0 : Form := ⟨.func, .extern, false, .file, false, none⟩ -- extern int f(void);
def Ot0 : Form := ⟨.obj, .none, true, .file, false, none⟩     -- _Thread_local int x;
def Ot1 : Form := ⟨.obj, .none, true, .file, true, none⟩      -- _Thread_local int x = 1;
def On0 : Form := ⟨.obj, .none, false, .file, false, none⟩    -- int x;
def Be0 : Form := ⟨.obj, .extern, false, .block, false, none⟩ -- { extern int x; }

/-- `inline int f(void){…} extern int f(void);` — C11: external definition of `f`; the model
(like `decl.c`, see its XXX) emits nothing.  fid `inline-then-extern-not-emitted`. -/
theorem linkage_history_correct_counterexample : ¬ linkage_history_correct_full := by
  intro hfull
  have h := agrees_of (hfull [Fi1, Fe0] (by decide))
  revert h
  decide

/-- `_Thread_local int x; _Thread_local int x = 1;` — valid C11 (tentative definition, then the
definition); the model rejects it.  fid `thread-local-tentative-then-init`. -/
theorem linkage_history_correct_counterexample_thread :
    Link.ok [Ot0, Ot1] ∧ ∃ e, run [Ot0, Ot1] = .error e :=
  ⟨by decide, (isError_iff _).1 (by decide)⟩

/-- **Main theorem.**  Outside the two classes above, every history C11 accepts is accepted by the
model, and the model's symbol table (definitions, export, thread marks, unique local names,
undefined references) is the one C11 prescribes. -/
theorem linkage_history_correct_partial (h : List Form) (hok : Link.ok h)
    (hI : inlineThenExtern h = false) (hT : threadTentativeThenInit h = false) :
    ∃ s, run h = .ok s ∧ symbols s = Link.symbols h := by
  obtain ⟨s, hs, inv, io⟩ := full_sim h.reverse (classify_ok hok) hT hI
  refine ⟨finish s, by rw [run_eq, hs], ?_⟩
  exact symbols_finish inv io

/-- Full strength: every constraint violation is rejected. -/
def rejects_violations_full : Prop :=
  ∀ h : List Form, Link.violates h → ∃ e, run h = .error e

/-- `void u(void){ extern int x; } _Thread_local int x;` violates 6.7.1p3; the model accepts it
(`decl.c` keeps no record of block-scope `extern` declarations once their block is closed — the
XXX in `declcommon` — so the file-scope declaration is compared with nothing). -/
theorem rejects_violations_counterexample : ¬ rejects_violations_full := by
  intro hfull
  have h := (isError_iff _).2 (hfull [Be0, Ot0] ⟨.c6_7_1p3_threadMismatchUnseenBlockExtern, by decide⟩)
  revert h
  decide

/-- Every constraint violation other than a `_Thread_local` mismatch with a block-scope `extern`
declaration that is no longer (or not) visible is rejected. -/
theorem rejects_violations_partial (h : List Form) (c : Clause) (hc : classify h = .violates c)
    (hne : c ≠ .c6_7_1p3_threadMismatchUnseenBlockExtern) : ∃ e, run h = .error e := by
  obtain ⟨e, he⟩ := viol_sim h.reverse c (classify_violates hc) hne
  exact ⟨e, by rw [run_eq, he]⟩

/-- A second external definition (undefined behaviour by 6.9p5 when the linkage is external, so not
part of `violates`) is rejected as well. -/
theorem rejects_redefinition (h : List Form)
    (hc : classify h = .undefined .c6_9p5_externalRedefined) : ∃ e, run h = .error e := by
  have hv : verdictRev h.reverse = .undefined .c6_9p5_externalRedefined := by
    unfold classify at hc
    cases hv : verdictRev h.reverse with
    | ok =>
      rw [hv] at hc
      simp only [judgeEnd] at hc
      split at hc <;> cases hc
    | violates c' => rw [hv] at hc; cases hc
    | undefined c' => rw [hv] at hc; exact hc
    | unspecified c' => rw [hv] at hc; cases hc
  obtain ⟨e, he⟩ := redef_sim h.reverse hv
  exact ⟨e, by rw [run_eq, he]⟩

/-! ## Corollaries, clause by clause of the property -/

/-- What is known about an accepted history: the run, its symbol table, and a valid abstract
state that determines every aggregate of the annotated history. -/
theorem shape (h : List Form) (hok : Link.ok h) (hI : inlineThenExtern h = false)
    (hT : threadTentativeThenInit h = false) :
    ∃ s file top g, run h = .ok s ∧ symbols s = Link.symbols h ∧ valid file top g = true ∧
      aggs (annot h.reverse) = G file top g := by
  obtain ⟨s, file, top, g, hs, hsym, hv, hag⟩ := accepted_shape h (classify_ok hok) hI hT
  exact ⟨finish s, file, top, g, by rw [run_eq, hs], hsym, hv, hag⟩

theorem symbols_main (h : List Form) :
    (Link.symbols h).main =
      (mainA (aggs (annot h.reverse))).toList.map (symOf (nameOf (aggs (annot h.reverse)))) :=
  symbolsRev_main _

/-- "tentative definitions yield exactly one zero-initialised definition at end of unit":
any number of tentative definitions and no definition ⇒ exactly one symbol, zero-initialised. -/
theorem tentative_exactly_one (h : List Form) (hok : Link.ok h) (hI : inlineThenExtern h = false)
    (hT : threadTentativeThenInit h = false)
    (ht : ∃ f ∈ h, f.scope = .file ∧ f.kind = .obj ∧ f.hasDef = false ∧ f.sc ≠ .extern)
    (hn : ∀ f ∈ h, f.scope = .file → f.hasDef = false) :
    ∃ s y, run h = .ok s ∧ (symbols s).main = [y] ∧ y.zero = true ∧ y.isFunc = false := by
  obtain ⟨s, file, top, g, hr, hsym, hv, hag⟩ := shape h hok hI hT
  have hft : (aggs (annot h.reverse)).fTent = true := by
    rw [aggs_fTent, List.any_eq_true]
    obtain ⟨f, hf, h1, h2, h3, h4⟩ := ht
    exact ⟨f, List.mem_reverse.2 hf, by simp [h1, h2, h3, h4]⟩
  have hhd : (aggs (annot h.reverse)).hasDef = false := by
    rw [aggs_hasDef, List.any_eq_false]
    intro f hf
    have := hn f (List.mem_reverse.1 hf)
    by_cases hs : f.scope = .file <;> simp [hs, this]
  have hgt : g.ftent = true := by rw [hag] at hft; exact hft
  obtain ⟨l, hl⟩ := valid_ftent hv hgt
  have hlh : (aggs (annot h.reverse)).lHead = some (.obj, l) := by rw [hag]; exact hl
  have hm : mainA (aggs (annot h.reverse)) =
      some (false, decide (l = .extern), (aggs (annot h.reverse)).lThread, true) := by
    simp [mainA, hlh, hhd, hft]
  refine ⟨s, symOf (nameOf (aggs (annot h.reverse)))
    (false, decide (l = .extern), (aggs (annot h.reverse)).lThread, true), hr, ?_, rfl, rfl⟩
  rw [hsym, symbols_main, hm]; rfl

/-- "`extern` declarations yield none": a history made only of `extern` declarations without
initialiser (objects or functions, any scope) defines nothing. -/
theorem extern_decl_emits_nothing (h : List Form) (hok : Link.ok h) (hI : inlineThenExtern h = false)
    (hT : threadTentativeThenInit h = false)
    (he : ∀ f ∈ h, f.sc = .extern ∧ f.hasDef = false) :
    ∃ s, run h = .ok s ∧ (symbols s).main = [] ∧ (symbols s).locals = [] := by
  obtain ⟨s, file, top, g, hr, hsym, hv, hag⟩ := shape h hok hI hT
  have hft : (aggs (annot h.reverse)).fTent = false := by
    rw [aggs_fTent, List.any_eq_false]
    intro f hf
    simp [(he f (List.mem_reverse.1 hf)).1]
  have hhd : (aggs (annot h.reverse)).hasDef = false := by
    rw [aggs_hasDef, List.any_eq_false]
    intro f hf
    simp [(he f (List.mem_reverse.1 hf)).2]
  refine ⟨s, hr, ?_, ?_⟩
  · rw [hsym, symbols_main]
    have : mainA (aggs (annot h.reverse)) = none := by
      unfold mainA
      rcases (aggs (annot h.reverse)).lHead with _ | ⟨k, l⟩
      · rfl
      · cases k <;> simp [hhd, hft]
    rw [this]; rfl
  · rw [hsym]
    show localsRev _ = []
    apply localsRev_nil
    intro d hd
    have := (he _ (List.mem_reverse.1 (mem_annot_form hd))).1
    simp [Decl.blockStatic, this]

theorem mem_main {h : List Form} {y : Sym} (hy : y ∈ (Link.symbols h).main) :
    ∃ t, mainA (aggs (annot h.reverse)) = some t ∧ y = symOf (nameOf (aggs (annot h.reverse))) t := by
  rw [symbols_main] at hy
  rcases hm : mainA (aggs (annot h.reverse)) with _ | t
  · rw [hm] at hy; cases hy
  · rw [hm] at hy
    simp only [Option.toList, List.map_cons, List.map_nil, List.mem_singleton] at hy
    exact ⟨t, rfl, hy⟩

/-- "internal-linkage … objects are local": with a file-scope `static` declaration in the history
nothing is exported; block-scope statics never are. -/
theorem static_is_local (h : List Form) (hok : Link.ok h) (hI : inlineThenExtern h = false)
    (hT : threadTentativeThenInit h = false)
    (hs : ∃ f ∈ h, f.scope = .file ∧ f.sc = .static) :
    ∃ s, run h = .ok s ∧ (∀ y ∈ (symbols s).main, y.exported = false) ∧
      (∀ y ∈ (symbols s).locals, y.exported = false) := by
  obtain ⟨s, file, top, g, hr, hsym, hv, hag⟩ := shape h hok hI hT
  refine ⟨s, hr, ?_, ?_⟩
  · intro y hy
    rw [hsym] at hy
    obtain ⟨t, hm, rfl⟩ := mem_main hy
    obtain ⟨k, l, hlh, hexp, _, _⟩ := mainA_some hm
    obtain ⟨f, hf, hfile, hst⟩ := hs
    obtain ⟨d, hd, rfl⟩ := mem_annot_of_form (List.mem_reverse.2 hf)
    obtain ⟨p, hp⟩ := annot_link _ d hd
    have hdl : d.link = .intern := by rw [hp]; exact c11Link_file_static _ _ hfile hst
    obtain ⟨k', hk'⟩ := linked_eq_lent hv hag hd (by rw [hdl]; decide)
    have : (aggs (annot h.reverse)).lHead = g.lent := by rw [hag]; rfl
    rw [hlh, hk', hdl] at this
    cases this
    show t.2.1 = false
    rw [hexp]; rfl
  · intro y hy
    rw [hsym] at hy
    exact (localsRev_exported _ y hy).1

/-- "redeclarations inherit prior linkage": in an accepted history every declaration with linkage
has one and the same linkage, and it alone decides whether the definition is exported — e.g.
`static int x; extern int x;` stays local. -/
theorem redeclaration_inherits_linkage (h : List Form) (hok : Link.ok h)
    (hI : inlineThenExtern h = false) (hT : threadTentativeThenInit h = false) :
    ∃ s, run h = .ok s ∧ ∀ l ∈ Link.linkages h, l ≠ .none →
      (∀ l' ∈ Link.linkages h, l' ≠ .none → l' = l) ∧
      (∀ y ∈ (symbols s).main, y.exported = decide (l = .extern)) := by
  obtain ⟨s, file, top, g, hr, hsym, hv, hag⟩ := shape h hok hI hT
  refine ⟨s, hr, ?_⟩
  have key : ∀ l ∈ Link.linkages h, l ≠ .none → ∃ k, g.lent = some (k, l) := by
    intro l hl hne
    simp only [Link.linkages, List.mem_map, List.mem_reverse] at hl
    obtain ⟨d, hd, rfl⟩ := hl
    exact linked_eq_lent hv hag hd hne
  intro l hl hne
  obtain ⟨k, hk⟩ := key l hl hne
  refine ⟨fun l' hl' hne' => ?_, fun y hy => ?_⟩
  · obtain ⟨k', hk'⟩ := key l' hl' hne'
    rw [hk] at hk'
    cases hk'; rfl
  · rw [hsym] at hy
    obtain ⟨t, hm, rfl⟩ := mem_main hy
    obtain ⟨k2, l2, hlh, hexp, _, _⟩ := mainA_some hm
    have : (aggs (annot h.reverse)).lHead = g.lent := by rw [hag]; rfl
    rw [hlh, hk] at this
    cases this
    exact hexp

/-- "inline functions without an external definition are not emitted": if every declaration of
the function is `inline` without storage-class specifier, no definition is printed. -/
theorem inline_without_extern_not_emitted (h : List Form) (hok : Link.ok h)
    (hI : inlineThenExtern h = false) (hT : threadTentativeThenInit h = false)
    (hin : ∀ f ∈ h, f.kind = .func ∧ f.flag = true ∧ f.sc = .none) :
    ∃ s, run h = .ok s ∧ (symbols s).main = [] := by
  obtain ⟨s, file, top, g, hr, hsym, hv, hag⟩ := shape h hok hI hT
  refine ⟨s, hr, ?_⟩
  rw [hsym, symbols_main]
  have hpure : (aggs (annot h.reverse)).fPure = true := by
    rw [aggs_fPure, List.all_eq_true]
    intro f hf
    obtain ⟨_, h2, h3⟩ := hin f (List.mem_reverse.1 hf)
    simp [h2, h3]
  have hext := all_extern h.reverse (fun f hf =>
    ⟨(hin f (List.mem_reverse.1 hf)).2.2, (hin f (List.mem_reverse.1 hf)).1⟩)
  have hm : mainA (aggs (annot h.reverse)) = none := by
    unfold mainA
    rcases hlh : (aggs (annot h.reverse)).lHead with _ | ⟨k, l⟩
    · rfl
    · have hlh' : (linkedDecls (annot h.reverse)).head?.map (fun d => (d.form.kind, d.link)) = some (k, l) := hlh
      rcases hh : (linkedDecls (annot h.reverse)).head? with _ | d0
      · rw [hh] at hlh'; cases hlh'
      · rw [hh] at hlh'
        simp only [Option.map_some, Option.some.injEq, Prod.mk.injEq] at hlh'
        have hd0' : d0 ∈ linkedDecls (annot h.reverse) := List.mem_of_mem_head? (by rw [hh]; rfl)
        have hd0 : d0 ∈ annot h.reverse := (List.mem_filter.1 hd0').1
        have hk : k = .func := by
          rw [← hlh'.1]; exact (hin _ (List.mem_reverse.1 (mem_annot_form hd0))).1
        have hl : l = .extern := by rw [← hlh'.2]; exact hext d0 hd0
        subst hk hl
        simp [hpure]
  rw [hm]; rfl

/-- "Assembler labels are used verbatim": when the first declaration (at file scope) carries the
label, every definition of the entity and every undefined reference to it is spelled with the
label. -/
theorem asm_label_verbatim (f0 : Form) (rest : List Form) (lab : Label) (hok : Link.ok (f0 :: rest))
    (hI : inlineThenExtern (f0 :: rest) = false) (hT : threadTentativeThenInit (f0 :: rest) = false)
    (hf : f0.scope = .file) (ha : f0.asm = some lab) :
    ∃ s, run (f0 :: rest) = .ok s ∧ (∀ y ∈ (symbols s).main, y.name = .asm lab) ∧
      (∀ r ∈ (symbols s).undef, r.name = .asm lab) := by
  obtain ⟨s, file, top, g, hr, hsym, hv, hag⟩ := shape (f0 :: rest) hok hI hT
  have hname : nameOf (aggs (annot (f0 :: rest).reverse)) = .asm lab := by
    rw [List.reverse_cons]
    obtain ⟨B, hB⟩ := annot_snoc rest.reverse f0
    show (match entityLabel (annot (rest.reverse ++ [f0])) with | some l => SymName.asm l | none => .plain) = _
    have : entityLabel (annot (rest.reverse ++ [f0])) = some lab := by
      rw [hB]
      unfold entityLabel linkedDecls
      rw [List.filter_append]
      have hl : Decl.linked ⟨f0, c11Link f0 none⟩ = true := by
        simp [Decl.linked, c11Link_file_ne_none f0 none hf]
      simp [hl, ha]
    rw [this]
  refine ⟨s, hr, ?_, ?_⟩
  · intro y hy
    rw [hsym] at hy
    obtain ⟨t, _, rfl⟩ := mem_main hy
    exact hname
  · intro r hr'
    rw [hsym] at hr'
    have : (Link.symbols (f0 :: rest)).undef =
        (if ¬ (linkedDecls (annot (f0 :: rest).reverse)).isEmpty = true ∧
            (mainSyms (annot (f0 :: rest).reverse)).isEmpty = true then
          [⟨entityName (annot (f0 :: rest).reverse), _⟩] else []) := rfl
    rw [this] at hr'
    split at hr'
    · simp only [List.mem_singleton] at hr'
      rw [hr']
      exact hname
    · cases hr'

/-- "thread-local objects are marked as such": a `_Thread_local` file-scope declaration makes the
definition (and undefined references) thread-local. -/
theorem thread_marked (h : List Form) (hok : Link.ok h) (hI : inlineThenExtern h = false)
    (hT : threadTentativeThenInit h = false)
    (ht : ∃ f ∈ h, f.kind = .obj ∧ f.flag = true ∧ f.scope = .file) :
    ∃ s, run h = .ok s ∧ (∀ y ∈ (symbols s).main, y.thread = true) ∧
      (∀ r ∈ (symbols s).undef, r.thread = true) := by
  obtain ⟨s, file, top, g, hr, hsym, hv, hag⟩ := shape h hok hI hT
  have hlt : (aggs (annot h.reverse)).lThread = true := by
    obtain ⟨f, hf, hk, hfl, hsc⟩ := ht
    obtain ⟨d, hd, rfl⟩ := mem_annot_of_form (List.mem_reverse.2 hf)
    obtain ⟨p, hp⟩ := annot_link _ d hd
    exact List.any_eq_true.2 ⟨d, mem_linkedDecls hd (by rw [hp]; exact c11Link_file_ne_none _ _ hsc),
      by simp [hk, hfl]⟩
  refine ⟨s, hr, ?_, ?_⟩
  · intro y hy
    rw [hsym] at hy
    obtain ⟨t, hm, rfl⟩ := mem_main hy
    obtain ⟨k, l, hlh, _, hobj, _⟩ := mainA_some hm
    have h1 : (aggs (annot h.reverse)).lHead = g.lent := by rw [hag]; rfl
    have h2 : g.lthread = true := by rw [hag] at hlt; exact hlt
    rw [hlh] at h1
    have hk := (valid_lent_ne_none hv h1.symm).2 h2
    show t.2.2.1 = true
    rw [hobj hk, hlt]
  · intro r hr'
    rw [hsym] at hr'
    have : (Link.symbols h).undef =
        (if ¬ (linkedDecls (annot h.reverse)).isEmpty = true ∧ (mainSyms (annot h.reverse)).isEmpty = true then
          [⟨entityName (annot h.reverse), (aggs (annot h.reverse)).lThread⟩] else []) := rfl
    rw [this] at hr'
    split at hr'
    · simp only [List.mem_singleton] at hr'
      rw [hr']
      exact hlt
    · cases hr'

/-- "block-scope static objects are local and unique": one definition per block-scope `static`
declaration, none exported, all spelled `$.Lx.N` with pairwise different `N`. -/
theorem block_static_unique_name (h : List Form) (hok : Link.ok h) (hI : inlineThenExtern h = false)
    (hT : threadTentativeThenInit h = false) :
    ∃ s, run h = .ok s ∧ (symbols s).locals.length = (h.filter blockStaticForm).length ∧
      ((symbols s).locals.map (·.name)).Nodup ∧
      (∀ y ∈ (symbols s).locals, y.exported = false ∧ y.name.isLoc = true) := by
  obtain ⟨s, file, top, g, hr, hsym, hv, hag⟩ := shape h hok hI hT
  have hnames := localsRev_names (annot h.reverse)
  refine ⟨s, hr, ?_, ?_, ?_⟩
  · rw [hsym]
    show (localsRev (annot h.reverse)).length = _
    have := congrArg List.length hnames
    simp only [List.length_map, List.length_range'] at this
    rw [this, countBlockStatics_annot, List.filter_reverse, List.length_reverse]
  · rw [hsym]
    show ((localsRev (annot h.reverse)).map (·.name)).Nodup
    rw [hnames]
    unfold List.Nodup
    rw [List.pairwise_map]
    exact List.Pairwise.imp (fun hab hc => hab (by cases hc; rfl)) (List.nodup_range' (s := 1) (n := countBlockStatics (annot h.reverse)))
  · intro y hy
    rw [hsym] at hy
    exact localsRev_exported _ y hy

/-! ## Non-vacuity: inputs satisfying the hypotheses of each theorem -/

section Examples
def o (sc : SC) (thread : Bool) (s : Scope) (init : Bool) (a : Option Label := none) : Form :=
  ⟨.obj, sc, thread, s, init, a⟩
def fn (sc : SC) (inline : Bool) (s : Scope) (body : Bool) (a : Option Label := none) : Form :=
  ⟨.func, sc, inline, s, body, a⟩

/-- `static int x; void u(void){ extern int x; { extern int x; } } extern int x; static int x = 1;` -/
def ex1 : List Form := [o .static false .file false, o .extern false .block false,
  o .extern false .nested false, o .extern false .file false, o .static false .file true]
example : Link.ok ex1 ∧ inlineThenExtern ex1 = false ∧ threadTentativeThenInit ex1 = false := by decide
example : agrees ex1 = true := by decide

/-- `void u(void){ int x; extern int x; }` -/
example : classify [o .none false .block false, o .extern false .block false] =
    .violates .c6_7p3_noLinkageRedeclared := by decide
/-- `int x = 1; int x = 1;` -/
example : classify [o .none false .file true, o .none false .file true] =
    .undefined .c6_9p5_externalRedefined := by decide

/-- `int x; int x; extern int x;` -/
def ex2 : List Form := [o .none false .file false, o .none false .file false, o .extern false .file false]
example : Link.ok ex2 ∧ inlineThenExtern ex2 = false ∧ threadTentativeThenInit ex2 = false ∧
    (∃ f ∈ ex2, f.scope = .file ∧ f.kind = .obj ∧ f.hasDef = false ∧ f.sc ≠ .extern) ∧
    (∀ f ∈ ex2, f.scope = .file → f.hasDef = false) := by decide

/-- `extern int x; void u(void){ extern int x; }` -/
def ex3 : List Form := [o .extern false .file false, o .extern false .block false]
example : Link.ok ex3 ∧ inlineThenExtern ex3 = false ∧ threadTentativeThenInit ex3 = false ∧
    (∀ f ∈ ex3, f.sc = .extern ∧ f.hasDef = false) := by decide

/-- `static int f(void); int f(void){…}` -/
def ex4 : List Form := [fn .static false .file false, fn .none false .file true]
example : Link.ok ex4 ∧ inlineThenExtern ex4 = false ∧ threadTentativeThenInit ex4 = false ∧
    (∃ f ∈ ex4, f.scope = .file ∧ f.sc = .static) ∧ Link.intern ∈ Link.linkages ex4 := by decide

/-- `inline int f(void); inline int f(void){…}` -/
def ex5 : List Form := [fn .none true .file false, fn .none true .file true]
example : Link.ok ex5 ∧ inlineThenExtern ex5 = false ∧ threadTentativeThenInit ex5 = false ∧
    (∀ f ∈ ex5, f.kind = .func ∧ f.flag = true ∧ f.sc = .none) := by decide

/-- `int x __asm__("x_a"); int x = 1;` -/
def ex6 : List Form := [o .none false .file false (some .a), o .none false .file true]
example : Link.ok ex6 ∧ inlineThenExtern ex6 = false ∧ threadTentativeThenInit ex6 = false := by decide

/-- `_Thread_local int x = 1; void u(void){ extern _Thread_local int x; }` -/
def ex7 : List Form := [o .none true .file true, o .extern true .block false]
example : Link.ok ex7 ∧ inlineThenExtern ex7 = false ∧ threadTentativeThenInit ex7 = false ∧
    (∃ f ∈ ex7, f.kind = .obj ∧ f.flag = true ∧ f.scope = .file) := by decide

/-- `void u(void){ static int x; { static int x = 1; } } int x; void v(void){ static _Thread_local int x; }` -/
def ex8 : List Form := [o .static false .block false, o .static false .nested true, o .none false .file false,
  o .static true .block false]
example : Link.ok ex8 ∧ inlineThenExtern ex8 = false ∧ threadTentativeThenInit ex8 = false ∧
    (ex8.filter blockStaticForm).length = 3 := by decide
end Examples

end CprocVerif.C09

import CprocVerif.Lemmas.InitEmit3
import CprocVerif.Lemmas.InitDec
import CprocVerif.Lemmas.InitParse2
import CprocVerif.Lemmas.InitRefNoSw
import CprocVerif.Lemmas.InitRefTopU
import CprocVerif.Lemmas.InitGeoTop
import CprocVerif.Lemmas.InitGeoUnb
import CprocVerif.Lemmas.InitAuto

/-!
# C07 — initialised objects contain exactly the specified initial image

Property theorems about the model of `/repo/init.c` (`initadd`, `initclear`, `parseinit`) and of
`/repo/qbe.c:emitdata` (`Model/Init.lean`) against `Spec/Image.lean` (`image size inits =
inits.foldl write (zeros size)`) and `Spec/InitRef.lean`.  No theorem bounds the number of
initialisers, the nesting of types or the magnitude of values, except where the C code has a
bound itself (`obj[32]`).

Vocabulary (`Lemmas/InitAdd.lean`, `Lemmas/InitEmit1.lean`):
* `Lam a b` (earlier `a`, later `b`): bit ranges disjoint, or `b` covers `a`, or `b` is one element
  of the string `a`; `Laminar inits` = every earlier/later pair is `Lam`.  Partial overlap, or a
  scalar nested in another scalar, needs sub-members of *different union members* — the case of the
  XXX comment and the `assert`s in `emitdata` — and is excluded by this hypothesis.
* `Forest l`: sorted by first bit, any two cells either follow each other without overlap or the
  later one is a proper part (an element) of the earlier string.
* `Wf size i`: non-empty bit range inside the object, a bit-field is an integer in a storage unit of
  at most 8 bytes, any other value fills its byte range.
-/

namespace CprocVerif.C07
open CprocVerif.Init CprocVerif.Image

/-! ## (a) `initadd` -/

/-- One `initadd` keeps the list sorted by first bit with no partial overlap at bit granularity. -/
theorem initadd_sorted_step {l : List Init} {new : Init} (hf : Forest l)
    (hl : ∀ o ∈ l, Lam o new ∧ NonEmpty o) (hn : NonEmpty new) : Forest (initadd l new) :=
  forest_initadd hf hl hn

/-- The list built from ANY laminar sequence of non-empty ranges is sorted by first bit, and two
of its cells never overlap partially: the later one starts at or behind the end of the earlier one
or is a proper part of it. -/
theorem initadd_sorted {inits : List Init} (hl : Laminar inits) (hn : ∀ i ∈ inits, NonEmpty i) :
    Forest (inits.foldl initadd []) :=
  forest_foldl hl hn (l := []) List.Pairwise.nil (fun _ h => by simp at h)

/-- … in particular sorted by start bit. -/
theorem initadd_sorted_lo {inits : List Init} (hl : Laminar inits) (hn : ∀ i ∈ inits, NonEmpty i) :
    (inits.foldl initadd []).Pairwise (fun a b => a.lo ≤ b.lo) :=
  (initadd_sorted hl hn).imp (fun h => h.1)

/-- Without string patches (every later initialiser is disjoint from or covers each earlier one)
the cells are pairwise disjoint at bit granularity. -/
theorem initadd_sorted_disjoint {l : List Init} (hf : Forest l)
    (hnp : ∀ a ∈ l, ∀ b ∈ l, ¬ PatchOK a b) : l.Pairwise (fun a b => a.hi ≤ b.lo) := by
  unfold Forest at hf
  refine (List.pairwise_iff_forall_sublist.2 ?_)
  intro a b hab
  have h := (List.pairwise_iff_forall_sublist.1 hf) hab
  have ha : a ∈ l := hab.subset (by simp)
  have hb : b ∈ l := hab.subset (by simp)
  rcases h.2 with h | h
  · exact h
  · exact absurd h.2.2 (hnp a ha b hb)

/-- `initadd l new = front ++ new :: back`, nothing else is added … -/
theorem initadd_mem {l : List Init} {new x : Init} (h : x ∈ initadd l new) : x = new ∨ x ∈ l := mem_initadd h

/-- … and a later initialiser that covers earlier ones removes them: no surviving cell lies
inside the bit range of `new` (later designators override earlier ones). -/
theorem initadd_last_wins {l : List Init} {new : Init} (hf : Forest l)
    (hl : ∀ o ∈ l, Lam o new ∧ NonEmpty o) (hn : NonEmpty new) :
    ∀ x ∈ (initaddGo new l).1 ++ (initaddGo new l).2, ¬ Inside x new :=
  initadd_removes_covered hf hl hn

/-- The `last` cursor: searching from `p->last` instead of from the head gives the same list
exactly when every cell in front of the cursor ends before the new initialiser starts. -/
theorem initadd_cursor_eq {il : IList} {new : Init} (h : ∀ o ∈ il.pre, o.hi ≤ new.lo) :
    (il.add new).toList = initadd il.toList new := ilist_add_toList h

/-- Where that fails the cursor matters (why `designator` resets it): with the cursor behind
`[4,8)` a new `[0,4)` would be appended behind it. -/
theorem initadd_cursor_counterexample :
    let a : Init := ⟨4, 8, 0, 0, .int 4 1⟩
    let b : Init := ⟨0, 4, 0, 0, .int 4 2⟩
    ((({} : IList).add a).add b).toList = [a, b] ∧ initadd (initadd [] a) b = [b, a] := by
  decide

/-! ## (b) `emitdata` -/

/-- Main theorem, event form: for every sequence of `initadd`s and `initclear`s that is laminar
(`EvsOK`) and well formed, `emitdata` succeeds (no `assert` fails) and the bytes it emits are
byte for byte the image of the writes in order (`initclear` counting as a write of zeros). -/
theorem emitdata_image_ev {size : Nat} {evs : List Ev} (hok : EvsOK [] evs)
    (hw : ∀ i ∈ adds evs, Wf size i) :
    (emitdata size (evs.foldl applyEv [])).isSome ∧
      bytes (emitItems size (evs.foldl applyEv [])) = image size (evs.map evWrite) := by
  obtain ⟨hf, hmem, hcell⟩ := foldl_applyEv (l := []) hok List.Pairwise.nil (fun _ h => by simp at h)
    (fun _ h => by simp at h)
  have hwf : ∀ x ∈ evs.foldl applyEv [], Wf size x := by
    intro x hx
    rcases hmem x hx with h | h
    · simp at h
    · exact hw x h
  obtain ⟨items, h1, h2, h3⟩ := emitdata_cells hf hwf
  refine ⟨by rw [h1]; rfl, ?_⟩
  unfold emitItems
  rw [h1, Option.getD_some]
  apply eq_image_of_cells h2
  intro j hj
  rw [h3 j hj, cellAt_eq, cellAt_eq, hcell j]
  rfl

theorem evsOK_of_laminar {inits : List Init} : ∀ {prev : List Init}, Laminar (prev ++ inits) →
    (∀ i ∈ inits, NonEmpty i ∧ ByteVal i) → EvsOK prev (inits.map Ev.add) := by
  induction inits with
  | nil => intro _ _ _; trivial
  | cons i is ih =>
    intro prev hl hw
    have h1 : ∀ o ∈ prev, Lam o i := by
      intro o ho
      have := List.pairwise_append.1 hl
      exact this.2.2 o ho i List.mem_cons_self
    refine ⟨h1, (hw i List.mem_cons_self).1, (hw i List.mem_cons_self).2, ?_⟩
    apply ih
    · rw [List.append_assoc]; exact hl
    · intro x hx; exact hw x (List.mem_cons_of_mem _ hx)

theorem foldl_applyEv_adds (inits l : List Init) :
    (inits.map Ev.add).foldl applyEv l = inits.foldl initadd l := by
  induction inits generalizing l with
  | nil => rfl
  | cons i is ih => simp only [List.map_cons, List.foldl_cons, applyEv]; exact ih _

theorem adds_map_add (inits : List Init) : adds (inits.map Ev.add) = inits := by
  induction inits with
  | nil => rfl
  | cons i is ih => simp [adds, ih]

/-- **`emitdata_image`.**  For EVERY sequence of well-formed initialisers whose bit ranges are
pairwise disjoint or nested (`Laminar`), of any length, with bit-field values of any magnitude:
`emitdata` applied to the list that `initadd` built succeeds, and the bytes of the emitted items
are exactly `image size inits` = the writes applied in order to an all-zero object. -/
theorem emitdata_image {size : Nat} {inits : List Init} (hl : Laminar inits) (hw : ∀ i ∈ inits, Wf size i) :
    (emitdata size (inits.foldl initadd [])).isSome ∧
      bytes (emitItems size (inits.foldl initadd [])) = image size inits := by
  have hok : EvsOK [] (inits.map Ev.add) :=
    evsOK_of_laminar (prev := []) (by simpa using hl) (fun i hi => ⟨(hw i hi).nonEmpty, (hw i hi).byteVal⟩)
  have := emitdata_image_ev (size := size) hok (by rw [adds_map_add]; exact hw)
  rw [foldl_applyEv_adds] at this
  have e : (inits.map Ev.add).map evWrite = inits := by
    rw [List.map_map]; exact List.map_id' _
  rw [e] at this
  exact this

/-- The definition has exactly the size of the object (zero gaps, the flushed bit-field byte and
the trailing `z` add up). -/
theorem emitdata_size {size : Nat} {inits : List Init} (hl : Laminar inits) (hw : ∀ i ∈ inits, Wf size i) :
    (bytes (emitItems size (inits.foldl initadd []))).length = size := by
  rw [(emitdata_image hl hw).2, length_image]

/-- Truncation of bit-field values to the field: an `n`-bit field at bit `p` of byte `j` shows the
low bits of the value only — bit `k` of the emitted byte is bit `8j+k-lo` of the value inside the
field and unchanged outside, for a value of ANY magnitude (no hypothesis on `u`). -/
theorem bitfield_truncated {size : Nat} {i : Init} {w u : Nat} (hw : Wf size i) (hv : i.val = .int w u)
    {j : Nat} (hj : j < size) (k : Nat) (hk : k < 8) :
    ∃ n, (bytes (emitItems size [i]))[j]? = some (.byte n) ∧
      n.testBit k = (decide (i.lo ≤ 8 * j + k ∧ 8 * j + k < i.hi) && u.testBit (8 * j + k - i.lo)) := by
  have h := emitdata_image (size := size) (inits := [i]) (List.pairwise_singleton _ _) (by simpa using hw)
  simp only [List.foldl_cons, List.foldl_nil] at h
  have e : initadd [] i = [i] := rfl
  rw [e] at h
  rw [h.2, getElem?_image _ hj]
  unfold cellAt
  simp only [List.foldl_cons, List.foldl_nil]
  by_cases ht : touches i j
  · rw [writeCell_int hv ht]
    refine ⟨_, rfl, ?_⟩
    rw [testBit_ofBits]
    by_cases hr : i.lo ≤ 8 * j + k ∧ 8 * j + k < i.hi
    · simp [hk, hr]
    · simp [hk, hr, Cell.toNat]
  · rw [writeCell_of_not_touches ht]
    refine ⟨0, rfl, ?_⟩
    have : ¬ (i.lo ≤ 8 * j + k ∧ 8 * j + k < i.hi) := by unfold touches at ht; omega
    simp [this]

/-- Corollary: every bit that no initialiser writes is zero — padding, array tails, the
neighbours of a bit-field inside its storage unit. -/
theorem zero_elsewhere {size : Nat} {inits : List Init} (hl : Laminar inits) (hw : ∀ i ∈ inits, Wf size i)
    {j k : Nat} (hj : j < size) (hk : k < 8)
    (hfree : ∀ i ∈ inits, ¬ (i.lo ≤ 8 * j + k ∧ 8 * j + k < i.hi)) :
    ∃ n, (bytes (emitItems size (inits.foldl initadd [])))[j]? = some (.byte n) ∧ n.testBit k = false := by
  rw [(emitdata_image hl hw).2, getElem?_image _ hj]
  obtain ⟨n, h1, h2⟩ := cellAt_zero_of_untouched (fun i hi => (hw i hi).byteVal) hk hfree
  exact ⟨n, by rw [h1], h2⟩

/-- The last write that touches a byte decides it. -/
theorem last_write_wins {size : Nat} {pre post : List Init} {i : Init}
    (hl : Laminar (pre ++ i :: post)) (hw : ∀ x ∈ pre ++ i :: post, Wf size x)
    (hb : i.before = 0 ∧ i.after = 0) (hv : ∀ w u, i.val ≠ .int w u)
    {j : Nat} (hj : j < size) (hin : i.start ≤ j ∧ j < i.stop) (hpost : ∀ x ∈ post, ¬ touches x j) :
    (bytes (emitItems size ((pre ++ i :: post).foldl initadd [])))[j]? = some (valCell i.val (j - i.start)) := by
  rw [(emitdata_image hl hw).2, getElem?_image _ hj, cellAt_eq, cellFold_append, cellFold_cons,
    cellFold_untouched hpost]
  rw [writeCell_byteval hv (by unfold touches Init.lo Init.hi; omega)]

/-- **`string_trunc_extend`.**  A string initialiser for the bytes `[start, stop)`: byte `k` of the
array is byte `k % w` of element `k / w` of the literal, zero past the end of the literal
(zero extension) — and since the definition has exactly `size` bytes and byte `k` exists only for
`k < stop - start`, elements of a longer literal that do not fit are dropped (truncation). -/
theorem string_trunc_extend {size : Nat} {pre post : List Init} {s e w : Nat} {cs : List Nat}
    (hl : Laminar (pre ++ ⟨s, e, 0, 0, .str w cs⟩ :: post))
    (hw : ∀ x ∈ pre ++ ⟨s, e, 0, 0, .str w cs⟩ :: post, Wf size x)
    {k : Nat} (hk : k < e - s) (hpost : ∀ x ∈ post, ¬ touches x (s + k)) :
    (bytes (emitItems size ((pre ++ ⟨s, e, 0, 0, .str w cs⟩ :: post).foldl initadd [])))[s + k]? =
      some (.byte (cs.getD (k / w) 0 / 2 ^ (8 * (k % w)) % 256)) := by
  have hwf := hw ⟨s, e, 0, 0, .str w cs⟩ (by simp)
  have hin := hwf.inside
  simp only [] at hin
  rw [last_write_wins hl hw ⟨rfl, rfl⟩ (by intro a b; simp) (by omega) (by simp only []; omega) hpost]
  simp [valCell]

/-- **`reloc_correct`.**  An address constant that is not overridden appears as the eight bytes
of a relocation against the same symbol with the same addend. -/
theorem reloc_correct {size : Nat} {pre post : List Init} {s : Nat} {sym : String} {off : Nat}
    (hl : Laminar (pre ++ ⟨s, s + 8, 0, 0, .addr sym off⟩ :: post))
    (hw : ∀ x ∈ pre ++ ⟨s, s + 8, 0, 0, .addr sym off⟩ :: post, Wf size x)
    {k : Nat} (hk : k < 8) (hpost : ∀ x ∈ post, ¬ touches x (s + k)) :
    (bytes (emitItems size ((pre ++ ⟨s, s + 8, 0, 0, .addr sym off⟩ :: post).foldl initadd [])))[s + k]? =
      some (.rel sym off k) := by
  have hwf := hw ⟨s, s + 8, 0, 0, .addr sym off⟩ (by simp)
  have hin := hwf.inside
  simp only [] at hin
  rw [last_write_wins hl hw ⟨rfl, rfl⟩ (by intro a b; simp) (by omega) (by simp only []; omega) hpost]
  simp [valCell]

/-- `dataitem` itself: symbol and addend are printed unchanged. -/
theorem dataitem_addr (sym : String) (off size : Nat) : dataitem (.addr sym off) size = some (.addr sym off) := rfl

/-! ### what the hypothesis `Laminar` excludes (the code's own XXX) -/

/-- Two members of a union that overlap partially (`unsigned a:12` and `char c[2]`'s second byte,
say bits `[0,12)` and `[8,16)`): `initadd` keeps both, `emitdata` emits a wrong byte count for
them — the model reproduces the failing `assert(offset <= size)` / overlap. -/
theorem partial_overlap_counterexample :
    let a : Init := ⟨0, 2, 0, 4, .int 2 0xfff⟩
    let b : Init := ⟨1, 2, 0, 0, .int 1 0x55⟩
    ¬ Lam a b ∧ bytes (emitItems 2 ([a, b].foldl initadd [])) ≠ image 2 [a, b] := by
  refine ⟨?_, by decide⟩
  intro h
  rcases h with h | h | ⟨h, _⟩
  · revert h; unfold Disj Init.lo Init.hi; decide
  · revert h; unfold Inside Init.lo Init.hi; decide
  · revert h; unfold Inside Init.lo Init.hi; decide

/-! ## (c) `parseinit`: the cursor machine -/

/-- **`depth_bound`.**  `subobj` is the only operation that moves `p->sub` up, and it refuses
("internal error: too many designators", exit 1) instead of writing `obj[32]`: for every type,
initialiser tree and flag, a successful `parseinit` ends with `sub` and `cur` inside `obj[0..31]`… -/
theorem depth_bound {t : Ty} {inc : Bool} {i : Ini} {st : St} (e : parseinit t inc i = .ok st) :
    st.sub < 32 ∧ ∀ c, st.cur = some c → c < 32 := parseinit_bnd e

/-- … and so does every intermediate step: each primitive of the machine keeps the indices
inside the array or returns an error (never an out-of-bounds slot). -/
theorem depth_bound_steps {st st' : St} (h : Bnd st) :
    (∀ t off, subobj st t off = .ok st' → Bnd st') ∧ (focus st = .ok st' → Bnd st') ∧
    (∀ ds, designator st ds = .ok st' → Bnd st') ∧ (∀ fuel, advance fuel st = .ok st' → Bnd st') ∧
    (∀ fuel e, placeExpr fuel st e = .ok st' → Bnd st') ∧ (∀ ds i, parseItem st ds i = .ok st' → Bnd st') :=
  ⟨fun _ _ e => subobj_bnd h e, fun e => focus_bnd h e, fun _ e => designator_bnd h e,
    fun _ e => advance_bnd h e, fun _ _ e => placeExpr_bnd h e, fun ds i e => parseItem_bnd i st st' ds h e⟩

/-- 32 nested designators are refused, 31 are fine (`int a[1]…[1] = {[0]…[0] = 7}`). -/
def nestTy : Nat → Ty
  | 0 => .scalar 4 (.int 6 true)
  | n + 1 => .array 1 (nestTy n)
example : (match parseinit (nestTy 32) false
    (.list (.cons (List.replicate 32 (.idx 0)) (.expr (.num 7 true 0 0)) .nil)) with
    | .error (.diag _) => true | _ => false) = true := by decide
example : (match parseinit (nestTy 31) false
    (.list (.cons (List.replicate 31 (.idx 0)) (.expr (.num 7 true 0 0)) .nil)) with
    | .ok st => st.log == [.add ⟨0, 4, 0, 0, .int 4 7⟩] | _ => false) = true := by decide

/-- **`offsets_inside`.**  For every well-formed type of known size (members inside their
struct/union, arrays non-empty) and EVERY initialiser tree (designators, overriding, brace
elision, strings …): each initialiser `parseinit` produces, and each range it clears, lies inside
the object: `start ≤ stop ≤ sizeof`. -/
theorem offsets_inside {t : Ty} {i : Ini} {st : St} (ht : TyOk t) (e : parseinit t false i = .ok st) :
    ∀ ev ∈ st.log, match ev with
      | .add x => x.start ≤ x.stop ∧ x.stop ≤ t.size
      | .clear a b => a ≤ b ∧ b ≤ t.size := by
  intro ev hev
  have := (parseinit_J ht e).log ev hev
  cases ev <;> exact this

/-- The statement without the hypothesis on the type is false: a flexible array member
(`struct {int n; int a[];} = {1, {2}}`, member array of 0 elements) is initialised outside the
object — the input on which `emitdata`'s `assert(offset <= d->type->size)` fails (C19
`flexible-init-assert`). -/
def offsets_inside_full : Prop :=
  ∀ (t : Ty) (i : Ini) (st : St), parseinit t false i = .ok st →
    ∀ ev ∈ st.log, match ev with
      | .add x => x.stop ≤ t.size
      | .clear _ b => b ≤ t.size

def logStops (r : Except Err St) : List Nat :=
  match r with
  | .ok st => st.log.map (fun ev => match ev with | .add x => x.stop | .clear _ b => b)
  | .error _ => []

/-- `int a[0] = {1};` (a zero-length array, GNU) or equally a flexible array member. -/
theorem offsets_inside_counterexample : ¬ offsets_inside_full := by
  intro h
  have key : logStops (parseinit (.array 0 (.scalar 4 (.int 6 true))) false
      (.list (.cons [] (.expr (.num 1 true 0 0)) .nil))) = [4] := by decide
  cases hr : parseinit (.array 0 (.scalar 4 (.int 6 true))) false
      (.list (.cons [] (.expr (.num 1 true 0 0)) .nil)) with
  | error e => rw [hr] at key; simp [logStops] at key
  | ok st =>
    rw [hr] at key
    simp only [logStops] at key
    match hl : st.log with
    | [] => rw [hl] at key; simp at key
    | ev :: rest =>
      rw [hl] at key
      have := h _ _ st hr ev (by rw [hl]; simp)
      cases ev with
      | add x => simp [Ty.size] at key this; omega
      | clear a b => simp [Ty.size] at key this; omega

example : TyOk (.agg false 1 8 (.cons (some "a") (.scalar 1 (.int 1 true)) 0 0 0
    (.cons (some "b") (.scalar 4 (.int 6 true)) 0 8 20 (.cons (some "v") (.array 2 (.scalar 2 (.int 4 true))) 4 0 0 .nil)))) := by
  simp [TyOk, MsOk, Ty.size]

/-! ## non-vacuity -/

/-- `struct {char a; int b:4; int c:10; char d; short e;} = {1, 0x1ff, -1, 'd', 7}` — the two
bit-fields share byte 1, `c` crosses into byte 2; then `.b = 5` overrides. -/
def exInits : List Init :=
  [⟨0, 1, 0, 0, .int 1 1⟩, ⟨0, 4, 8, 20, .int 4 0x1ff⟩, ⟨0, 4, 12, 10, .int 4 (2 ^ 64 - 1)⟩,
   ⟨3, 4, 0, 0, .int 1 100⟩, ⟨4, 6, 0, 0, .int 2 7⟩, ⟨0, 4, 8, 20, .int 4 5⟩]

example : bytes (emitItems 8 (exInits.foldl initadd [])) =
    [.byte 1, .byte 0xf5, .byte 0x3f, .byte 100, .byte 7, .byte 0, .byte 0, .byte 0] := by decide
example : (exInits.foldl initadd []).length = 5 := by decide
-- the hypotheses of `emitdata_image`, `emitdata_size`, `zero_elsewhere`, `initadd_sorted`
example : Laminar exInits := laminar_of_laminarB (by decide)
example : ∀ i ∈ exInits, Wf 8 i := fun i hi =>
  wf_of_wfB ((List.all_eq_true.1 (by decide : exInits.all (wfB 8) = true)) i hi)

/-- `struct {char s[8]; char *p;} = {"ab", .s[5] = 'x', &y + 3}`: a patched, zero-extended string
and a relocation. -/
def exInits2 : List Init :=
  [⟨0, 8, 0, 0, .str 1 [97, 98, 0]⟩, ⟨5, 6, 0, 0, .int 1 120⟩, ⟨8, 16, 0, 0, .addr "y" 12⟩]

example : emitdata 16 (exInits2.foldl initadd []) =
    some [.str 1 [97, 98, 0, 0, 0, 120, 0, 0] 0, .addr "y" 12] := by decide

-- the hypotheses of `last_write_wins`, `string_trunc_extend`, `reloc_correct`
example : Laminar exInits2 := laminar_of_laminarB (by decide)
example : ∀ i ∈ exInits2, Wf 16 i := fun i hi =>
  wf_of_wfB ((List.all_eq_true.1 (by decide : exInits2.all (wfB 16) = true)) i hi)

/-- an event sequence with an `initclear`: `{.s.a = 5, .s = {.b = 2}}` -/
def exEvs : List Ev := [.add ⟨0, 4, 0, 0, .int 4 5⟩, .clear 0 8, .add ⟨4, 8, 0, 0, .int 4 2⟩]
example : EvsOK [] exEvs ∧ ∀ i ∈ adds exEvs, Wf 12 i := evsOK_of_evsOKB (by decide)
example : bytes (emitItems 12 (exEvs.foldl applyEv [])) =
    [.byte 0, .byte 0, .byte 0, .byte 0, .byte 2, .byte 0, .byte 0, .byte 0, .byte 0, .byte 0, .byte 0, .byte 0] := by
  decide

/-! ## (d) `parseinit` refines C11 6.7.9: the cursor machine against `Spec/InitRef`

The statements above are about the model's own list of initialisers.  The theorems below say
that this list is the one C11 6.7.9 prescribes: the image of `parseinit`'s event log (every
`initclear` read as a write of zeros) equals the image of the writes of the independent,
recursive, type-directed reference `InitRef.ref` — for EVERY type of the member language
(structs, unions, arrays, bit-fields, anonymous members, nesting of any depth) and EVERY
initialiser tree, of any length and depth: positional or with designators `.m` / `[k]` of any
length (through anonymous members, overriding earlier initialisers, re-initialising a sub-object
with a braced list, "continue after the designated member" at every level of the path, 6.7.9p17),
fully braced or with braces elided at any level (p20), fewer initialisers than members, string
literals for character arrays (braced or not), struct/union values, empty braces.  The proof is a
simulation by induction on the reference's recursion (`Lemmas/InitRefSim*.lean`); the hypotheses
are decidable predicates (`Spec/InitClass.lean`) that `Drv/C07.lean` evaluates for every
generated object. -/

open CprocVerif.InitRef CprocVerif.InitSim

/-- **`parseinit_refines_ref`** (objects of known size).  Hypotheses: the type is well formed
(`tyWf`: arrays have at least one element of non-zero size, structs/unions have a member, only
scalar members carry bit-field positions); at the top level the initialiser is a braced list or
an expression for the whole object (`topOK`); the reference never switches the active member of a
union (`r.nswitch = 0` — the designated-union-member switch is known finding
`union-member-switch`, see `parseinit_refines_ref_counterexample`).  Then the model's object has
the size and, byte for byte, the image that the reference reading of 6.7.9 gives. -/
theorem parseinit_refines_ref {t : Ty} {i : Ini} {st : St} {r : InitRef.Result}
    (hm : parseinit t false i = .ok st) (hr : InitRef.ref t false i = .ok r)
    (hwf : tyWf t = true) (htop : topOK t i = true) (hsw : r.nswitch = 0) :
    st.top = r.size ∧ image st.top (st.log.map evWrite) = image r.size r.writes := by
  obtain ⟨h1, h2⟩ := refines_core hm hr hsw hwf htop
  exact ⟨h1, by rw [h1]; exact h2.image _⟩

/-- **`parseinit_refines_ref_unb`** (arrays of unknown size, `T a[] = …`, 6.7.9p22).  The element
type is well formed and of non-zero size.  The size the model gives the array (`st.top`, what
`emitdata` is called with) is the size the reference determines from the largest indexed element,
and the images agree. -/
theorem parseinit_refines_ref_unb {e0 : Ty} {i : Ini} {st : St} {r : InitRef.Result}
    (hm : parseinit (.array 0 e0) true i = .ok st) (hr : InitRef.ref (.array 0 e0) true i = .ok r)
    (hwf : tyWf e0 = true) (hes : 0 < e0.size) (htop : topOK (.array 0 e0) i = true) (hsw : r.nswitch = 0) :
    st.top = r.size ∧ image st.top (st.log.map evWrite) = image r.size r.writes := by
  obtain ⟨h1, h2⟩ := refines_core_unb hm hr hsw hwf hes htop
  exact ⟨h1, by rw [h1]; exact h2.image _⟩

/-- Without designators no hypothesis on unions is needed: positional initialisation reaches
only the first member of a union (stages 1, 2 and 4 of the plan: fully braced or brace-elided
positional initialisers). -/
theorem parseinit_refines_ref_nodesig {t : Ty} {i : Ini} {st : St} {r : InitRef.Result}
    (hm : parseinit t false i = .ok st) (hr : InitRef.ref t false i = .ok r)
    (hwf : tyWf t = true) (hnd : noDesig i = true) (htop : topOK t i = true) :
    st.top = r.size ∧ image st.top (st.log.map evWrite) = image r.size r.writes :=
  parseinit_refines_ref hm hr hwf htop (nswitch_zero hr hnd)

theorem topOK_of_fullyBraced {t : Ty} {i : Ini} (h : fullyBraced t i = true) : topOK t i = true := by
  cases i with
  | list its => rfl
  | expr e =>
    cases t with
    | scalar s k => simp [topOK, elides]
    | array n el =>
      cases el with
      | scalar s k =>
        cases k with
        | int c sg => cases e <;> simp_all [topOK, elides, fullyBraced]
        | _ => cases e <;> simp_all [fullyBraced]
      | _ => cases e <;> simp_all [fullyBraced]
    | agg u tag size ms => cases e <;> simp_all [topOK, elides, fullyBraced]

/-- Stages 1 and 2 as their own statement: every aggregate has its own braces (`fullyBraced`:
scalars unbraced or braced, strings for character arrays, struct values, partial lists, `{}`), no
designators. -/
theorem parseinit_refines_ref_braced {t : Ty} {i : Ini} {st : St} {r : InitRef.Result}
    (hm : parseinit t false i = .ok st) (hr : InitRef.ref t false i = .ok r)
    (hwf : tyWf t = true) (hnd : noDesig i = true) (hfb : fullyBraced t i = true) :
    st.top = r.size ∧ image st.top (st.log.map evWrite) = image r.size r.writes :=
  parseinit_refines_ref_nodesig hm hr hwf hnd (topOK_of_fullyBraced hfb)

/-- The same for all objects with the class as ONE decidable predicate (what the `class` op of
the driver evaluates): `refClass t inc i = tyWfFor t inc && topOK t i && noSwitch t inc i`. -/
theorem parseinit_refines_ref_class {t : Ty} {inc : Bool} {i : Ini} {st : St} {r : InitRef.Result}
    (hc : refClass t inc i = true) (hm : parseinit t inc i = .ok st) (hr : InitRef.ref t inc i = .ok r) :
    st.top = r.size ∧ image st.top (st.log.map evWrite) = image r.size r.writes := by
  simp only [refClass, noSwitch, hr, Bool.and_eq_true, beq_iff_eq] at hc
  obtain ⟨⟨hw, ht⟩, hs⟩ := hc
  cases inc with
  | false => exact parseinit_refines_ref hm hr (by simpa [tyWfFor] using hw) ht hs
  | true =>
    unfold tyWfFor at hw
    simp only [if_true] at hw
    split at hw
    · rename_i e0
      simp only [Bool.and_eq_true, decide_eq_true_eq] at hw
      exact parseinit_refines_ref_unb hm hr hw.1 hw.2 ht hs
    · cases hw

/-- End to end: where the model's log also satisfies the hypotheses of `emitdata_image_ev` (the
driver reports them for every input: `hyp`), the bytes `emitdata` prints for the list that
`initadd`/`initclear` built are the image C11 prescribes. -/
theorem emitdata_refines_ref {t : Ty} {i : Ini} {st : St} {r : InitRef.Result}
    (hm : parseinit t false i = .ok st) (hr : InitRef.ref t false i = .ok r)
    (hwf : tyWf t = true) (htop : topOK t i = true) (hsw : r.nswitch = 0)
    (hok : EvsOK [] st.log) (hw : ∀ x ∈ adds st.log, Wf st.top x) :
    bytes (emitItems st.top (st.log.foldl applyEv [])) = image r.size r.writes := by
  rw [(emitdata_image_ev hok hw).2]
  exact (parseinit_refines_ref hm hr hwf htop hsw).2

/-! ### non-vacuity: nested struct/array values with designators, elided braces, a bit-field, a string -/

def tInt : Ty := .scalar 4 (.int 6 true)
def tChar : Ty := .scalar 1 (.int 1 true)
def tShort : Ty := .scalar 2 (.int 4 true)
def numI (n : Int) : Ini := .expr (.num n (n != 0) 0 0)

/-- `struct P { short x; int y[2]; }` -/
def exP : Ty := .agg false 2 12 (.cons (some "x") tShort 0 0 0 (.cons (some "y") (.array 2 tInt) 4 0 0 .nil))
/-- `struct { char a; int b:4; struct P p[2]; char s[4]; }` -/
def exT : Ty := .agg false 1 36 (.cons (some "a") tChar 0 0 0 (.cons (some "b") tInt 0 8 20
  (.cons (some "p") (.array 2 exP) 4 0 0 (.cons (some "s") (.array 4 tChar) 28 0 0 .nil))))
/-- `{ 1, 3, { {1, {2, 3}}, 4, 5, 6 }, "ab" }`: the second element of `p` and its array have no
braces of their own -/
def exI : Ini := .list (.cons [] (numI 1) (.cons [] (numI 3)
  (.cons [] (.list (.cons [] (.list (.cons [] (numI 1) (.cons [] (.list (.cons [] (numI 2) (.cons [] (numI 3) .nil))) .nil)))
    (.cons [] (numI 4) (.cons [] (numI 5) (.cons [] (numI 6) .nil)))))
  (.cons [] (.expr (.str 1 1 [97, 98, 0])) .nil))))
/-- `{ .p[1].y[0] = 5, 6, "xy", .a = 1, .p[0] = {1, {2}}, .p[0].y[1] = 9, .p[1] = {7} }`:
multi-level designators, continuation after the designated element (`6` goes to `p[1].y[1]`, the
string to `s`), overriding, re-initialisation of `p[1]` by a braced list -/
def exD : Ini := .list
  (.cons [.fld "p", .idx 1, .fld "y", .idx 0] (numI 5) (.cons [] (numI 6) (.cons [] (.expr (.str 1 1 [120, 121, 0]))
  (.cons [.fld "a"] (numI 1)
  (.cons [.fld "p", .idx 0] (.list (.cons [] (numI 1) (.cons [] (.list (.cons [] (numI 2) .nil)) .nil)))
  (.cons [.fld "p", .idx 0, .fld "y", .idx 1] (numI 9)
  (.cons [.fld "p", .idx 1] (.list (.cons [] (numI 7) .nil)) .nil)))))))

def isOk {ε α} : Except ε α → Bool
  | .ok _ => true
  | .error _ => false

-- the hypotheses of `parseinit_refines_ref_nodesig`
example : tyWf exT = true ∧ noDesig exI = true ∧ topOK exT exI = true := by decide +kernel
example : isOk (parseinit exT false exI) = true ∧ isOk (InitRef.ref exT false exI) = true := by decide +kernel
-- brace elision really occurs in the example: it is not fully braced
example : fullyBraced exT exI = false := by decide +kernel
-- the hypotheses of `parseinit_refines_ref` / `parseinit_refines_ref_class` with designators
example : refClass exT false exD = true ∧ noDesig exD = false := by decide +kernel
example : isOk (parseinit exT false exD) = true ∧ isOk (InitRef.ref exT false exD) = true := by decide +kernel

/-- `struct P a[] = { {1, {2, 3}}, [3] = {4}, 5, 6, 7 }`: the size comes from the largest index
(element 4 is reached by continuing after `[3]` with elided braces) -/
def exUnb : Ini := .list
  (.cons [] (.list (.cons [] (numI 1) (.cons [] (.list (.cons [] (numI 2) (.cons [] (numI 3) .nil))) .nil)))
  (.cons [.idx 3] (.list (.cons [] (numI 4) .nil)) (.cons [] (numI 5) (.cons [] (numI 6) (.cons [] (numI 7) .nil)))))
-- the hypotheses of `parseinit_refines_ref_unb` / `parseinit_refines_ref_class` (inc = true)
example : refClass (.array 0 exP) true exUnb = true := by decide +kernel
example : isOk (parseinit (.array 0 exP) true exUnb) = true ∧ isOk (InitRef.ref (.array 0 exP) true exUnb) = true := by
  decide +kernel
example : (match InitRef.ref (.array 0 exP) true exUnb with | .ok r => r.size | .error _ => 0) = 60 := by decide +kernel

/-! ### what the hypothesis `nswitch = 0` excludes

`union { int a; char b[8]; } u = {.a = 7, .b[5] = 9};` keeps `a` in the model (= the code: known
finding `union-member-switch`, upstream todo/38); the reference (= gcc, clang) zeroes the union when
the second member is designated.  So the statement without that hypothesis is false. -/

def parseinit_refines_ref_full : Prop :=
  ∀ (t : Ty) (i : Ini) (st : St) (r : InitRef.Result), parseinit t false i = .ok st → InitRef.ref t false i = .ok r →
    tyWf t = true → topOK t i = true → image st.top (st.log.map evWrite) = image r.size r.writes

def exU : Ty := .agg true 3 8 (.cons (some "a") tInt 0 0 0 (.cons (some "b") (.array 8 tChar) 0 0 0 .nil))
def exUI : Ini := .list (.cons [.fld "a"] (numI 7) (.cons [.fld "b", .idx 5] (numI 9) .nil))

def imgM (t : Ty) (i : Ini) : Option (List Cell) :=
  match parseinit t false i with
  | .ok st => some (image st.top (st.log.map evWrite))
  | .error _ => none
def imgR (t : Ty) (i : Ini) : Option (List Cell) :=
  match InitRef.ref t false i with
  | .ok r => some (image r.size r.writes)
  | .error _ => none

theorem parseinit_refines_ref_counterexample : ¬ parseinit_refines_ref_full := by
  intro h
  have key : imgM exU exUI ≠ imgR exU exUI ∧ isOk (parseinit exU false exUI) = true ∧
      isOk (InitRef.ref exU false exUI) = true := by decide +kernel
  cases hm : parseinit exU false exUI with
  | error e => rw [hm] at key; simp [isOk] at key
  | ok st =>
    cases hr : InitRef.ref exU false exUI with
    | error e => rw [hr] at key; simp [isOk] at key
    | ok r =>
      have := h exU exUI st r hm hr (by decide +kernel) (by decide +kernel)
      apply key.1
      unfold imgM imgR
      rw [hm, hr]
      simp only []
      rw [this]

/-! ## (e) end to end: the emitted bytes are the image C11 prescribes

`emitdata_refines_ref` assumed the hypotheses of `emitdata_image_ev` for the model's log.  They
are consequences of `parseinit` itself (`Lemmas/InitGeo*.lean`): every live slot of `obj[]` is a
place of the object's tree of sub-objects, so every logged initialiser sits at such a place and
every `initclear` clears one; under a C layout two places are bit-disjoint or nested, and a
nested later initialiser is an element of an earlier string literal — exactly the laminarity
`initadd`'s sorted list and `emitdata`'s loops need. -/

/-- **laminarity of `parseinit`** (objects of known size).  Hypotheses, all decidable on
`(t, i)`: `tyWf t`; `layOK t` (a C layout: members inside their struct/union, struct members in
increasing bit order without overlap, bit-fields inside a storage unit, LP64 sizes of the basic
types); no designator designates a union member other than the first (`desigsOK (subTys t) i`,
true without unions and without designators); string literals have the
width of their character type (`strsOK i`); every stored value is a constant of the member's kind
(`constVals`).  Then the log satisfies the hypotheses of `emitdata_image_ev`. -/
theorem parseinit_log_laminar {t : Ty} {i : Ini} {st : St} (hm : parseinit t false i = .ok st)
    (hwf : tyWf t = true) (hlay : layOK t = true) (hmode : desigsOK (subTys t) i = true)
    (hso : strsOK i = true) (hcv : constVals t false i = true) :
    EvsOK [] st.log ∧ ∀ x ∈ adds st.log, Wf st.top x :=
  parseinit_laminar hm hwf hlay hmode hso hcv

theorem imgClass_parts {t : Ty} {inc : Bool} {i : Ini} (hc : imgClass t inc i = true) :
    refClass t inc i = true ∧ (inc = false ∨ incFlat t i = true) ∧ layOK t = true ∧ desigsOK (subTys t) i = true ∧
      strsOK i = true ∧ constVals t inc i = true := by
  simp only [imgClass, Bool.and_eq_true, Bool.or_eq_true, Bool.not_eq_true'] at hc
  exact ⟨hc.1.1.1.1.1, hc.1.1.1.1.2, hc.1.1.1.2, hc.1.1.2, hc.1.2, hc.2⟩

/-- the hypotheses of `emitdata_image_ev` for every pair of `imgClass` -/
theorem imgClass_laminar {t : Ty} {inc : Bool} {i : Ini} {st : St} (hm : parseinit t inc i = .ok st)
    (hc : imgClass t inc i = true) : EvsOK [] st.log ∧ ∀ x ∈ adds st.log, Wf st.top x := by
  obtain ⟨hrc, hinc, hlay, hmode, hso, hcv⟩ := imgClass_parts hc
  cases inc with
  | false =>
    have hwf : tyWf t = true := by
      simp only [refClass, Bool.and_eq_true] at hrc
      simpa [tyWfFor] using hrc.1.1
    exact parseinit_laminar hm hwf hlay hmode hso hcv
  | true =>
    have hfl : incFlat t i = true := by
      rcases hinc with h | h
      · cases h
      · exact h
    unfold incFlat at hfl
    split at hfl
    · rename_i s k its
      exact parseinit_laminar_unb hm (by simpa [layOK] using hlay) hfl hcv
    · cases hfl

/-- **`static_image_correct`** — the chain `parseinit` → `initadd`/`initclear` → `emitdata` against
C11 6.7.9, with hypotheses on `(t, inc, i)` only: for every pair in the decidable class `imgClass`
(`refClass` and the hypotheses of `parseinit_log_laminar`; of the arrays of unknown size those with
scalar elements and a flat list of expressions, `incFlat`), when `parseinit` succeeds and the
reference accepts the initialiser, `emitdata` succeeds on the list that `initadd`/`initclear`
built (no `assert` fails, no "not a constant expression") and the bytes of the emitted data items
are, byte for byte, the image the reference reading of C11 6.7.9 prescribes. -/
theorem static_image_correct {t : Ty} {inc : Bool} {i : Ini} {st : St} {r : InitRef.Result}
    (hm : parseinit t inc i = .ok st) (hr : InitRef.ref t inc i = .ok r) (hc : imgClass t inc i = true) :
    (emitdata st.top (st.log.foldl applyEv [])).isSome ∧
      bytes (emitItems st.top (st.log.foldl applyEv [])) = image r.size r.writes := by
  obtain ⟨hok, hw⟩ := imgClass_laminar hm hc
  have h1 := emitdata_image_ev hok hw
  exact ⟨h1.1, by rw [h1.2]; exact (parseinit_refines_ref_class (imgClass_parts hc).1 hm hr).2⟩

-- the non-vacuity examples above are in the class
example : imgClass exT false exI = true ∧ imgClass exT false exD = true := by decide +kernel

/-- Without `constVals` the statement is false: `int x = f();` (not a constant expression) is
accepted by `parseinit` and by the reference, `emitdata` reports the error and emits nothing. -/
def static_image_correct_full : Prop :=
  ∀ (t : Ty) (i : Ini) (st : St) (r : InitRef.Result), parseinit t false i = .ok st → InitRef.ref t false i = .ok r →
    refClass t false i = true → layOK t = true → bytes (emitItems st.top (st.log.foldl applyEv [])) = image r.size r.writes

def bytesM (t : Ty) (i : Ini) : Option (List Cell) :=
  match parseinit t false i with
  | .ok st => some (bytes (emitItems st.top (st.log.foldl applyEv [])))
  | .error _ => none

theorem static_image_correct_counterexample : ¬ static_image_correct_full := by
  intro h
  have key : bytesM tInt (.expr .nonconst) ≠ imgR tInt (.expr .nonconst) ∧ isOk (parseinit tInt false (.expr .nonconst)) = true ∧
      isOk (InitRef.ref tInt false (.expr .nonconst)) = true := by decide +kernel
  cases hm : parseinit tInt false (.expr .nonconst) with
  | error e => rw [hm] at key; simp [isOk] at key
  | ok st =>
    cases hr : InitRef.ref tInt false (.expr .nonconst) with
    | error e => rw [hr] at key; simp [isOk] at key
    | ok r =>
      have := h tInt (.expr .nonconst) st r hm hr (by decide +kernel) (by decide +kernel)
      apply key.1
      unfold bytesM imgR
      rw [hm, hr]
      simp only []
      rw [this]

/-! ## (f) automatic objects: `funcinit` leaves the same image in memory

`Model/InitAuto.lean` models `qbe.c:funcinit`/`zero` on the bytes of the object: zero-filling of the
gaps (`offset`/`max` bookkeeping), element stores of string literals, `funcstore` with the
read-modify-write of bit-fields after zero-filling their storage unit. -/

open CprocVerif.InitAuto

/-- The loop of `funcinit`, for ANY list sorted by bit position without overlap and ANY previous
content of the memory: afterwards the object holds the static image, byte for byte (padding and
array tails zero). -/
theorem funcinit_image_correct {size : Nat} {l : List Init} {garb : Mem} (hlen : garb.length = size)
    (hs : l.Pairwise (fun a b => a.hi ≤ b.lo)) (hw : ∀ i ∈ l, Wf size i) : funcinit size garb l = image size l :=
  funcinit_image hlen hs hw

theorem pairwise_of_flatListB : ∀ {l : List Init}, flatListB l = true → l.Pairwise (fun a b => a.hi ≤ b.lo) := by
  intro l
  induction l with
  | nil => intro _; exact List.Pairwise.nil
  | cons a l ih =>
    intro h
    simp only [flatListB, Bool.and_eq_true, List.all_eq_true, decide_eq_true_eq] at h
    exact List.Pairwise.cons h.1 (ih h.2)

/-- **`auto_image_correct`** — "an automatic object given the same initialiser holds the same
member values at run time": for every `(t, inc, i)` in the decidable class `autoClass` (`imgClass`,
and no element patched inside an earlier string literal — the recorded finding
`auto-zero-after-patch`), whatever the stack held before, the memory after the model of `funcinit`
on the list `parseinit` built is the image C11 prescribes, which is also what `emitdata` prints
for the static object. -/
theorem auto_image_correct {t : Ty} {inc : Bool} {i : Ini} {st : St} {r : InitRef.Result} {garb : Mem}
    (hm : parseinit t inc i = .ok st) (hr : InitRef.ref t inc i = .ok r) (hc : autoClass t inc i = true)
    (hlen : garb.length = st.top) :
    funcinit st.top garb (st.log.foldl applyEv []) = image r.size r.writes ∧
      funcinit st.top garb (st.log.foldl applyEv []) = bytes (emitItems st.top (st.log.foldl applyEv [])) := by
  simp only [autoClass, hm, Bool.and_eq_true] at hc
  obtain ⟨hic, hflat⟩ := hc
  obtain ⟨hok, hw⟩ := imgClass_laminar hm hic
  obtain ⟨_, hmem, hcell⟩ := foldl_applyEv (l := []) hok List.Pairwise.nil (fun _ h => by simp at h)
    (fun _ h => by simp at h)
  have hwl : ∀ x ∈ st.log.foldl applyEv [], Wf st.top x := by
    intro x hx
    rcases hmem x hx with h | h
    · simp at h
    · exact hw x h
  have h1 := funcinit_image hlen (pairwise_of_flatListB hflat) hwl
  have h2 : image st.top (st.log.foldl applyEv []) = image st.top (st.log.map evWrite) :=
    ImgEq.image (fun j => by rw [hcell j]; rfl) _
  have h3 := static_image_correct hm hr hic
  have h4 := (emitdata_image_ev hok hw).2
  refine ⟨?_, ?_⟩
  · rw [h1, h2, ← h4]; exact h3.2
  · rw [h1, h2, h4]

/-- Without the flat-list hypothesis the statement is false (the recorded finding
`auto-zero-after-patch`): `struct {char s[8]; int x;} v = {"abcdefgh", .s[5] = 'x', .x = 1};` — after
the element patch `funcinit` zero-fills from the end of the patched element and wipes `gh`. -/
def exAZ : Ty := .agg false 4 12 (.cons (some "s") (.array 8 tChar) 0 0 0 (.cons (some "x") tInt 8 0 0 .nil))
def exAZI : Ini := .list (.cons [] (.expr (.str 1 1 [97, 98, 99, 100, 101, 102, 103, 104, 0]))
  (.cons [.fld "s", .idx 5] (numI 120) (.cons [.fld "x"] (numI 1) .nil)))

def autoM (t : Ty) (i : Ini) : Option (List Cell) :=
  match parseinit t false i with
  | .ok st => some (funcinit st.top (List.replicate st.top (.byte 0xa5)) (st.log.foldl applyEv []))
  | .error _ => none

theorem auto_image_counterexample :
    imgClass exAZ false exAZI = true ∧ autoClass exAZ false exAZI = false ∧ autoM exAZ exAZI ≠ imgR exAZ exAZI := by
  decide +kernel

end CprocVerif.C07

import CprocVerif.Model.Bytes
import CprocVerif.Gen.TokenKinds

/-!
# C11 6.10.3 — macro replacement (reference; written from the standard, not from pp.c)

The reference processes a translation unit given as the list of its preprocessing tokens
(new-line tokens included) on the subset of directives cproc implements:

* the unit is cut into lines; a line whose first token is `#` is a directive (6.10p2), parsed by
  the grammar of 6.10/6.10.3 into `Dir`; every other line contributes its tokens;
* `expand` is the algorithm of 6.10.3.1–6.10.3.4 in the form Dave Prosser gave it for X3J11:
  every token carries the set of macro names it must not be replaced by (its *hide set*).
  An identifier that names an object-like macro and is not in its own hide set is replaced by
  the replacement list, whose tokens receive the identifier's hide set plus the macro name; the
  result is rescanned together with the rest of the source (6.10.3.4p1).  An identifier that
  names a function-like macro, is not in its hide set and is followed by `(` (6.10.3p10) has its
  arguments collected up to the matching `)` (commas inside nested parentheses do not separate,
  6.10.3p11; the variable arguments including their commas form one argument, 6.10.3p12); each
  parameter not preceded by `#` is replaced by the *completely macro-replaced* argument, expanded
  as if it were the rest of the file (6.10.3.1); `# parameter` becomes the string literal spelling
  the unexpanded argument (6.10.3.2); the result, hidden by (hide set of the name ∩ hide set of
  the `)`) plus the macro name, is rescanned with the rest of the source.  A name found in its
  own hide set is never replaced, also not later (6.10.3.4p2).
* a directive reached at the top level of the scan is executed (`#define`, `#undef`; `#pragma`,
  `#line`, line markers and the null directive have no effect on the token sequence).

**Two readings of "nested replacement" (6.10.3.4p2).**  In Prosser's formulation a token keeps
its hide set for ever, also after the complete macro replacement of the argument it belongs to
has ended and the result has been substituted (`strict := true`).  The text of 6.10.3.1 and
6.10.3.4p2 only makes the names *found non-replaceable* stay so ("these nonreplaced macro name
preprocessing tokens are no longer available for further replacement even if they are later
(re)examined"): a function-like name that merely was not followed by `(` inside the argument, and
is invoked later during the rescan of the outer replacement list, is not nested in the
argument's (finished) replacements.  `strict := false` (the default, and what gcc and clang do)
reads it that way: substituted argument tokens keep only their `painted` mark.  The two readings
differ only for such late invocations; the driver reports when they do.

White space matters only through `#`: a token remembers whether white space (or a new-line)
preceded it; the first token of a replacement takes that flag from the token replaced, and a
replacement by no tokens passes the flag on to the next token.

Outside the statement (reported through `flags`, the check does not compare such units):
* `nestUnspec` — 6.10.3.4p4: a function-like name that ends its own replacement and finds its
  `(` in the following source; the standard leaves open whether that is a nested replacement;
* `dirInArgs` — 6.10.3p11: a directive line inside the arguments of an invocation (undefined).
* `dirAfterName`, `strOfInvocation`, `emptyWithSpace` are informational (places where cproc is
  known to deviate; the check uses them to name the recorded finding a disagreement belongs to).
* `crossInvocation` is informational: an invocation whose `(` and `)` have different hide sets
  (it starts inside one replacement list and ends outside of it).
-/

namespace CprocVerif.Spec.MacroRef
open CprocVerif.Gen.TokenKinds

abbrev Name := List UInt8

/-- a preprocessing token: class, spelling (`none` for punctuators and new-line), and whether
white space precedes it -/
structure PTok where
  kind : Kind
  lit : Option Name := none
  space : Bool := false
  deriving DecidableEq, Repr, Inhabited

/-- the observable part of a token -/
def PTok.key (t : PTok) : Kind × Option Name := (t.kind, t.lit)

/-- a token with its hide set; `painted` = it was found to be a macro name that must not be
replaced (6.10.3.4p2: "no longer available for further replacement even if later (re)examined") -/
structure HTok where
  tok : PTok
  hs : List Name := []
  painted : Bool := false
  deriving DecidableEq, Repr, Inhabited

structure MacroDef where
  name : Name
  func : Bool := false
  params : List Name := []
  variadic : Bool := false
  body : List PTok := []
  deriving DecidableEq, Repr, Inhabited

inductive RErr where
  | fuel
  | lex               -- the text has no tokenisation here
  | badDefine         -- 6.10.3 syntax: `# define identifier …`, parameter list
  | dupParam          -- 6.10.3p6
  | vaArgs            -- 6.10.3p5
  | hashParam         -- 6.10.3.2p1
  | hashhash          -- `##`: outside the implemented subset
  | redefinition      -- 6.10.3p2
  | redefinitionSpace -- 6.10.3p2, the two definitions differ in white-space separation only
  | badUndef          -- 6.10.3.5
  | badDirective      -- not a directive name
  | unsupported       -- `#if` … `#include` `#error`: outside the implemented subset
  | badLine           -- 6.10.4
  | trailing          -- tokens after the end of a directive
  | unterminated      -- 6.10.3p10: no `)` terminates the invocation
  | argCount          -- 6.10.3p4
  deriving DecidableEq, Repr, Inhabited

inductive Flag where
  | nestUnspec | dirInArgs | crossInvocation
  | dirAfterName      -- informational: a function-like name was followed by a directive line
  | strOfInvocation   -- informational: `#` applied to an argument that contains an invocation and is also used plainly
  | emptyWithSpace    -- informational: a replacement by no tokens passed white space on
  deriving DecidableEq, Repr, Inhabited

inductive Dir where
  | nop
  | define (m : MacroDef)
  | undef (n : Name)
  | bad (e : RErr)
  deriving DecidableEq, Repr, Inhabited

inductive Item where
  | tok (t : HTok)
  | dir (d : Dir)
  deriving DecidableEq, Repr, Inhabited

/-! ## Directives (6.10, 6.10.3p2–p6, 6.10.3.2p1, 6.10.3.5, 6.10.4) -/

def vaName : Name := b!"__VA_ARGS__"

def isIdent (t : PTok) : Bool := t.kind = .TIDENT

/-- identifier-list of a function-like definition, after the `(`:
`)` | `...)` | `id (, id)* )` | `id (, id)* , ... )`; returns names, variadic, rest of the line -/
def parseParams : List PTok → Option (List Name × Bool × List PTok)
  | [] => none
  | t :: r =>
    if t.kind = .TRPAREN then some ([], false, r)
    else if t.kind = .TELLIPSIS then
      match r with
      | c :: r' => if c.kind = .TRPAREN then some ([], true, r') else none
      | [] => none
    else if t.kind = .TIDENT then
      match r with
      | [] => none
      | c :: r' =>
        if c.kind = .TRPAREN then some ([t.lit.getD []], false, r')
        else if c.kind = .TCOMMA then
          match r' with
          | [] => none
          | u :: _ =>
            if u.kind = .TRPAREN then none            -- `id , )`
            else match parseParams r' with
              | some (ns, v, rest) => some (t.lit.getD [] :: ns, v, rest)
              | none => none
        else none
    else none

/-- 6.10.3.2p1: in a function-like macro each `#` is followed by a parameter -/
def hashOk (params : List Name) : List PTok → Bool
  | [] => true
  | t :: r =>
    if t.kind = .THASH then
      match r with
      | p :: r' => isIdent p && params.contains (p.lit.getD []) && hashOk params r'
      | [] => false
    else hashOk params r

def parseDefine (line : List PTok) : Dir :=
  match line with
  | [] => .bad .badDefine
  | n :: r =>
    if ¬ isIdent n then .bad .badDefine
    else
      let name := n.lit.getD []
      let fn : Option (List Name × Bool × List PTok) :=
        match r with
        | l :: r' => if l.kind = .TLPAREN ∧ l.space = false then parseParams r' else some ([], false, r)
        | [] => some ([], false, [])
      let isFunc : Bool := match r with
        | l :: _ => l.kind = .TLPAREN ∧ l.space = false
        | [] => false
      match fn with
      | none => .bad .badDefine
      | some (ps, va, body) =>
        let allps := if va then ps ++ [vaName] else ps
        if ¬ ps.Nodup ∨ ps.contains vaName then .bad .dupParam
        else if body.any (·.kind = .THASHHASH) then .bad .hashhash
        else if ¬ va ∧ body.any (fun t => isIdent t && t.lit == some vaName) then .bad .vaArgs
        else if isFunc ∧ ¬ hashOk allps body then .bad .hashParam
        else .define { name := name, func := isFunc, params := ps, variadic := va, body := body }

/-- `digit-sequence "s-char-sequence"opt` and, for the line markers of a preprocessed file,
any further numbers -/
def lineOk (l : List PTok) : Bool :=
  match l with
  | n :: r =>
    n.kind = .TNUMBER &&
      (let r1 := match r with
         | s :: r' => if s.kind = Kind.TSTRINGLIT then r' else r
         | [] => []
       r1.all (·.kind = Kind.TNUMBER))
  | [] => false

def unsupportedNames : List Name :=
  [b!"if", b!"ifdef", b!"ifndef", b!"elif", b!"else", b!"endif", b!"include", b!"error"]

/-- the tokens of a directive line after the `#` -/
def parseDirective (line : List PTok) : Dir :=
  match line with
  | [] => .nop
  | d :: r =>
    if d.kind = .TNUMBER then (if lineOk line then .nop else .bad .trailing)
    else if ¬ isIdent d then .bad .badDirective
    else
      let nm := d.lit.getD []
      if nm = b!"define" then parseDefine r
      else if nm = b!"undef" then
        match r with
        | [n] => if isIdent n then .undef (n.lit.getD []) else .bad .badUndef
        | [] => .bad .badUndef
        | n :: _ => if isIdent n then .bad .trailing else .bad .badUndef
      else if nm = b!"line" then
        match r with
        | n :: _ => if n.kind = .TNUMBER then (if lineOk r then .nop else .bad .trailing) else .bad .badLine
        | [] => .bad .badLine
      else if nm = b!"pragma" then .nop
      else if unsupportedNames.contains nm then .bad .unsupported
      else .bad .badDirective

/-- cut the token list of the unit into lines (the new-line and end-of-file tokens disappear);
a `TNONE` token (no tokenisation from here on) ends the unit with a marker line -/
def splitLines : List PTok → List PTok → List (List PTok)
  | [], cur => if cur.isEmpty then [] else [cur.reverse]
  | t :: r, cur =>
    if t.kind = .TNEWLINE then cur.reverse :: splitLines r []
    else if t.kind = .TEOF then (if cur.isEmpty then [] else [cur.reverse])
    else if t.kind = .TNONE then [cur.reverse, [t]]
    else splitLines r (t :: cur)

/-- a line as items: a directive, or its tokens (the first one preceded by white space: the
new-line before it) -/
def lineItems (l : List PTok) : List Item :=
  match l with
  | [] => []
  | t :: r =>
    if t.kind = .THASH then [.dir (parseDirective r)]
    else if t.kind = .TNONE then [.dir (.bad .lex)]
    else (.tok ⟨{ t with space := true }, [], false⟩) :: r.map (fun x => .tok ⟨x, [], false⟩)

def items (unit : List PTok) : List Item := (splitLines unit []).flatMap lineItems

/-! ## The macro table -/

abbrev Tbl := List MacroDef

def lookup (tbl : Tbl) (n : Name) : Option MacroDef := tbl.find? (·.name = n)
def erase (tbl : Tbl) (n : Name) : Tbl := tbl.filter (·.name ≠ n)
def insert (tbl : Tbl) (m : MacroDef) : Tbl := m :: erase tbl m.name

/-- white-space separation of a replacement list: the flag of every token but the first -/
def sameSpacing : List PTok → List PTok → Bool
  | [], [] => true
  | a :: as, b :: bs => a.key = b.key && (as.zip bs).all (fun p => p.1.key = p.2.key && p.1.space = p.2.space)
      && as.length = bs.length
  | _, _ => false

/-- 6.10.3p2: two definitions are the same -/
def identical (a b : MacroDef) : Bool :=
  a.func = b.func && a.params = b.params && a.variadic = b.variadic && sameSpacing a.body b.body

/-- the same up to white-space separation -/
def identicalModSpace (a b : MacroDef) : Bool :=
  a.func = b.func && a.params = b.params && a.variadic = b.variadic && a.body.map (·.key) = b.body.map (·.key)

/-! ## Stringification (6.10.3.2p2) -/

def spellOf (t : PTok) : List UInt8 :=
  match t.lit with
  | some l => l
  | none => ((tokstr.find? (·.1 = t.kind)).map (·.2)).getD []

def isLiteral (t : PTok) : Bool := t.kind = .TSTRINGLIT || t.kind = .TCHARCONST

/-- `\` inserted before each `"` and `\` of a string literal or character constant -/
def escape (s : List UInt8) : List UInt8 :=
  s.flatMap fun c => if c = c! '"' ∨ c = c! '\\' then [c! '\\', c] else [c]

def spellArg (t : PTok) : List UInt8 := if isLiteral t then escape (spellOf t) else spellOf t

/-- spelling of the argument: each white space between tokens becomes one space; none before the
first and after the last token -/
def spellAll : List PTok → List UInt8
  | [] => []
  | t :: r => spellArg t ++ (r.flatMap fun u => (if u.space then [c! ' '] else []) ++ spellArg u)

def stringizeRef (arg : List PTok) : PTok :=
  { kind := .TSTRINGLIT, lit := some ([c! '"'] ++ spellAll arg ++ [c! '"']), space := false }

/-! ## Arguments (6.10.3p4, p10–p12) -/

/-- find the `)` matching an already consumed `(`: the tokens in between, the `)`, the rest.
`none` = the source ends first; a directive in between is reported by the flag. -/
def matchParen : List Item → Nat → List HTok → Option (List HTok × HTok × List Item × Bool)
  | [], _, _ => none
  | .dir _ :: rest, depth, acc =>
    match matchParen rest depth acc with
    | some (a, r, rest', _) => some (a, r, rest', true)
    | none => none
  | .tok t :: rest, depth, acc =>
    if t.tok.kind = .TRPAREN then
      (if depth = 0 then some (acc.reverse, t, rest, false) else matchParen rest (depth - 1) (t :: acc))
    else if t.tok.kind = .TLPAREN then matchParen rest (depth + 1) (t :: acc)
    else matchParen rest depth (t :: acc)

/-- split at the commas outside nested parentheses, at most `n` times (`cur` collects the piece
under construction, last first) -/
def splitTop : Nat → Nat → List HTok → List HTok → List (List HTok)
  | _, _, [], cur => [cur.reverse]
  | n, depth, t :: r, cur =>
    if t.tok.kind = .TCOMMA ∧ depth = 0 ∧ n ≠ 0 then cur.reverse :: splitTop (n - 1) depth r []
    else if t.tok.kind = .TLPAREN then splitTop n (depth + 1) r (t :: cur)
    else if t.tok.kind = .TRPAREN then splitTop n (depth - 1) r (t :: cur)
    else splitTop n depth r (t :: cur)

/-- the arguments of an invocation of `m` whose parenthesised tokens are `inside`, or `none`
when their number is wrong (6.10.3p4) -/
def actuals (m : MacroDef) (inside : List HTok) : Option (List (List HTok)) :=
  if m.variadic then
    let a := splitTop m.params.length 0 inside []
    if a.length = m.params.length + 1 then some a else none
  else
    let a := splitTop (inside.length + 1) 0 inside []
    if m.params.length = 0 then (if inside.isEmpty then some [] else none)
    else if a.length = m.params.length then some a else none

/-! ## Replacement -/

def union (a b : List Name) : List Name := a ++ b.filter (fun x => ¬ a.contains x)
def inter (a b : List Name) : List Name := a.filter (fun x => b.contains x)

def hsadd (hs : List Name) (ts : List HTok) : List HTok := ts.map fun t => { t with hs := union hs t.hs }

/-- give the first token the white-space flag of what it replaces; nothing to give it to:
report the flag as pending -/
def respace (ts : List HTok) (space : Bool) : List HTok × Bool :=
  match ts with
  | [] => ([], space)
  | t :: r => ({ t with tok := { t.tok with space := space } } :: r, false)

def pend (b : Bool) (t : HTok) : HTok := if b then { t with tok := { t.tok with space := true } } else t

def pendItems (b : Bool) (l : List Item) : List Item :=
  match l with
  | .tok t :: r => .tok (pend b t) :: r
  | l => l

def paramIndex (m : MacroDef) (t : PTok) : Option Nat :=
  if t.kind = .TIDENT then
    let ps := if m.variadic then m.params ++ [vaName] else m.params
    let i := ps.findIdx (fun p => some p = t.lit)
    if i < ps.length then some i else none
  else none

/-- a replacement list parsed: ordinary token, parameter, `# parameter` (with the white-space
flag of the place) -/
inductive Elem where
  | tok (t : PTok)
  | param (i : Nat) (space : Bool)
  | str (i : Nat) (space : Bool)
  deriving DecidableEq, Repr, Inhabited

def elemOf (m : MacroDef) (t : PTok) : Elem :=
  match (if m.func then paramIndex m t else none) with
  | some i => .param i t.space
  | none => .tok t

def elems (m : MacroDef) : List PTok → List Elem
  | [] => []
  | [t] => [elemOf m t]
  | t :: p :: r =>
    if m.func ∧ t.kind = .THASH then
      match paramIndex m p with
      | some i => .str i t.space :: elems m r
      | none => .tok t :: elems m (p :: r)
    else elemOf m t :: elems m (p :: r)

/-- substitute the parameters: `raw i` = the tokens of argument `i` as written, `full i` = its
complete macro replacement; `pending` = white space to pass on -/
def subst (raw full : Nat → List HTok) : List Elem → Bool → List HTok
  | [], _ => []
  | .tok t :: r, pending => ⟨{ t with space := t.space || pending }, [], false⟩ :: subst raw full r false
  | .str i sp :: r, pending =>
    ⟨{ stringizeRef ((raw i).map (·.tok)) with space := sp || pending }, [], false⟩ :: subst raw full r false
  | .param i sp :: r, pending =>
    let x := respace (full i) (sp || pending)
    x.1 ++ subst raw full r x.2

/-- does parameter `i` occur outside `#` in the replacement list? (only then is the argument
macro-replaced, 6.10.3.1) -/
def usedPlain (m : MacroDef) (i : Nat) : Bool := (elems m m.body).any fun e =>
  match e with
  | .param j _ => j = i
  | _ => false

/-- `# parameter` for a parameter that also occurs plainly -/
def usedStr (m : MacroDef) (i : Nat) : Bool := (elems m m.body).any fun e =>
  match e with
  | .str j _ => j = i
  | _ => false

/-- does the token list contain the name of a macro?  (then its complete replacement may contain
an invocation whose parentheses are tokens of the list) -/
def hasInvocation (tbl : List MacroDef) (l : List HTok) : Bool :=
  l.any fun a => a.tok.kind = .TIDENT && (tbl.find? (·.name = a.tok.lit.getD [])).isSome

/-- a parameter in a place preceded by white space whose argument is replaced by nothing -/
def emptySpaced (full : Nat → List HTok) (es : List Elem) : Bool := es.any fun e =>
  match e with
  | .param i sp => sp && (full i).isEmpty
  | _ => false

structure Out where
  toks : List PTok := []
  err : Option RErr := none
  flags : List Flag := []
  deriving Repr, Inhabited

def Out.cons (t : PTok) (o : Out) : Out := { o with toks := t :: o.toks }
def Out.flag (f : Flag) (o : Out) : Out := { o with flags := f :: o.flags }

/-- the algorithm proper, on tokens with hide sets; the output keeps the hide sets (needed when
the output is an argument's replacement that is substituted and rescanned) -/
def expandH (strict : Bool) : Nat → Tbl → List Item → List HTok × Option RErr × List Flag
  | 0, _, _ => ([], some .fuel, [])
  | _ + 1, _, [] => ([], none, [])
  | n + 1, tbl, .dir d :: rest =>
    match d with
    | .bad e => ([], some e, [])
    | .nop => expandH strict n tbl rest
    | .undef nm => expandH strict n (erase tbl nm) rest
    | .define m =>
      match lookup tbl m.name with
      | some old =>
        if identical old m then expandH strict n (insert tbl m) rest
        else if identicalModSpace old m then ([], some .redefinitionSpace, [])
        else ([], some .redefinition, [])
      | none => expandH strict n (insert tbl m) rest
  | n + 1, tbl, .tok T :: rest =>
    let keepAs (T' : HTok) : List HTok × Option RErr × List Flag :=
      let o := expandH strict n tbl rest
      (T' :: o.1, o.2.1, o.2.2)
    let keep (_ : Unit) := keepAs T
    if T.tok.kind ≠ .TIDENT ∨ T.painted then keep ()
    else match lookup tbl (T.tok.lit.getD []) with
    | none => keep ()
    | some m =>
      if T.hs.contains m.name then
        -- 6.10.3.4p2: not replaced; 6.10.3.4p4 when its `(` comes from outside the replacement
        let unspec : Bool := m.func && (match rest with
          | .tok L :: _ => L.tok.kind = .TLPAREN && !L.hs.contains m.name
          | _ => false)
        let k := keepAs { T with painted := true }
        if unspec then (k.1, k.2.1, .nestUnspec :: k.2.2) else k
      else if ¬ m.func then
        let body := respace (hsadd (union T.hs [m.name]) (m.body.map fun t => ⟨t, [], false⟩)) T.tok.space
        let o := expandH strict n tbl (body.1.map .tok ++ pendItems body.2 rest)
        if body.2 then (o.1, o.2.1, .emptyWithSpace :: o.2.2) else o
      else match rest with
        | .tok L :: rest1 =>
          if L.tok.kind ≠ .TLPAREN then keep ()
          else match matchParen rest1 0 [] with
            | none =>
              ([], some .unterminated,
               if rest1.any (fun x => match x with | .dir _ => true | .tok _ => false) then [.dirInArgs] else [])
            | some (inside, R, rest2, dirIn) =>
              if dirIn then ([], none, [.dirInArgs])
              else match actuals m inside with
                | none => ([], some .argCount, [])
                | some args =>
                  -- complete macro replacement of the arguments that need it
                  let full : List (List HTok × Option RErr × List Flag) :=
                    (List.range args.length).map fun i =>
                      if usedPlain m i then expandH strict n tbl ((args.getD i []).map .tok) else ([], none, [])
                  match full.findSome? (·.2.1) with
                  | some e =>
                    -- an invocation left open inside an argument: an implementation that does not isolate
                    -- the argument reads on; a directive further down is then inside its arguments
                    ([], some e, full.flatMap (·.2.2) ++
                      (if e = .unterminated ∧ rest2.any (fun x => match x with | .dir _ => true | .tok _ => false)
                       then [.dirInArgs] else []))
                  | none =>
                    let hs := union (inter T.hs R.hs) [m.name]
                    let cross := if L.hs ≠ R.hs then [Flag.crossInvocation] else []
                    -- the replacement of an argument is finished once it is substituted: unless `strict`
                    -- (Prosser's original formulation) its tokens keep only the `painted` marks
                    let done (i : Nat) : List HTok :=
                      if strict then (full.getD i default).1
                      else (full.getD i default).1.map fun t => { t with hs := [] }
                    let sub := subst (fun i => args.getD i []) done (elems m m.body) false
                    let body := respace (hsadd hs sub) T.tok.space
                    let o := expandH strict n tbl (body.1.map .tok ++ pendItems body.2 rest2)
                    let info : List Flag :=
                      (if (List.range args.length).any (fun i => usedStr m i && usedPlain m i &&
                            hasInvocation tbl (args.getD i [])) then [Flag.strOfInvocation] else []) ++
                      (if body.2 || emptySpaced done (elems m m.body) then [Flag.emptyWithSpace] else [])
                    (o.1, o.2.1, cross ++ info ++ full.flatMap (·.2.2) ++ o.2.2)
        | .dir _ :: _ => let k := keep (); (k.1, k.2.1, .dirAfterName :: k.2.2)
        | _ => keep ()

/-- macro replacement of a translation unit -/
def expandUnit (fuel : Nat) (unit : List PTok) (strict : Bool := false) : Out :=
  let o := expandH strict fuel [] (items unit)
  { toks := o.1.map (·.tok), err := o.2.1, flags := o.2.2 }

end CprocVerif.Spec.MacroRef

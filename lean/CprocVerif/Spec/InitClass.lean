import CprocVerif.Model.Init
import CprocVerif.Spec.InitRef

/-!
# Classes of (type, initialiser) pairs (C07)

Decidable (`Bool`-valued) predicates on types and initialiser trees: the hypotheses of the
refinement theorems `parseinit_refines_ref…` in `Props/C07.lean`.  `Drv/C07.lean` evaluates the
same predicates for every generated object (`class` op), so that the evidence shows which part of
the explored inputs is covered by proof and which by the differential comparison only.
-/

namespace CprocVerif.InitSim
open CprocVerif.Init

def isScalarTy : Ty → Bool
  | .scalar _ _ => true
  | _ => false

mutual
  /-- the types the refinement is proved for: arrays have at least one element of non-zero size,
  structs/unions have at least one member, only scalar members are bit-fields -/
  def tyWf : Ty → Bool
    | .scalar _ _ => true
    | .array n e => decide (1 ≤ n) && decide (0 < e.size) && tyWf e
    | .agg _ _ _ ms => (match ms with | .nil => false | .cons _ _ _ _ _ _ => true) && msWf ms
  def msWf : Members → Bool
    | .nil => true
    | .cons _ ty _ b a next => tyWf ty && (isScalarTy ty || (b == 0 && a == 0)) && msWf next
end

/-- the expression initialises sub-objects of the aggregate (brace elision, 6.7.9p20) -/
def elides : Ty → Expr → Bool
  | .scalar _ _, _ => false
  | .array _ (.scalar _ (.int _ _)), .str _ _ _ => false
  | .agg _ tag _ _, .agg etag => tag != etag
  | _, _ => true

/-- what is accepted at the top level: a braced list, or an expression for the whole
object (a scalar, a string for a character array, a struct/union value) -/
def topOK (t : Ty) : Ini → Bool
  | .expr e => !elides t e
  | .list _ => true

mutual
  /-- no designator anywhere in the initialiser -/
  def noDesig : Ini → Bool
    | .expr _ => true
    | .list its => noDesigs its
  def noDesigs : Items → Bool
    | .nil => true
    | .cons ds i rest => ds.isEmpty && noDesig i && noDesigs rest
end

mutual
  /-- every aggregate has its own braces, scalars have none, character arrays may take a string
  (with or without braces), a struct/union may take a value of its type: no brace elision -/
  def fullyBraced : Ty → Ini → Bool
    | .scalar _ _, .expr _ => true
    | .scalar _ _, .list _ => false
    | .array _ (.scalar _ (.int _ _)), .expr (.str _ _ _) => true
    | .array _ (.scalar _ (.int _ _)), .list (.cons [] (.expr (.str _ _ _)) .nil) => true
    | .array _ e, .list its => fullyBracedArr e its
    | .array _ _, .expr _ => false
    | .agg _ tag _ _, .expr (.agg etag) => tag == etag
    | .agg _ _ _ _, .expr _ => false
    | .agg false _ _ ms, .list its => fullyBracedMs ms its
    | .agg true _ _ ms, .list its =>
      match ms, its with
      | _, .nil => true
      | .cons _ t _ _ _ _, .cons _ i .nil => fullyBraced t i
      | _, _ => false
  def fullyBracedArr (e : Ty) : Items → Bool
    | .nil => true
    | .cons _ i rest => fullyBraced e i && fullyBracedArr e rest
  def fullyBracedMs : Members → Items → Bool
    | _, .nil => true
    | .nil, .cons _ _ _ => false
    | .cons _ t _ _ _ ms, .cons _ i rest => fullyBraced t i && fullyBracedMs ms rest
end

/-- the reference never re-zeroes a union because a second member of it is designated (the
designated-union-member switch is known finding `union-member-switch`: there model and reference
differ, `parseinit_refines_ref_counterexample`) -/
def noSwitch (t : Ty) (inc : Bool) (i : Ini) : Bool :=
  match CprocVerif.InitRef.ref t inc i with
  | .ok r => r.nswitch == 0
  | .error _ => true

/-- well-formed type of the object: `tyWf`; an array of unknown size is `T a[]` (no elements yet)
with a well-formed element type of non-zero size -/
def tyWfFor (t : Ty) (inc : Bool) : Bool :=
  if inc then
    match t with
    | .array 0 e => tyWf e && decide (0 < e.size)
    | _ => false
  else tyWf t

/-- the class of `parseinit_refines_ref`: well-formed type, a braced list or a whole-object
expression at the top level, no union member switch -/
def refClass (t : Ty) (inc : Bool) (i : Ini) : Bool :=
  tyWfFor t inc && topOK t i && noSwitch t inc i

end CprocVerif.InitSim

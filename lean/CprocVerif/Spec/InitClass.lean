import CprocVerif.Model.Init
import CprocVerif.Spec.InitRef

/-!
# Classes of (type, initialiser) pairs (C07)

Decidable (`Bool`-valued) predicates on types and initialiser trees: the hypotheses of the
refinement theorems `parseinit_refines_ref…` in `Props/C07.lean`.  `Drv/C07.lean` evaluates the
same predicates for every generated object (`class` op), so that the evidence shows which part of
the explored inputs is covered by proof and which by the differential comparison only.
-/

namespace CprocVerif.InitSim
open CprocVerif.Init

def isScalarTy : Ty → Bool
  | .scalar _ _ => true
  | _ => false

mutual
  /-- the types the refinement is proved for: arrays have at least one element of non-zero size,
  structs/unions have at least one member, only scalar members are bit-fields -/
  def tyWf : Ty → Bool
    | .scalar _ _ => true
    | .array n e => decide (1 ≤ n) && decide (0 < e.size) && tyWf e
    | .agg _ _ _ ms => (match ms with | .nil => false | .cons _ _ _ _ _ _ => true) && msWf ms
  def msWf : Members → Bool
    | .nil => true
    | .cons _ ty _ b a next => tyWf ty && (isScalarTy ty || (b == 0 && a == 0)) && msWf next
end

/-- the expression initialises sub-objects of the aggregate (brace elision, 6.7.9p20) -/
def elides : Ty → Expr → Bool
  | .scalar _ _, _ => false
  | .array _ (.scalar _ (.int _ _)), .str _ _ _ => false
  | .agg _ tag _ _, .agg etag => tag != etag
  | _, _ => true

/-- what is accepted at the top level: a braced list, or an expression for the whole
object (a scalar, a string for a character array, a struct/union value) -/
def topOK (t : Ty) : Ini → Bool
  | .expr e => !elides t e
  | .list _ => true

mutual
  /-- no designator anywhere in the initialiser -/
  def noDesig : Ini → Bool
    | .expr _ => true
    | .list its => noDesigs its
  def noDesigs : Items → Bool
    | .nil => true
    | .cons ds i rest => ds.isEmpty && noDesig i && noDesigs rest
end

mutual
  /-- every aggregate has its own braces, scalars have none, character arrays may take a string
  (with or without braces), a struct/union may take a value of its type: no brace elision -/
  def fullyBraced : Ty → Ini → Bool
    | .scalar _ _, .expr _ => true
    | .scalar _ _, .list _ => false
    | .array _ (.scalar _ (.int _ _)), .expr (.str _ _ _) => true
    | .array _ (.scalar _ (.int _ _)), .list (.cons [] (.expr (.str _ _ _)) .nil) => true
    | .array _ e, .list its => fullyBracedArr e its
    | .array _ _, .expr _ => false
    | .agg _ tag _ _, .expr (.agg etag) => tag == etag
    | .agg _ _ _ _, .expr _ => false
    | .agg false _ _ ms, .list its => fullyBracedMs ms its
    | .agg true _ _ ms, .list its =>
      match ms, its with
      | _, .nil => true
      | .cons _ t _ _ _ _, .cons _ i .nil => fullyBraced t i
      | _, _ => false
  def fullyBracedArr (e : Ty) : Items → Bool
    | .nil => true
    | .cons _ i rest => fullyBraced e i && fullyBracedArr e rest
  def fullyBracedMs : Members → Items → Bool
    | _, .nil => true
    | .nil, .cons _ _ _ => false
    | .cons _ t _ _ _ ms, .cons _ i rest => fullyBraced t i && fullyBracedMs ms rest
end

/-- the reference never re-zeroes a union because a second member of it is designated (the
designated-union-member switch is known finding `union-member-switch`: there model and reference
differ, `parseinit_refines_ref_counterexample`) -/
def noSwitch (t : Ty) (inc : Bool) (i : Ini) : Bool :=
  match CprocVerif.InitRef.ref t inc i with
  | .ok r => r.nswitch == 0
  | .error _ => true

/-- well-formed type of the object: `tyWf`; an array of unknown size is `T a[]` (no elements yet)
with a well-formed element type of non-zero size -/
def tyWfFor (t : Ty) (inc : Bool) : Bool :=
  if inc then
    match t with
    | .array 0 e => tyWf e && decide (0 < e.size)
    | _ => false
  else tyWf t

/-- the class of `parseinit_refines_ref`: well-formed type, a braced list or a whole-object
expression at the top level, no union member switch -/
def refClass (t : Ty) (inc : Bool) (i : Ini) : Bool :=
  tyWfFor t inc && topOK t i && noSwitch t inc i


/-! ## designators that stay on first union members -/

mutual
  /-- following the positions `ps` from an object of type `t` never enters a member of a union
  other than its first -/
  def firstPath : Ty → List Nat → Bool
    | .scalar _ _, ps => ps.isEmpty
    | .array _ e, ps => match ps with | [] => true | _ :: ps' => firstPath e ps'
    | .agg iu _ _ ms, ps => match ps with | [] => true | p :: ps' => (!iu || p == 0) && firstPathMs ms p ps'
  def firstPathMs : Members → Nat → List Nat → Bool
    | .nil, _, _ => false
    | .cons _ t _ _ _ r, k, ps => match k with | 0 => firstPath t ps | k' + 1 => firstPathMs r k' ps
end

mutual
  /-- the types of all sub-objects of an object of type `t` (and `t`) -/
  def subTys : Ty → List Ty
    | .scalar s k => [.scalar s k]
    | .array n e => .array n e :: subTys e
    | .agg iu tag size ms => .agg iu tag size ms :: subTysMs ms
  def subTysMs : Members → List Ty
    | .nil => []
    | .cons _ t _ _ _ r => subTys t ++ subTysMs r
end

/-- wherever in the object the designator is used, it designates no union member but the first -/
def desigOK (tys : List Ty) (d : Desig) : Bool :=
  tys.all fun a =>
    match CprocVerif.InitRef.resolve a d with
    | .ok ps => firstPath a ps
    | .error _ => true

mutual
  def desigsOK (tys : List Ty) : Ini → Bool
    | .expr _ => true
    | .list its => desigsOKs tys its
  def desigsOKs (tys : List Ty) : Items → Bool
    | .nil => true
    | .cons ds i rest => ds.all (desigOK tys) && desigsOK tys i && desigsOKs tys rest
end

/-! ## the class of the end-to-end theorem `static_image_correct`

Besides `refClass`: the layout handed to `parseinit` is a C layout (`layOK`: members inside their
struct/union, struct members in increasing bit order without overlap, bit-fields inside a storage
unit of their type's size, basic types with their LP64 sizes), string literals have the element
width of their character type (`strsOK`), every stored value is a constant of the member's kind
(`constVals`: no non-constant expression, no address in a narrower or bit-field member — the
inputs on which `emitdata` reports "initializer is not a constant expression"), and no
designator designates a member of a union other than the first (`desigsOK (subTys t) i`; true
without unions and without designators; otherwise laminarity of the list depends on which union
members are designated: differential only). -/

/-- size of the basic integer type of class `cls` (LP64) -/
def csize (cls : Nat) : Nat :=
  if cls = 1 ∨ cls = 2 ∨ cls = 3 ∨ cls = 12 then 1
  else if cls = 4 ∨ cls = 5 then 2
  else if cls = 6 ∨ cls = 7 then 4
  else 8

/-- bit positions of a member: a bit-field is a non-empty part of its storage unit -/
def bitsOK (ty : Ty) (b a : Nat) : Bool :=
  match ty with
  | .scalar s (.int _ _) => decide (b + a < 8 * s)
  | _ => b == 0 && a == 0

mutual
  def layOK : Ty → Bool
    | .scalar s (.int cls _) => s == csize cls
    | .scalar s .flt => s == 4 || s == 8
    | .scalar s .ptr => s == 8
    | .array _ e => layOK e
    | .agg iu _ size ms => msLay iu size 0 ms
  /-- `lb`: first bit not used by the members in front (structs) -/
  def msLay (iu : Bool) (size lb : Nat) : Members → Bool
    | .nil => true
    | .cons _ ty off b a next =>
      decide (off + ty.size ≤ size) && layOK ty && bitsOK ty b a && (iu || decide (lb ≤ 8 * off + b)) &&
        msLay iu size (8 * (off + ty.size) - a) next
end

mutual
  def noUnion : Ty → Bool
    | .scalar _ _ => true
    | .array _ e => noUnion e
    | .agg iu _ _ ms => !iu && noUnionMs ms
  def noUnionMs : Members → Bool
    | .nil => true
    | .cons _ ty _ _ _ next => noUnion ty && noUnionMs next
end

def strOK : Expr → Bool
  | .str w scls _ => w == csize scls && (w == 1 || w == 2 || w == 4)
  | _ => true

mutual
  /-- every string literal has the element width of its character type -/
  def strsOK : Ini → Bool
    | .expr e => strOK e
    | .list its => strsOKs its
  def strsOKs : Items → Bool
    | .nil => true
    | .cons _ i rest => strsOK i && strsOKs rest
end

def evValOK : Ev → Bool
  | .add i =>
    match i.val with
    | .other => false
    | .addr _ _ => i.before == 0 && i.after == 0 && i.stop == i.start + 8
    | _ => true
  | .clear _ _ => true

/-- every stored value is a constant of the member's kind -/
def constVals (t : Ty) (inc : Bool) (i : Ini) : Bool :=
  match parseinit t inc i with
  | .ok st => st.log.all evValOK
  | .error _ => true

/-- the items are plain expressions, none a string for the whole array -/
def flatItems (k : SK) : Items → Bool
  | .nil => true
  | .cons _ (.expr e) rest =>
    (match k, e with
      | .int _ _, .str _ _ _ => false
      | _, _ => true) && flatItems k rest
  | .cons _ (.list _) _ => false

/-- an array of unknown size of scalars with a flat list of expressions `T a[] = { e, [k] = e, … }`
(the part of the arrays of unknown size for which laminarity is proved) -/
def incFlat (t : Ty) (i : Ini) : Bool :=
  match t, i with
  | .array 0 (.scalar _ k), .list its => flatItems k its
  | _, _ => false

/-- the class of `static_image_correct` -/
def imgClass (t : Ty) (inc : Bool) (i : Ini) : Bool :=
  refClass t inc i && (!inc || incFlat t i) && layOK t && desigsOK (subTys t) i && strsOK i && constVals t inc i


/-! ## the class of `auto_image_correct` (automatic objects) -/

/-- the cells of the list follow each other without overlap (no element patched inside an earlier
string literal: known finding `auto-zero-after-patch`) -/
def flatListB : List Init → Bool
  | [] => true
  | a :: l => l.all (fun b => decide (a.hi ≤ b.lo)) && flatListB l

/-- `imgClass`, and the list `parseinit` built is flat -/
def autoClass (t : Ty) (inc : Bool) (i : Ini) : Bool :=
  imgClass t inc i &&
    match parseinit t inc i with
    | .ok st => flatListB (st.log.foldl applyEv [])
    | .error _ => true

end CprocVerif.InitSim

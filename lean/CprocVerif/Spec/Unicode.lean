/-!
# Spec: Unicode encoding forms (RFC 3629, UTF-16, UTF-32) and C11 6.4.4.4 / 6.4.5

Written from the standards, independently of the algorithms in `/repo/utf.c` and `/repo/expr.c`:

* Unicode scalar values (Unicode D76), the UTF-8 table of RFC 3629 section 3 (arithmetic form) and
  the ABNF of RFC 3629 section 4 (`WellFormed8`, = Unicode Table 3-7), UTF-16 (RFC 2781 2.1/2.2).
* C11 6.4.4.4 (escape sequences, value and type of character constants) and 6.4.5 (element type of
  string literals per encoding prefix, concatenation, terminating zero) for the three LP64 targets
  (psABI: `char` signedness and `wchar_t`).
* Documented C23 extension of cproc (pinned by `/repo/test/string-u8-type.c`): `u8` string literals
  have element type `unsigned char` (`char8_t`), and `u8'x'` character constants exist with that
  type (C23 6.4.4.5 / 6.4.5).  C11 would say `char` for `u8"…"`.
-/

namespace CprocVerif.Unicode

/-! ## Unicode -/

/-- Unicode scalar value (D76): any code point except the surrogates. -/
def isScalar (c : Nat) : Prop := c < 0xD800 ∨ (0xE000 ≤ c ∧ c ≤ 0x10FFFF)

instance : DecidablePred isScalar := fun c => by unfold isScalar; infer_instance

/-- RFC 3629 section 3: the number of octets follows from the range; the bits of the character
number fill the `x` positions, lowest-order bit in the lowest-order position of the last octet.
```
0000 0000-0000 007F | 0xxxxxxx
0000 0080-0000 07FF | 110xxxxx 10xxxxxx
0000 0800-0000 FFFF | 1110xxxx 10xxxxxx 10xxxxxx
0001 0000-0010 FFFF | 11110xxx 10xxxxxx 10xxxxxx 10xxxxxx
``` -/
def utf8Encode (c : Nat) : List Nat :=
  if c < 0x80 then [c]
  else if c < 0x800 then [0xC0 + c / 64, 0x80 + c % 64]
  else if c < 0x10000 then [0xE0 + c / 4096, 0x80 + c / 64 % 64, 0x80 + c % 64]
  else [0xF0 + c / 262144, 0x80 + c / 4096 % 64, 0x80 + c / 64 % 64, 0x80 + c % 64]

/-- `UTF8-tail = %x80-BF` -/
def isTail (b : Nat) : Prop := 0x80 ≤ b ∧ b ≤ 0xBF

instance : DecidablePred isTail := fun b => by unfold isTail; infer_instance

/-- RFC 3629 section 4 (ABNF of one `UTF8-char`):
```
UTF8-1 = %x00-7F
UTF8-2 = %xC2-DF UTF8-tail
UTF8-3 = %xE0 %xA0-BF UTF8-tail / %xE1-EC 2( UTF8-tail ) /
         %xED %x80-9F UTF8-tail / %xEE-EF 2( UTF8-tail )
UTF8-4 = %xF0 %x90-BF 2( UTF8-tail ) / %xF1-F3 3( UTF8-tail ) /
         %xF4 %x80-8F 2( UTF8-tail )
``` -/
def WellFormed8 : List Nat → Prop
  | [a] => a ≤ 0x7F
  | [a, b] => 0xC2 ≤ a ∧ a ≤ 0xDF ∧ isTail b
  | [a, b, c] =>
      (a = 0xE0 ∧ 0xA0 ≤ b ∧ b ≤ 0xBF ∧ isTail c) ∨
      (0xE1 ≤ a ∧ a ≤ 0xEC ∧ isTail b ∧ isTail c) ∨
      (a = 0xED ∧ 0x80 ≤ b ∧ b ≤ 0x9F ∧ isTail c) ∨
      (0xEE ≤ a ∧ a ≤ 0xEF ∧ isTail b ∧ isTail c)
  | [a, b, c, d] =>
      (a = 0xF0 ∧ 0x90 ≤ b ∧ b ≤ 0xBF ∧ isTail c ∧ isTail d) ∨
      (0xF1 ≤ a ∧ a ≤ 0xF3 ∧ isTail b ∧ isTail c ∧ isTail d) ∨
      (a = 0xF4 ∧ 0x80 ≤ b ∧ b ≤ 0x8F ∧ isTail c ∧ isTail d)
  | _ => False

instance : DecidablePred WellFormed8 := fun l => by
  unfold WellFormed8; split <;> infer_instance

/-- UTF-16 (RFC 2781 section 2.1): BMP scalar values are one unit; for the others
`U' = U - 0x10000` is split into two 10-bit halves added to `0xD800` and `0xDC00`. -/
def utf16Encode (c : Nat) : List Nat :=
  if c < 0x10000 then [c]
  else [0xD800 + (c - 0x10000) / 0x400, 0xDC00 + (c - 0x10000) % 0x400]

/-- UTF-16 decoding of the first character of a unit sequence (RFC 2781 section 2.2): returns the
character and the number of units; `none` for an unpaired surrogate or an empty sequence. -/
def utf16Decode : List Nat → Option (Nat × Nat)
  | [] => none
  | w1 :: rest =>
    if w1 < 0xD800 ∨ (0xDFFF < w1 ∧ w1 ≤ 0xFFFF) then some (w1, 1)
    else if 0xD800 ≤ w1 ∧ w1 ≤ 0xDBFF then
      match rest with
      | w2 :: _ =>
        if 0xDC00 ≤ w2 ∧ w2 ≤ 0xDFFF then
          some (0x10000 + (w1 - 0xD800) * 0x400 + (w2 - 0xDC00), 2)
        else none
      | [] => none
    else none

/-- UTF-32: the scalar value itself. -/
def utf32Encode (c : Nat) : List Nat := [c]

/-! ## C types and targets -/

/-- The integer types that occur as element / constant types of literals. -/
inductive CType
  | char | uchar | ushort | int | uint
  deriving DecidableEq, Repr

/-- psABI facts about a target. -/
structure Target where
  name : String
  /-- is plain `char` signed? -/
  charSigned : Bool
  /-- `wchar_t` -/
  wchar : CType
  deriving DecidableEq, Repr

/-- System V x86-64 psABI: `char` signed, `wchar_t` = `int`.  AAPCS64: `char` unsigned, `wchar_t` =
`unsigned int`.  RISC-V psABI: `char` unsigned, `wchar_t` = `int`. -/
def abiTargets : List Target :=
  [⟨"x86_64-sysv", true, .int⟩, ⟨"aarch64", false, .uint⟩, ⟨"riscv64", false, .int⟩]

def CType.size : CType → Nat
  | .char | .uchar => 1
  | .ushort => 2
  | .int | .uint => 4

def CType.signed (t : Target) : CType → Bool
  | .char => t.charSigned
  | .int => true
  | _ => false

/-- Value of converting the non-negative number `v` to integer type `ty` (C11 6.3.1.3; for the
signed case the universal two's-complement wrap, which is what gcc/clang document). -/
def CType.wrap (t : Target) (ty : CType) (v : Nat) : Int :=
  let m := 2 ^ (8 * ty.size)
  let r := v % m
  if ty.signed t ∧ 2 * r ≥ m then (r : Int) - m else r

/-! ## C11 6.4.4.4 / 6.4.5: prefixes -/

inductive Prefix
  | none | u8 | u | U | L
  deriving DecidableEq, Repr

/-- Spelling of an encoding prefix. -/
def Prefix.spell : Prefix → List Nat
  | .none => []
  | .u8 => [0x75, 0x38]
  | .u => [0x75]
  | .U => [0x55]
  | .L => [0x4C]

/-- 6.4.5p6 (+ C23 `char8_t` for `u8`, see the header): element type of a string literal. -/
def elemType (t : Target) : Prefix → CType
  | .none => .char
  | .u8 => .uchar       -- C23; C11: char
  | .u => .ushort       -- char16_t = uint_least16_t
  | .U => .uint         -- char32_t = uint_least32_t
  | .L => t.wchar

/-- What C11 (without the C23 rule) says for the element type. -/
def elemTypeC11 (t : Target) : Prefix → CType
  | .u8 => .char
  | p => elemType t p

/-- 6.4.4.4p10/11 (+ C23 `u8'x'`): type of a character constant. -/
def charConstType (t : Target) : Prefix → CType
  | .none => .int
  | .u8 => .uchar
  | .u => .ushort
  | .U => .uint
  | .L => t.wchar

/-- The type whose *object* determines the value of the constant (6.4.4.4p10: `char` for an
integer character constant; p11: the constant's own type for the others). -/
def charConstObjType (t : Target) : Prefix → CType
  | .none => .char
  | p => charConstType t p

/-- Result of concatenating adjacent string literal tokens (6.4.5p2 and p5). -/
inductive Concat
  | ok (p : Prefix)
  /-- 6.4.5p2 constraint: UTF-8 and wide literals must not be mixed: a diagnostic is required. -/
  | constraint
  /-- 6.4.5p5: differently-prefixed wide literals: implementation-defined whether accepted. -/
  | implDefined
  deriving DecidableEq, Repr

def Prefix.isWide : Prefix → Bool
  | .u | .U | .L => true
  | _ => false

/-- 6.4.5p5: "If any of the tokens has an encoding prefix, the resulting multibyte character
sequence is treated as having the same prefix; otherwise, it is treated as a character string
literal." -/
def concatPrefix (ps : List Prefix) : Concat :=
  match ps.filter (· ≠ .none) with
  | [] => .ok .none                                   -- no token has a prefix
  | p :: qs =>
    if ∀ q ∈ qs, q = p then .ok p                     -- all prefixed tokens have the same prefix
    else if .u8 ∈ p :: qs then .constraint            -- 6.4.5p2
    else .implDefined                                 -- 6.4.5p5, last sentence

/-! ## C11 6.4.4.4: escape sequences -/

/-- simple-escape-sequence: character after the backslash ↦ value (6.4.4.4p3 and 5.2.2: the
values are those of the ASCII-based execution character set of all three targets). -/
def simpleEscape : Nat → Option Nat
  | 0x27 => some 0x27   -- \'
  | 0x22 => some 0x22   -- \"
  | 0x3F => some 0x3F   -- \?
  | 0x5C => some 0x5C   -- \\
  | 0x61 => some 7      -- \a  alert
  | 0x62 => some 8      -- \b  backspace
  | 0x66 => some 12     -- \f  form feed
  | 0x6E => some 10     -- \n  new line
  | 0x72 => some 13     -- \r  carriage return
  | 0x74 => some 9      -- \t  horizontal tab
  | 0x76 => some 11     -- \v  vertical tab
  | _ => none

def isOctDigit (b : Nat) : Prop := 0x30 ≤ b ∧ b ≤ 0x37
def isHexDigit (b : Nat) : Prop :=
  (0x30 ≤ b ∧ b ≤ 0x39) ∨ (0x41 ≤ b ∧ b ≤ 0x46) ∨ (0x61 ≤ b ∧ b ≤ 0x66)

instance : DecidablePred isOctDigit := fun b => by unfold isOctDigit; infer_instance
instance : DecidablePred isHexDigit := fun b => by unfold isHexDigit; infer_instance

/-- Numerical value of a digit character (6.4.4.1: `a`..`f` / `A`..`F` are 10..15). -/
def digitVal (b : Nat) : Nat :=
  if b ≤ 0x39 then b - 0x30 else if b ≤ 0x46 then b - 0x41 + 10 else b - 0x61 + 10

/-- 6.4.4.4p5/p6: "The [octal|hexadecimal] digits … are taken to be part of the construction of a
single character …  The numerical value of the … integer so formed specifies the value." -/
def digitsValue (base : Nat) (ds : List Nat) : Nat :=
  ds.foldl (fun a d => a * base + digitVal d) 0

/-- One c-char / s-char of a literal, as the grammar of 6.4.4.4 / 6.4.5 sees it. -/
inductive Item
  /-- a member of the source character set given by its scalar value (UTF-8 in the file) -/
  | chr (c : Nat)
  /-- simple escape `\ch` -/
  | simple (ch : Nat)
  /-- octal escape, the digit characters -/
  | oct (ds : List Nat)
  /-- hexadecimal escape, the digit characters after `\x` -/
  | hex (ds : List Nat)
  deriving DecidableEq, Repr

/-- Source spelling of an item. -/
def Item.spell : Item → List Nat
  | .chr c => utf8Encode c
  | .simple ch => [0x5C, ch]
  | .oct ds => 0x5C :: ds
  | .hex ds => 0x5C :: 0x78 :: ds

/-- Grammar conditions on one item inside quotes `q` (`'` or `"`): a source character is any
scalar value except the quote, the backslash and new-line (and the null character, which is not a
member of the source character set); octal escapes have 1–3 octal digits, hexadecimal ones at
least one hexadecimal digit. -/
def Item.wf (q : Nat) : Item → Prop
  | .chr c => isScalar c ∧ c ≠ q ∧ c ≠ 0x5C ∧ c ≠ 0x0A ∧ c ≠ 0
  | .simple ch => (simpleEscape ch).isSome
  | .oct ds => 1 ≤ ds.length ∧ ds.length ≤ 3 ∧ ∀ d ∈ ds, isOctDigit d
  | .hex ds => 1 ≤ ds.length ∧ ∀ d ∈ ds, isHexDigit d

/-- 6.4.4.4p7: "Each octal or hexadecimal escape sequence is the longest sequence of characters
that can constitute the escape sequence."  So a sequence of items is the reading of its own
spelling only if an escape is not followed by a character that would have extended it. -/
def munch : Item → Item → Prop
  | .oct ds, .chr c => ds.length = 3 ∨ ¬ isOctDigit c
  | .hex _, .chr c => ¬ isHexDigit c
  | _, _ => True

def ItemsWf (q : Nat) : List Item → Prop
  | [] => True
  | [a] => a.wf q
  | a :: b :: rest => a.wf q ∧ munch a b ∧ ItemsWf q (b :: rest)

instance (q : Nat) (it : Item) : Decidable (it.wf q) := by
  cases it <;> unfold Item.wf <;> infer_instance

instance (a b : Item) : Decidable (munch a b) := by
  cases a <;> cases b <;> unfold munch <;> infer_instance

instance decItemsWf (q : Nat) : (l : List Item) → Decidable (ItemsWf q l)
  | [] => isTrue trivial
  | [a] => inferInstanceAs (Decidable (a.wf q))
  | a :: b :: rest =>
    have := decItemsWf q (b :: rest)
    inferInstanceAs (Decidable (a.wf q ∧ munch a b ∧ ItemsWf q (b :: rest)))

/-- Largest value of the unsigned type corresponding to an element of `size` bytes
(6.4.4.4p9: "the value of an octal or hexadecimal escape sequence shall be in the range of
representable values for the corresponding type": unsigned char, or the unsigned type
corresponding to `wchar_t` / `char16_t` / `char32_t`). -/
def maxUnit (size : Nat) : Nat := 2 ^ (8 * size) - 1

/-- Encoding of a source character in a literal whose elements have `size` bytes
(6.4.5p6: UTF-8 for `char`/`u8`, `mbrtoc16` → UTF-16, `mbrtoc32` → UTF-32, `mbstowcs` with 32-bit
`wchar_t` → the scalar value). -/
def encode (size : Nat) (c : Nat) : List Nat :=
  if size = 1 then utf8Encode c else if size = 2 then utf16Encode c else utf32Encode c

/-- Code units one item contributes to a string literal; `none` = constraint 6.4.4.4p9 violated
(a diagnostic is required). -/
def Item.units (size : Nat) : Item → Option (List Nat)
  | .chr c => some (encode size c)
  | .simple ch => (simpleEscape ch).map ([·])
  | .oct ds => if digitsValue 8 ds ≤ maxUnit size then some [digitsValue 8 ds] else none
  | .hex ds => if digitsValue 16 ds ≤ maxUnit size then some [digitsValue 16 ds] else none

/-- numeric escapes of the item are in the range of an element of `size` bytes (6.4.4.4p9) -/
def InRange (size : Nat) : Item → Prop
  | .oct ds => digitsValue 8 ds ≤ maxUnit size
  | .hex ds => digitsValue 16 ds ≤ maxUnit size
  | _ => True

instance (size : Nat) : DecidablePred (InRange size) := fun it => by
  cases it <;> unfold InRange <;> infer_instance

def itemsUnits (size : Nat) : List Item → Option (List Nat)
  | [] => some []
  | it :: rest =>
    match it.units size, itemsUnits size rest with
    | some a, some b => some (a ++ b)
    | _, _ => none

/-- A string literal token: prefix and items. -/
abbrev Part := Prefix × List Item

/-- Source spelling of one string literal token. -/
def Part.spell (p : Part) : List Nat :=
  p.1.spell ++ [0x22] ++ (p.2.map Item.spell).flatten ++ [0x22]

/-- What the standard says about a sequence of adjacent string literal tokens. -/
inductive StrResult
  /-- element type and the array contents *including* the terminating zero (6.4.5p6); the array
  length is the length of the list -/
  | ok (ty : CType) (units : List Nat)
  /-- a constraint is violated: must be diagnosed -/
  | constraint
  /-- implementation-defined whether accepted -/
  | implDefined
  deriving DecidableEq, Repr

/-- 6.4.5p5–p6: concatenate, encode per the element type, append a zero element. -/
def stringLit (t : Target) (parts : List Part) : StrResult :=
  match concatPrefix (parts.map (·.1)) with
  | .constraint => .constraint
  | .implDefined => .implDefined
  | .ok p =>
    let ty := elemType t p
    match itemsUnits ty.size (parts.map (·.2)).flatten with
    | some us => .ok ty (us ++ [0])
    | none => .constraint

/-- What the standard says about the value of a character constant with a single item. -/
inductive CharResult
  /-- type and (mathematical) value -/
  | ok (ty : CType) (v : Int)
  /-- constraint violation (escape out of range, 6.4.4.4p9; C23: `u8` constant that is not a
  single UTF-8 code unit) -/
  | constraint
  /-- implementation-defined value (6.4.4.4p10/p11: character that does not map to a single
  execution character / code unit of the type) -/
  | implDefined
  deriving DecidableEq, Repr

/-- 6.4.4.4p10: "its value is the one that results when an object with type char whose value is
that of the single character or escape sequence is converted to type int"; p11: for `L`/`u`/`U`
the value is the wide character / code unit, an object of the constant's type. -/
def charConst (t : Target) (p : Prefix) (it : Item) : CharResult :=
  let ty := charConstType t p
  let oty := charConstObjType t p
  let val (v : Nat) : CharResult := .ok ty (oty.wrap t v)
  match it with
  | .chr c =>
    match p with
    | .none => if c < 0x80 then val c else .implDefined
    | .u8 => if c < 0x80 then val c else .constraint
    | .u | .U | .L => if c ≤ maxUnit oty.size then val c else .implDefined
  | .simple ch =>
    match simpleEscape ch with
    | some v => val v
    | none => .constraint
  | .oct ds => if digitsValue 8 ds ≤ maxUnit oty.size then val (digitsValue 8 ds) else .constraint
  | .hex ds => if digitsValue 16 ds ≤ maxUnit oty.size then val (digitsValue 16 ds) else .constraint

/-- How a constant of integer type `ty` with mathematical value `v` is represented in a 64-bit
`unsigned long long` (two's complement, sign-extended). -/
def repr64 (v : Int) : Nat := (v % (2 ^ 64 : Int)).toNat

end CprocVerif.Unicode

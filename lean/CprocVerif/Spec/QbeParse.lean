/-
  Parser for the QBE IL text that cproc emits (`qbe.c: emittype, emitdata, emitfunc, emitinst,
  emitjump`).  One pass over the bytes produces tokens, a second pass over the tokens produces the
  `Module`; both passes are linear.  Nothing here is `partial`.
-/
import CprocVerif.Spec.Qbe

namespace CprocVerif.Qbe

/-! ## Decimal floating-point literals (`%.17g` output) → IEEE bits, correctly rounded -/

/-- Correctly rounded (nearest-even) encoding of `num/den` (both positive) in a binary format with
    `p` significand bits (including the hidden one) and `ebits` exponent bits. -/
def ratToBits (num den : Nat) (p ebits : Nat) : Nat :=
  if num = 0 ∨ den = 0 then 0 else
  let bias : Int := 2 ^ (ebits - 1) - 1
  let emin : Int := 1 - bias
  let emax : Int := bias
  -- e with 2^e ≤ num/den < 2^(e+1)
  let e0 : Int := (num.log2 : Int) - (den.log2 : Int)
  let ge (e : Int) : Bool :=   -- num/den ≥ 2^e
    if e ≥ 0 then num ≥ den * 2 ^ e.toNat else num * 2 ^ (-e).toNat ≥ den
  let e : Int := if ge e0 then e0 else e0 - 1
  let eff : Int := if e < emin then emin else e
  let sh : Int := (p - 1 : Nat) - eff
  let n' := if sh ≥ 0 then num * 2 ^ sh.toNat else num
  let d' := if sh ≥ 0 then den else den * 2 ^ (-sh).toNat
  let q := n' / d'
  let r := n' % d'
  let q := if 2 * r > d' ∨ (2 * r = d' ∧ q % 2 = 1) then q + 1 else q
  let (q, eff) := if q ≥ 2 ^ p then (q / 2, eff + 1) else (q, eff)
  if eff > emax then (2 ^ ebits - 1) * 2 ^ (p - 1)        -- infinity
  else if q < 2 ^ (p - 1) then q                            -- subnormal (or zero)
  else (eff + bias).toNat * 2 ^ (p - 1) + (q - 2 ^ (p - 1))

def isDigit (c : UInt8) : Bool := 48 ≤ c && c ≤ 57

/-- Read decimal digits from position `i`; returns (value, number of digits, next position). -/
def readDigits (b : ByteArray) : (fuel i : Nat) → (acc cnt : Nat) → Nat × Nat × Nat
  | 0, i, acc, cnt => (acc, cnt, i)
  | f+1, i, acc, cnt =>
    if i < b.size && isDigit (b.get! i) then
      readDigits b f (i + 1) (acc * 10 + ((b.get! i).toNat - 48)) (cnt + 1)
    else (acc, cnt, i)

/-- Parse the text after `s_`/`d_` into the bit pattern of a float with `p` significand bits and
    `ebits` exponent bits. -/
def parseFloatBits (txt : String) (p ebits : Nat) : Option Nat :=
  let b := txt.toUTF8
  let neg := b.size > 0 && b.get! 0 == 45
  let start := if b.size > 0 && (b.get! 0 == 45 || b.get! 0 == 43) then 1 else 0
  let signBit := if neg then 2 ^ (p - 1 + ebits) else 0
  let body := String.fromUTF8! (b.extract start b.size)
  let inf := (2 ^ ebits - 1) * 2 ^ (p - 1)
  if body == "inf" || body == "infinity" then some (signBit + inf)
  else if body == "nan" then some (signBit + inf + 2 ^ (p - 2))
  else
    let (ip, n1, i) := readDigits b b.size start 0 0
    let (fp, n2, i) :=
      if i < b.size && b.get! i == 46 then readDigits b b.size (i + 1) 0 0 else (0, 0, i)
    if n1 + n2 = 0 then none else
    let mant := ip * 10 ^ n2 + fp
    let expo : Option (Int × Nat) :=
      if i < b.size && (b.get! i == 101 || b.get! i == 69) then
        let eneg := i + 1 < b.size && b.get! (i + 1) == 45
        let j := if i + 1 < b.size && (b.get! (i + 1) == 45 || b.get! (i + 1) == 43)
                 then i + 2 else i + 1
        let (ev, n3, k) := readDigits b b.size j 0 0
        if n3 = 0 then none else some (if eneg then -(ev : Int) else ev, k)
      else some (0, i)
    match expo with
    | none => none
    | some (ev, k) =>
      if k != b.size then none else
      let e10 : Int := ev - n2
      let mag : Int := e10 + (toString mant).length
      if mant = 0 then some signBit
      else if mag > 400 then some (signBit + inf)
      else if mag < -400 then some signBit
      else if e10 ≥ 0 then some (signBit + ratToBits (mant * 10 ^ e10.toNat) 1 p ebits)
      else some (signBit + ratToBits mant (10 ^ (-e10).toNat) p ebits)

/-! ## Tokens -/

inductive Tok where
  | nl
  | word (s : String)
  | tmp (s : String)
  | glob (s : String)
  | typ (s : String)
  | lbl (s : String)
  | int (n : UInt64)
  | str (b : ByteArray)
  | eq | comma | lparen | rparen | lbrace | rbrace | plus | dots
  deriving Inhabited

def Tok.describe : Tok → String
  | .nl => "newline" | .word s => s | .tmp s => "%" ++ s | .glob s => "$" ++ s
  | .typ s => ":" ++ s | .lbl s => "@" ++ s | .int n => toString n.toNat | .str _ => "string"
  | .eq => "=" | .comma => "," | .lparen => "(" | .rparen => ")" | .lbrace => "{"
  | .rbrace => "}" | .plus => "+" | .dots => "..."

def isNameChar (c : UInt8) : Bool :=
  (97 ≤ c && c ≤ 122) || (65 ≤ c && c ≤ 90) || isDigit c || c == 95 || c == 46 || c == 36
  || c ≥ 128

/-- End of the run of bytes satisfying `p` that starts at `i`. -/
def scanWhile (b : ByteArray) (p : UInt8 → Bool) : (fuel i : Nat) → Nat
  | 0, i => i
  | f+1, i => if i < b.size && p (b.get! i) then scanWhile b p f (i + 1) else i

def subStr (b : ByteArray) (i j : Nat) : String :=
  match String.fromUTF8? (b.extract i j) with
  | some s => s
  | none => "?"

def isOct (c : UInt8) : Bool := 48 ≤ c && c ≤ 55

/-- Read a string literal body starting after the opening quote; returns bytes and the position
    after the closing quote. -/
def scanStr (b : ByteArray) : (fuel i : Nat) → ByteArray → Except String (ByteArray × Nat)
  | 0, _, _ => .error "unterminated string"
  | f+1, i, acc =>
    if i ≥ b.size then .error "unterminated string" else
    let c := b.get! i
    if c == 34 then .ok (acc, i + 1)
    else if c == 10 then .error "newline in string"
    else if c == 92 then
      if i + 3 < b.size && isOct (b.get! (i+1)) && isOct (b.get! (i+2)) && isOct (b.get! (i+3)) then
        let v := ((b.get! (i+1)).toNat - 48) * 64 + ((b.get! (i+2)).toNat - 48) * 8
                 + ((b.get! (i+3)).toNat - 48)
        scanStr b f (i + 4) (acc.push v.toUInt8)
      else if i + 1 < b.size then
        let e := b.get! (i + 1)
        let v : UInt8 := if e == 110 then 10 else if e == 116 then 9 else if e == 48 then 0 else e
        scanStr b f (i + 2) (acc.push v)
      else .error "unterminated string"
    else scanStr b f (i + 1) (acc.push c)

def isFloatChar (c : UInt8) : Bool :=
  (97 ≤ c && c ≤ 122) || (65 ≤ c && c ≤ 90) || isDigit c || c == 46 || c == 43 || c == 45
  || c == 95

def lexLoop (b : ByteArray) : (fuel i : Nat) → Array Tok → Except String (Array Tok)
  | 0, _, acc => .ok acc
  | f+1, i, acc =>
    if i ≥ b.size then .ok acc else
    let c := b.get! i
    if c == 32 || c == 9 || c == 13 then lexLoop b f (i + 1) acc
    else if c == 10 then lexLoop b f (i + 1) (acc.push .nl)
    else if c == 35 then lexLoop b f (scanWhile b (· != 10) b.size i) acc
    else if c == 61 then lexLoop b f (i + 1) (acc.push .eq)
    else if c == 44 then lexLoop b f (i + 1) (acc.push .comma)
    else if c == 40 then lexLoop b f (i + 1) (acc.push .lparen)
    else if c == 41 then lexLoop b f (i + 1) (acc.push .rparen)
    else if c == 123 then lexLoop b f (i + 1) (acc.push .lbrace)
    else if c == 125 then lexLoop b f (i + 1) (acc.push .rbrace)
    else if c == 43 then lexLoop b f (i + 1) (acc.push .plus)
    else if c == 34 then
      match scanStr b b.size (i + 1) ByteArray.empty with
      | .error e => .error e
      | .ok (s, j) => lexLoop b f j (acc.push (.str s))
    else if c == 36 && i + 1 < b.size && b.get! (i + 1) == 34 then
      -- quoted global name `$"name"` (cproc prints asm labels this way)
      let j := scanWhile b (fun x => x != 34 && x != 10) b.size (i + 2)
      if j < b.size && b.get! j == 34 then lexLoop b f (j + 1) (acc.push (.glob (subStr b (i + 2) j)))
      else .error "unterminated quoted name"
    else if c == 37 || c == 36 || c == 58 || c == 64 then
      let j := scanWhile b isNameChar b.size (i + 1)
      let s := subStr b (i + 1) j
      let t := if c == 37 then Tok.tmp s else if c == 36 then .glob s
               else if c == 58 then .typ s else .lbl s
      lexLoop b f j (acc.push t)
    else if isDigit c || c == 45 then
      let neg := c == 45
      let (v, n, j) := readDigits b b.size (if neg then i + 1 else i) 0 0
      if n = 0 then .error "digit expected after '-'" else
      let v := v % 2 ^ 64
      let v := if neg then (2 ^ 64 - v) % 2 ^ 64 else v
      lexLoop b f j (acc.push (.int v.toUInt64))
    else if c == 46 then
      if i + 2 < b.size && b.get! (i + 1) == 46 && b.get! (i + 2) == 46 then
        lexLoop b f (i + 3) (acc.push .dots)
      else .error "unexpected '.'"
    else if (97 ≤ c && c ≤ 122) || (65 ≤ c && c ≤ 90) || c == 95 then
      -- float literals `s_…`/`d_…` may contain '+', '-' and '.'
      if (c == 115 || c == 100) && i + 1 < b.size && b.get! (i + 1) == 95 then
        let j := scanWhile b isFloatChar b.size (i + 2)
        lexLoop b f j (acc.push (.word (subStr b i j)))
      else
        let j := scanWhile b isNameChar b.size i
        lexLoop b f j (acc.push (.word (subStr b i j)))
    else .error ("unexpected character code " ++ toString c.toNat)

def lex (b : ByteArray) : Except String (Array Tok) :=
  lexLoop b (b.size + 1) 0 (Array.mkEmpty (b.size / 3))

/-! ## Parser -/

abbrev P := ReaderT (Array Tok) (StateT Nat (Except String))

def peek : P Tok := do
  let toks ← read
  let i ← get
  pure (toks.getD i .nl)

def atEnd : P Bool := do
  let toks ← read
  let i ← get
  pure (i ≥ toks.size)

def advance : P Unit := modify (· + 1)

def lineNo : P Nat := do
  let toks ← read
  let i ← get
  pure ((toks.extract 0 i).foldl (fun n t => match t with | .nl => n + 1 | _ => n) 1)

def fail {α} (msg : String) : P α := do
  let t ← peek
  let e ← atEnd
  let ln ← lineNo
  throw ("line " ++ toString ln ++ ": " ++ msg ++ " (at " ++
    (if e then "end of input" else t.describe) ++ ")")

def expectTok (what : String) (p : Tok → Bool) : P Unit := do
  let t ← peek
  let e ← atEnd
  if !e && p t then advance else fail (what ++ " expected")

def skipNl : (fuel : Nat) → P Unit
  | 0 => pure ()
  | f+1 => do
    let e ← atEnd
    if e then pure () else
    match (← peek) with
    | .nl => advance; skipNl f
    | _ => pure ()

def skipNls : P Unit := do
  let toks ← read
  skipNl toks.size

def expectNl : P Unit := do
  let e ← atEnd
  if e then pure () else
  match (← peek) with
  | .nl => advance
  | _ => fail "end of line"

def clsOfWord : String → Option Cls
  | "w" => some .w | "l" => some .l | "s" => some .s | "d" => some .d
  | _ => none

def tyOfWord : String → Option Ty
  | "w" => some (.base .w) | "l" => some (.base .l) | "s" => some (.base .s)
  | "d" => some (.base .d)
  | "sb" => some .sb | "ub" => some .ub | "sh" => some .sh | "uh" => some .uh
  | _ => none

def parseTy : P Ty := do
  match (← peek) with
  | .typ n => advance; pure (.agg n)
  | .word w =>
    match tyOfWord w with
    | some t => advance; pure t
    | none => fail "type"
  | _ => fail "type"

def floatOfWord (w : String) : Option Val :=
  if w.startsWith "s_" then
    (parseFloatBits (w.drop 2).toString 24 8).map fun n => Val.fs n.toUInt32
  else if w.startsWith "d_" then
    (parseFloatBits (w.drop 2).toString 53 11).map fun n => Val.fd n.toUInt64
  else none

def parseVal : P Val := do
  match (← peek) with
  | .tmp n => advance; pure (.tmp n)
  | .glob n => advance; pure (.glob n false)
  | .int n => advance; pure (.int n)
  | .word "thread" =>
    advance
    match (← peek) with
    | .glob n => advance; pure (.glob n true)
    | _ => fail "global after 'thread'"
  | .word w =>
    match floatOfWord w with
    | some v => advance; pure v
    | none => fail "value"
  | _ => fail "value"

def parseInt : P Nat := do
  match (← peek) with
  | .int n => advance; pure n.toNat
  | _ => fail "integer"

def parseLbl : P String := do
  match (← peek) with
  | .lbl n => advance; pure n
  | _ => fail "label"

def icmpTable : List (String × ICmp) :=
  [("eq", .eq), ("ne", .ne), ("sle", .sle), ("slt", .slt), ("sge", .sge), ("sgt", .sgt),
   ("ule", .ule), ("ult", .ult), ("uge", .uge), ("ugt", .ugt)]

def fcmpTable : List (String × FCmp) :=
  [("eq", .eq), ("ne", .ne), ("le", .le), ("lt", .lt), ("ge", .ge), ("gt", .gt), ("o", .o),
   ("uo", .uo)]

/-- Instruction names (everything in `/repo/ops.h` except `call`, plus `loadsw`/`loaduw`). -/
def opTable : List (String × Op) :=
  [("add", .add), ("sub", .sub), ("neg", .neg), ("div", .div), ("mul", .mul), ("udiv", .udiv),
   ("rem", .rem), ("urem", .urem), ("or", .or), ("xor", .xor), ("and", .and), ("sar", .sar),
   ("shr", .shr), ("shl", .shl),
   ("stored", .store .d), ("stores", .store .s), ("storel", .store .l), ("storew", .store .w),
   ("storeh", .store .h), ("storeb", .store .b),
   ("loadd", .load .d), ("loads", .load .s), ("loadl", .load .l), ("loadw", .load .w),
   ("loadsw", .load .sw), ("loaduw", .load .uw),
   ("loadsh", .load .sh), ("loaduh", .load .uh), ("loadsb", .load .sb), ("loadub", .load .ub),
   ("alloc4", .alloc 4), ("alloc8", .alloc 8), ("alloc16", .alloc 16),
   ("extsw", .extsw), ("extuw", .extuw), ("extsh", .extsh), ("extuh", .extuh),
   ("extsb", .extsb), ("extub", .extub), ("exts", .exts), ("truncd", .truncd),
   ("stosi", .stosi), ("stoui", .stoui), ("dtosi", .dtosi), ("dtoui", .dtoui),
   ("swtof", .swtof), ("uwtof", .uwtof), ("sltof", .sltof), ("ultof", .ultof),
   ("cast", .cast), ("copy", .copy), ("vastart", .vastart), ("vaarg", .vaarg)]
  ++ icmpTable.map (fun (n, c) => ("c" ++ n ++ "w", Op.cmpw c))
  ++ icmpTable.map (fun (n, c) => ("c" ++ n ++ "l", Op.cmpl c))
  ++ fcmpTable.map (fun (n, c) => ("c" ++ n ++ "s", Op.cmps c))
  ++ fcmpTable.map (fun (n, c) => ("c" ++ n ++ "d", Op.cmpd c))

def opMap : Std.HashMap String Op := Std.HashMap.ofList opTable

def Op.name (o : Op) : String :=
  match opTable.find? (fun e => e.2 == o) with
  | some e => e.1
  | none => "?"

/-- Number of operands an opcode takes. -/
def Op.arity : Op → Nat
  | .neg | .load _ | .alloc _ | .extsw | .extuw | .extsh | .extuh | .extsb | .extub | .exts
  | .truncd | .stosi | .stoui | .dtosi | .dtoui | .swtof | .uwtof | .sltof | .ultof | .cast
  | .copy | .vastart | .vaarg => 1
  | _ => 2

/-- `(ty v, ty v, ..., ty v)` after the opening parenthesis; the marker position is recorded. -/
def parseCallArgs : (fuel : Nat) → Array (Ty × Val) → Option Nat →
    P (Array (Ty × Val) × Option Nat)
  | 0, _, _ => fail "call arguments too long"
  | f+1, acc, va => do
    match (← peek) with
    | .rparen => advance; pure (acc, va)
    | .comma => advance; parseCallArgs f acc va
    | .dots =>
      advance
      if va.isSome then fail "second '...'" else parseCallArgs f acc (some acc.size)
    | .word "env" => fail "env arguments are not supported"
    | _ =>
      let t ← parseTy
      let v ← parseVal
      match (← peek) with
      | .comma | .rparen => parseCallArgs f (acc.push (t, v)) va
      | _ => fail "',' or ')'"

def parseOperands : (n : Nat) → P (List Val)
  | 0 => pure []
  | 1 => do let v ← parseVal; pure [v]
  | n+1 => do
    let v ← parseVal
    expectTok "','" (· matches .comma)
    let vs ← parseOperands n
    pure (v :: vs)

/-- The part of an instruction after `%res =ty` (if any). -/
def parseInsBody (res : Option (String × Ty)) : P Ins := do
  match (← peek) with
  | .word "call" =>
    advance
    let callee ← parseVal
    expectTok "'('" (· matches .lparen)
    let toks ← read
    let (args, va) ← parseCallArgs toks.size #[] none
    pure (.call res callee args.toList va)
  | .word w =>
    match opMap[w]? with
    | none => fail ("unknown instruction '" ++ w ++ "'")
    | some o =>
      advance
      let r ← match res with
        | none => pure none
        | some (x, .base k) => pure (some (x, k))
        | some _ => fail "aggregate or sub-word result class on a non-call instruction"
      let args ← parseOperands o.arity
      pure (.op r o args)
  | _ => fail "instruction"

def parsePhiSrcs : (fuel : Nat) → Array (String × Val) → P (Array (String × Val))
  | 0, _ => fail "phi too long"
  | f+1, acc => do
    let l ← parseLbl
    let v ← parseVal
    match (← peek) with
    | .comma => advance; parsePhiSrcs f (acc.push (l, v))
    | _ => pure (acc.push (l, v))

structure BlockAcc where
  label : String
  phis : Array Phi := #[]
  ins : Array Ins := #[]
  term : Option Jump := none

def BlockAcc.finish (b : BlockAcc) : Block := ⟨b.label, b.phis.toList, b.ins, b.term⟩

/-- Body lines up to and including the closing brace. -/
def parseBody : (fuel : Nat) → Array Block → Option BlockAcc → P (Array Block)
  | 0, _, _ => fail "function body too long"
  | f+1, blocks, cur => do
    if (← atEnd) then fail "'}' expected before end of input" else
    match (← peek) with
    | .nl => advance; parseBody f blocks cur
    | .rbrace =>
      advance
      pure (match cur with | some b => blocks.push b.finish | none => blocks)
    | .lbl l =>
      advance; expectNl
      let blocks := match cur with | some b => blocks.push b.finish | none => blocks
      parseBody f blocks (some { label := l })
    | t =>
      match cur with
      | none => fail "label expected at the start of the function body"
      | some b =>
        if b.term.isSome then fail "instruction after a terminator (label expected)" else
        match t with
        | .word "jmp" =>
          advance
          let l ← parseLbl
          expectNl
          parseBody f blocks (some { b with term := some (.jmp l) })
        | .word "jnz" =>
          advance
          let v ← parseVal
          expectTok "','" (· matches .comma)
          let l1 ← parseLbl
          expectTok "','" (· matches .comma)
          let l2 ← parseLbl
          expectNl
          parseBody f blocks (some { b with term := some (.jnz v l1 l2) })
        | .word "ret" =>
          advance
          let e ← atEnd
          let v ← match (← peek) with
            | .nl => pure none
            | _ => if e then pure none else do let v ← parseVal; pure (some v)
          expectNl
          parseBody f blocks (some { b with term := some (.ret v) })
        | .word "hlt" =>
          advance; expectNl
          parseBody f blocks (some { b with term := some .hlt })
        | .tmp x =>
          advance
          expectTok "'='" (· matches .eq)
          let ty ← parseTy
          match (← peek) with
          | .word "phi" =>
            advance
            if b.ins.size > 0 then fail "phi after an instruction" else
            match ty with
            | .base k =>
              let toks ← read
              let srcs ← parsePhiSrcs toks.size #[]
              expectNl
              parseBody f blocks (some { b with phis := b.phis.push ⟨x, k, srcs.toList⟩ })
            | _ => fail "phi class must be one of w l s d"
          | _ =>
            let i ← parseInsBody (some (x, ty))
            expectNl
            parseBody f blocks (some { b with ins := b.ins.push i })
        | _ =>
          let i ← parseInsBody none
          expectNl
          parseBody f blocks (some { b with ins := b.ins.push i })

def parseParams : (fuel : Nat) → Array (Ty × String) → P (Array (Ty × String) × Bool)
  | 0, _ => fail "parameter list too long"
  | f+1, acc => do
    match (← peek) with
    | .rparen => advance; pure (acc, false)
    | .comma => advance; parseParams f acc
    | .dots =>
      advance
      expectTok "')'" (· matches .rparen)
      pure (acc, true)
    | .word "env" => fail "env parameters are not supported"
    | _ =>
      let t ← parseTy
      match (← peek) with
      | .tmp x =>
        advance
        match (← peek) with
        | .comma | .rparen => parseParams f (acc.push (t, x))
        | _ => fail "',' or ')'"
      | _ => fail "parameter name"

def parseFunc («export» : Bool) : P Func := do
  let ret ← match (← peek) with
    | .glob _ => pure none
    | _ => do let t ← parseTy; pure (some t)
  let name ← match (← peek) with
    | .glob n => advance; pure n
    | _ => fail "function name"
  expectTok "'('" (· matches .lparen)
  let toks ← read
  let (params, variadic) ← parseParams toks.size #[]
  skipNls
  expectTok "'{'" (· matches .lbrace)
  expectNl
  let blocks ← parseBody toks.size #[] none
  pure { «export», ret, name, params := params.toList, variadic, blocks }

def fieldTyOfWord : String → Option FieldTy
  | "b" => some .b | "h" => some .h | "w" => some .w | "l" => some .l | "s" => some .s
  | "d" => some .d | _ => none

/-- Fields up to and including the closing brace. -/
def parseFields : (fuel : Nat) → Array (FieldTy × Nat) → P (Array (FieldTy × Nat))
  | 0, _ => fail "type too long"
  | f+1, acc => do
    match (← peek) with
    | .rbrace => advance; pure acc
    | .comma => advance; parseFields f acc
    | .nl => advance; parseFields f acc
    | t =>
      let ft ← match t with
        | .typ n => advance; pure (FieldTy.agg n)
        | .word w =>
          match fieldTyOfWord w with
          | some ft => advance; pure ft
          | none => fail "field type"
        | _ => fail "field type"
      let cnt ← match (← peek) with
        | .int n => advance; pure n.toNat
        | _ => pure 1
      match (← peek) with
      | .comma | .rbrace | .nl => parseFields f (acc.push (ft, cnt))
      | _ => fail "',' or '}'"

def parseUnionAlts : (fuel : Nat) → Array (List (FieldTy × Nat)) →
    P (Array (List (FieldTy × Nat)))
  | 0, _ => fail "type too long"
  | f+1, acc => do
    match (← peek) with
    | .nl => advance; parseUnionAlts f acc
    | .rbrace => advance; pure acc
    | .lbrace =>
      advance
      let toks ← read
      let fs ← parseFields toks.size #[]
      parseUnionAlts f (acc.push fs.toList)
    | _ => fail "'{' or '}'"

def parseTypeDef : P TypeDef := do
  let name ← match (← peek) with
    | .typ n => advance; pure n
    | _ => fail "type name"
  expectTok "'='" (· matches .eq)
  let align ← match (← peek) with
    | .word "align" => do advance; let n ← parseInt; pure (some n)
    | _ => pure none
  expectTok "'{'" (· matches .lbrace)
  skipNls
  let toks ← read
  let body ← match (← peek) with
    | .lbrace => do
      let alts ← parseUnionAlts toks.size #[]
      pure (TypeBody.union alts.toList)
    | .int n => do
      advance
      skipNls
      expectTok "'}'" (· matches .rbrace)
      pure (TypeBody.opaque n.toNat)
    | _ => do
      let fs ← parseFields toks.size #[]
      pure (TypeBody.struct fs.toList)
  pure ⟨name, align, body⟩

def dataTyOfWord : String → Option DataTy
  | "b" => some .b | "h" => some .h | "w" => some .w | "l" => some .l | "s" => some .s
  | "d" => some .d | _ => none

/-- The values following a width letter, up to (not including) `,` or `}`. -/
def parseDataVals : (fuel : Nat) → Array DataVal → P (Array DataVal)
  | 0, _ => fail "data item too long"
  | f+1, acc => do
    match (← peek) with
    | .int n => advance; parseDataVals f (acc.push (.int n))
    | .str s => advance; parseDataVals f (acc.push (.str s))
    | .glob n =>
      advance
      match (← peek) with
      | .plus =>
        advance
        match (← peek) with
        | .int a => advance; parseDataVals f (acc.push (.sym n a))
        | _ => fail "offset after '+'"
      | _ => parseDataVals f (acc.push (.sym n 0))
    | .word w =>
      match floatOfWord w with
      | some (.fs b) => advance; parseDataVals f (acc.push (.fs b))
      | some (.fd b) => advance; parseDataVals f (acc.push (.fd b))
      | _ => fail "data value"
    | .comma | .rbrace | .nl => pure acc
    | _ => fail "data value"

/-- Data items up to and including the closing brace. -/
def parseDataItems : (fuel : Nat) → Array DataItem → P (Array DataItem)
  | 0, _ => fail "data definition too long"
  | f+1, acc => do
    match (← peek) with
    | .rbrace => advance; pure acc
    | .comma => advance; parseDataItems f acc
    | .nl => advance; parseDataItems f acc
    | .word "z" =>
      advance
      let n ← parseInt
      parseDataItems f (acc.push (.zero n))
    | .word w =>
      match dataTyOfWord w with
      | none => fail "data item"
      | some t =>
        advance
        let toks ← read
        let vs ← parseDataVals toks.size #[]
        -- cproc prints wide strings as `w 104 105 , z 4`, so an empty value list cannot happen
        if vs.size = 0 then fail "data value" else
        parseDataItems f (acc.push (.vals t vs.toList))
    | _ => fail "data item"

def parseDataDef («export» thread : Bool) : P DataDef := do
  let name ← match (← peek) with
    | .glob n => advance; pure n
    | _ => fail "data name"
  expectTok "'='" (· matches .eq)
  let align ← match (← peek) with
    | .word "align" => do advance; let n ← parseInt; pure (some n)
    | _ => pure none
  expectTok "'{'" (· matches .lbrace)
  let toks ← read
  let items ← parseDataItems toks.size #[]
  pure { name, «export», thread, align, items := items.toList }

def parseDefs : (fuel : Nat) → Array Def → (exp thr : Bool) → P (Array Def)
  | 0, acc, _, _ => pure acc
  | f+1, acc, exp, thr => do
    if (← atEnd) then
      if exp || thr then fail "definition expected after linkage" else pure acc
    else
    match (← peek) with
    | .nl => advance; parseDefs f acc exp thr
    | .word "export" => advance; parseDefs f acc true thr
    | .word "thread" => advance; parseDefs f acc exp true
    | .word "type" =>
      advance
      if exp || thr then fail "linkage on a type definition" else
      let t ← parseTypeDef
      parseDefs f (acc.push (.type t)) false false
    | .word "data" =>
      advance
      let d ← parseDataDef exp thr
      parseDefs f (acc.push (.data d)) false false
    | .word "function" =>
      advance
      if thr then fail "thread linkage on a function" else
      let fn ← parseFunc exp
      parseDefs f (acc.push (.func fn)) false false
    | _ => fail "'type', 'data' or 'function'"

/-- Parse the bytes of an IL file (they need not be valid UTF-8 outside of names). -/
def parseModuleBytes (b : ByteArray) : Except String Module :=
  match lex b with
  | .error e => .error ("lexical error: " ++ e)
  | .ok toks =>
    match (parseDefs (toks.size + 1) #[] false false).run toks |>.run 0 with
    | .error e => .error e
    | .ok (defs, _) => .ok ⟨defs⟩

def parseModule (s : String) : Except String Module := parseModuleBytes s.toUTF8

end CprocVerif.Qbe

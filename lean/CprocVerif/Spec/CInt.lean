/-!
# Spec/CInt — C11 integer types and integer arithmetic of the three LP64 targets

Declarative statement of what C11 (6.2.5, 6.2.6.2, 6.3.1.2, 6.3.1.3, 6.5.x) gives for integer
operands, written on mathematical integers (`Int`), independent of how `eval.c` computes.

* An integer type is `(bits, signed)` with `bits ∈ {1 (_Bool), 8, 16, 32, 64}`.
* `none` = undefined behaviour.
* Implementation-defined choices are those of gcc/clang (and cproc): two's complement,
  out-of-range conversion to a signed type is modular (6.3.1.3p3), `>>` of a negative value is an
  arithmetic shift (6.5.7p5).
-/

namespace CprocVerif.CInt

structure IntTy where
  bits : Nat
  signed : Bool
deriving DecidableEq, Repr, Inhabited

namespace IntTy
def bool : IntTy := ⟨1, false⟩
def schar : IntTy := ⟨8, true⟩
def uchar : IntTy := ⟨8, false⟩
def short : IntTy := ⟨16, true⟩
def ushort : IntTy := ⟨16, false⟩
def int : IntTy := ⟨32, true⟩
def uint : IntTy := ⟨32, false⟩
def long : IntTy := ⟨64, true⟩
def ulong : IntTy := ⟨64, false⟩

/-- The widths on which arithmetic happens (every operand of a C operator has such a type after
the integer promotions; 8 and 16 are included so that theorems also cover conversions). -/
def Arith (t : IntTy) : Prop := t.bits = 8 ∨ t.bits = 16 ∨ t.bits = 32 ∨ t.bits = 64

/-- Every integer type of the targets: `_Bool` or an arithmetic width. -/
def Valid (t : IntTy) : Prop := t = bool ∨ t.Arith

instance (t : IntTy) : Decidable t.Arith := by unfold Arith; exact inferInstance
instance (t : IntTy) : Decidable t.Valid := by unfold Valid; exact inferInstance
end IntTy

/-- 5.2.4.2.1: smallest / largest value of the type. -/
def minVal (t : IntTy) : Int := if t.signed then -(2 ^ (t.bits - 1)) else 0
def maxVal (t : IntTy) : Int := if t.signed then 2 ^ (t.bits - 1) - 1 else 2 ^ t.bits - 1

/-- `v` is representable in `t`. -/
def InRange (t : IntTy) (v : Int) : Prop := minVal t ≤ v ∧ v ≤ maxVal t

instance (t : IntTy) (v : Int) : Decidable (InRange t v) := by unfold InRange; exact inferInstance

/-- Conversion of an arbitrary integer value to type `t` (6.3.1.2 for `_Bool`: "0 if the value
compares equal to 0, otherwise 1"; 6.3.1.3p2 for unsigned: reduce modulo `2^bits`; 6.3.1.3p3 for
signed: implementation-defined, modular on all three targets). -/
def wrap (t : IntTy) (v : Int) : Int :=
  if t.bits = 1 then (if v = 0 then 0 else 1)
  else if t.signed then (v + 2 ^ (t.bits - 1)) % 2 ^ t.bits - 2 ^ (t.bits - 1)
  else v % 2 ^ t.bits

/-- How cproc stores a constant of type `t` with value `v ∈ range t` in the 64-bit member of its
constant union: the two's-complement pattern of `v`, sign-extended to 64 bits if `t` is signed
(`v < 0` ⇒ `2^64 + v`), zero-extended otherwise, read as an unsigned 64-bit number. -/
def repr64 (_t : IntTy) (v : Int) : Nat := (v % 2 ^ 64).toNat

/-- The `bits`-wide two's-complement object representation of `v` (6.2.6.2). -/
def toBits (t : IntTy) (v : Int) : Nat := (v % 2 ^ t.bits).toNat

/-- Value of type `t` whose object representation is the low `bits` bits of `n`. -/
def ofBits (t : IntTy) (n : Nat) : Int := wrap t (n : Int)

/-! ## Operators -/

inductive BinOp
  | mul | div | mod | add | sub | shl | shr | band | bor | bxor
  | lt | gt | le | ge | eq | ne | lor | land
deriving DecidableEq, Repr, Inhabited

inductive UnOp
  | neg | bnot | lnot | plus
deriving DecidableEq, Repr, Inhabited

def BinOp.isCmp : BinOp → Bool
  | .lt | .gt | .le | .ge | .eq | .ne | .lor | .land => true
  | _ => false

def BinOp.isShift : BinOp → Bool
  | .shl | .shr => true
  | _ => false

/-- Type of the result when the (converted / promoted) left operand has type `t`
(6.5.8p6, 6.5.9p3, 6.5.13p3, 6.5.14p3: `int`; otherwise the common / promoted-left type). -/
def binResTy (op : BinOp) (t : IntTy) : IntTy := if op.isCmp then IntTy.int else t

def UnOp.resTy (op : UnOp) (t : IntTy) : IntTy :=
  match op with
  | .lnot => IntTy.int
  | _ => t

def b2i (b : Bool) : Int := if b then 1 else 0

/-- Result of an arithmetic operation whose mathematical result is `r`: signed overflow is
undefined (6.5p5), unsigned arithmetic is reduced modulo `2^bits` (6.2.5p9). -/
def arith (t : IntTy) (r : Int) : Option Int :=
  if t.signed then (if InRange t r then some r else none) else some (wrap t r)

/-- C11 value of `a op b` where both operands have already been brought to type `t` (for the
shifts: `t` is the promoted type of the LEFT operand and `b` is the value of the promoted right
operand, whatever its type).  `a` (and `b` except for shifts) are assumed in `range t`. -/
def bin (op : BinOp) (t : IntTy) (a b : Int) : Option Int :=
  match op with
  | .add => arith t (a + b)
  | .sub => arith t (a - b)
  | .mul => arith t (a * b)
  | .div => if b = 0 then none else arith t (Int.tdiv a b)          -- 6.5.5p5/p6: truncation toward 0
  | .mod => if b = 0 then none
            else if t.signed ∧ ¬ InRange t (Int.tdiv a b) then none    -- 6.5.5p6: a/b not representable
            else some (Int.tmod a b)
  | .shl => if b < 0 ∨ (t.bits : Int) ≤ b then none                  -- 6.5.7p3
            else if t.signed then
              (if a < 0 then none                                     -- 6.5.7p4
               else if InRange t (a * 2 ^ b.toNat) then some (a * 2 ^ b.toNat) else none)
            else some (wrap t (a * 2 ^ b.toNat))
  | .shr => if b < 0 ∨ (t.bits : Int) ≤ b then none
            else some (Int.fdiv a (2 ^ b.toNat))   -- 6.5.7p5; negative `a`: arithmetic shift (impl.-defined)
  | .band => some (ofBits t (toBits t a &&& toBits t b))
  | .bor => some (ofBits t (toBits t a ||| toBits t b))
  | .bxor => some (ofBits t (toBits t a ^^^ toBits t b))
  | .lt => some (b2i (decide (a < b)))
  | .gt => some (b2i (decide (a > b)))
  | .le => some (b2i (decide (a ≤ b)))
  | .ge => some (b2i (decide (a ≥ b)))
  | .eq => some (b2i (decide (a = b)))
  | .ne => some (b2i (decide (a ≠ b)))
  | .lor => some (b2i (decide (a ≠ 0 ∨ b ≠ 0)))
  | .land => some (b2i (decide (a ≠ 0 ∧ b ≠ 0)))

/-- C11 value of a unary operator on an operand of (promoted) type `t`. -/
def un (op : UnOp) (t : IntTy) (a : Int) : Option Int :=
  match op with
  | .neg => arith t (-a)
  | .bnot => some (ofBits t (2 ^ t.bits - 1 - toBits t a))   -- every bit of the representation inverted
  | .lnot => some (b2i (decide (a = 0)))
  | .plus => some a

/-- Conversion between integer types (6.3.1.2, 6.3.1.3). -/
def conv (_from to : IntTy) (v : Int) : Int := wrap to v

/-- `e1 || e2`, `e1 && e2` with their sequencing: the right operand is not evaluated (so may be
undefined, `none`) when the left one decides. -/
def lorSC (a : Int) (b : Option Int) : Option Int :=
  if a ≠ 0 then some 1 else b.map (fun b => b2i (decide (b ≠ 0)))
def landSC (a : Int) (b : Option Int) : Option Int :=
  if a = 0 then some 0 else b.map (fun b => b2i (decide (b ≠ 0)))

/-! ## Integer constants (6.4.4.1p5) — restated locally (C05 owns the general statement) -/

/-- The six candidate types in the order of the table of 6.4.4.1p5. -/
inductive LitTy | int | uint | long | ulong | llong | ullong
deriving DecidableEq, Repr, Inhabited

def LitTy.toIntTy : LitTy → IntTy
  | .int => IntTy.int | .uint => IntTy.uint
  | .long | .llong => IntTy.long
  | .ulong | .ullong => IntTy.ulong

def LitTy.name : LitTy → String
  | .int => "int" | .uint => "unsigned int" | .long => "long" | .ulong => "unsigned long"
  | .llong => "long long" | .ullong => "unsigned long long"

/-- Suffix of an integer constant: `u`? and none / `l` / `ll`. -/
structure Suffix where
  u : Bool
  rank : Nat     -- 0: none, 1: `l`, 2: `ll`
deriving DecidableEq, Repr

/-- The list of 6.4.4.1p5 for a given suffix and "is decimal". -/
def litList (s : Suffix) (decimal : Bool) : List LitTy :=
  let all : List (LitTy × Bool × Nat) :=   -- type, isUnsigned, rank
    [(.int, false, 0), (.uint, true, 0), (.long, false, 1), (.ulong, true, 1),
     (.llong, false, 2), (.ullong, true, 2)]
  (all.filter fun (_, uns, rk) =>
    decide (s.rank ≤ rk) && (if s.u then uns else (!decimal || !uns))).map (·.1)

/-- "The type of an integer constant is the first of the corresponding list in which its value
can be represented." -/
def litType (s : Suffix) (decimal : Bool) (v : Nat) : Option LitTy :=
  (litList s decimal).find? fun t => decide (InRange t.toIntTy (v : Int))

end CprocVerif.CInt

import CprocVerif.Model.Bytes
import CprocVerif.Gen.TokenKinds

/-!
# C11 6.4 — lexical elements (reference; written from the standard, not from scan.c)

Input is the text *after* translation phase 2 (`Scan.unsplice`, which is itself part of the
spec: "each instance of a backslash character immediately followed by a new-line character is
deleted", one pass).  Phase 3 decomposes that text into preprocessing tokens and white space,
each comment counting as one space; 6.4p4: *the next preprocessing token is the longest sequence
of characters that could constitute a preprocessing token*.

Documented non-goals (excluded here, so no theorem speaks about them):
* digraphs `<: :> <% %> %: %:%:` (6.4.6p3) — cproc does not implement them;
* universal character names and other implementation-defined characters in identifiers
  (6.4.2.1), and `$`;
* header names (6.4.7; only inside `#include`, which cproc does not implement);
* C23 digit separators in pp-numbers.
Extensions included: the C23 punctuator `::` and the C23 / GNU keyword spellings listed in
`keywords`; the prefix `u8` also on character constants (C23).
A NUL byte inside a literal is not a member of the source character set here (cproc rejects it).
-/

namespace CprocVerif.Spec.Lex
open CprocVerif.Gen.TokenKinds

/-! ## Characters (5.2.1, 6.4.2.1) -/

def isDigit (c : UInt8) : Bool := c! '0' ≤ c && c ≤ c! '9'
/-- nondigit: `_ a-z A-Z` -/
def isNondigit (c : UInt8) : Bool :=
  c = c! '_' || (c! 'a' ≤ c && c ≤ c! 'z') || (c! 'A' ≤ c && c ≤ c! 'Z')
def isIdentCont (c : UInt8) : Bool := isNondigit c || isDigit c
def isSign (c : UInt8) : Bool := c = c! '+' || c = c! '-'
def isExpLetter (c : UInt8) : Bool := c = c! 'e' || c = c! 'E' || c = c! 'p' || c = c! 'P'
def isOctDigit (c : UInt8) : Bool := c! '0' ≤ c && c ≤ c! '7'
def isHexDigit (c : UInt8) : Bool :=
  isDigit c || (c! 'a' ≤ c && c ≤ c! 'f') || (c! 'A' ≤ c && c ≤ c! 'F')
/-- white space other than new-line (6.4p3): space, horizontal tab, vertical tab, form feed -/
def isBlank (c : UInt8) : Bool := c = c! ' ' || c = c! '\t' || c = 0x0b || c = 0x0c
abbrev NL : UInt8 := c! '\n'

/-! ## 6.4.6 punctuators (without digraphs; plus C23 `::`) -/

def punctuators : List (List UInt8) := [
  b!"[", b!"]", b!"(", b!")", b!"{", b!"}", b!".", b!"->",
  b!"++", b!"--", b!"&", b!"*", b!"+", b!"-", b!"~", b!"!",
  b!"/", b!"%", b!"<<", b!">>", b!"<", b!">", b!"<=", b!">=", b!"==", b!"!=", b!"^", b!"|",
  b!"&&", b!"||",
  b!"?", b!":", b!";", b!"...",
  b!"=", b!"*=", b!"/=", b!"%=", b!"+=", b!"-=", b!"<<=", b!">>=", b!"&=", b!"^=", b!"|=",
  b!",", b!"#", b!"##",
  b!"::"]

/-! ## Longest prefix -/

/-- `w` is the longest prefix of `cs` that satisfies `P`. -/
def IsLongest (P : List UInt8 → Prop) (cs w : List UInt8) : Prop :=
  w <+: cs ∧ P w ∧ ∀ v, v <+: cs → P v → v.length ≤ w.length

/-! ## 6.4.2 identifiers -/

/-- identifier: identifier-nondigit (identifier-nondigit | digit)* -/
def IsIdentifier (w : List UInt8) : Prop :=
  ∃ c r, w = c :: r ∧ isNondigit c = true ∧ ∀ d ∈ r, isIdentCont d = true

/-! ## 6.4.8 preprocessing numbers

    pp-number:  digit | . digit | pp-number digit | pp-number identifier-nondigit
              | pp-number e sign | pp-number E sign | pp-number p sign | pp-number P sign
              | pp-number .

i.e. a head (`digit` or `. digit`) followed by any number of items, an item being a digit, a
nondigit, a period, or one of `e E p P` followed by a sign. -/

inductive PPTail : List UInt8 → Prop
  | nil : PPTail []
  | one (c : UInt8) (r : List UInt8) :
      (isDigit c = true ∨ isNondigit c = true ∨ c = c! '.') → PPTail r → PPTail (c :: r)
  | exp (e s : UInt8) (r : List UInt8) :
      isExpLetter e = true → isSign s = true → PPTail r → PPTail (e :: s :: r)

inductive PPNumber : List UInt8 → Prop
  | digit (d : UInt8) (r : List UInt8) : isDigit d = true → PPTail r → PPNumber (d :: r)
  | dot (d : UInt8) (r : List UInt8) : isDigit d = true → PPTail r → PPNumber (c! '.' :: d :: r)

/-! ## 6.4.4.4 / 6.4.5 character constants and string literals -/

/-- encoding prefixes: none, `L`, `u`, `U`, `u8` -/
def prefixes : List (List UInt8) := [[], b!"L", b!"u", b!"U", b!"u8"]

def isSimpleEscape (c : UInt8) : Bool :=
  c = c! '\'' || c = c! '"' || c = c! '?' || c = c! '\\' || c = c! 'a' || c = c! 'b' ||
  c = c! 'f' || c = c! 'n' || c = c! 'r' || c = c! 't' || c = c! 'v'

/-- one c-char / s-char (`q` is the delimiting quote): either any character except the quote,
backslash, new-line (and NUL), or an escape sequence: simple, 1–3 octal digits, `\x` hex+ . -/
inductive LitItem (q : UInt8) : List UInt8 → Prop
  | plain (c : UInt8) : c ≠ q → c ≠ c! '\\' → c ≠ NL → c ≠ 0 → LitItem q [c]
  | simple (c : UInt8) : isSimpleEscape c = true → LitItem q [c! '\\', c]
  | oct1 (a : UInt8) : isOctDigit a = true → LitItem q [c! '\\', a]
  | oct2 (a b : UInt8) : isOctDigit a = true → isOctDigit b = true → LitItem q [c! '\\', a, b]
  | oct3 (a b c : UInt8) : isOctDigit a = true → isOctDigit b = true → isOctDigit c = true →
      LitItem q [c! '\\', a, b, c]
  | hex (h : UInt8) (hs : List UInt8) : isHexDigit h = true → (∀ x ∈ hs, isHexDigit x = true) →
      LitItem q (c! '\\' :: c! 'x' :: h :: hs)

/-- `prefix q item* q` -/
def IsQuoted (q : UInt8) (w : List UInt8) : Prop :=
  ∃ (p : List UInt8) (items : List (List UInt8)), p ∈ prefixes ∧ (∀ u ∈ items, LitItem q u) ∧ w = p ++ [q] ++ items.flatten ++ [q]

def IsCharConst (w : List UInt8) : Prop := IsQuoted (c! '\'') w
def IsStringLit (w : List UInt8) : Prop := IsQuoted (c! '"') w

/-! ## 6.4.9 comments -/

/-- `/*` … up to and including the first `*/` (no `*/` begins inside the body) -/
def IsBlockComment (w : List UInt8) : Prop :=
  ∃ body, w = b!"/*" ++ body ++ b!"*/" ∧ ¬ (b!"*/" <:+: body ++ [c! '*'])

/-- `//` … up to but not including the next new-line -/
def IsLineComment (w : List UInt8) : Prop := ∃ body, w = b!"//" ++ body ∧ NL ∉ body

/-! ## 6.4.1 keywords: C11, the C23 additions, and the GNU alternate spellings cproc accepts -/

def keywords : List (List UInt8 × Kind) := [
  -- C11 6.4.1
  (b!"auto", .TAUTO), (b!"break", .TBREAK), (b!"case", .TCASE), (b!"char", .TCHAR),
  (b!"const", .TCONST), (b!"continue", .TCONTINUE), (b!"default", .TDEFAULT), (b!"do", .TDO),
  (b!"double", .TDOUBLE), (b!"else", .TELSE), (b!"enum", .TENUM), (b!"extern", .TEXTERN),
  (b!"float", .TFLOAT), (b!"for", .TFOR), (b!"goto", .TGOTO), (b!"if", .TIF),
  (b!"inline", .TINLINE), (b!"int", .TINT), (b!"long", .TLONG), (b!"register", .TREGISTER),
  (b!"restrict", .TRESTRICT), (b!"return", .TRETURN), (b!"short", .TSHORT), (b!"signed", .TSIGNED),
  (b!"sizeof", .TSIZEOF), (b!"static", .TSTATIC), (b!"struct", .TSTRUCT), (b!"switch", .TSWITCH),
  (b!"typedef", .TTYPEDEF), (b!"union", .TUNION), (b!"unsigned", .TUNSIGNED), (b!"void", .TVOID),
  (b!"volatile", .TVOLATILE), (b!"while", .TWHILE),
  (b!"_Alignas", .TALIGNAS), (b!"_Alignof", .TALIGNOF), (b!"_Atomic", .T_ATOMIC),
  (b!"_Bool", .TBOOL), (b!"_Complex", .T_COMPLEX), (b!"_Generic", .T_GENERIC),
  (b!"_Imaginary", .T_IMAGINARY), (b!"_Noreturn", .T_NORETURN),
  (b!"_Static_assert", .TSTATIC_ASSERT), (b!"_Thread_local", .TTHREAD_LOCAL),
  -- C23 6.4.1 additions
  (b!"alignas", .TALIGNAS), (b!"alignof", .TALIGNOF), (b!"bool", .TBOOL),
  (b!"constexpr", .TCONSTEXPR), (b!"false", .TFALSE), (b!"nullptr", .TNULLPTR),
  (b!"static_assert", .TSTATIC_ASSERT), (b!"thread_local", .TTHREAD_LOCAL), (b!"true", .TTRUE),
  (b!"typeof", .TTYPEOF), (b!"typeof_unqual", .TTYPEOF_UNQUAL),
  (b!"_BitInt", .T_BITINT), (b!"_Decimal128", .T_DECIMAL128), (b!"_Decimal32", .T_DECIMAL32),
  (b!"_Decimal64", .T_DECIMAL64),
  -- GNU alternate keywords
  (b!"__alignof__", .TALIGNOF), (b!"__asm", .T__ASM__), (b!"__asm__", .T__ASM__),
  (b!"__attribute__", .T__ATTRIBUTE__), (b!"__inline", .TINLINE), (b!"__inline__", .TINLINE),
  (b!"__signed", .TSIGNED), (b!"__signed__", .TSIGNED), (b!"__thread", .TTHREAD_LOCAL),
  (b!"__typeof", .TTYPEOF), (b!"__typeof__", .TTYPEOF), (b!"__volatile__", .TVOLATILE)]

/-- the keyword an identifier spelling denotes, if any (a dictionary lookup) -/
def keywordOf (w : List UInt8) : Option Kind := (keywords.find? (·.1 = w)).map (·.2)

/-! ## Reference lexer (executable)

Maximal munch by brute force: try every prefix, longest first, against decidable recognisers
of the token grammars above.  Quadratic, and obviously what 6.4p4 says. -/

def identB : List UInt8 → Bool
  | [] => false
  | c :: r => isNondigit c && r.all isIdentCont

def ppTailB : List UInt8 → Bool
  | [] => true
  | [c] => isDigit c || isNondigit c || c = c! '.'
  | e :: s :: r =>
    (isExpLetter e && isSign s && ppTailB r) ||
    ((isDigit e || isNondigit e || e = c! '.') && ppTailB (s :: r))

def ppNumberB : List UInt8 → Bool
  | [] => false
  | [d] => isDigit d
  | d :: e :: r => (isDigit d && ppTailB (e :: r)) || (d = c! '.' && isDigit e && ppTailB r)

/-- skip up to two more octal digits (an escape has 1 to 3; digits beyond are plain characters,
so taking as many as allowed loses no decomposition) -/
def dropOct2 : List UInt8 → List UInt8
  | a :: b :: t => if isOctDigit a then (if isOctDigit b then t else b :: t) else a :: b :: t
  | [a] => if isOctDigit a then [] else [a]
  | [] => []

/-- body of a quoted literal *including* the closing quote: `item* q` -/
def litBodyB (q : UInt8) : Nat → List UInt8 → Bool
  | 0, _ => false
  | _ + 1, [] => false
  | n + 1, c :: r =>
    if c = q then r.isEmpty
    else if c = c! '\\' then
      match r with
      | [] => false
      | e :: r' =>
        if isSimpleEscape e then litBodyB q n r'
        else if isOctDigit e then litBodyB q n (dropOct2 r')
        else if e = c! 'x' then
          match r' with
          | h :: r2 => isHexDigit h && litBodyB q n (r2.dropWhile isHexDigit)
          | [] => false
        else false
    else if c = NL || c = 0 then false
    else litBodyB q n r

def quotedB (q : UInt8) (w : List UInt8) : Bool :=
  prefixes.any fun p =>
    p.isPrefixOf w &&
    (match w.drop p.length with
     | c :: r => c = q && litBodyB q (r.length + 1) r
     | [] => false)

inductive Class where
  | ident | number | charconst | stringlit | punct | other | newline
  deriving DecidableEq, Repr

def Class.name : Class → String
  | .ident => "ident" | .number => "number" | .charconst => "charconst"
  | .stringlit => "stringlit" | .punct => "punct" | .other => "other" | .newline => "newline"

/-- is `w` a preprocessing token of some class (6.4: identifier, pp-number, character constant,
string literal, punctuator)? -/
def classOf (w : List UInt8) : Option Class :=
  if identB w then some .ident
  else if ppNumberB w then some .number
  else if quotedB (c! '\'') w then some .charconst
  else if quotedB (c! '"') w then some .stringlit
  else if w ∈ punctuators then some .punct
  else none

/-- all prefixes of `cs`, longest first -/
def prefixesDesc (cs : List UInt8) : List (List UInt8) :=
  (List.range (cs.length + 1)).reverse.map cs.take

/-- the longest prefix that is a preprocessing token, with its class -/
def longestToken (cs : List UInt8) : Option (Class × List UInt8) :=
  (prefixesDesc cs).findSome? fun w => (classOf w).map (·, w)

structure PPToken where
  cls : Class
  lexeme : List UInt8
  /-- preceded by white space (blank or comment) since the previous token / new-line -/
  space : Bool
  deriving DecidableEq, Repr

/-- index just after the first `*/` in `cs`, if any -/
def findCommentEnd : List UInt8 → Option Nat
  | [] => none
  | [_] => none
  | a :: b :: r =>
    if a = c! '*' ∧ b = c! '/' then some 2 else (findCommentEnd (b :: r)).map (· + 1)

/-- does an (unprefixed or prefixed) literal open at the start of `cs`? used only to tell an
unterminated literal from a stray quote character -/
def opensQuote (cs : List UInt8) : Bool :=
  prefixes.any fun p => p.isPrefixOf cs &&
    (match cs.drop p.length with
     | c :: _ => c = c! '\'' || c = c! '"'
     | [] => false)

/-- Phase 3 on phase-2 text.  `fuel` ≥ length suffices.  Failure = the text has no decomposition
(6.4p3: a `'` or `"` that does not begin a complete literal is undefined behaviour; an
unterminated comment is a constraint violation) — reported with a reason. -/
def lexLoop : Nat → Bool → List UInt8 → List PPToken × Option String
  | 0, _, _ => ([], some "fuel")
  | _ + 1, _, [] => ([], none)
  | n + 1, sp, c :: r =>
    if isBlank c then lexLoop n true r
    else if c = NL then
      let t := lexLoop n false r
      (⟨.newline, [NL], sp⟩ :: t.1, t.2)
    else if c = c! '/' ∧ r.head? = some (c! '*') then
      match findCommentEnd r.tail with
      | none => ([], some "comment")
      | some k => lexLoop n true (r.tail.drop k)
    else if c = c! '/' ∧ r.head? = some (c! '/') then
      lexLoop n true (r.dropWhile (· ≠ NL))
    else
      match longestToken (c :: r) with
      | some (cls, w) =>
        let t := lexLoop n false ((c :: r).drop w.length)
        (⟨cls, w, sp⟩ :: t.1, t.2)
      | none =>
        if opensQuote (c :: r) then ([], some "literal")
        else
          let t := lexLoop n false r
          (⟨.other, [c], sp⟩ :: t.1, t.2)

def lex (cs : List UInt8) : List PPToken × Option String := lexLoop (cs.length + 1) false cs

end CprocVerif.Spec.Lex

import CprocVerif.Model.Layout

/-!
# Spec: object layout of the LP64 C ABIs (x86-64 SysV, AAPCS64, RISC-V LP64) as gcc/clang
implement them

Written independently of `addmember`'s `(size, bits-left)` arithmetic: members are placed with a
**bit cursor**.  Only the *input* description types (`Decl`, `MTy`, `CType`, `EnumItem`) and the
output record `Member`/`Layout` are shared with `Model/Layout.lean`.

Rules (validated against `gcc` and `clang --target=…` by `checks/c06.py` on every run):

* a non-bit-field member is placed at the least multiple of its alignment that is `≥ cursor`;
  its alignment is the larger of `_Alignas` and the alignment of its type (1 inside a packed
  struct);
* a bit-field of declared type `T` and width `w > 0` is placed at the least bit position
  `p ≥ cursor` such that bits `[p, p+w)` do not cross a multiple of `8·sizeof T`
  (`Fits`/`bfPos`); its storage unit is the `sizeof T`-aligned unit containing it;
* a zero-width bit-field moves the cursor to the next multiple of `8·sizeof T`;
* the alignment of a struct/union is the maximum alignment of its members, where a bit-field
  counts with the alignment of its declared type **if it is named**; unnamed (incl. zero-width)
  bit-fields count only on AAPCS64 (`Target.unnamedBitfieldAligns`);
* `sizeof` = bytes covered by the cursor, rounded up to the alignment; for a union: the largest
  member (a bit-field — named or not — needs `⌈w/8⌉` bytes) rounded up to the alignment;
* an enum without fixed underlying type is `unsigned int` if no enumerator is negative and all
  fit, else `int` if all fit, else `unsigned long`/`long` likewise (GCC's rule); with a fixed
  underlying type it is that type.
-/

namespace CprocVerif.Abi
open CprocVerif.Layout

structure Target where
  name : String
  /-- AAPCS64: the declared type of every bit-field, unnamed and zero-width ones included,
  contributes to the alignment of the aggregate -/
  unnamedBitfieldAligns : Bool
deriving DecidableEq, Repr

def x86_64 : Target := ⟨"x86_64-sysv", false⟩
def aarch64 : Target := ⟨"aarch64", true⟩
def riscv64 : Target := ⟨"riscv64", false⟩

/-- least multiple of `a` that is `≥ x` (`a > 0`) -/
def roundUp (x a : Nat) : Nat := (x + a - 1) / a * a

/-- bits `[p, p+w)` lie inside one `U`-bit aligned unit -/
def Fits (U w p : Nat) : Prop := p / U = (p + w - 1) / U

instance (U w p : Nat) : Decidable (Fits U w p) := inferInstanceAs (Decidable (_ = _))

/-- the least `p ≥ c` with `Fits U w p` (see `Props.C06.bfPos_least`) -/
def bfPos (c U w : Nat) : Nat := if Fits U w c then c else (c / U + 1) * U

/-- alignment requirement of a non-bit-field member -/
def effAlign (pack : Bool) (d : Decl) : Nat :=
  max d.align (if pack then 1 else d.ty.align)

/-- what a declaration contributes to the alignment of the aggregate (0 = nothing) -/
def alignContrib (T : Target) (pack : Bool) (d : Decl) : Nat :=
  match d.width with
  | none => effAlign pack d
  | some _ => if d.named || T.unnamedBitfieldAligns then d.ty.align else 0

def aggAlign (T : Target) (pack : Bool) : List Decl → Nat
  | [] => 0
  | d :: ds => max (alignContrib T pack d) (aggAlign T pack ds)

/-- place one declaration of a struct at bit cursor `c`: new cursor and the member -/
def placeStruct (pack : Bool) (c : Nat) (d : Decl) : Nat × Option Member :=
  match d.width with
  | none =>
    let a := effAlign pack d
    let p := roundUp c (8 * a)
    (p + 8 * d.ty.size, some ⟨p / 8, 0, 0, d.ty.size, a, none⟩)
  | some 0 => (roundUp c (8 * d.ty.size), none)
  | some w =>
    let U := 8 * d.ty.size
    let p := bfPos c U w
    (p + w, if d.named then some ⟨p / U * d.ty.size, p % U, U - p % U - w, d.ty.size, d.ty.align, some w⟩
            else none)

def structGo (pack : Bool) : Nat → List Decl → Nat × List Member
  | c, [] => (c, [])
  | c, d :: ds =>
    let r := placeStruct pack c d
    let r' := structGo pack r.1 ds
    (r'.1, r.2.toList ++ r'.2)

/-- bytes a union member needs -/
def unionBytes (d : Decl) : Nat :=
  match d.width with
  | none => d.ty.size
  | some w => (w + 7) / 8

def unionMax : List Decl → Nat
  | [] => 0
  | d :: ds => max (unionBytes d) (unionMax ds)

def unionMember (pack : Bool) (d : Decl) : Option Member :=
  match d.width with
  | none => some ⟨0, 0, 0, d.ty.size, effAlign pack d, none⟩
  | some w => if d.named then some ⟨0, 0, 8 * d.ty.size - w, d.ty.size, d.ty.align, some w⟩ else none

def unionMembers (pack : Bool) : List Decl → List Member
  | [] => []
  | d :: ds => (unionMember pack d).toList ++ unionMembers pack ds

/-- a struct is "flexible" if its last member is an incomplete array; a union if a member is or
contains one -/
def aggFlexible : List Decl → Bool
  | [] => false
  | d :: ds => d.ty.incomplete || d.ty.flexible || aggFlexible ds

def layout (T : Target) (isUnion pack : Bool) (ds : List Decl) : Layout :=
  let al := aggAlign T pack ds
  if isUnion then
    ⟨roundUp (unionMax ds) al, al, aggFlexible ds, unionMembers pack ds⟩
  else
    let r := structGo pack 0 ds
    ⟨roundUp ((r.1 + 7) / 8) al, al, aggFlexible ds, r.2⟩

/-! ## Types -/

mutual
  /-- size/alignment of a type (the spec gives no meaning to erroneous types: `none` only for
  incomplete element types / empty aggregates, which the property does not range over) -/
  def tinfo (T : Target) : CType → MTy
    | .scalar s a i => { size := s, align := a, isInt := i }
    | .array e none => { size := 0, align := (tinfo T e).align, incomplete := true, isArray := true }
    | .array e (some n) => { size := (tinfo T e).size * n, align := (tinfo T e).align, isArray := true }
    | .su u p fs =>
      let l := layout T u p (decls T fs)
      { size := l.size, align := l.align, flexible := l.flexible }
  def decls (T : Target) : Fields → List Decl
    | .nil => []
    | .cons name ty al w rest =>
      { ty := tinfo T ty, named := name.isSome, align := al, width := w } :: decls T rest
end

mutual
  /-- offset (bytes, relative to the aggregate) and placement record of the member called `name`,
  looking through anonymous struct/union members (C11 6.7.2.1p13) -/
  def member (T : Target) : CType → String → Option (Nat × Member × CType)
    | .su u p fs, name => memberIn T fs (layout T u p (decls T fs)).members name
    | _, _ => none
  def memberIn (T : Target) : Fields → List Member → String → Option (Nat × Member × CType)
    | .nil, _, _ => none
    | .cons fname ty _ w rest, ms, name =>
      if fname.isSome || w.isNone then
        match ms with
        | [] => none
        | m :: ms' =>
          match fname with
          | some n => if n == name then some (m.offset, m, ty) else memberIn T rest ms' name
          | none =>
            match member T ty name with
            | some (off, sub, sty) => some (m.offset + off, sub, sty)
            | none => memberIn T rest ms' name
      else memberIn T rest ms name
end

/-- `offsetof(T, name d₁ d₂ …)`: the sum of the member offsets and `index × element size` along
the path -/
def pathOffset (T : Target) : CType → Nat → Member → List Desig → Option (Nat × Member)
  | _, off, m, [] => some (off, m)
  | .array e _, off, m, .index i :: rest =>
    pathOffset T e (off + i * (tinfo T e).size)
      { m with width := none, before := 0, after := 0, tsize := (tinfo T e).size } rest
  | t, off, _, .field n :: rest =>
    match member T t n with
    | some (o, m', ty') => pathOffset T ty' (off + o) m' rest
    | none => none
  | _, _, _, _ => none

def offsetof (T : Target) (t : CType) (name : String) (path : List Desig) : Option (Nat × Member) :=
  match member T t name with
  | some (o, m, ty) => pathOffset T ty o m path
  | none => none

/-! ## Enumerations (C23 6.7.2.2, GCC's choice of the compatible type) -/

/-- mathematical value of an explicit enumerator `= e` (64-bit representation `u`, type `ty`) -/
def constValue (u : Nat) (ty : IntTy) : Int :=
  if ty.signed && u % M64 ≥ 2 ^ 63 then (u % M64 : Int) - 2 ^ 64 else (u % M64 : Int)

def lo (t : IntTy) : Int := if t.signed then -(2 ^ (8 * t.size - 1)) else 0
def hi (t : IntTy) : Int := if t.signed then 2 ^ (8 * t.size - 1) - 1 else 2 ^ (8 * t.size) - 1
/-- "can represent": range, not size -/
def Represents (t : IntTy) (v : Int) : Prop := lo t ≤ v ∧ v ≤ hi t
instance (t : IntTy) (v : Int) : Decidable (Represents t v) := inferInstanceAs (Decidable (_ ∧ _))

def inInt (v : Int) : Bool := decide (-(2 ^ 31) ≤ v ∧ v ≤ 2 ^ 31 - 1)

/-- Enumerator values without a fixed underlying type (C23 6.7.2.2p12): an enumerator without
`=` is the previous one plus 1 (the first is 0).  `sgn` is the signedness of the previous
enumerator's type (`int` if the value fits `int`, else the type of the expression, resp. a
wider type *of the same signedness*): if no such type can hold `previous + 1` the declaration
is invalid (`none`). -/
def enumValues : Int → Bool → List EnumItem → Option (List Int)
  | _, _, [] => some []
  | next, sgn, .implicit :: its =>
    if (sgn && next > 2 ^ 63 - 1) || (!sgn && next > 2 ^ 64 - 1) then none
    else (enumValues (next + 1) (inInt next || sgn) its).map (next :: ·)
  | _, _, .explicit u ty :: its =>
    let v := constValue u ty
    (enumValues (v + 1) (inInt v || ty.signed) its).map (v :: ·)

/-- with a fixed underlying type every enumerator has that type; values just count up -/
def enumValuesFixed : Int → List EnumItem → List Int
  | _, [] => []
  | next, .implicit :: its => next :: enumValuesFixed (next + 1) its
  | _, .explicit u ty :: its => constValue u ty :: enumValuesFixed (constValue u ty + 1) its

/-- GCC's choice (`finish_enum`): unsigned iff no enumerator is negative; `int`-sized if all
values fit, otherwise 64-bit; `none` if the declaration is invalid (no type holds all values) -/
def enumUnderlying (fixed : Option IntTy) (items : List EnumItem) : Option IntTy :=
  match fixed with
  | some b =>
    if (enumValuesFixed 0 items).all (fun v => decide (Represents b v)) then some b else none
  | none =>
    match enumValues 0 true items with
    | none => none
    | some vals =>
      let signed := vals.any (fun v => decide (v < 0))
      [(⟨4, signed⟩ : IntTy), ⟨8, signed⟩].find? (fun t => vals.all (fun v => decide (Represents t v)))

end CprocVerif.Abi

/-
  Well-formedness validator for QBE IL modules.

  `wf : Module → Except String Unit` checks (per function) single definitions, dominance of uses,
  operand/result classes of every opcode, jump and phi labels, phi sources = predecessors,
  terminated last block, earlier definition of aggregate types, call/ret agreement with
  signatures; (per module) duplicate symbols, type and data definitions.

  The dominance part is organised as *certificate checking*: `computeCert` (unverified) computes
  the reachable set, dominator sets (as `Nat` bit sets) and a definition map; `flowOk` (verified in
  `Props/C03.lean`) only checks that these are consistent with the function.
-/
import CprocVerif.Spec.Qbe
import CprocVerif.Spec.QbeParse

namespace CprocVerif.Qbe

/-! ## Bit sets -/

def bit (i : Nat) : Nat := 1 <<< i

/-- `a ⊆ b` -/
def bsSubset (a b : Nat) : Bool := a &&& b == a

/-! ## Definitions of temporaries -/

inductive DefLoc where
  | param
  | phi (b : Nat)
  | ins (b i : Nat)
  deriving Repr, Inhabited, DecidableEq

/-- Untrusted per-function analysis results. -/
structure FnCert where
  reach : Nat
  dom : Array Nat
  defs : Std.HashMap String DefLoc

def Block.defsList (b : Block) : List (String × Cls) :=
  b.phis.map (fun p => (p.res, p.k)) ++
  b.ins.toList.filterMap (fun i => match i with
    | .op res _ _ => res
    | .call res _ _ _ => res.map fun r => (r.1, r.2.cls))

/-- All definitions of temporaries in a function, with their classes: parameters, then per block
    phi results and instruction results. -/
def Func.allDefs (f : Func) : List (String × Cls) :=
  f.params.map (fun p => (p.2, p.1.cls)) ++ f.blocks.toList.flatMap Block.defsList

def noDupCheck : List String → Std.HashSet String → Option String
  | [], _ => none
  | x :: xs, s => if s.contains x then some x else noDupCheck xs (s.insert x)

/-! ## Control flow -/

/-- Successor block indices of block number `bi`; `none` if a label is unknown. -/
def succIdx (fi : FuncInfo) (bi : Nat) (b : Block) : Option (List Nat) :=
  match b.term with
  | none => some [bi + 1]
  | some (.jmp l) => match fi.labelIdx[l]? with
    | some j => some [j]
    | none => none
  | some (.jnz _ a z) =>
    match fi.labelIdx[a]?, fi.labelIdx[z]? with
    | some j, some k => some [j, k]
    | _, _ => none
  | some (.ret _) => some []
  | some .hlt => some []

def Val.tmpName : Val → Option String
  | .tmp n => some n
  | _ => none

/-- Is `t` defined on every path to the point just before instruction `ii` of block `bi`
    (according to the certificate)?  Every map lookup is re-validated against the function. -/
def defBefore (f : Func) (c : FnCert) (bi ii : Nat) (t : String) : Bool :=
  match c.defs[t]? with
  | none => false
  | some .param => f.params.any (fun p => p.2 == t)
  | some (.phi d) =>
    (match f.blocks[d]? with
     | some b => b.phis.any (fun p => p.res == t)
     | none => false) &&
    (d == bi || (c.dom.getD bi 0).testBit d)
  | some (.ins d j) =>
    (match f.blocks[d]? with
     | some b => (match b.ins[j]? with
        | some i => i.defn == some t
        | none => false)
     | none => false) &&
    ((d == bi && j < ii) || (d != bi && (c.dom.getD bi 0).testBit d))

def valDefBefore (f : Func) (c : FnCert) (bi ii : Nat) (v : Val) : Bool :=
  match v with
  | .tmp t => defBefore f c bi ii t
  | _ => true

/-- All instruction operands of block `bi` are defined before their use. -/
def insUsesOk (f : Func) (c : FnCert) (bi : Nat) (b : Block) : Bool :=
  (List.range b.ins.size).all fun ii =>
    match b.ins[ii]? with
    | some i => i.operands.all (valDefBefore f c bi ii)
    | none => true

def termUsesOk (f : Func) (c : FnCert) (bi : Nat) (b : Block) : Bool :=
  match b.term with
  | some j => j.operands.all (valDefBefore f c bi b.ins.size)
  | none => true

/-- Edge `bi → s`: `s` exists and is reachable, its dominators other than itself dominate `bi` (or
    are `bi`), and every phi of `s` has a source for `bi` that is defined at the end of `bi`. -/
def edgeOk (f : Func) (c : FnCert) (bi : Nat) (b : Block) (s : Nat) : Bool :=
  match f.blocks[s]? with
  | none => false
  | some sb =>
    c.reach.testBit s &&
    bsSubset (c.dom.getD s 0) (c.dom.getD bi 0 ||| bit bi ||| bit s) &&
    sb.phis.all fun ph =>
      match ph.srcs.find? (fun src => src.1 == b.label) with
      | none => false
      | some src => valDefBefore f c bi b.ins.size src.2

def blockFlowOk (f : Func) (c : FnCert) (bi : Nat) (b : Block) : Bool :=
  !c.reach.testBit bi ||
  (insUsesOk f c bi b && termUsesOk f c bi b &&
   match succIdx (FuncInfo.of f) bi b with
   | none => false
   | some ss => ss.all (edgeOk f c bi b))

/-- The verified core of the flow checks. -/
def flowOk (f : Func) (c : FnCert) : Bool :=
  c.reach.testBit 0 &&
  (c.dom.getD 0 0 == 0 || c.dom.getD 0 0 == 1) &&
  (match f.blocks[0]? with
   | some b => b.phis.isEmpty
   | none => false) &&
  (List.range f.blocks.size).all fun bi =>
    match f.blocks[bi]? with
    | some b => blockFlowOk f c bi b
    | none => true

/-! ### Computing the certificate (unverified) -/

def succArray (f : Func) (fi : FuncInfo) : Array (List Nat) :=
  (List.range f.blocks.size).foldl (fun acc bi =>
    match f.blocks[bi]? with
    | some b => acc.push (((succIdx fi bi b).getD []).filter (· < f.blocks.size))
    | none => acc.push []) (Array.mkEmpty f.blocks.size)

def predArray (n : Nat) (succs : Array (List Nat)) : Array (List Nat) :=
  (List.range n).foldl (fun acc b =>
    (succs.getD b []).foldl (fun acc s =>
      if (acc.getD s []).contains b then acc else acc.modify s (b :: ·)) acc)
    (Array.replicate n [])

def reachLoop (succs : Array (List Nat)) : (fuel : Nat) → List Nat → Nat → Nat
  | 0, _, seen => seen
  | _+1, [], seen => seen
  | f+1, b :: st, seen =>
    let (st, seen) := (succs.getD b []).foldl (fun (acc : List Nat × Nat) s =>
      if acc.2.testBit s then acc else (s :: acc.1, acc.2 ||| bit s)) (st, seen)
    reachLoop succs f st seen

def domPass (preds : Array (List Nat)) (reach full n : Nat) (dom : Array Nat) : Array Nat × Bool :=
  (List.range n).foldl (fun (acc : Array Nat × Bool) b =>
    if b == 0 || !reach.testBit b then acc else
    let inter := (preds.getD b []).foldl (fun s p =>
      if reach.testBit p then s &&& acc.1.getD p 0 else s) full
    let nd := inter ||| bit b
    if nd == acc.1.getD b 0 then acc else (acc.1.set! b nd, true)) (dom, false)

def domLoop (preds : Array (List Nat)) (reach full n : Nat) : (fuel : Nat) → Array Nat → Array Nat
  | 0, dom => dom
  | f+1, dom =>
    let (dom', changed) := domPass preds reach full n dom
    if changed then domLoop preds reach full n f dom' else dom'

def mkDefMap (f : Func) : Std.HashMap String DefLoc :=
  let m : Std.HashMap String DefLoc :=
    f.params.foldl (fun m p => m.insertIfNew p.2 .param) {}
  (List.range f.blocks.size).foldl (fun m bi =>
    match f.blocks[bi]? with
    | none => m
    | some b =>
      let m := b.phis.foldl (fun m ph => m.insertIfNew ph.res (.phi bi)) m
      (List.range b.ins.size).foldl (fun m ii =>
        match b.ins[ii]? with
        | some i => match i.defn with
          | some x => m.insertIfNew x (.ins bi ii)
          | none => m
        | none => m) m) m

def computeCert (f : Func) : FnCert :=
  let fi := FuncInfo.of f
  let n := f.blocks.size
  let succs := succArray f fi
  let preds := predArray n succs
  let reach := reachLoop succs (2 * n + 2 + succs.foldl (fun a l => a + l.length) 0) [0] (bit 0)
  let full := bit n - 1
  let dom0 := (Array.replicate n full).set! 0 (bit 0)
  let dom := domLoop preds reach full n (n + 2) dom0
  ⟨reach, dom, mkDefMap f⟩

/-! ## Classes -/

abbrev ClsMap := Std.HashMap String Cls

/-- May value `v` be used where class `k` is expected?  An `l` temporary may be used as `w`. -/
def argOk (tc : ClsMap) (k : Cls) (v : Val) : Bool :=
  match v with
  | .tmp t =>
    match tc[t]? with
    | some c => c == k || (k == .w && c == .l)
    | none => false
  | .glob _ _ => k == .l
  | .int _ => k == .w || k == .l
  | .fs _ => k == .s
  | .fd _ => k == .d

def isInt (k : Cls) : Bool := k == .w || k == .l
def isFlt (k : Cls) : Bool := k == .s || k == .d

def StoreTy.cls : StoreTy → Cls
  | .d => .d | .s => .s | .l => .l | _ => .w

/-- Operand classes of opcode `o` when its result class is `k` (`none`: no result); `none` if the
    opcode does not exist with that result class.  This is the table of QBE's `ops.h`. -/
def Op.sig (o : Op) (k : Option Cls) : Option (List Cls) :=
  match o, k with
  | .add, some k | .sub, some k | .mul, some k | .div, some k => some [k, k]
  | .neg, some k => some [k]
  | .udiv, some k | .rem, some k | .urem, some k | .or, some k | .xor, some k | .and, some k =>
    if isInt k then some [k, k] else none
  | .sar, some k | .shr, some k | .shl, some k => if isInt k then some [k, .w] else none
  | .store t, none => some [t.cls, .l]
  | .load .d, some .d => some [.l]
  | .load .s, some .s => some [.l]
  | .load .l, some .l => some [.l]
  | .load .d, _ | .load .s, _ | .load .l, _ => none
  | .load _, some k => if isInt k then some [.l] else none
  | .alloc _, some .l => some [.l]
  | .cmpw _, some k => if isInt k then some [.w, .w] else none
  | .cmpl _, some k => if isInt k then some [.l, .l] else none
  | .cmps _, some k => if isInt k then some [.s, .s] else none
  | .cmpd _, some k => if isInt k then some [.d, .d] else none
  | .extsw, some .l | .extuw, some .l => some [.w]
  | .extsh, some k | .extuh, some k | .extsb, some k | .extub, some k =>
    if isInt k then some [.w] else none
  | .exts, some .d => some [.s]
  | .truncd, some .s => some [.d]
  | .stosi, some k | .stoui, some k => if isInt k then some [.s] else none
  | .dtosi, some k | .dtoui, some k => if isInt k then some [.d] else none
  | .swtof, some k | .uwtof, some k => if isFlt k then some [.w] else none
  | .sltof, some k | .ultof, some k => if isFlt k then some [.l] else none
  | .cast, some .w => some [.s]
  | .cast, some .l => some [.d]
  | .cast, some .s => some [.w]
  | .cast, some .d => some [.l]
  | .copy, some k => some [k]
  | .vastart, none => some [.l]
  | .vaarg, some _ => some [.l]
  | _, _ => none

/-- A temporary among `vs` that has no definition at all in the function. -/
def undefinedTmp (tc : ClsMap) (vs : List Val) : Option String :=
  vs.findSome? fun v => match v with
    | .tmp t => if tc.contains t then none else some t
    | _ => none

def argsOk (tc : ClsMap) : List Cls → List Val → Bool
  | [], [] => true
  | k :: ks, v :: vs => argOk tc k v && argsOk tc ks vs
  | _, _ => false

/-! ## Signatures -/

structure Sig where
  ret : Option Ty
  params : List Ty
  variadic : Bool

abbrev SigMap := Std.HashMap String Sig

/-- Do an argument/result type at a call and the callee's declared type agree? -/
def tyAgree (a p : Ty) : Bool :=
  match a, p with
  | .agg x, .agg y => x == y
  | .agg _, _ | _, .agg _ => false
  | a, p => a.cls == p.cls

def tysAgree : List Ty → List Ty → Bool
  | _, [] => true
  | a :: as, p :: ps => tyAgree a p && tysAgree as ps
  | [], _ :: _ => false

def tyDefined (types : Std.HashSet String) : Ty → Bool
  | .agg n => types.contains n
  | _ => true

def errIf (c : Bool) (msg : String) : Except String Unit :=
  if c then .error msg else .ok ()

def checkCall (sigs : SigMap) (types : Std.HashSet String) (tc : ClsMap)
    (res : Option (String × Ty)) (callee : Val) (args : List (Ty × Val)) (varAt : Option Nat) :
    Except String Unit := do
  errIf (!argOk tc .l callee) "callee is not of class l"
  for (t, v) in args do
    errIf (!tyDefined types t) s!"aggregate type {t.name} is used before its definition"
    errIf (!argOk tc t.cls v) s!"call argument of type {t.name} has the wrong class"
  match res with
  | some (_, t) =>
    errIf (!tyDefined types t) s!"aggregate type {t.name} is used before its definition"
  | none => pure ()
  match varAt with
  | some i => errIf (i > args.length) "misplaced '...'"
  | none => pure ()
  match callee with
  | .glob name _ =>
    match sigs[name]? with
    | none => pure ()
    | some sg =>
      let np := sg.params.length
      errIf (args.length < np) s!"call to ${name} with too few arguments"
      errIf (!sg.variadic && args.length > np) s!"call to ${name} with too many arguments"
      errIf (!tysAgree (args.map (·.1)) sg.params)
        s!"call to ${name}: argument types differ from the parameter types"
      match varAt with
      | some i =>
        errIf (!sg.variadic) s!"call to ${name}: '...' in a call to a non-variadic function"
        errIf (i != np) s!"call to ${name}: '...' is not at the position of the callee's '...'"
      | none =>
        -- cproc omits the marker when a variadic function gets no variadic argument
        errIf (sg.variadic && args.length > np)
          s!"call to ${name}: variadic arguments without '...'"
      match res, sg.ret with
      | some (_, t), some rt =>
        errIf (!tyAgree t rt) s!"call to ${name}: result type {t.name} but the callee returns {rt.name}"
      | some _, none => .error s!"call to ${name}: result taken from a function without return type"
      | none, _ => pure ()
  | _ => pure ()

/-! ## Per-function checks -/

def checkIns (sigs : SigMap) (types : Std.HashSet String) (tc : ClsMap) (i : Ins) :
    Except String Unit :=
  match undefinedTmp tc i.operands with
  | some t => .error s!"temporary %{t} is used but never defined"
  | none =>
  match i with
  | .op res o args =>
    match o.sig (res.map (·.2)) with
    | none =>
      .error s!"{o.name}: invalid result class {(res.map (·.2.name)).getD "(none)"}"
    | some ks =>
      if argsOk tc ks args then .ok ()
      else .error s!"{o.name}: operand count or class mismatch (result {(res.map (·.1)).getD "-"})"
  | .call res callee args varAt => checkCall sigs types tc res callee args varAt

def checkJump (f : Func) (fi : FuncInfo) (tc : ClsMap) (j : Jump) : Except String Unit := do
  for l in j.targets do
    errIf (!fi.labelIdx.contains l) s!"jump to unknown label @{l}"
  match undefinedTmp tc j.operands with
  | some t => throw s!"temporary %{t} is used but never defined"
  | none => pure ()
  match j with
  | .jnz v _ _ => errIf (!argOk tc .w v) "jnz argument is not of class w"
  | .ret (some v) =>
    match f.ret with
    | none => .error "ret with a value in a function without return type"
    | some t => errIf (!argOk tc t.cls v) s!"ret value does not have class {t.cls.name}"
  | _ => pure ()

/-- The checks that are not used by the soundness theorem (classes, signatures, phi sources =
    predecessors, …). -/
def wfFuncPre (sigs : SigMap) (types : Std.HashSet String) (f : Func) : Except String Unit := do
  let fi := FuncInfo.of f
  let n := f.blocks.size
  errIf (n == 0) "function without blocks"
  -- labels
  match noDupCheck (f.blocks.toList.map (·.label)) {} with
  | some l => throw s!"label @{l} defined twice"
  | none => pure ()
  -- signature
  match f.ret with
  | some t => errIf (!tyDefined types t) s!"aggregate type {t.name} is used before its definition"
  | none => pure ()
  for (t, _) in f.params do
    errIf (!tyDefined types t) s!"aggregate type {t.name} is used before its definition"
  let defs := f.allDefs
  let tc : ClsMap := defs.foldl (fun m d => m.insert d.1 d.2) {}
  -- structure
  match f.blocks[0]? with
  | some b => errIf (!b.phis.isEmpty) "phi in the first block"
  | none => pure ()
  match f.blocks[n - 1]? with
  | some b => errIf b.term.isNone s!"last block @{b.label} does not end with a jump"
  | none => pure ()
  -- instructions, jumps
  let succs := succArray f fi
  let preds := predArray n succs
  for bi in [0:n] do
    match f.blocks[bi]? with
    | none => pure ()
    | some b =>
      for i in b.ins do
        match checkIns sigs types tc i with
        | .error e => throw s!"@{b.label}: {e}"
        | .ok () => pure ()
      match b.term with
      | some j =>
        match checkJump f fi tc j with
        | .error e => throw s!"@{b.label}: {e}"
        | .ok () => pure ()
      | none => pure ()
      -- phis: sources are exactly the predecessors
      let predLabels := (preds.getD bi []).filterMap fun p => (f.blocks[p]?).map (·.label)
      for ph in b.phis do
        match noDupCheck (ph.srcs.map (·.1)) {} with
        | some l => throw s!"@{b.label}: phi %{ph.res} has several sources for @{l}"
        | none => pure ()
        for (l, v) in ph.srcs do
          errIf (!fi.labelIdx.contains l) s!"@{b.label}: phi %{ph.res} names unknown label @{l}"
          errIf (!predLabels.contains l)
            s!"@{b.label}: phi %{ph.res} has a source for @{l}, which is not a predecessor"
          match undefinedTmp tc [v] with
          | some t => throw s!"@{b.label}: temporary %{t} is used but never defined"
          | none => pure ()
          errIf (!argOk tc ph.k v) s!"@{b.label}: phi %{ph.res} source has the wrong class"
        for l in predLabels do
          errIf (!(ph.srcs.any (·.1 == l)))
            s!"@{b.label}: phi %{ph.res} has no source for predecessor @{l}"

/-- Human-readable reason why `flowOk` rejected the function (unverified). -/
def explainFlow (f : Func) (c : FnCert) : String :=
  let fi := FuncInfo.of f
  let n := f.blocks.size
  let r : Except String Unit := do
    for bi in [0:n] do
      match f.blocks[bi]? with
      | none => pure ()
      | some b =>
        if c.reach.testBit bi then
          for ii in [0:b.ins.size] do
            match b.ins[ii]? with
            | some i =>
              for v in i.operands do
                match v with
                | .tmp t =>
                  errIf (!defBefore f c bi ii t) s!"@{b.label}: use of %{t} is not dominated by its definition"
                | _ => pure ()
            | none => pure ()
          match b.term with
          | some j =>
            for v in j.operands do
              match v with
              | .tmp t =>
                errIf (!defBefore f c bi b.ins.size t) s!"@{b.label}: use of %{t} in the jump is not dominated by its definition"
              | _ => pure ()
          | none => pure ()
          match succIdx fi bi b with
          | none => throw s!"@{b.label}: jump to unknown label"
          | some ss =>
            for s in ss do
              match f.blocks[s]? with
              | none => throw s!"@{b.label}: control falls off the end of the function"
              | some sb =>
                for ph in sb.phis do
                  match ph.srcs.find? (fun src => src.1 == b.label) with
                  | none => throw s!"@{sb.label}: phi %{ph.res} has no source for @{b.label}"
                  | some (_, .tmp t) =>
                    errIf (!defBefore f c bi b.ins.size t) s!"@{sb.label}: phi source %{t} is not defined at the end of @{b.label}"
                  | some _ => pure ()
  match r with
  | .error e => e
  | .ok () => "internal: dominator certificate rejected"

/-- All jump targets name a block of the function (also in unreachable blocks). -/
def labelsOk (f : Func) : Bool :=
  f.blocks.toList.all fun b =>
    match b.term with
    | some j => j.targets.all fun l => (FuncInfo.of f).labelIdx.contains l
    | none => true

def wfFunc (sigs : SigMap) (types : Std.HashSet String) (f : Func) : Except String Unit :=
  match noDupCheck (f.allDefs.map (·.1)) {} with
  | some t => .error s!"temporary %{t} defined more than once"
  | none =>
    if !labelsOk f then .error "jump to an unknown label" else
    match wfFuncPre sigs types f with
    | .error e => .error e
    | .ok () =>
      let c := computeCert f
      if flowOk f c then .ok () else .error (explainFlow f c)

/-! ## Module checks -/

def isPow2 (n : Nat) : Bool := n > 0 && n &&& (n - 1) == 0

def wfType (types : Std.HashSet String) (t : TypeDef) : Except String Unit := do
  errIf (types.contains t.name) s!"type :{t.name} defined twice"
  match t.align with
  | some a => errIf (!isPow2 a) s!"type :{t.name}: alignment {a} is not a power of two"
  | none => pure ()
  let chk (fs : List (FieldTy × Nat)) : Except String Unit :=
    for (ft, _) in fs do
      match ft with
      | .agg n =>
        errIf (!types.contains n) s!"type :{t.name}: member type :{n} is not defined earlier"
      | _ => pure ()
  match t.body with
  | .struct fs => chk fs
  | .union alts => for fs in alts do chk fs
  | .opaque _ => errIf t.align.isNone s!"opaque type :{t.name} without alignment"

def wfData (d : DataDef) : Except String Unit := do
  match d.align with
  | some a => errIf (!isPow2 a) s!"data ${d.name}: alignment {a} is not a power of two"
  | none => pure ()
  for it in d.items do
    match it with
    | .zero _ => pure ()
    | .vals t vs =>
      for v in vs do
        match v, t with
        | .str _, .b => pure ()
        | .str _, _ => throw s!"data ${d.name}: string in a non-byte item"
        | .fs _, .s => pure ()
        | .fs _, _ => throw s!"data ${d.name}: s_ literal in a non-s item"
        | .fd _, .d => pure ()
        | .fd _, _ => throw s!"data ${d.name}: d_ literal in a non-d item"
        | .sym _ _, .l => pure ()
        | .sym _ _, _ => throw s!"data ${d.name}: symbol in a non-l item"
        | .int _, _ => pure ()

def Func.sig (f : Func) : Sig := ⟨f.ret, f.params.map (·.1), f.variadic⟩

def wfDefs (sigs : SigMap) : List Def → Std.HashSet String → Std.HashSet String →
    Except String Unit
  | [], _, _ => .ok ()
  | .type t :: rest, types, syms =>
    match wfType types t with
    | .error e => .error e
    | .ok () => wfDefs sigs rest (types.insert t.name) syms
  | .data d :: rest, types, syms =>
    if syms.contains d.name then .error s!"symbol ${d.name} defined twice" else
    match wfData d with
    | .error e => .error e
    | .ok () => wfDefs sigs rest types (syms.insert d.name)
  | .func f :: rest, types, syms =>
    if syms.contains f.name then .error s!"symbol ${f.name} defined twice" else
    match wfFunc sigs types f with
    | .error e => .error s!"function ${f.name}: {e}"
    | .ok () => wfDefs sigs rest types (syms.insert f.name)

def wf (m : Module) : Except String Unit :=
  let sigs : SigMap := m.funcs.foldl (fun h f => h.insertIfNew f.name f.sig) {}
  wfDefs sigs m.defs.toList {} {}

end CprocVerif.Qbe

/-
  QBE intermediate language, as emitted by cproc (`/repo/qbe.c`): abstract syntax and an
  executable small-step semantics.

  * Syntax follows the QBE IL reference (c9x.me/compile/doc/il.html) restricted to what
    `qbe.c:emittype/emitdata/emitfunc/emitinst/emitjump` can print (plus a few cheap
    generalisations: several phis per block, any number of phi sources, `sb ub sh uh` in
    signatures, `loadsw`/`loaduw`, negative integer literals).  `blit` is never emitted by cproc
    and is not part of this syntax.
  * The semantics is a deterministic machine `step : Prog → Ext → State → Step`; `run` iterates it
    with fuel.  No `partial def`.
-/
import Std

namespace CprocVerif.Qbe

/-! ## Abstract syntax -/

/-- Base classes of temporaries. -/
inductive Cls where
  | w | l | s | d
  deriving DecidableEq, Repr, Inhabited

def Cls.name : Cls → String
  | .w => "w" | .l => "l" | .s => "s" | .d => "d"

/-- Types that can appear in signatures, call arguments and call results. -/
inductive Ty where
  | base (k : Cls)
  | sb | ub | sh | uh
  | agg (name : String)
  deriving DecidableEq, Repr, Inhabited

/-- The class of the temporary that carries a value of this type. -/
def Ty.cls : Ty → Cls
  | .base k => k
  | .sb | .ub | .sh | .uh => .w
  | .agg _ => .l

def Ty.name : Ty → String
  | .base k => k.name
  | .sb => "sb" | .ub => "ub" | .sh => "sh" | .uh => "uh"
  | .agg n => ":" ++ n

/-- Values (instruction operands). Constants are kept as bit patterns. -/
inductive Val where
  | tmp (name : String)
  | glob (name : String) (thread : Bool)
  | int (n : UInt64)
  | fs (bits : UInt32)
  | fd (bits : UInt64)
  deriving DecidableEq, Repr, Inhabited

inductive ICmp where
  | eq | ne | sle | slt | sge | sgt | ule | ult | uge | ugt
  deriving DecidableEq, Repr, Inhabited

inductive FCmp where
  | eq | ne | le | lt | ge | gt | o | uo
  deriving DecidableEq, Repr, Inhabited

/-- Memory access widths for stores. -/
inductive StoreTy where
  | d | s | l | w | h | b
  deriving DecidableEq, Repr, Inhabited

inductive LoadTy where
  | d | s | l | w | sw | uw | sh | uh | sb | ub
  deriving DecidableEq, Repr, Inhabited

/-- All opcodes of `/repo/ops.h` except `call` (which has its own instruction form). -/
inductive Op where
  | add | sub | neg | div | mul | udiv | rem | urem | or | xor | and | sar | shr | shl
  | store (t : StoreTy)
  | load (t : LoadTy)
  | alloc (align : Nat)            -- 4, 8, 16
  | cmpw (c : ICmp) | cmpl (c : ICmp) | cmps (c : FCmp) | cmpd (c : FCmp)
  | extsw | extuw | extsh | extuh | extsb | extub
  | exts | truncd | stosi | stoui | dtosi | dtoui | swtof | uwtof | sltof | ultof
  | cast | copy
  | vastart | vaarg
  deriving DecidableEq, Repr, Inhabited

inductive Ins where
  /-- `[%res =k] op a0[, a1]` -/
  | op (res : Option (String × Cls)) (o : Op) (args : List Val)
  /-- `[%res =ty] call callee(ty a, ..., [...,] ty b)`; `varAt = some i` when the `...` marker
      stands before argument number `i`. -/
  | call (res : Option (String × Ty)) (callee : Val) (args : List (Ty × Val)) (varAt : Option Nat)
  deriving Repr, Inhabited

structure Phi where
  res : String
  k : Cls
  srcs : List (String × Val)
  deriving Repr, Inhabited

inductive Jump where
  | jmp (l : String)
  | jnz (v : Val) (ifNz ifZ : String)
  | ret (v : Option Val)
  | hlt
  deriving Repr, Inhabited

structure Block where
  label : String
  phis : List Phi
  ins : Array Ins
  /-- `none`: fall through into the textually next block. -/
  term : Option Jump
  deriving Repr, Inhabited

structure Func where
  «export» : Bool
  ret : Option Ty
  name : String
  params : List (Ty × String)
  variadic : Bool
  blocks : Array Block
  deriving Repr, Inhabited

inductive FieldTy where
  | b | h | w | l | s | d
  | agg (name : String)
  deriving DecidableEq, Repr, Inhabited

inductive TypeBody where
  | struct (fields : List (FieldTy × Nat))
  | union (alts : List (List (FieldTy × Nat)))
  | opaque (size : Nat)
  deriving Repr, Inhabited

structure TypeDef where
  name : String
  align : Option Nat
  body : TypeBody
  deriving Repr, Inhabited

inductive DataVal where
  | int (n : UInt64)
  | sym (name : String) (addend : UInt64)
  | str (bytes : ByteArray)
  | fs (bits : UInt32)
  | fd (bits : UInt64)
  deriving Inhabited

/-- Width letter of a data item: `b h w l s d`. -/
inductive DataTy where
  | b | h | w | l | s | d
  deriving DecidableEq, Repr, Inhabited

def DataTy.size : DataTy → Nat
  | .b => 1 | .h => 2 | .w => 4 | .l => 8 | .s => 4 | .d => 8

inductive DataItem where
  | zero (n : Nat)
  | vals (t : DataTy) (vs : List DataVal)
  deriving Inhabited

structure DataDef where
  name : String
  «export» : Bool
  thread : Bool
  align : Option Nat
  items : List DataItem
  deriving Inhabited

inductive Def where
  | type (t : TypeDef)
  | data (d : DataDef)
  | func (f : Func)
  deriving Inhabited

/-- A module: the definitions in textual order. -/
structure Module where
  defs : Array Def
  deriving Inhabited

def Module.funcs (m : Module) : List Func :=
  m.defs.toList.filterMap fun | .func f => some f | _ => none

def Module.datas (m : Module) : List DataDef :=
  m.defs.toList.filterMap fun | .data d => some d | _ => none

def Module.types (m : Module) : List TypeDef :=
  m.defs.toList.filterMap fun | .type t => some t | _ => none

/-! ### Definitions and uses of temporaries -/

def Val.tmps : Val → List String
  | .tmp n => [n]
  | _ => []

def Ins.defn : Ins → Option String
  | .op res _ _ => res.map (·.1)
  | .call res _ _ _ => res.map (·.1)

/-- The operand values of an instruction, in evaluation order. -/
def Ins.operands : Ins → List Val
  | .op _ _ args => args
  | .call _ callee args _ => callee :: args.map (·.2)

def Jump.operands : Jump → List Val
  | .jnz v _ _ => [v]
  | .ret (some v) => [v]
  | _ => []

def Jump.targets : Jump → List String
  | .jmp l => [l]
  | .jnz _ a b => [a, b]
  | _ => []

/-! ## Layout of aggregate types and data -/

structure TypeInfo where
  size : Nat
  align : Nat
  deriving Repr, Inhabited, DecidableEq

def alignUp (n a : Nat) : Nat := if a ≤ 1 then n else (n + a - 1) / a * a

abbrev TypeTable := Std.HashMap String TypeInfo

def FieldTy.info (tt : TypeTable) : FieldTy → TypeInfo
  | .b => ⟨1, 1⟩ | .h => ⟨2, 2⟩ | .w => ⟨4, 4⟩ | .l => ⟨8, 8⟩ | .s => ⟨4, 4⟩ | .d => ⟨8, 8⟩
  | .agg n => (tt[n]?).getD ⟨0, 1⟩

/-- QBE's natural layout of a field list: every field at the next multiple of its alignment.
    Returns (unpadded size, alignment). -/
def layoutFields (tt : TypeTable) (fs : List (FieldTy × Nat)) : Nat × Nat :=
  fs.foldl (fun (acc : Nat × Nat) (fc : FieldTy × Nat) =>
    let i := fc.1.info tt
    (alignUp acc.1 i.align + fc.2 * i.size, max acc.2 i.align)) (0, 1)

def TypeDef.info (tt : TypeTable) (t : TypeDef) : TypeInfo :=
  let ea := t.align.getD 1
  match t.body with
  | .opaque sz => ⟨sz, max ea 1⟩
  | .struct fs =>
    let r := layoutFields tt fs
    let a := max ea r.2
    ⟨alignUp r.1 a, a⟩
  | .union alts =>
    let r := alts.foldl (fun (acc : Nat × Nat) fs =>
      let x := layoutFields tt fs
      (max acc.1 x.1, max acc.2 x.2)) (0, 1)
    let a := max ea r.2
    ⟨alignUp r.1 a, a⟩

/-- Sizes and alignments of all aggregate types; a type only sees the types defined before it. -/
def Module.typeTable (m : Module) : TypeTable :=
  m.defs.foldl (fun tt d => match d with
    | .type t => tt.insert t.name (t.info tt)
    | _ => tt) {}

def typeSize (m : Module) (name : String) : Option Nat := (m.typeTable[name]?).map (·.size)
def typeAlign (m : Module) (name : String) : Option Nat := (m.typeTable[name]?).map (·.align)

structure Reloc where
  off : Nat
  sym : String
  addend : UInt64
  deriving Repr, Inhabited

/-- Append the `n` low bytes of `v`, little-endian. -/
def pushLE (b : ByteArray) (v : UInt64) : Nat → ByteArray
  | 0 => b
  | n+1 => pushLE (b.push v.toUInt8) (v >>> 8) n

def pushZeros (b : ByteArray) : Nat → ByteArray
  | 0 => b
  | n+1 => pushZeros (b.push 0) n

/-- The initial image of a data definition; symbol references are zero bytes plus a relocation. -/
def DataDef.image (d : DataDef) : ByteArray × Array Reloc :=
  d.items.foldl (fun (acc : ByteArray × Array Reloc) it =>
    match it with
    | .zero n => (pushZeros acc.1 n, acc.2)
    | .vals t vs =>
      vs.foldl (fun (acc : ByteArray × Array Reloc) v =>
        match v with
        | .int n => (pushLE acc.1 n t.size, acc.2)
        | .fs bits => (pushLE acc.1 bits.toUInt64 t.size, acc.2)
        | .fd bits => (pushLE acc.1 bits t.size, acc.2)
        | .str s => (acc.1 ++ s, acc.2)
        | .sym n a => (pushZeros acc.1 t.size, acc.2.push ⟨acc.1.size, n, a⟩)) acc)
    (ByteArray.empty, #[])

def dataSize (d : DataDef) : Nat := d.image.1.size

/-- QBE aligns data without explicit `align` to 8. -/
def dataAlign (d : DataDef) : Nat := max 1 (d.align.getD 8)

/-! ## Run-time values -/

/-- Kind of a run-time value: the four classes, `c` for an integer literal (usable as `w` or `l`),
    `u` for the undefined result of a call whose callee executed `ret` without a value. -/
inductive Kind where
  | w | l | s | d | c | u
  deriving DecidableEq, Repr, Inhabited

def Cls.kind : Cls → Kind
  | .w => .w | .l => .l | .s => .s | .d => .d

structure RVal where
  kind : Kind
  bits : UInt64
  deriving DecidableEq, Repr, Inhabited

/-- Errors raised while executing one operation on already evaluated operands.  None of them is one
    of the "well-formedness" stuck states (`StuckReason.undefTemp`, …). -/
inductive OpErr where
  | trap (reason : String)
  | oob (what : String)
  | mismatch (what : String)
  | unsupported (what : String)
  | unknownExtern (name : String)
  | exit (status : UInt32)
  deriving DecidableEq, Repr, Inhabited

inductive StuckReason where
  | undefTemp (t : String)
  | unknownLabel (l : String)
  | phiNoPred (block pred : String)
  | fellOffEnd
  | other (msg : String)
  deriving DecidableEq, Repr, Inhabited

inductive RetVal where
  | none
  | scalar (v : RVal)
  | agg (type : String) (bytes : ByteArray)
  deriving DecidableEq, Inhabited

/-- How a run ends. -/
inductive End where
  | ret (v : RetVal)
  | exit (status : UInt32)
  | trap (reason : String)
  | oob (what : String)
  | stuck (r : StuckReason)
  | unknownExtern (name : String)
  | unsupported (what : String)
  | fuel
  deriving DecidableEq, Inhabited

def OpErr.toEnd : OpErr → End
  | .trap r => .trap r
  | .oob w => .oob w
  | .mismatch w => .stuck (.other ("class mismatch: " ++ w))
  | .unsupported w => .unsupported w
  | .unknownExtern n => .unknownExtern n
  | .exit n => .exit n

def mask32 : UInt64 := 0xffffffff

def RVal.asW (v : RVal) : Except OpErr UInt64 :=
  match v.kind with
  | .w | .l | .c => .ok (v.bits &&& mask32)
  | .u => .error (.mismatch "use of undefined call result")
  | _ => .error (.mismatch "float value used as w")

def RVal.asL (v : RVal) : Except OpErr UInt64 :=
  match v.kind with
  | .l | .c => .ok v.bits
  | .w => .error (.mismatch "w value used as l")
  | .u => .error (.mismatch "use of undefined call result")
  | _ => .error (.mismatch "float value used as l")

def RVal.asS (v : RVal) : Except OpErr UInt64 :=
  match v.kind with
  | .s => .ok (v.bits &&& mask32)
  | .u => .error (.mismatch "use of undefined call result")
  | _ => .error (.mismatch "value used as s")

def RVal.asD (v : RVal) : Except OpErr UInt64 :=
  match v.kind with
  | .d => .ok v.bits
  | .u => .error (.mismatch "use of undefined call result")
  | _ => .error (.mismatch "value used as d")

/-- The bits of `v` read at class `k` (`w` and `s` results have zero upper halves). -/
def RVal.asK (k : Cls) (v : RVal) : Except OpErr UInt64 :=
  match k with
  | .w => v.asW | .l => v.asL | .s => v.asS | .d => v.asD

/-- Convert a value to class `k` (used for phis, parameters, copies, returns). -/
def RVal.coerce (k : Cls) (v : RVal) : Except OpErr RVal :=
  match v.asK k with
  | .ok b => .ok ⟨k.kind, b⟩
  | .error e => .error e

/-! ## Memory -/

structure Alloc where
  base : Nat
  size : Nat
  bytes : ByteArray
  deriving Inhabited

/-- Memory: global objects (ascending bases) and a stack of live allocations (descending bases,
    most recent last).  Every access has to lie inside one of these. -/
structure Mem where
  globals : Array Alloc
  stack : Array Alloc
  sp : Nat
  deriving Inhabited

@[noinline] def stackTop : Nat := 0x7f0000000000
/-- The stack region is 64 MiB. -/
@[noinline] def stackLimit : Nat := 0x7efffc000000
/-- Stack bytes consumed by every call (return address, saved registers). -/
def frameCost : Nat := 64
def globalBase : Nat := 0x10000
def codeBase : Nat := 0x1000
/-- Unused bytes left between two allocations, so that small overflows are caught. -/
def redZone : Nat := 16
def maxAlloc : Nat := 0x40000000

/-- First index in `[lo, hi)` at which the monotone predicate `p` holds (or `hi`). -/
def bsearch (p : Nat → Bool) : (fuel lo hi : Nat) → Nat
  | 0, lo, _ => lo
  | f+1, lo, hi =>
    if lo < hi then
      let mid := (lo + hi) / 2
      if p mid then bsearch p f lo mid else bsearch p f (mid + 1) hi
    else lo

inductive Region where
  | global | stack
  deriving DecidableEq, Repr, Inhabited

/-- `bsearch` specialised to allocation arrays: first index in `[lo, hi)` whose base is `≤ addr`
    (`le = true`, descending array) resp. `> addr` (`le = false`, ascending array). -/
def bsearchBase (a : Array Alloc) (addr : Nat) (le : Bool) : (fuel lo hi : Nat) → Nat
  | 0, lo, _ => lo
  | f+1, lo, hi =>
    if lo < hi then
      let mid := (lo + hi) / 2
      let b := (a.getD mid default).base
      if (if le then b ≤ addr else b > addr) then bsearchBase a addr le f lo mid
      else bsearchBase a addr le f (mid + 1) hi
    else lo

/-- The live allocation that contains the `n` bytes at `addr`. -/
def Mem.find (m : Mem) (addr n : Nat) : Option (Region × Nat) :=
  if addr ≥ stackLimit then
    let i := bsearchBase m.stack addr true 64 0 m.stack.size
    match m.stack[i]? with
    | some a => if a.base ≤ addr ∧ addr + n ≤ a.base + a.size then some (.stack, i) else none
    | none => none
  else
    let i := bsearchBase m.globals addr false 64 0 m.globals.size
    if i = 0 then none else
    match m.globals[i - 1]? with
    | some a => if a.base ≤ addr ∧ addr + n ≤ a.base + a.size then some (.global, i - 1) else none
    | none => none

def loadLE (b : ByteArray) (off : Nat) : Nat → UInt64
  | 0 => 0
  | n+1 => (b.get! off).toUInt64 ||| (loadLE b (off + 1) n <<< 8)

def storeLE (b : ByteArray) (off : Nat) (v : UInt64) : Nat → ByteArray
  | 0 => b
  | n+1 => storeLE (b.set! off v.toUInt8) (off + 1) (v >>> 8) n

def hexDigit (n : Nat) : Char :=
  if n < 10 then Char.ofNat (48 + n) else Char.ofNat (87 + n)

def hexFix : (digits : Nat) → Nat → String
  | 0, _ => ""
  | d+1, v => hexFix d (v / 16) ++ String.singleton (hexDigit (v % 16))

def oobMsg (what : String) (addr n : Nat) : OpErr :=
  .oob (what ++ " " ++ toString n ++ " bytes at 0x" ++ hexFix 12 addr)

def Mem.load (m : Mem) (addr n : Nat) : Except OpErr UInt64 :=
  match m.find addr n with
  | some (.stack, i) =>
    match m.stack[i]? with
    | some a => .ok (loadLE a.bytes (addr - a.base) n)
    | none => .error (oobMsg "load" addr n)
  | some (.global, i) =>
    match m.globals[i]? with
    | some a => .ok (loadLE a.bytes (addr - a.base) n)
    | none => .error (oobMsg "load" addr n)
  | none => .error (oobMsg "load" addr n)

def Mem.store (m : Mem) (addr n : Nat) (v : UInt64) : Except OpErr Mem :=
  match m.find addr n with
  | some (.stack, i) =>
    let ⟨g, st, sp⟩ := m
    .ok ⟨g, st.modify i (fun a => { a with bytes := storeLE a.bytes (addr - a.base) v n }), sp⟩
  | some (.global, i) =>
    let ⟨g, st, sp⟩ := m
    .ok ⟨g.modify i (fun a => { a with bytes := storeLE a.bytes (addr - a.base) v n }), st, sp⟩
  | none => .error (oobMsg "store" addr n)

def Mem.readBytes (m : Mem) (addr n : Nat) : Except OpErr ByteArray :=
  if n = 0 then .ok ByteArray.empty else
  match m.find addr n with
  | some (.stack, i) =>
    match m.stack[i]? with
    | some a => .ok (a.bytes.extract (addr - a.base) (addr - a.base + n))
    | none => .error (oobMsg "read" addr n)
  | some (.global, i) =>
    match m.globals[i]? with
    | some a => .ok (a.bytes.extract (addr - a.base) (addr - a.base + n))
    | none => .error (oobMsg "read" addr n)
  | none => .error (oobMsg "read" addr n)

def Mem.writeBytes (m : Mem) (addr : Nat) (src : ByteArray) : Except OpErr Mem :=
  if src.size = 0 then .ok m else
  match m.find addr src.size with
  | some (.stack, i) =>
    let ⟨g, st, sp⟩ := m
    .ok ⟨g, st.modify i (fun a =>
      { a with bytes := src.copySlice 0 a.bytes (addr - a.base) src.size }), sp⟩
  | some (.global, i) =>
    let ⟨g, st, sp⟩ := m
    .ok ⟨g.modify i (fun a =>
      { a with bytes := src.copySlice 0 a.bytes (addr - a.base) src.size }), st, sp⟩
  | none => .error (oobMsg "write" addr src.size)

/-- A fresh zero-filled stack allocation of `size` bytes whose base is a multiple of `align`. -/
def Mem.alloc (m : Mem) (size align : Nat) (init : Option ByteArray := none) :
    Except OpErr (Nat × Mem) :=
  if size > maxAlloc then .error (.trap "alloc too large") else
  let a := max align 1
  let base := (m.sp - redZone - size) / a * a
  if base < stackLimit + redZone then .error (.trap "stack overflow") else
  let bytes := match init with
    | some b => b
    | none => pushZeros (ByteArray.emptyWithCapacity size) size
  .ok (base, { m with stack := m.stack.push ⟨base, size, bytes⟩, sp := base })

/-- Release the allocations made since the marks were taken (function return). -/
def Mem.popTo (m : Mem) (stackMark spMark : Nat) : Mem :=
  { m with stack := m.stack.shrink stackMark, sp := spMark }

/-! ## Arithmetic -/

def sext (bits : Nat) (v : UInt64) : UInt64 :=
  let sh := (64 - bits).toUInt64
  ((v <<< sh).toInt64 >>> sh.toInt64).toUInt64

def boolBits (b : Bool) : UInt64 := if b then 1 else 0

/-- NaN results follow the x86-64 SSE rules (the reference platform of the differential checks):
    an operation on a NaN operand returns that operand quieted (the first one if both are NaN); an
    invalid operation on non-NaN operands (0/0, inf-inf, …) returns the "real indefinite" NaN,
    whose sign bit is set. -/
def canonNaN64 : UInt64 := 0xfff8000000000000
def canonNaN32 : UInt64 := 0xffc00000

def isNaN64 (b : UInt64) : Bool := (b &&& 0x7fffffffffffffff) > 0x7ff0000000000000
def isNaN32 (b : UInt64) : Bool := (b &&& 0x7fffffff) > 0x7f800000

/-- Result bits of a binary `d` operation with operand bits `a`, `b` and host result `r`. -/
def dRes (a b : UInt64) (r : Float) : UInt64 :=
  if isNaN64 a then a ||| 0x0008000000000000
  else if isNaN64 b then b ||| 0x0008000000000000
  else if r.isNaN then canonNaN64 else r.toBits

def sRes (a b : UInt64) (r : Float32) : UInt64 :=
  if isNaN32 a then (a &&& mask32) ||| 0x00400000
  else if isNaN32 b then (b &&& mask32) ||| 0x00400000
  else if r.isNaN then canonNaN32 else r.toBits.toUInt64

/-- `exts` / `truncd` of a NaN keep the sign and the upper payload bits. -/
def extsBits (a : UInt64) : UInt64 :=
  if isNaN32 a then (((a >>> 31) &&& 1) <<< 63) ||| (0x7ff8000000000000 : UInt64) ||| ((a &&& 0x7fffff) <<< 29)
  else (Float32.ofBits a.toUInt32).toFloat.toBits

def truncdBits (a : UInt64) : UInt64 :=
  if isNaN64 a then ((a >>> 63) <<< 31) ||| (0x7fc00000 : UInt64) ||| ((a &&& 0xfffffffffffff) >>> 29)
  else (Float.ofBits a).toFloat32.toBits.toUInt64

def dBits (f : Float) : UInt64 := if f.isNaN then canonNaN64 else f.toBits
def sBits (f : Float32) : UInt64 := if f.isNaN then canonNaN32 else f.toBits.toUInt64

def toF (b : UInt64) : Float := Float.ofBits b
def toF32 (b : UInt64) : Float32 := Float32.ofBits b.toUInt32

def icmp32 (c : ICmp) (a b : UInt64) : Bool :=
  let x := a.toUInt32; let y := b.toUInt32
  match c with
  | .eq => x == y | .ne => x != y
  | .sle => x.toInt32 ≤ y.toInt32 | .slt => x.toInt32 < y.toInt32
  | .sge => x.toInt32 ≥ y.toInt32 | .sgt => x.toInt32 > y.toInt32
  | .ule => x ≤ y | .ult => x < y | .uge => x ≥ y | .ugt => x > y

def icmp64 (c : ICmp) (x y : UInt64) : Bool :=
  match c with
  | .eq => x == y | .ne => x != y
  | .sle => x.toInt64 ≤ y.toInt64 | .slt => x.toInt64 < y.toInt64
  | .sge => x.toInt64 ≥ y.toInt64 | .sgt => x.toInt64 > y.toInt64
  | .ule => x ≤ y | .ult => x < y | .uge => x ≥ y | .ugt => x > y

def fcmp64 (c : FCmp) (x y : Float) : Bool :=
  match c with
  | .eq => x == y | .ne => x != y
  | .le => x ≤ y | .lt => x < y | .ge => x ≥ y | .gt => x > y
  | .o => !(x.isNaN || y.isNaN) | .uo => x.isNaN || y.isNaN

def fcmp32 (c : FCmp) (x y : Float32) : Bool :=
  match c with
  | .eq => x == y | .ne => x != y
  | .le => x ≤ y | .lt => x < y | .ge => x ≥ y | .gt => x > y
  | .o => !(x.isNaN || y.isNaN) | .uo => x.isNaN || y.isNaN

/-- Binary arithmetic on operand bits already read at class `k`. -/
def arith2 (o : Op) (k : Cls) (a b : UInt64) : Except OpErr UInt64 :=
  match k with
  | .w =>
    let x := a.toUInt32; let y := b.toUInt32
    match o with
    | .add => .ok (x + y).toUInt64
    | .sub => .ok (x - y).toUInt64
    | .mul => .ok (x * y).toUInt64
    | .div =>
      if y == 0 then .error (.trap "division by zero")
      else if x == 0x80000000 && y == 0xffffffff then .error (.trap "division overflow")
      else .ok (x.toInt32 / y.toInt32).toUInt32.toUInt64
    | .rem =>
      if y == 0 then .error (.trap "division by zero")
      else if x == 0x80000000 && y == 0xffffffff then .error (.trap "division overflow")
      else .ok (x.toInt32 % y.toInt32).toUInt32.toUInt64
    | .udiv => if y == 0 then .error (.trap "division by zero") else .ok (x / y).toUInt64
    | .urem => if y == 0 then .error (.trap "division by zero") else .ok (x % y).toUInt64
    | .or => .ok (x ||| y).toUInt64
    | .xor => .ok (x ^^^ y).toUInt64
    | .and => .ok (x &&& y).toUInt64
    | .sar => .ok (x.toInt32 >>> (y % 32).toInt32).toUInt32.toUInt64
    | .shr => .ok (x >>> (y % 32)).toUInt64
    | .shl => .ok (x <<< (y % 32)).toUInt64
    | _ => .error (.mismatch "not a binary integer operation")
  | .l =>
    match o with
    | .add => .ok (a + b)
    | .sub => .ok (a - b)
    | .mul => .ok (a * b)
    | .div =>
      if b == 0 then .error (.trap "division by zero")
      else if a == 0x8000000000000000 && b == 0xffffffffffffffff then
        .error (.trap "division overflow")
      else .ok (a.toInt64 / b.toInt64).toUInt64
    | .rem =>
      if b == 0 then .error (.trap "division by zero")
      else if a == 0x8000000000000000 && b == 0xffffffffffffffff then
        .error (.trap "division overflow")
      else .ok (a.toInt64 % b.toInt64).toUInt64
    | .udiv => if b == 0 then .error (.trap "division by zero") else .ok (a / b)
    | .urem => if b == 0 then .error (.trap "division by zero") else .ok (a % b)
    | .or => .ok (a ||| b)
    | .xor => .ok (a ^^^ b)
    | .and => .ok (a &&& b)
    -- the shift count is a `w` operand; only its low 6 bits matter
    | .sar => .ok (a.toInt64 >>> (b % 64).toInt64).toUInt64
    | .shr => .ok (a >>> (b % 64))
    | .shl => .ok (a <<< (b % 64))
    | _ => .error (.mismatch "not a binary integer operation")
  | .s =>
    let x := toF32 a; let y := toF32 b
    match o with
    | .add => .ok (sRes a b (x + y))
    | .sub => .ok (sRes a b (x - y))
    | .mul => .ok (sRes a b (x * y))
    | .div => .ok (sRes a b (x / y))
    | _ => .error (.mismatch "not a float operation")
  | .d =>
    let x := toF a; let y := toF b
    match o with
    | .add => .ok (dRes a b (x + y))
    | .sub => .ok (dRes a b (x - y))
    | .mul => .ok (dRes a b (x * y))
    | .div => .ok (dRes a b (x / y))
    | _ => .error (.mismatch "not a float operation")

/-- Truncate 64 result bits to an integer class. -/
def truncTo (k : Cls) (v : UInt64) : Except OpErr UInt64 :=
  match k with
  | .w => .ok (v &&& mask32)
  | .l => .ok v
  | _ => .error (.mismatch "integer result in float class")

def two63 : Float := 9223372036854775808.0
def two63f : Float32 := 9223372036854775808.0

/-- float → unsigned 64: values below 2^63 go through the signed conversion (so small negative
    values wrap, as QBE's amd64 lowering does), larger ones through the unsigned one. -/
def dToU64 (x : Float) : UInt64 := if x < two63 then x.toInt64.toUInt64 else x.toUInt64
def sToU64 (x : Float32) : UInt64 := if x < two63f then x.toInt64.toUInt64 else x.toUInt64

def loadInfo : LoadTy → Nat × Bool   -- (bytes, sign-extend)
  | .d => (8, false) | .s => (4, false) | .l => (8, false)
  | .w => (4, true) | .sw => (4, true) | .uw => (4, false)
  | .sh => (2, true) | .uh => (2, false) | .sb => (1, true) | .ub => (1, false)

def storeSize : StoreTy → Nat
  | .d => 8 | .s => 4 | .l => 8 | .w => 4 | .h => 2 | .b => 1

def needRes (k : Option Cls) : Except OpErr Cls :=
  match k with
  | some k => .ok k
  | none => .error (.mismatch "operation needs a result class")

def dummy : RVal := ⟨.u, 0⟩

/-- Execute one non-call operation on evaluated operands.  `va` is the variadic argument area of
    the current activation (`none` in a non-variadic function). -/
def execOp (o : Op) (k : Option Cls) (vs : List RVal) (mem : Mem) (va : Option ByteArray) :
    Except OpErr (RVal × Mem) :=
  match o, vs with
  | .add, [a, b] | .sub, [a, b] | .mul, [a, b] | .div, [a, b] | .udiv, [a, b] | .rem, [a, b]
  | .urem, [a, b] | .or, [a, b] | .xor, [a, b] | .and, [a, b] => do
    let k ← needRes k
    let x ← a.asK k
    let y ← b.asK k
    let r ← arith2 o k x y
    pure (⟨k.kind, r⟩, mem)
  | .sar, [a, b] | .shr, [a, b] | .shl, [a, b] => do
    let k ← needRes k
    let x ← a.asK k
    let y ← b.asW
    let r ← arith2 o k x y
    pure (⟨k.kind, r⟩, mem)
  | .neg, [a] => do
    let k ← needRes k
    let x ← a.asK k
    match k with
    | .w => pure (⟨.w, (0 - x.toUInt32).toUInt64⟩, mem)
    | .l => pure (⟨.l, 0 - x⟩, mem)
    | .s => pure (⟨.s, x ^^^ 0x80000000⟩, mem)
    | .d => pure (⟨.d, x ^^^ 0x8000000000000000⟩, mem)
  | .store t, [v, addr] => do
    let a ← addr.asL
    let x ← match t with
      | .d => v.asD | .s => v.asS | .l => v.asL | _ => v.asW
    let mem ← mem.store a.toNat (storeSize t) x
    pure (dummy, mem)
  | .load t, [addr] => do
    let k ← needRes k
    let a ← addr.asL
    let (n, signed) := loadInfo t
    let x ← mem.load a.toNat n
    match t, k with
    | .d, .d => pure (⟨.d, x⟩, mem)
    | .s, .s => pure (⟨.s, x⟩, mem)
    | .l, .l => pure (⟨.l, x⟩, mem)
    | .d, _ | .s, _ | .l, _ => throw (.mismatch "load result class")
    | _, _ =>
      let y := if signed then sext (8 * n) x else x
      let r ← truncTo k y
      pure (⟨k.kind, r⟩, mem)
  | .alloc al, [sz] => do
    let n ← sz.asL
    let (addr, mem) ← mem.alloc n.toNat al
    pure (⟨.l, addr.toUInt64⟩, mem)
  | .cmpw c, [a, b] => do
    let k ← needRes k
    let x ← a.asW
    let y ← b.asW
    let r ← truncTo k (boolBits (icmp32 c x y))
    pure (⟨k.kind, r⟩, mem)
  | .cmpl c, [a, b] => do
    let k ← needRes k
    let x ← a.asL
    let y ← b.asL
    let r ← truncTo k (boolBits (icmp64 c x y))
    pure (⟨k.kind, r⟩, mem)
  | .cmps c, [a, b] => do
    let k ← needRes k
    let x ← a.asS
    let y ← b.asS
    let r ← truncTo k (boolBits (fcmp32 c (toF32 x) (toF32 y)))
    pure (⟨k.kind, r⟩, mem)
  | .cmpd c, [a, b] => do
    let k ← needRes k
    let x ← a.asD
    let y ← b.asD
    let r ← truncTo k (boolBits (fcmp64 c (toF x) (toF y)))
    pure (⟨k.kind, r⟩, mem)
  | .extsw, [a] => do
    let k ← needRes k
    let x ← a.asW
    let r ← truncTo k (sext 32 x)
    pure (⟨k.kind, r⟩, mem)
  | .extuw, [a] => do
    let k ← needRes k
    let x ← a.asW
    let r ← truncTo k x
    pure (⟨k.kind, r⟩, mem)
  | .extsh, [a] => do
    let k ← needRes k
    let x ← a.asW
    let r ← truncTo k (sext 16 x)
    pure (⟨k.kind, r⟩, mem)
  | .extuh, [a] => do
    let k ← needRes k
    let x ← a.asW
    let r ← truncTo k (x &&& 0xffff)
    pure (⟨k.kind, r⟩, mem)
  | .extsb, [a] => do
    let k ← needRes k
    let x ← a.asW
    let r ← truncTo k (sext 8 x)
    pure (⟨k.kind, r⟩, mem)
  | .extub, [a] => do
    let k ← needRes k
    let x ← a.asW
    let r ← truncTo k (x &&& 0xff)
    pure (⟨k.kind, r⟩, mem)
  | .exts, [a] => do
    let x ← a.asS
    match k with
    | some .d => pure (⟨.d, extsBits x⟩, mem)
    | _ => throw (.mismatch "exts result class")
  | .truncd, [a] => do
    let x ← a.asD
    match k with
    | some .s => pure (⟨.s, truncdBits x⟩, mem)
    | _ => throw (.mismatch "truncd result class")
  | .stosi, [a] => do
    let k ← needRes k
    let x ← a.asS
    let r ← truncTo k (toF32 x).toInt64.toUInt64
    pure (⟨k.kind, r⟩, mem)
  | .stoui, [a] => do
    let k ← needRes k
    let x ← a.asS
    let r ← match k with
      | .w => truncTo k (toF32 x).toInt64.toUInt64
      | _ => truncTo k (sToU64 (toF32 x))
    pure (⟨k.kind, r⟩, mem)
  | .dtosi, [a] => do
    let k ← needRes k
    let x ← a.asD
    let r ← truncTo k (toF x).toInt64.toUInt64
    pure (⟨k.kind, r⟩, mem)
  | .dtoui, [a] => do
    let k ← needRes k
    let x ← a.asD
    let r ← match k with
      | .w => truncTo k (toF x).toInt64.toUInt64
      | _ => truncTo k (dToU64 (toF x))
    pure (⟨k.kind, r⟩, mem)
  | .swtof, [a] => do
    let x ← a.asW
    match k with
    | some .s => pure (⟨.s, sBits x.toUInt32.toInt32.toInt64.toFloat32⟩, mem)
    | some .d => pure (⟨.d, dBits x.toUInt32.toInt32.toInt64.toFloat⟩, mem)
    | _ => throw (.mismatch "swtof result class")
  | .uwtof, [a] => do
    let x ← a.asW
    match k with
    | some .s => pure (⟨.s, sBits x.toFloat32⟩, mem)
    | some .d => pure (⟨.d, dBits x.toFloat⟩, mem)
    | _ => throw (.mismatch "uwtof result class")
  | .sltof, [a] => do
    let x ← a.asL
    match k with
    | some .s => pure (⟨.s, sBits x.toInt64.toFloat32⟩, mem)
    | some .d => pure (⟨.d, dBits x.toInt64.toFloat⟩, mem)
    | _ => throw (.mismatch "sltof result class")
  | .ultof, [a] => do
    let x ← a.asL
    match k with
    | some .s => pure (⟨.s, sBits x.toFloat32⟩, mem)
    | some .d => pure (⟨.d, dBits x.toFloat⟩, mem)
    | _ => throw (.mismatch "ultof result class")
  | .cast, [a] => do
    match k with
    | some .w => let x ← a.asS; pure (⟨.w, x⟩, mem)
    | some .l => let x ← a.asD; pure (⟨.l, x⟩, mem)
    | some .s => let x ← a.asW; pure (⟨.s, x⟩, mem)
    | some .d => let x ← a.asL; pure (⟨.d, x⟩, mem)
    | none => throw (.mismatch "cast without result")
  | .copy, [a] => do
    let k ← needRes k
    let r ← a.coerce k
    pure (r, mem)
  | .vastart, [ap] => do
    -- the va_list object receives, in its first 8 bytes, a pointer to a fresh stack area holding
    -- the variadic arguments as consecutive 8-byte slots; nothing else is written
    let a ← ap.asL
    match va with
    | none => throw (.mismatch "vastart in a non-variadic function")
    | some area =>
      let (base, mem) ← mem.alloc area.size 8 (some area)
      let mem ← mem.store a.toNat 8 base.toUInt64
      pure (dummy, mem)
  | .vaarg, [ap] => do
    let k ← needRes k
    let a ← ap.asL
    let cur ← mem.load a.toNat 8
    let x ← mem.load cur.toNat 8
    let mem ← mem.store a.toNat 8 (cur + 8)
    match k with
    | .w | .s => pure (⟨k.kind, x &&& mask32⟩, mem)
    | _ => pure (⟨k.kind, x⟩, mem)
  | _, _ => .error (.mismatch "wrong number of operands")

/-! ## External functions -/

structure ExtResult where
  ret : RVal
  mem : Mem
  out : List String

/-- External functions: `none` means "not known". -/
abbrev Ext := String → List RVal → Mem → Option (Except OpErr ExtResult)

def noExt : Ext := fun _ _ _ => none

def intBits (v : RVal) : Except OpErr UInt64 :=
  match v.kind with
  | .w | .l | .c => .ok v.bits
  | _ => .error (.mismatch "integer argument expected")

/-- Length of the NUL-terminated string starting at offset `off` of `b`, if terminated. -/
def strlenIn (b : ByteArray) (off : Nat) : (fuel : Nat) → Nat → Option Nat
  | 0, _ => none
  | f+1, n => if off + n < b.size then
      (if b.get! (off + n) == 0 then some n else strlenIn b off f (n + 1)) else none

def cmpBytes (a b : ByteArray) : (fuel i : Nat) → UInt64
  | 0, _ => 0
  | f+1, i =>
    if i < a.size ∧ i < b.size then
      let x := a.get! i; let y := b.get! i
      if x == y then cmpBytes a b f (i + 1)
      else if x < y then 0xffffffff else 1
    else 0

/-- The built-in externals: `out outw outd outs memcpy memset memcmp strlen abort exit`. -/
def builtinExt : Ext := fun name args mem =>
  match name, args with
  | "out", [a] => some do
      let x ← intBits a
      pure ⟨dummy, mem, ["out " ++ toString x.toNat]⟩
  | "outw", [a] => some do
      let x ← a.asW
      pure ⟨dummy, mem, ["outw " ++ toString x.toNat]⟩
  | "outd", [a] => some do
      let x ← a.asD
      pure ⟨dummy, mem, ["outd 0x" ++ hexFix 16 x.toNat]⟩
  | "outs", [a] => some do
      let x ← a.asS
      pure ⟨dummy, mem, ["outs 0x" ++ hexFix 8 x.toNat]⟩
  | "memcpy", [d, s, n] => some do
      let d' ← d.asL
      let s' ← s.asL
      let n' ← intBits n
      let b ← mem.readBytes s'.toNat n'.toNat
      let mem ← mem.writeBytes d'.toNat b
      pure ⟨⟨.l, d'⟩, mem, []⟩
  | "memset", [d, c, n] => some do
      let d' ← d.asL
      let c' ← c.asW
      let n' ← intBits n
      if n'.toNat > maxAlloc then throw (oobMsg "memset" d'.toNat n'.toNat)
      let b := ByteArray.mk (Array.replicate n'.toNat c'.toUInt8)
      let mem ← mem.writeBytes d'.toNat b
      pure ⟨⟨.l, d'⟩, mem, []⟩
  | "memcmp", [a, b, n] => some do
      let a' ← a.asL
      let b' ← b.asL
      let n' ← intBits n
      let x ← mem.readBytes a'.toNat n'.toNat
      let y ← mem.readBytes b'.toNat n'.toNat
      pure ⟨⟨.w, cmpBytes x y x.size 0⟩, mem, []⟩
  | "strlen", [s] => some do
      let s' ← s.asL
      match mem.find s'.toNat 1 with
      | none => throw (oobMsg "strlen" s'.toNat 1)
      | some (r, i) =>
        let al := match r with
          | .stack => mem.stack[i]?
          | .global => mem.globals[i]?
        match al with
        | none => throw (oobMsg "strlen" s'.toNat 1)
        | some al =>
          match strlenIn al.bytes (s'.toNat - al.base) al.size 0 with
          | some n => pure ⟨⟨.l, n.toUInt64⟩, mem, []⟩
          | none => throw (oobMsg "strlen (unterminated)" s'.toNat 1)
  | "abort", [] => some (.error (.trap "abort"))
  | "exit", [a] => some do
      let x ← a.asW
      throw (.exit x.toUInt32)
  | _, _ => none

/-! ## Programs (modules prepared for execution) -/

structure FuncInfo where
  f : Func
  /-- block label ↦ index of the first block with that label -/
  labelIdx : Std.HashMap String Nat

def mkLabelIdx (f : Func) : Std.HashMap String Nat :=
  (List.range f.blocks.size).foldl (fun h i =>
    match f.blocks[i]? with
    | some b => h.insertIfNew b.label i
    | none => h) {}

def FuncInfo.of (f : Func) : FuncInfo := ⟨f, mkLabelIdx f⟩

instance : Inhabited FuncInfo := ⟨FuncInfo.of default⟩

def mkFuncTable (fs : List Func) : Std.HashMap String FuncInfo :=
  fs.foldl (fun h f => h.insertIfNew f.name (FuncInfo.of f)) {}

structure Prog where
  funcs : Std.HashMap String FuncInfo
  types : TypeTable
  symAddr : Std.HashMap String Nat
  addrSym : Std.HashMap Nat String
  initMem : Mem

def Val.globs : Val → List String
  | .glob n _ => [n]
  | _ => []

/-- Every `$symbol` mentioned in the module that is not a data definition, in order of first
    appearance (functions first). -/
def Module.codeSyms (m : Module) : List String :=
  let fnames := m.funcs.map (·.name)
  let inFuncs := m.funcs.flatMap fun f =>
    f.blocks.toList.flatMap fun b =>
      (b.phis.flatMap fun p => p.srcs.flatMap (·.2.globs)) ++
      (b.ins.toList.flatMap fun i => i.operands.flatMap Val.globs) ++
      (match b.term with | some j => j.operands.flatMap Val.globs | none => [])
  let inData := m.datas.flatMap fun d => (d.image.2.toList.map (·.sym))
  fnames ++ inFuncs ++ inData

/-- Place the data objects: (allocations, symbol ↦ base, next free address). -/
def layoutData (ds : List DataDef) : Array Alloc × Std.HashMap String Nat × Nat :=
  ds.foldl
    (fun (acc : Array Alloc × Std.HashMap String Nat × Nat) d =>
      if acc.2.1.contains d.name then acc else
      let img := d.image.1
      let base := alignUp acc.2.2 (max (dataAlign d) 16)
      (acc.1.push ⟨base, img.size, img⟩, acc.2.1.insert d.name base, base + img.size + redZone))
    (#[], {}, globalBase)

/-- Give every other symbol a distinct address that is not backed by memory. -/
def layoutCode (syms : List String) (symAddr : Std.HashMap String Nat) :
    Std.HashMap String Nat × Std.HashMap Nat String × Nat :=
  syms.foldl
    (fun (acc : Std.HashMap String Nat × Std.HashMap Nat String × Nat) n =>
      if acc.1.contains n then acc
      else (acc.1.insert n acc.2.2, acc.2.1.insert acc.2.2 n, acc.2.2 + 16))
    (symAddr, {}, codeBase)

/-- Store the addresses of the symbols referenced from data definitions. -/
def applyRelocs (ds : List DataDef) (symAddr : Std.HashMap String Nat) (mem0 : Mem) : Mem :=
  ds.foldl (fun (mem : Mem) d =>
    match symAddr[d.name]? with
    | none => mem
    | some base =>
      d.image.2.foldl (fun (mem : Mem) r =>
        let target := ((symAddr[r.sym]?).getD 0).toUInt64 + r.addend
        match mem.store (base + r.off) 8 target with
        | .ok mem' => mem'
        | .error _ => mem) mem) mem0

def Prog.ofModule (m : Module) : Prog :=
  let ld := layoutData m.datas
  let lc := layoutCode m.codeSyms ld.2.1
  { funcs := mkFuncTable m.funcs
    types := m.typeTable
    symAddr := lc.1
    addrSym := lc.2.1
    initMem := applyRelocs m.datas lc.1 ⟨ld.1, #[], stackTop⟩ }

/-! ## The machine -/

abbrev Env := Std.HashMap String RVal

structure Frame where
  fi : FuncInfo
  env : Env
  /-- current block index and index of the next instruction in it -/
  bi : Nat
  ii : Nat
  stackMark : Nat
  spMark : Nat
  /-- variadic argument area (8-byte slots) when the function is variadic -/
  va : Option ByteArray

structure State where
  frames : List Frame
  mem : Mem
  trace : Array String

inductive Step where
  | next (s : State)
  | done (e : End) (trace : Array String)

/-- Read an operand. Only an undefined temporary can fail. -/
def readVal (p : Prog) (env : Env) : Val → Except StuckReason RVal
  | .tmp n => match env[n]? with
    | some v => .ok v
    | none => .error (.undefTemp n)
  | .glob n _ => .ok ⟨.l, ((p.symAddr[n]?).getD 0).toUInt64⟩
  | .int n => .ok ⟨.c, n⟩
  | .fs b => .ok ⟨.s, b.toUInt64⟩
  | .fd b => .ok ⟨.d, b⟩

def readVals (p : Prog) (env : Env) : List Val → Except StuckReason (List RVal)
  | [] => .ok []
  | v :: vs =>
    match readVal p env v with
    | .error e => .error e
    | .ok r =>
      match readVals p env vs with
      | .error e => .error e
      | .ok rs => .ok (r :: rs)

def bindRes (env : Env) (res : Option String) (v : RVal) : Env :=
  match res with
  | some x => env.insert x v
  | none => env

/-- Evaluate the phis of the block being entered from the block labelled `pred`; all phis read
    the environment of the predecessor. -/
def evalPhis (p : Prog) (env : Env) (blk pred : String) :
    List Phi → Except End (List (String × RVal))
  | [] => .ok []
  | ph :: rest =>
    match ph.srcs.find? (fun s => s.1 == pred) with
    | none => .error (.stuck (.phiNoPred blk pred))
    | some src =>
      match readVal p env src.2 with
      | .error r => .error (.stuck r)
      | .ok v =>
        match v.coerce ph.k with
        | .error e => .error e.toEnd
        | .ok v' =>
          match evalPhis p env blk pred rest with
          | .error e => .error e
          | .ok rs => .ok ((ph.res, v') :: rs)

def bindAll (env : Env) : List (String × RVal) → Env
  | [] => env
  | (x, v) :: rest => bindAll (env.insert x v) rest

/-- Transfer control of frame `fr` (currently in block `cur`) to block number `j`. -/
def gotoBlock (p : Prog) (fr : Frame) (rest : List Frame) (mem : Mem) (trace : Array String)
    (cur : Block) (j : Nat) : Step :=
  match fr.fi.f.blocks[j]? with
  | none => .done (.stuck .fellOffEnd) trace
  | some tb =>
    match evalPhis p fr.env tb.label cur.label tb.phis with
    | .error e => .done e trace
    | .ok bs =>
      .next ⟨{ fr with env := bindAll fr.env bs, bi := j, ii := 0 } :: rest, mem, trace⟩

/-- Is the argument type acceptable for the parameter type? -/
def tyCompat (a p : Ty) : Bool :=
  match a, p with
  | .agg x, .agg y => x == y
  | .agg _, _ | _, .agg _ => false
  | a, p => a.cls == p.cls

/-- Values bound to the parameters: scalars are coerced to the parameter class, aggregates are
    copied into a fresh allocation of the callee. -/
def prepArgs (p : Prog) : List (Ty × String) → List (Ty × RVal) → Mem →
    Except OpErr (List RVal × Mem)
  | [], _, mem => .ok ([], mem)
  | _ :: _, [], _ => .error (.mismatch "too few arguments in call")
  | (pt, _) :: ps, (at', v) :: as, mem =>
    if !tyCompat at' pt then .error (.mismatch "argument type differs from parameter type") else
    match pt with
    | .agg t =>
      match p.types[t]? with
      | none => .error (.mismatch ("unknown aggregate type :" ++ t))
      | some ti => do
        let a ← v.asL
        let bytes ← mem.readBytes a.toNat ti.size
        let (base, mem) ← mem.alloc ti.size (max ti.align 8) (some bytes)
        let (rs, mem) ← prepArgs p ps as mem
        pure (⟨.l, base.toUInt64⟩ :: rs, mem)
    | _ => do
      let v' ← v.coerce pt.cls
      let (rs, mem) ← prepArgs p ps as mem
      pure (v' :: rs, mem)

def bindParams (env : Env) : List (Ty × String) → List RVal → Env
  | (_, x) :: ps, v :: vs => bindParams (env.insert x v) ps vs
  | _, _ => env

/-- The variadic area: one 8-byte slot per scalar, aggregates copied and padded to 8 bytes. -/
def vaArea (p : Prog) (mem : Mem) : List (Ty × RVal) → ByteArray → Except OpErr ByteArray
  | [], acc => .ok acc
  | (t, v) :: rest, acc =>
    match t with
    | .agg n =>
      match p.types[n]? with
      | none => .error (.mismatch ("unknown aggregate type :" ++ n))
      | some ti => do
        let a ← v.asL
        let bytes ← mem.readBytes a.toNat ti.size
        vaArea p mem rest (pushZeros (acc ++ bytes) (alignUp ti.size 8 - ti.size))
    | _ => do
      let b ← v.asK t.cls
      vaArea p mem rest (pushLE acc b 8)

/-- A `...` marker in a call must stand at the position of the callee's `...`. -/
def markerBad (variadic : Bool) (np : Nat) : Option Nat → Bool
  | some i => !variadic || i != np
  | none => false

/-- Create the activation of `fi` for the given (typed) arguments. -/
def enterFunc (p : Prog) (fi : FuncInfo) (args : List (Ty × RVal)) (varAt : Option Nat)
    (mem : Mem) : Except OpErr (Frame × Mem) :=
  let np := fi.f.params.length
  let stackMark := mem.stack.size
  let spMark := mem.sp
  if mem.sp < stackLimit + redZone + frameCost then .error (.trap "stack overflow") else
  let mem := { mem with sp := mem.sp - frameCost }
  if args.length < np then .error (.mismatch "too few arguments in call") else
  if !fi.f.variadic && args.length != np then .error (.mismatch "too many arguments in call") else
  if markerBad fi.f.variadic np varAt then
    .error (.mismatch "misplaced variadic marker in call") else
  match vaArea p mem (args.drop np) ByteArray.empty with
  | .error e => .error e
  | .ok area =>
    match prepArgs p fi.f.params args mem with
    | .error e => .error e
    | .ok (vals, mem) =>
      if vals.length != np then .error (.mismatch "internal: parameter count") else
      .ok ({ fi, env := bindParams {} fi.f.params vals, bi := 0, ii := 0, stackMark, spMark,
             va := if fi.f.variadic then some area else none }, mem)

/-- Resolve the callee operand of a call to a symbol name. -/
def calleeName (p : Prog) (callee : Val) (cv : RVal) : Except OpErr String :=
  match callee with
  | .glob n _ => .ok n
  | _ =>
    match cv.asL with
    | .error e => .error e
    | .ok a =>
      match p.addrSym[a.toNat]? with
      | some n => .ok n
      | none => .error (.trap "indirect call to a non-function address")

def zipTys : List (Ty × Val) → List RVal → List (Ty × RVal)
  | (t, _) :: as, v :: vs => (t, v) :: zipTys as vs
  | _, _ => []

/-- The value delivered by `ret` in frame `fr`. -/
def retValue (p : Prog) (fr : Frame) (mem : Mem) (v : Option RVal) : Except OpErr RetVal :=
  match fr.fi.f.ret, v with
  | _, none => .ok .none
  | none, some _ => .error (.mismatch "ret with a value in a function without return type")
  | some (.agg t), some v =>
    match p.types[t]? with
    | none => .error (.mismatch ("unknown aggregate type :" ++ t))
    | some ti => do
      let a ← v.asL
      let bytes ← mem.readBytes a.toNat ti.size
      pure (.agg t bytes)
  | some ty, some v => do
    let v' ← v.coerce ty.cls
    pure (.scalar v')

/-- Bind the result of a finished call in the caller's environment. -/
def bindCallRes (p : Prog) (env : Env) (mem : Mem) (res : Option (String × Ty)) (rv : RetVal) :
    Except OpErr (Env × Mem) :=
  match res with
  | none => .ok (env, mem)
  | some (x, ty) =>
    match rv with
    | .none => .ok (env.insert x dummy, mem)
    | .scalar v =>
      match ty with
      | .agg _ => .error (.mismatch "scalar returned to an aggregate call")
      | _ =>
        match v.coerce ty.cls with
        | .error e => .error e
        | .ok v' => .ok (env.insert x v', mem)
    | .agg t bytes =>
      if ty != .agg t then .error (.mismatch "aggregate returned to a call of another type") else
      match mem.alloc bytes.size (max (((p.types[t]?).map (·.align)).getD 8) 8) (some bytes) with
      | .error e => .error e
      | .ok (base, mem') => .ok (env.insert x ⟨.l, base.toUInt64⟩, mem')

def Frame.curIns (fr : Frame) : Option Ins :=
  match fr.fi.f.blocks[fr.bi]? with
  | some b => b.ins[fr.ii]?
  | none => none

def stepIns (p : Prog) (ext : Ext) (fr : Frame) (rest : List Frame) (mem : Mem)
    (trace : Array String) : Ins → Step
  | .op res o args =>
    match readVals p fr.env args with
    | .error r => .done (.stuck r) trace
    | .ok vs =>
      match execOp o (res.map (·.2)) vs mem fr.va with
      | .error e => .done e.toEnd trace
      | .ok (v, mem') =>
        .next ⟨{ fr with env := bindRes fr.env (res.map (·.1)) v, ii := fr.ii + 1 } :: rest,
               mem', trace⟩
  | .call res callee args varAt =>
    match readVals p fr.env (callee :: args.map (·.2)) with
    | .error r => .done (.stuck r) trace
    | .ok [] => .done (.stuck (.other "internal: no callee")) trace
    | .ok (cv :: avs) =>
      match calleeName p callee cv with
      | .error e => .done e.toEnd trace
      | .ok name =>
        match p.funcs[name]? with
        | some fi =>
          match enterFunc p fi (zipTys args avs) varAt mem with
          | .error e => .done e.toEnd trace
          | .ok (nf, mem') => .next ⟨nf :: fr :: rest, mem', trace⟩
        | none =>
          match ext name avs mem with
          | none => .done (.unknownExtern name) trace
          | some (.error e) => .done e.toEnd trace
          | some (.ok r) =>
            match bindCallRes p fr.env r.mem res (.scalar r.ret) with
            | .error e => .done e.toEnd (trace ++ r.out.toArray)
            | .ok (env', mem') =>
              .next ⟨{ fr with env := env', ii := fr.ii + 1 } :: rest, mem',
                     trace ++ r.out.toArray⟩

def stepRet (p : Prog) (fr : Frame) (rest : List Frame) (mem : Mem) (trace : Array String)
    (v : Option RVal) : Step :=
  match retValue p fr mem v with
  | .error e => .done e.toEnd trace
  | .ok rv =>
    let mem := mem.popTo fr.stackMark fr.spMark
    match rest with
    | [] => .done (.ret rv) trace
    | caller :: rest' =>
      match caller.curIns with
      | some (.call res _ _ _) =>
        match bindCallRes p caller.env mem res rv with
        | .error e => .done e.toEnd trace
        | .ok (env', mem') =>
          .next ⟨{ caller with env := env', ii := caller.ii + 1 } :: rest', mem', trace⟩
      | _ => .done (.stuck (.other "internal: return to a non-call")) trace

def stepTerm (p : Prog) (fr : Frame) (rest : List Frame) (mem : Mem) (trace : Array String)
    (b : Block) : Step :=
  match b.term with
  | none => gotoBlock p fr rest mem trace b (fr.bi + 1)
  | some (.jmp l) =>
    match fr.fi.labelIdx[l]? with
    | none => .done (.stuck (.unknownLabel l)) trace
    | some j => gotoBlock p fr rest mem trace b j
  | some (.jnz v a z) =>
    match readVal p fr.env v with
    | .error r => .done (.stuck r) trace
    | .ok c =>
      match c.asW with
      | .error e => .done e.toEnd trace
      | .ok x =>
        let l := if x != 0 then a else z
        match fr.fi.labelIdx[l]? with
        | none => .done (.stuck (.unknownLabel l)) trace
        | some j => gotoBlock p fr rest mem trace b j
  | some (.ret none) => stepRet p fr rest mem trace none
  | some (.ret (some v)) =>
    match readVal p fr.env v with
    | .error r => .done (.stuck r) trace
    | .ok rv => stepRet p fr rest mem trace (some rv)
  | some .hlt => .done (.trap "hlt") trace

/-- One machine step. -/
def step (p : Prog) (ext : Ext) (s : State) : Step :=
  match s with
  | ⟨[], _, trace⟩ => .done (.stuck (.other "internal: no frame")) trace
  | ⟨fr :: rest, mem, trace⟩ =>
    match fr.fi.f.blocks[fr.bi]? with
    | none => .done (.stuck .fellOffEnd) trace
    | some b =>
      match b.ins[fr.ii]? with
      | some ins => stepIns p ext fr rest mem trace ins
      | none => stepTerm p fr rest mem trace b

structure Outcome where
  trace : Array String
  «end» : End

def run (p : Prog) (ext : Ext) : (fuel : Nat) → State → Outcome
  | 0, s => ⟨s.trace, .fuel⟩
  | n+1, s =>
    match step p ext s with
    | .next s' => run p ext n s'
    | .done e t => ⟨t, e⟩

/-- Initial state for calling function `name` with the given (typed) arguments. -/
def initState (p : Prog) (name : String) (args : List (Ty × RVal)) : Except End State :=
  match p.funcs[name]? with
  | none => .error (.stuck (.other ("no such function: " ++ name)))
  | some fi =>
    match enterFunc p fi args (if fi.f.variadic then some fi.f.params.length else none)
        p.initMem with
    | .error e => .error e.toEnd
    | .ok (fr, mem) => .ok ⟨[fr], mem, #[]⟩

def runFunc (p : Prog) (ext : Ext) (name : String) (args : List (Ty × RVal)) (fuel : Nat) :
    Outcome :=
  match initState p name args with
  | .error e => ⟨#[], e⟩
  | .ok s => run p ext fuel s

theorem step_deterministic (p : Prog) (ext : Ext) (s : State) (r₁ r₂ : Step)
    (h₁ : step p ext s = r₁) (h₂ : step p ext s = r₂) : r₁ = r₂ := by
  rw [← h₁, ← h₂]

theorem run_deterministic (p : Prog) (ext : Ext) (fuel : Nat) (s : State) (o₁ o₂ : Outcome)
    (h₁ : run p ext fuel s = o₁) (h₂ : run p ext fuel s = o₂) : o₁ = o₂ := by
  rw [← h₁, ← h₂]

/-- Running with more fuel does not change a finished run. -/
theorem run_mono (p : Prog) (ext : Ext) (n k : Nat) (s : State)
    (h : (run p ext n s).end ≠ .fuel) : run p ext (n + k) s = run p ext n s := by
  induction n generalizing s with
  | zero => simp [run] at h
  | succ n ih =>
    have : n + 1 + k = (n + k) + 1 := by omega
    rw [this]
    simp only [run] at h ⊢
    split
    · rename_i s' hs
      rw [hs] at h
      exact ih s' h
    · rfl

/-! ## Printing outcomes -/

def hexBytes (b : ByteArray) : String :=
  b.foldl (fun s x => s ++ hexFix 2 x.toNat) ""

def RetVal.render : RetVal → String
  | .none => "ret"
  | .scalar v =>
    match v.kind with
    | .w => "ret " ++ toString (v.bits &&& mask32).toNat
    | .l | .c => "ret " ++ toString v.bits.toNat
    | .s => "ret s:0x" ++ hexFix 8 (v.bits &&& mask32).toNat
    | .d => "ret d:0x" ++ hexFix 16 v.bits.toNat
    | .u => "ret undef"
  | .agg t b => "ret :" ++ t ++ " " ++ hexBytes b

def StuckReason.render : StuckReason → String
  | .undefTemp t => "undefined temporary %" ++ t
  | .unknownLabel l => "unknown label @" ++ l
  | .phiNoPred b p => "phi in @" ++ b ++ " has no source for predecessor @" ++ p
  | .fellOffEnd => "fell off the end of the function"
  | .other m => m

def End.render : End → String
  | .ret v => v.render
  | .exit n => "exit " ++ toString n.toNat
  | .trap r => "trap " ++ r
  | .oob w => "oob " ++ w
  | .stuck r => "stuck " ++ r.render
  | .unknownExtern n => "unknown-extern " ++ n
  | .unsupported w => "unsupported " ++ w
  | .fuel => "fuel"

end CprocVerif.Qbe

import CprocVerif.Model.AbiDesc
import CprocVerif.Spec.Abi
import CprocVerif.Spec.Conv

/-!
# Spec: how QBE reads a `type` definition, and what the C declaration says

**QBE side** (QBE IL reference, "Aggregate Types"; `parse.c:parsefields`): the members of a
regular type are laid out in order, every member at the next multiple of its own alignment
(`b` 1, `h` 2, `w`/`s` 4, `l`/`d` 8, an aggregate: its alignment); `item n` is `n` consecutive
items; the alignment of the type is the largest member alignment, its size the end of the last
member rounded up to the alignment.  A union type `{ {…} {…} }` lays every alternative out from
offset 0; size and alignment are the maxima.  An opaque type `align A { S }` has the size and
alignment written and no visible members.  Flattening an aggregate gives the scalar fields
`(offset, size, integer | floating | opaque)` that the x86-64 SysV, AAPCS64 and RISC-V psABI
classifications consume.

**C side**: the same flattening of the C type under the C06 layout spec (`Spec/Abi.lean`): a
scalar member is one field at its offset; a bit-field contributes its storage unit (declared
type, `sizeof T`-aligned) as an integer field; array elements repeat at stride `sizeof`.
With `merge := true` consecutive bit-fields of a struct that share one storage unit contribute
that unit once.

Only the description types (`AType`, `QTy`) are shared with `Model/AbiDesc.lean`.
-/

namespace CprocVerif.QbeLayout
open CprocVerif.Layout CprocVerif.AbiDesc CprocVerif.Abi

inductive Kind
  | int | flt | opaque
deriving DecidableEq, Repr, Inhabited

structure Fld where
  off : Nat
  size : Nat
  kind : Kind
deriving DecidableEq, Repr, Inhabited

def shift (d : Nat) (fs : List Fld) : List Fld := fs.map fun f => { f with off := f.off + d }

/-- `n` copies of `fs` at stride `stride` -/
def rep : Nat → Nat → List Fld → List Fld
  | 0, _, _ => []
  | n + 1, stride, fs => fs ++ shift stride (rep n stride fs)

def baseSize : Base → Nat
  | .b => 1 | .h => 2 | .w => 4 | .l => 8 | .s => 4 | .d => 8

def baseKind : Base → Kind
  | .s => .flt | .d => .flt | _ => .int

structure Info where
  size : Nat
  align : Nat
  flds : List Fld
deriving DecidableEq, Repr, Inhabited

/-- running state of a member list: end of the last member, largest alignment, fields so far -/
structure Acc where
  cur : Nat
  align : Nat
  flds : List Fld
deriving DecidableEq, Repr, Inhabited

mutual
  def info : QTy → Info
    | .base c => ⟨baseSize c, baseSize c, [⟨0, baseSize c, baseKind c⟩]⟩
    | .opaque a s => ⟨s, a, [⟨0, s, .opaque⟩]⟩
    | .struct fs => let r := place fs 0; ⟨roundUp r.cur r.align, r.align, r.flds⟩
    | .union as => let r := alts as; ⟨roundUp r.cur r.align, r.align, r.flds⟩
  /-- members from byte cursor `c` on -/
  def place : QFields → Nat → Acc
    | .nil, c => ⟨c, 1, []⟩
    | .cons t n rest, c =>
      let i := info t
      let p := roundUp c i.align
      let r := place rest (p + n * i.size)
      ⟨r.cur, max i.align r.align, shift p (rep n i.size i.flds) ++ r.flds⟩
  def alts : QAlts → Acc
    | .nil => ⟨0, 1, []⟩
    | .cons fs rest =>
      let a := place fs 0
      let r := alts rest
      ⟨max a.cur r.cur, max a.align r.align, a.flds ++ r.flds⟩
end

def qbeSize (t : QTy) : Nat := (info t).size
def qbeAlign (t : QTy) : Nat := (info t).align
def flatten (t : QTy) : List Fld := (info t).flds

/-! ## The C type -/

def scKind (s : Sc) : Kind := if s.isFloat then .flt else .int

mutual
  def flattenC (T : Target) (merge : Bool) : AType → List Fld
    | .sc s => [⟨0, s.size, scKind s⟩]
    | .blob s _ _ => [⟨0, s, .opaque⟩]
    | .array _ none => []
    | .array e (some n) => rep n (Abi.tinfo T (erase e)).size (flattenC T merge e)
    | .su u p fs =>
      flattenFields T merge (merge && !u) fs (Abi.layout T u p (Abi.decls T (eraseF fs))).members none
  /-- `here`: merge the bit-fields of this member list (a struct, and `merge`);
  `last`: storage unit `(offset, size)` of the previous member if that was a bit-field -/
  def flattenFields (T : Target) (merge here : Bool) :
      AFields → List Member → Option (Nat × Nat) → List Fld
    | .nil, _, _ => []
    | .cons name ty _ w rest, ms, last =>
      if name.isSome || w.isNone then
        match ms with
        | [] => []
        | m :: ms' =>
          match w with
          | none => shift m.offset (flattenC T merge ty) ++ flattenFields T merge here rest ms' none
          | some _ =>
            (if here && last == some (m.offset, m.tsize) then [] else [⟨m.offset, m.tsize, .int⟩]) ++
              flattenFields T merge here rest ms' (some (m.offset, m.tsize))
      else flattenFields T merge here rest ms last
end

/-! ## "The same fields up to merging of integer fields" -/

/-- byte `x` lies in an integer field -/
def intCovers (fs : List Fld) (x : Nat) : Prop :=
  ∃ f ∈ fs, f.kind = .int ∧ f.off ≤ x ∧ x < f.off + f.size

def nonInt (fs : List Fld) : List Fld := fs.filter fun f => f.kind != .int

/-- the floating (and opaque) fields are the same, one by one, and the same bytes hold integers -/
def FieldsEquiv (a b : List Fld) : Prop :=
  nonInt a = nonInt b ∧ ∀ x, intCovers a x ↔ intCovers b x

/-- executable version for the driver: bytes `0 ≤ x < bound` -/
def intCoversB (fs : List Fld) (x : Nat) : Bool :=
  fs.any fun f => f.kind == .int && decide (f.off ≤ x) && decide (x < f.off + f.size)

def fieldsEquivB (bound : Nat) (a b : List Fld) : Bool :=
  nonInt a == nonInt b && (List.range bound).all fun x => intCoversB a x == intCoversB b x

/-! ## Aggregates the descriptor theorems range over, and the excluded classes

The excluded classes are the recorded findings of C08 (`known_findings.json`); they are decidable
from the type: `classes` names them for the correspondence run; `good` (`Lemmas/AbiDesc.lean`) is the hypothesis
of the `_partial` theorems (`good t = true → classes T t = []`). -/

/-- both are bit-fields of one storage unit -/
def sameUnit (a b : Member) : Bool :=
  a.width.isSome && b.width.isSome && a.offset == b.offset && a.tsize == b.tsize

/-- `b` (declared after `a`) shares `a`'s bit-field storage unit or starts at or after the end of
`a` (for a bit-field: of its storage unit) -/
def unitRel (a b : Member) : Bool := sameUnit a b || decide (a.offset + a.tsize ≤ b.offset)

def pairwiseB {α : Type} (r : α → α → Bool) : List α → Bool
  | [] => true
  | a :: as => as.all (r a) && pairwiseB r as

def existsPairB {α : Type} (r : α → α → Bool) : List α → Bool
  | [] => false
  | a :: as => as.any (r a) || existsPairB r as

/-- a later member at a lower-or-equal offset has a smaller storage unit than the bit-field `a` -/
def smallerUnit (a b : Member) : Bool :=
  a.width.isSome && decide (b.offset ≤ a.offset) && decide (b.tsize < a.tsize)

/-- a later member starts inside the storage unit of the bit-field `a` (it is dropped from the
descriptor: harmless only if it is an integer member that also ends inside the unit) -/
def startsInside (a b : Member) : Bool :=
  a.width.isSome && decide (a.offset < b.offset) && decide (b.offset < a.offset + a.tsize)

/-- the storage unit of the bit-field `b` begins before the end of the earlier member `a` -/
def overlapsEarlier (a b : Member) : Bool :=
  b.width.isSome && decide (b.offset < a.offset + a.tsize) && !sameUnit a b

def Decl.isUnnamedBf (d : Decl) : Bool := !d.named && d.width.isSome

/-- excluded features of one struct/union definition (`ds`: its member declarations, `ms`: its
laid-out members) -/
def nodeClasses (isUnion pack : Bool) (ds : List Decl) (ms : List Member) : List String :=
  (if pack then ["packed"] else []) ++
  (if ds.any (fun d => decide (d.ty.align < d.align)) then ["overaligned"] else []) ++
  (if ds.any Decl.isUnnamedBf then ["unnamed-bitfield"] else []) ++
  (if ds.any (fun d => d.ty.incomplete || d.ty.flexible) then ["flexible"] else []) ++
  (if !isUnion && existsPairB smallerUnit ms then ["bitfield-smaller-unit"] else []) ++
  (if !isUnion && existsPairB startsInside ms then ["bitfield-unit-skips-member"] else []) ++
  (if !isUnion && existsPairB overlapsEarlier ms then ["bitfield-unit-overlap"] else []) ++
  (if !isUnion && !pairwiseB unitRel ms then ["unit-shared"] else [])

mutual
  def classes (T : Target) : AType → List String
    | .sc s => if s.size = 1 ∨ s.size = 2 ∨ s.size = 4 ∨ s.size = 8 then [] else ["long-double"]
    | .blob _ _ dark => if dark then [] else ["valist-member"]
    | .array e none => "flexible" :: classes T e
    | .array e (some n) => (if n = 0 then ["zero-length-array"] else []) ++ classes T e
    | .su u p fs =>
      nodeClasses u p (Abi.decls T (eraseF fs)) (Abi.layout T u p (Abi.decls T (eraseF fs))).members ++
        classesF T fs
  def classesF (T : Target) : AFields → List String
    | .nil => []
    | .cons _ ty _ _ rest => classes T ty ++ classesF T rest
end

/-! ## Classes in signatures -/

/-- the ABI type of a parameter, argument or return value (QBE IL reference, `ABITY`): a base
class, a sub-word class (`sb ub sh uh`: "used for arguments and return values of width less
than a word, to interoperate with C"), or an aggregate type -/
inductive AbiCls
  | base (c : Base)
  | sub (size : Nat) (signed : Bool)
  | agg (t : QTy)

/-- what the C type of a (parameter-adjusted) value demands; `cs`: plain `char` is signed.
`none`: no class (an array cannot be passed; `long double` has no QBE class) -/
def abiClass (cs : Bool) (desc : AType → Option QTy) : AType → Option AbiCls
  | .sc (.arith a) =>
    if a.isFloat then
      if a.size = 4 then some (.base .s) else if a.size = 8 then some (.base .d) else none
    else if a.size = 8 then some (.base .l)
    else if a.size = 4 then some (.base .w)
    else some (.sub a.size (a.issigned cs))
  | .sc .ptr => some (.base .l)
  | .array _ _ => none
  | t => (desc t).map .agg

/-- 6.5.2.2p6–7 default argument promotions of an argument without a parameter: integer
promotions, `float → double` (`Spec/Conv.lean`); everything else unchanged -/
def defaultPromote (cs : Bool) : AType → AType
  | .sc (.arith a) => .sc (.arith (Spec.promote cs a none))
  | t => t

/-! ## `va_list` of the three psABIs, as C types -/

def uintT : AType := .sc (.arith (.basic .uint))
def intT : AType := .sc (.arith (.basic .int))
def ptrT : AType := .sc .ptr

def fld (n : String) (t : AType) (rest : AFields) : AFields := .cons (some n) t 0 none rest

/-- SysV x86-64 §3.5.7: `typedef struct { unsigned gp_offset, fp_offset; void *overflow_arg_area,
*reg_save_area; } va_list[1];` -/
def sysvVaListElem : AType :=
  .su false false (fld "gp_offset" uintT (fld "fp_offset" uintT (fld "overflow_arg_area" ptrT
    (fld "reg_save_area" ptrT .nil))))

/-- AAPCS64 §B.4 (Procedure Call Standard, appendix "Variable argument lists"):
`struct { void *__stack, *__gr_top, *__vr_top; int __gr_offs, __vr_offs; }` -/
def aapcs64VaList : AType :=
  .su false false (fld "__stack" ptrT (fld "__gr_top" ptrT (fld "__vr_top" ptrT
    (fld "__gr_offs" intT (fld "__vr_offs" intT .nil)))))

/-- RISC-V psABI: `va_list` is `void *` -/
def riscvVaList : AType := ptrT

/-- (kind, size, alignment) of `va_list` per target name -/
def psabiVaList (target : String) : Option (String × Nat × Nat) :=
  if target = "x86_64-sysv" then
    let t := Abi.tinfo x86_64 (erase (.array sysvVaListElem (some 1)))
    some ("TYPEARRAY", t.size, t.align)
  else if target = "aarch64" then
    let t := Abi.tinfo aarch64 (erase aapcs64VaList)
    some ("TYPESTRUCT", t.size, t.align)
  else if target = "riscv64" then
    let t := Abi.tinfo riscv64 (erase riscvVaList)
    some ("TYPEPOINTER", t.size, t.align)
  else none

end CprocVerif.QbeLayout

import CprocVerif.Model.Driver

/-!
# cproc(1) as data

What the manual page `/repo/cproc.1` (plus the two places it refers to: the `usage:` line the
driver prints, and the option list in the statement of property C17) says about a command line.
Written from the documentation, NOT from `driver.c`; only the plain data types (`Str`, `Stage`,
`FileType`, `Word`, `Plan`, `Config`) are shared with the model.

A command line is a list of *items* (`Item`), each rendered either attached (`-Dx`) or detached
(`-D x`) where the manual shows an argument.  The meaning of a command line is given by
independent, declarative functions of the item list:

* `toolArgs t`   which tool receives what for each item (the routing table),
* `docMode`      the mode = the last of `-E`, `-emit-qbe`, `-S`, `-c` (default: link),
* `docInputs`    the inputs with the language in force (`-x` applies to *subsequent* files,
                 otherwise the suffix decides),
* `docStages`    the stages implied by a file type,
* `docOutName`   `-o`, replaced suffix, `a.out`, standard output,
* `docRefuses`   the invalid combinations,
* `docPlan`      all of the above assembled into the expected process plan.

`DocSource` records where each rule comes from; `undocumented` rules describe options the
driver accepts but no document mentions (they are listed in the evidence as documentation gaps).

Known differences between this reading and the code (each has a `_counterexample` in
`Props/C17.lean` and a finding id in `checks/c17.py`): `Deviation`.
-/

namespace CprocVerif.DriverDoc
open CprocVerif.Driver

inductive Tool | cpp | cc | qbe | as | ld
  deriving DecidableEq, Repr

def toolOf : Stage → Tool
  | .preprocess => .cpp | .compile => .cc | .codegen => .qbe | .assemble => .as | .link => .ld

inductive DocSource | man | statement | usageLine | undocumented
  deriving DecidableEq, Repr

inductive IncKind | include_ | idirafter | isystem | iquote
  deriving DecidableEq, Repr

inductive Dep | M | MM | MD | MMD
  deriving DecidableEq, Repr

inductive Ineff
  | g (suffix : Str) | O (suffix : Str) | pipe | pedantic
  | warn (suffix : Str)      -- `-W…` that is not of the form `-W<c>,…`
  deriving DecidableEq, Repr

/-- One option occurrence or one input of a command line. -/
inductive Item
  | input (name : Str)
  | c | S | E | emitQbe
  | define (v : Str) | undef (v : Str) | incdir (v : Str) | libdir (v : Str) | lib (v : Str)
  | output (v : Str) | lang (l : Str)
  | inc (k : IncKind) (v : Str)
  | strip | verbose | static_ | nostdlib | nostdinc | pthread
  | wtool (t : Tool) (args : List Str)
  | ineff (i : Ineff)
  | std (v : Str) | dep (d : Dep) | depArg (target : Bool) (v : Str) | noLineMarkers (suffix : Str)
  deriving DecidableEq, Repr

def IncKind.spelling : IncKind → Str
  | .include_ => str "-include" | .idirafter => str "-idirafter" | .isystem => str "-isystem" | .iquote => str "-iquote"

def Dep.spelling : Dep → Str
  | .M => str "-M" | .MM => str "-MM" | .MD => str "-MD" | .MMD => str "-MMD"

def wLetter : Tool → Char
  | .cpp => 'p' | .as => 'a' | .ld => 'l' | .cc => 'c' | .qbe => 'q'

def joinComma : List Str → Str
  | [] => []
  | [a] => a
  | a :: b :: r => a ++ ',' :: joinComma (b :: r)

/-- `-X value` shown in the manual as `Fl X Ar value`: attached or as the next argument. -/
def joinedOrSep (flag v : Str) (detached : Bool) : List Str :=
  if detached then [flag, v] else [flag ++ v]

/-- How an item is written on the command line. -/
def Item.render : Item → Bool → List Str
  | .input n, _ => [n]
  | .c, _ => [str "-c"] | .S, _ => [str "-S"] | .E, _ => [str "-E"] | .emitQbe, _ => [str "-emit-qbe"]
  | .define v, d => joinedOrSep (str "-D") v d
  | .undef v, d => joinedOrSep (str "-U") v d
  | .incdir v, d => joinedOrSep (str "-I") v d
  | .libdir v, d => joinedOrSep (str "-L") v d
  | .lib v, d => joinedOrSep (str "-l") v d
  | .output v, d => joinedOrSep (str "-o") v d
  | .lang l, d => joinedOrSep (str "-x") l d
  | .inc k v, _ => [k.spelling, v]
  | .strip, _ => [str "-s"] | .verbose, _ => [str "-v"] | .static_, _ => [str "-static"]
  | .nostdlib, _ => [str "-nostdlib"] | .nostdinc, _ => [str "-nostdinc"] | .pthread, _ => [str "-pthread"]
  | .wtool t args, _ => [str "-W" ++ wLetter t :: ',' :: joinComma args]
  | .ineff (.g s), _ => [str "-g" ++ s] | .ineff (.O s), _ => [str "-O" ++ s]
  | .ineff .pipe, _ => [str "-pipe"] | .ineff .pedantic, _ => [str "-pedantic"]
  | .ineff (.warn s), _ => [str "-W" ++ s]
  | .std v, _ => [str "-std=" ++ v]
  | .dep d, _ => [d.spelling]
  | .depArg t v, _ => [if t then str "-MT" else str "-MF", v]
  | .noLineMarkers s, _ => [str "-P" ++ s]

abbrev Cmd := List (Item × Bool)

def Cmd.argv (c : Cmd) : List Str := c.flatMap fun p => p.1.render p.2
def Cmd.items (c : Cmd) : List Item := c.map (·.1)

/-- Which document a rule about an item comes from. -/
def Item.source : Item → DocSource
  | .input _ | .c | .E | .define _ | .undef _ | .incdir _ | .libdir _ | .lib _ | .output _ | .lang _
  | .strip | .verbose | .static_ | .nostdlib | .nostdinc | .pthread | .wtool _ _ => .man
  | .ineff (.g _) | .ineff (.O _) | .ineff .pipe | .ineff .pedantic => .man
  | .emitQbe => .man                    -- mentioned under `-o` only
  | .S => .usageLine
  | .inc .include_ _ => .statement      -- "-D/-U/-I/-include..."
  | _ => .undocumented

/-- Constraints under which the rendering is the item it claims to be. -/
def Item.WF : Item × Bool → Bool
  | (.input n, _) => isInputArg n
  | (.define v, d) | (.undef v, d) | (.incdir v, d) | (.libdir v, d) | (.lib v, d) | (.output v, d)
  | (.lang v, d) => d || v != []
  | (.wtool t args, _) => (t == .cpp || t == .as || t == .ld) && args != [] && args.all (fun a => !a.contains ',')
  | (.ineff (.warn s), _) => match s with
    | _ :: ',' :: _ => false
    | _ => true
  | _ => true

def Cmd.WF (c : Cmd) : Bool := c.all Item.WF

/-! ## Routing table: which tool receives what -/

def toolArgs : Tool → Item → List Str
  | .cpp, .define v => [str "-D", v]
  | .cpp, .undef v => [str "-U", v]
  | .cpp, .incdir v => [str "-I", v]
  | .cpp, .inc k v => [k.spelling, v]
  | .cpp, .nostdinc => [str "-nostdinc"]
  | .cpp, .wtool .cpp args => args
  | .cpp, .std v => [str "-std=" ++ v]
  | .cpp, .dep d => [d.spelling]
  | .cpp, .depArg t v => [if t then str "-MT" else str "-MF", v]
  | .cpp, .noLineMarkers _ => [str "-P"]
  | .as, .wtool .as args => args
  | .ld, .libdir v => [str "-L", v]
  | .ld, .strip => [str "-s"]
  | .ld, .static_ => [str "-static"]
  | .ld, .wtool .ld args => args
  | _, _ => []

def docArgs (t : Tool) (c : Cmd) : List Str := c.items.flatMap (toolArgs t)

/-! ## Mode, languages, inputs -/

def modeOf : Item → Option Stage
  | .c => some .assemble | .S => some .codegen | .E => some .preprocess | .emitQbe => some .compile
  | .dep .M | .dep .MM => some .preprocess
  | _ => none

/-- the last mode flag wins (the manual does not say; this is what the code does and what the
check observes); without one the driver links. -/
def docMode (c : Cmd) : Stage := ((c.items.filterMap modeOf).getLast?).getD .link

def docLangs : List (Str × FileType) :=
  [(str "none", .none), (str "c", .c), (str "c-header", .chdr), (str "cpp-output", .cppout),
   (str "qbe", .qbe), (str "assembler", .asm), (str "assembler-with-cpp", .asmpp)]

/-- `(before, after)` the last occurrence of `c`. -/
def splitAtLast (c : Char) : Str → Option (Str × Str)
  | [] => none
  | x :: xs =>
    match splitAtLast c xs with
    | some (b, a) => some (x :: b, a)
    | none => if x = c then some ([], xs) else none

/-- "known file extensions". -/
def docSuffixes : List (Str × FileType) :=
  [(str "c", .c), (str "h", .chdr), (str "i", .cppout), (str "qbe", .qbe), (str "s", .asm), (str "S", .asmpp)]

def typeBySuffix (name : Str) : FileType :=
  match splitAtLast '.' name with
  | some (_, ext) => (docSuffixes.lookup ext).getD .obj
  | none => .obj

structure DocInput where
  name : Str
  ftype : FileType      -- `.none`: standard input without `-x`
  lib : Bool
  forced : Bool         -- a `-x` format was in force
  deriving DecidableEq, Repr

/-- `-x` forces the format of SUBSEQUENT files; `none` returns to suffix detection; `-` is
standard input and has no suffix. -/
def docInputsFrom : FileType → List Item → List DocInput
  | _, [] => []
  | l, .input n :: r =>
    ⟨n, if l = .none then (if n = ['-'] then .none else typeBySuffix n) else l, false, l != .none⟩ ::
      docInputsFrom l r
  | l, .lib v :: r => ⟨v, .obj, true, false⟩ :: docInputsFrom l r
  | l, .lang x :: r => docInputsFrom ((docLangs.lookup x).getD l) r
  | l, _ :: r => docInputsFrom l r

def docInputs (c : Cmd) : List DocInput := docInputsFrom .none c.items

/-- the stages implied by a file type. -/
def docStages : FileType → List Stage
  | .c => [.preprocess, .compile, .codegen, .assemble, .link]
  | .chdr => [.preprocess]
  | .cppout => [.compile, .codegen, .assemble, .link]
  | .qbe => [.codegen, .assemble, .link]
  | .asm => [.assemble, .link]
  | .asmpp => [.preprocess, .assemble, .link]
  | .obj => [.link]
  | .none => []

def outOf : Item → Option Str
  | .output v => some v
  | _ => none

/-- the last `-o` given. -/
def docOutput (c : Cmd) : Option Str := (c.items.filterMap outOf).getLast?

/-! ## Refusals -/

/-- Which reading of the manual: all `true` = the manual taken literally; `false` switches to
what the code does for that point (see `Deviation`). -/
structure Opts where
  manualEmitQbe : Bool := true    -- `-emit-qbe` without `-o` writes to standard output
  manualPthread : Bool := true    -- `-pthread` is `-lpthread`
  deriving DecidableEq, Repr

def Opts.manual : Opts := {}
def Opts.asImplemented : Opts := ⟨false, false⟩

def isUnknownLang : Item → Bool
  | .lang x => (docLangs.lookup x).isNone
  | _ => false

def unknownLang (c : Cmd) : Bool := c.items.any isUnknownLang

def docRefuses (c : Cmd) : Bool :=
  unknownLang c ||
  (docInputs c).any (fun i => i.ftype == .none) ||       -- standard input requires -x
  (docInputs c).isEmpty ||
  (match docOutput c with
   | none => false
   | some o =>
     if o = ['-'] then decide ((docMode c).idx ≥ Stage.assemble.idx)   -- cannot write object to stdout
     else decide (docMode c ≠ .link) && decide ((docInputs c).length > 1))

/-! ## Output names -/

/-- the part of a path after its last `/`. -/
def fileOf (name : Str) : Str :=
  match splitAtLast '/' name with
  | some (_, a) => a
  | none => name

/-- a file name without its extension (the text from the last `.`). -/
def stemOf (file : Str) : Str :=
  match splitAtLast '.' file with
  | some (b, _) => b
  | none => file

/-- directory dropped, extension replaced. -/
def replaceExt (name ext : Str) : Str := stemOf (fileOf name) ++ '.' :: ext

/-- where the result of compiling input number `i` goes (`none` = standard output).
`manual = true`: exactly what cproc(1) says (`-emit-qbe` without `-o` → standard output);
`manual = false`: `-emit-qbe` treated like `-c`/`-S` (suffix replaced by `.qbe`). -/
def docOutName (manual : Bool) (mode : Stage) (out : Option Str) (i : Nat) (name : Str) : Option Word :=
  if mode = .link then some (.tmp i)
  else match out with
    | some o => if o = ['-'] then none else some (.lit o)
    | none =>
      match mode with
      | .preprocess => none
      | .compile => if manual then none else some (.lit (replaceExt name (str "qbe")))
      | .codegen => some (.lit (replaceExt name (str "s")))
      | .assemble => some (.lit (replaceExt name (str "o")))
      | .link => some (.tmp i)

/-! ## Targets (`configure`: triple → `-t` of cproc-qbe and of qbe) -/

def docArch (target : Str) : Option (Str × Str) :=
  if isPfx (str "x86_64-") target || isPfx (str "amd64-") target then some (str "x86_64-sysv", str "amd64_sysv")
  else if isPfx (str "aarch64-") target then some (str "aarch64", str "arm64")
  else if isPfx (str "riscv64-") target then some (str "riscv64", str "rv64")
  else none

def configured (cfg : Config) : Stage → List Str
  | .preprocess => cfg.preprocesscmd | .compile => cfg.compilecmd | .codegen => cfg.codegencmd
  | .assemble => cfg.assemblecmd | .link => cfg.linkcmd

def targetFlag (arch : Str × Str) : Stage → List Str
  | .compile => [str "-t", arch.1]
  | .codegen => [str "-t", arch.2]
  | _ => []

/-- configured base command, target flag where applicable, then precisely the user options
documented as belonging to the tool, in command-line order. -/
def docBase (cfg : Config) (arch : Str × Str) (c : Cmd) (st : Stage) : List Str :=
  configured cfg st ++ targetFlag arch st ++ docArgs (toolOf st) c

/-! ## The expected plan -/

/-- the stages input type `t` runs under `mode`, link excluded (`none`: the input does not take
part). -/
def runStages (mode : Stage) (t : FileType) : Option (List Stage) :=
  if (docStages t).contains mode then
    some ((docStages t).filter fun st => st.idx ≤ mode.idx && st != .link)
  else none

/-- the stages of one input "connected in pipeline order": the first one is given the input file
(or inherits standard input for `-`), the last one is told the output with `-o` (or inherits
standard output), every other connection is a pipe from the previous stage. -/
def docInvs (base : Stage → List Str) (name : Option Str) (out : Option Word) (sts : List Stage) : List Inv :=
  sts.map fun st =>
    let first : Bool := sts.head? == some st
    let lastp : Bool := sts.getLast? == some st
    { stage := st
      base := base st
      io := (if lastp then (match out with | some w => [Word.lit (str "-o"), w] | none => []) else []) ++
            (if first then (match name with | some n => [Word.lit n] | none => []) else [])
      src := if first then (if name.isSome then .file else .inherit) else .prev
      dst := if lastp then (match out with | some w => .path w | none => .stdout) else .pipe }

inductive DocOutcome
  | fatalTarget
  | refused
  | run (p : Plan)
  deriving DecidableEq, Repr


/-- `-pthread` "is a short hand of `-lpthread`". -/
def expandItem : Item × Bool → Item × Bool
  | (.pthread, _) => (.lib (str "pthread"), false)
  | p => p

def expandPthread (c : Cmd) : Cmd := c.map expandItem

def docPipelines (o : Opts) (base : Stage → List Str) (mode : Stage) (out : Option Str) :
    Nat → List DocInput → List Pipeline
  | _, [] => []
  | i, inp :: rest =>
    let tl := docPipelines o base mode out (i + 1) rest
    if inp.ftype = .obj then tl
    else match runStages mode inp.ftype with
      | none => tl
      | some sts =>
        { input := i
          invs := docInvs base (if inp.name = ['-'] then none else some inp.name)
                    (docOutName o.manualEmitQbe mode out i inp.name) sts } :: tl

def docLinkWords (o : Opts) (mode : Stage) : Nat → List DocInput → List Word
  | _, [] => []
  | i, inp :: rest =>
    let tl := docLinkWords o mode (i + 1) rest
    if inp.lib then .lit (str "-l") :: .lit inp.name :: tl
    else if inp.ftype = .obj then .lit inp.name :: tl
    else if (docStages inp.ftype).contains .link then .tmp i :: tl
    else tl     -- only inputs whose stages include linking reach the linker

def docUnlinks (o : Opts) : Nat → List DocInput → List Word
  | _, [] => []
  | i, inp :: rest =>
    let tl := docUnlinks o (i + 1) rest
    if inp.ftype = .obj then tl
    else if (docStages inp.ftype).contains .link then .tmp i :: tl
    else tl

/-- `manual = false`: the code's reading of `-pthread`: `-l pthread` stays among the linker
options (before `-o` and all objects), in command-line order. -/
def toolArgsP (manual : Bool) (t : Tool) (it : Item) : List Str :=
  match manual, t, it with
  | false, .ld, .pthread => [str "-l", str "pthread"]
  | _, t, it => toolArgs t it

def docPlan (o : Opts) (cfg : Config) (c0 : Cmd) : DocOutcome :=
  match docArch cfg.target with
  | none => .fatalTarget
  | some arch =>
    let c := if o.manualPthread then expandPthread c0 else c0
    if docRefuses c then .refused
    else
      let mode := docMode c
      let out := docOutput c
      let ins := docInputs c
      let base := fun st => configured cfg st ++ targetFlag arch st ++ c.items.flatMap (toolArgsP o.manualPthread (toolOf st))
      let nostdlib := c.items.contains .nostdlib
      .run
        { pipelines := docPipelines o base mode out 0 ins
          link :=
            if mode = .link then
              some ((base .link).map .lit ++ [.lit (str "-o"), .lit (out.getD (str "a.out"))] ++
                (if nostdlib then [] else cfg.startfiles.map .lit) ++
                docLinkWords o mode 0 ins ++
                (if nostdlib then [] else cfg.endfiles.map .lit))
            else none
          unlinks := if mode = .link then docUnlinks o 0 ins else []
          verbose := c.items.contains .verbose }

/-! ## Known differences between the manual and the code -/

inductive Deviation
  | pthreadNotLib          -- `-pthread` is not treated as `-lpthread`
  | emitQbeNotStdout       -- `-emit-qbe` without `-o` writes `<stem>.qbe`
  deriving DecidableEq, Repr

def deviations (c : Cmd) : List Deviation :=
  (if c.items.contains .pthread then [.pthreadNotLib] else []) ++
  (if docMode c = .compile ∧ docOutput c = none ∧ (docInputs c).any (fun i => (runStages .compile i.ftype).isSome && i.ftype != .obj)
     then [.emitQbeNotStdout] else [])

end CprocVerif.DriverDoc

import CprocVerif.Model.Types

/-!
# What C11 says about the type of an expression, for the three LP64 targets

Written from the text of ISO C11 (clause numbers in the comments) and the psABIs, not from
cproc's algorithm: "can represent" is a statement about value *ranges* (not sizes), literal typing
is "the first type of the list in which the value fits", compatibility is an inductive relation.
Only the data types (`Basic`, `ATy`, `Ty`, `Qual`, `Operand`) are shared with `Model/Types.lean`.

Documented deviations that are **part of this spec** (flagged `DEVIATION` below):
* D1  a bit-field whose declared type is wider than `int` (implementation-defined bit-field type,
      6.7.2.1p5) promotes *by width* (to `int`/`unsigned int` when they can represent its values),
      as GCC and clang do; C11 itself only speaks about `_Bool`/`int`/`signed`/`unsigned` bit-fields.
* D2  `composite t1 t2 = t1` (cproc does not build composite types, 6.2.7p3): observable for
      array-size completion only.
* D3  C23 behaviours cproc implements on purpose: `()` declares a function with no parameters
      (so there is no "function without prototype" in the type language), `u8` character/string
      element type is `unsigned char`, `enum E : T`.
* D5  an enumerated type wider than `int` (not strict C11) takes part in the usual arithmetic
      conversions as its compatible integer type (see `commonReal`).
* D4  a non-lvalue expression whose value comes from a bit-field (`(s.f = 1)`, `(0, s.f)`, `s.f++`)
      is not itself "a bit-field" for 6.3.1.1p2 (literal reading; GCC and clang propagate the width).
-/

namespace CprocVerif.Spec
open CprocVerif.Types

/-! ## Targets (psABI facts) -/

structure TargetSpec where
  name : String
  /-- is plain `char` signed? -/
  charSigned : Bool
  /-- `wchar_t` -/
  wchar : Basic
  deriving Repr, DecidableEq

/-- System V AMD64 psABI (fig. 3.1: `char` signed, `wchar_t` = `int`); AAPCS64 (§10.1.2 / Arm C
language extensions: plain `char` unsigned, `wchar_t` = `unsigned int`); RISC-V psABI ("C/C++
type details": `char` unsigned, `wchar_t` = `int`). -/
def targetSpecs : List TargetSpec :=
  [⟨"x86_64-sysv", true, .int⟩, ⟨"aarch64", false, .uint⟩, ⟨"riscv64", false, .int⟩]

/-- LP64 on all three: `size_t` = `unsigned long`, `ptrdiff_t` = `long`;
`char16_t` = `uint_least16_t` = `unsigned short`, `char32_t` = `uint_least32_t` = `unsigned int`. -/
def sizeT : Basic := .ulong
def ptrdiffT : Basic := .long
def char16T : Basic := .ushort
def char32T : Basic := .uint

/-! ## Integer types: width, signedness, range (5.2.4.2.1, 6.2.5, 6.2.6.2; LP64) -/

/-- width in bits (value + sign bits); `_Bool` has one value bit -/
def bits : Basic → Nat
  | .bool => 1
  | .char | .schar | .uchar => 8
  | .short | .ushort => 16
  | .int | .uint => 32
  | .long | .ulong | .llong | .ullong => 64
  | .float => 32 | .double => 64 | .ldouble => 128

/-- signed integer type? (`cs` = plain `char` is signed on the target) -/
def isSigned (cs : Bool) : Basic → Bool
  | .char => cs
  | .schar | .short | .int | .long | .llong => true
  | _ => false

def isInteger : Basic → Bool
  | .float | .double | .ldouble => false
  | _ => true

/-- [lo, hi] of an integer type with `n` value+sign bits -/
def rangeBits (signed : Bool) (n : Nat) : Int × Int :=
  if signed then (-(2 : Int) ^ (n - 1), (2 : Int) ^ (n - 1) - 1) else (0, (2 : Int) ^ n - 1)

/-- range of values of a basic integer type -/
def rangeB (cs : Bool) (b : Basic) : Int × Int := rangeBits (isSigned cs b) (bits b)

/-- the integer type an arithmetic type is (compatible with): an enumerated type has the
representation of its compatible integer type (6.7.2.2p4) -/
def intTypeOf : ATy → Basic
  | .basic b => b
  | .enum _ b => b

def range (cs : Bool) (t : ATy) : Int × Int := rangeB cs (intTypeOf t)

/-- range "as restricted by the width, for a bit-field" (6.3.1.1p2, 6.7.2.1p10: a bit-field is an
integer type of the specified number of bits; `_Bool` bit-fields hold 0 and 1) -/
def rangeW (cs : Bool) (t : ATy) : Option Nat → Int × Int
  | none => range cs t
  | some w => if intTypeOf t = .bool then (0, 1) else rangeBits (isSigned cs (intTypeOf t)) w

/-- every value of `[r.1, r.2]` is a value of `b` -/
def canRepresentAll (cs : Bool) (b : Basic) (r : Int × Int) : Bool :=
  decide ((rangeB cs b).1 ≤ r.1) && decide (r.2 ≤ (rangeB cs b).2)

def inRange (r : Int × Int) (v : Int) : Prop := r.1 ≤ v ∧ v ≤ r.2

instance (r : Int × Int) (v : Int) : Decidable (inRange r v) := by unfold inRange; infer_instance

/-- integer conversion rank (6.3.1.1p1): `_Bool` < `char` < `short` < `int` < `long` < `long long`;
signed/unsigned have the same rank; an enumerated type has the rank of its compatible type -/
def rankB : Basic → Nat
  | .bool => 0
  | .char | .schar | .uchar => 1
  | .short | .ushort => 2
  | .int | .uint => 3
  | .long | .ulong => 4
  | .llong | .ullong => 5
  | _ => 0

def rank (t : ATy) : Nat := rankB (intTypeOf t)

def isIntegerTy (t : ATy) : Bool := isInteger (intTypeOf t)

/-- a bit-field width the declaration may specify (6.7.2.1p4; cproc lets `_Bool` bit-fields be up
to 8 wide, the promotion rule does not care) -/
def validWidth (t : ATy) : Option Nat → Prop
  | none => True
  | some w => 1 ≤ w ∧ w ≤ 8 * t.size ∧ isIntegerTy t

instance (t : ATy) (w : Option Nat) : Decidable (validWidth t w) := by
  cases w <;> unfold validWidth <;> infer_instance

/-! ## 6.3.1.1p2 integer promotions; 6.5.2.2p6 default argument promotions -/

/-- If an `int` can represent all values of the original type (as restricted by the width, for a
bit-field), the value is converted to an `int`; otherwise, it is converted to an `unsigned int`.
All other types are unchanged.  Applies to types of rank ≤ `int` and to bit-fields.
DEVIATION D1: for a bit-field of a type of greater rank the same by-width rule is used when
`int`/`unsigned int` can represent it; otherwise the type is unchanged. -/
def intPromote (cs : Bool) (t : ATy) (w : Option Nat) : ATy :=
  match w with
  | none =>
    if rank t ≤ rankB .int then
      if canRepresentAll cs .int (range cs t) then .basic .int else .basic .uint
    else t
  | some _ =>
    if canRepresentAll cs .int (rangeW cs t w) then .basic .int
    else if canRepresentAll cs .uint (rangeW cs t w) then .basic .uint
    else t

/-- integer promotions on integer types, `float` → `double`, everything else unchanged -/
def promote (cs : Bool) (t : ATy) (w : Option Nat) : ATy :=
  if t = .basic .float then .basic .double
  else if isIntegerTy t then intPromote cs t w
  else t

/-! ## 6.3.1.8 usual arithmetic conversions -/

/-- "the unsigned integer type corresponding to the type of the operand with signed integer type" -/
def unsignedOf : Basic → Basic
  | .schar => .uchar | .char => .uchar | .short => .ushort | .int => .uint | .long => .ulong
  | .llong => .ullong
  | b => b

/-- 6.3.1.8 on two *different* promoted standard integer types -/
def commonRealB (cs : Bool) (b1 b2 : Basic) : Basic :=
  if b1 = b2 then b1
  else if isSigned cs b1 = isSigned cs b2 then
    -- both signed or both unsigned: the type of greater rank
    if rankB b1 > rankB b2 then b1 else b2
  else
    let u := if isSigned cs b1 then b2 else b1
    let s := if isSigned cs b1 then b1 else b2
    -- the unsigned operand has rank ≥ the other: the unsigned type
    if rankB u ≥ rankB s then u
    -- the signed type can represent all values of the unsigned type: the signed type
    else if canRepresentAll cs s (rangeB cs u) then s
    -- otherwise the unsigned type corresponding to the signed type
    else unsignedOf s

/-- the common real type of operands of types `t1`, `t2` (bit-field widths `w1`, `w2`).
DEVIATION D5 (outside strict C11, where every enumeration fits `int` and is promoted away): an
enumerated type of rank > `int` (GCC extension / C23 fixed underlying type) that is not the type
of both operands is converted like its compatible integer type, as GCC, clang and cproc do. -/
def commonReal (cs : Bool) (t1 : ATy) (w1 : Option Nat) (t2 : ATy) (w2 : Option Nat) : ATy :=
  -- "First, if the corresponding real type of either operand is long double, …"
  if t1 = .basic .ldouble ∨ t2 = .basic .ldouble then .basic .ldouble
  else if t1 = .basic .double ∨ t2 = .basic .double then .basic .double
  else if t1 = .basic .float ∨ t2 = .basic .float then .basic .float
  else
    -- "Otherwise, the integer promotions are performed on both operands."
    let p1 := intPromote cs t1 w1
    let p2 := intPromote cs t2 w2
    -- "If both operands have the same type, then no further conversion is needed."
    if p1 = p2 then p1 else .basic (commonRealB cs (intTypeOf p1) (intTypeOf p2))

/-- `r` is the type 6.3.1.8 gives -/
def usualArith (cs : Bool) (t1 : ATy) (w1 : Option Nat) (t2 : ATy) (w2 : Option Nat) (r : ATy) : Bool :=
  r == commonReal cs t1 w1 t2 w2

/-! ## 6.4.4.1p5 integer constants, 6.4.4.2p4 floating constants, 6.4.4.4 character constants -/

inductive LongSfx | none | l | ll
  deriving DecidableEq, Repr

structure Suffix where
  u : Bool
  len : LongSfx
  deriving DecidableEq, Repr

/-- the integer-suffix grammar of 6.4.4.1p1, spelled out -/
def suffixGrammar : List (String × Suffix) :=
  [("", ⟨false, .none⟩),
   ("u", ⟨true, .none⟩), ("U", ⟨true, .none⟩),
   ("l", ⟨false, .l⟩), ("L", ⟨false, .l⟩),
   ("ll", ⟨false, .ll⟩), ("LL", ⟨false, .ll⟩),
   ("ul", ⟨true, .l⟩), ("uL", ⟨true, .l⟩), ("Ul", ⟨true, .l⟩), ("UL", ⟨true, .l⟩),
   ("lu", ⟨true, .l⟩), ("lU", ⟨true, .l⟩), ("Lu", ⟨true, .l⟩), ("LU", ⟨true, .l⟩),
   ("ull", ⟨true, .ll⟩), ("uLL", ⟨true, .ll⟩), ("Ull", ⟨true, .ll⟩), ("ULL", ⟨true, .ll⟩),
   ("llu", ⟨true, .ll⟩), ("llU", ⟨true, .ll⟩), ("LLu", ⟨true, .ll⟩), ("LLU", ⟨true, .ll⟩)]

def parseSuffix (s : String) : Option Suffix := suffixGrammar.lookup s

/-- the table of 6.4.4.1p5 -/
def literalList (decimal : Bool) : Suffix → List Basic
  | ⟨false, .none⟩ => if decimal then [.int, .long, .llong] else [.int, .uint, .long, .ulong, .llong, .ullong]
  | ⟨true, .none⟩ => [.uint, .ulong, .ullong]
  | ⟨false, .l⟩ => if decimal then [.long, .llong] else [.long, .ulong, .llong, .ullong]
  | ⟨true, .l⟩ => [.ulong, .ullong]
  | ⟨false, .ll⟩ => if decimal then [.llong] else [.llong, .ullong]
  | ⟨true, .ll⟩ => [.ullong]

/-- "The type of an integer constant is the first of the corresponding list in which its value can
be represented" — `none` if there is none (the constant then violates 6.4.4p2) -/
def literalType (cs : Bool) (v : Nat) (decimal : Bool) (sfx : Suffix) : Option Basic :=
  (literalList decimal sfx).find? (fun b => decide (inRange (rangeB cs b) (v : Int)))

/-- 6.4.4.2p4: unsuffixed `double`, `f`/`F` `float`, `l`/`L` `long double` -/
def floatLiteralType : String → Option Basic
  | "" => some .double
  | "f" | "F" => some .float
  | "l" | "L" => some .ldouble
  | _ => none

/-- 6.4.4.4p10-11: an integer character constant has type `int`; `L` `wchar_t`; `u` `char16_t`;
`U` `char32_t`.  DEVIATION D3 (C23): `u8` → `unsigned char`. -/
def charConstType (ts : TargetSpec) : CharPrefix → Basic
  | .none => .int
  | .L => ts.wchar
  | .u => char16T
  | .U => char32T
  | .u8 => .uchar

/-! ## 6.2.7 compatible types -/

/-- array size rule of 6.7.6.2p6: "if both size specifiers are present, and are integer constant
expressions, then both size specifiers shall have the same constant value" -/
def sizesAgree : ArrLen → ArrLen → Prop
  | .const a, .const b => a = b
  | _, _ => True

mutual
/-- `Compat a b`: the two types are compatible (6.2.7p1), on the type language of the model.
In a derived type the qualifier set stored in the node belongs to the referenced / element /
return type. -/
inductive Compat : Ty → Ty → Prop
  /-- same type -/
  | void : Compat .void .void
  | nullptr : Compat .nullptr .nullptr
  | arith (a : ATy) : Compat (.arith a) (.arith a)
  /-- within a translation unit a struct/union/enum declaration introduces one type; two
  declarations give two incompatible types (6.7.2.3p5) -/
  | struct (i : Nat) : Compat (.struct i) (.struct i)
  | union (i : Nat) : Compat (.union i) (.union i)
  /-- 6.7.2.2p4: an enumerated type is compatible with its (implementation-defined) integer type -/
  | enumL (i : Nat) (b : Basic) : Compat (.arith (.enum i b)) (.arith (.basic b))
  | enumR (i : Nat) (b : Basic) : Compat (.arith (.basic b)) (.arith (.enum i b))
  /-- 6.7.6.1p2 + 6.7.3p10: pointers to identically qualified compatible types -/
  | ptr (q : Qual) {a b : Ty} : Compat a b → Compat (.ptr q a) (.ptr q b)
  /-- 6.7.6.2p6 -/
  | arr (q : Qual) {la lb : ArrLen} (pa pb : Qual) {a b : Ty} :
      sizesAgree la lb → Compat a b → Compat (.arr q la pa a) (.arr q lb pb b)
  /-- 6.7.6.3p15: compatible return types, same number of parameters, same use of the ellipsis,
  corresponding parameters compatible (parameter types are already adjusted and unqualified) -/
  | func (q : Qual) {ra rb : Ty} {pa pb : List Ty} (v : Bool) :
      Compat ra rb → CompatL pa pb → Compat (.func q ra pa v) (.func q rb pb v)
inductive CompatL : List Ty → List Ty → Prop
  | nil : CompatL [] []
  | cons {a b : Ty} {as bs : List Ty} : Compat a b → CompatL as bs → CompatL (a :: as) (b :: bs)
end

/-- DEVIATION D2: the composite type (6.2.7p3) is not built -/
def composite (t1 _t2 : Ty) : Ty := t1

/-- 6.7.6.3p7-8 adjustment of a parameter declared as array or function; the qualifiers written
inside `[` `]` qualify the resulting pointer -/
def adjustParam (t : Ty) (tq : Qual) : Ty × Qual :=
  match t with
  | .arr q _ pq base => (.ptr (tq.union q) base, pq)
  | .func .. => (.ptr Qual.none t, tq)
  | _ => (t, tq)

/-- executable decision procedure for `Compat` (`Lemmas/Types.lean: compatible_iff`) -/
def lenAgree : ArrLen → ArrLen → Bool
  | .const a, .const b => a == b
  | _, _ => true

mutual
def compatible : Ty → Ty → Bool
  | .void, .void => true
  | .nullptr, .nullptr => true
  | .arith a, .arith b =>
    decide (a = b) ||
    (match a, b with
     | .enum _ x, .basic y => decide (x = y)
     | .basic x, .enum _ y => decide (x = y)
     | _, _ => false)
  | .struct i, .struct j => decide (i = j)
  | .union i, .union j => decide (i = j)
  | .ptr q a, .ptr q' b => decide (q = q') && compatible a b
  | .arr q la _ a, .arr q' lb _ b => decide (q = q') && lenAgree la lb && compatible a b
  | .func q ra pa v, .func q' rb pb v' => decide (q = q') && decide (v = v') && compatible ra rb && compatibleL pa pb
  | _, _ => false
def compatibleL : List Ty → List Ty → Bool
  | [], [] => true
  | a :: as, b :: bs => compatible a b && compatibleL as bs
  | _, _ => false
end

/-! ## 6.5 result types of operators

Each `…Ok cs … t` says: "the expression is valid and `t` is the type C11 gives it". -/

def isIntegerT (t : Ty) : Bool :=
  match t with
  | .arith a => isIntegerTy a
  | _ => false

/-- pointer to a complete object type (6.5.6p2-3) -/
def ptrToCompleteObject (t : Ty) : Bool :=
  match t with
  | .ptr _ b => !b.incomplete && !b.isFunc
  | _ => false

/-- both operands arithmetic and `t` is their common real type -/
def arithOk (cs : Bool) (l r : Operand) (t : Ty) : Bool :=
  match l.ty, r.ty, t with
  | .arith a, .arith b, .arith c => usualArith cs a l.width b r.width c
  | _, _, _ => false

def bothInteger (l r : Operand) : Bool := isIntegerT l.ty && isIntegerT r.ty

def binopOk (cs : Bool) (op : BinOp) (l r : Operand) (t : Ty) : Bool :=
  match op with
  -- 6.5.13, 6.5.14: scalar operands, result `int`
  | .lor | .land => l.ty.isScalar && r.ty.isScalar && t == Ty.int
  -- 6.5.9: both arithmetic; pointers to (qualified or unqualified versions of) compatible types;
  -- pointer to object type and pointer to void; pointer and null pointer constant
  | .eql | .neq =>
    t == Ty.int &&
    ((l.ty.isArith && r.ty.isArith) ||
     (match l.ty, r.ty with
      | .ptr _ lb, .ptr _ rb =>
        compatible lb rb || (rb == .void && !lb.isFunc) || (lb == .void && !rb.isFunc)
      | _, _ => false) ||
     (l.ty.isPtr && r.nullconst) || (r.ty.isPtr && l.nullconst))
  -- 6.5.8: real operands, or pointers to compatible object types
  | .less | .greater | .leq | .geq =>
    t == Ty.int &&
    ((l.ty.isArith && r.ty.isArith) ||
     (match l.ty, r.ty with
      | .ptr _ lb, .ptr _ rb => compatible lb rb && !lb.isFunc
      | _, _ => false))
  -- 6.5.10-12, 6.5.5 (%): integer operands, usual arithmetic conversions
  | .bor | .xor | .band | .mod => bothInteger l r && arithOk cs l r t
  -- 6.5.5
  | .mul | .div => arithOk cs l r t
  -- 6.5.6
  | .add =>
    arithOk cs l r t ||
    (ptrToCompleteObject l.ty && isIntegerT r.ty && t == l.ty) ||
    (ptrToCompleteObject r.ty && isIntegerT l.ty && t == r.ty)
  | .sub =>
    arithOk cs l r t ||
    (ptrToCompleteObject l.ty && isIntegerT r.ty && t == l.ty) ||
    (match l.ty, r.ty with
     | .ptr _ lb, .ptr _ rb =>
       -- 6.5.6p3: both point to (qualified or unqualified versions of) compatible complete object types
       ptrToCompleteObject l.ty && ptrToCompleteObject r.ty && compatible lb rb && t == .arith (.basic ptrdiffT)
     | _, _ => false)
  -- 6.5.7: integer operands; "the type of the result is that of the promoted left operand"
  | .shl | .shr =>
    bothInteger l r &&
    (match l.ty with
     | .arith a => t == .arith (intPromote cs a l.width)
     | _ => false)

/-- 6.5.15: `t` is the type of `c ? l : r` -/
def condOk (cs : Bool) (l r : Operand) (t : Ty) : Bool :=
  -- p5: both arithmetic: the usual arithmetic conversions
  arithOk cs l r t ||
  -- p3, p5: the same structure or union type; both void
  (l.ty.isStructUnion && l.ty == r.ty && t == l.ty) ||
  (l.ty == .void && r.ty == .void && t == .void) ||
  -- p6: a pointer and a null pointer constant (of integer type): the type of the other operand
  (l.ty.isPtr && !r.ty.isPtr && r.nullconst && t == l.ty) ||
  (r.ty.isPtr && !l.ty.isPtr && l.nullconst && t == r.ty) ||
  (match l.ty, r.ty with
   | .ptr ql lb, .ptr qr rb =>
     -- one is a null pointer constant (`(void *)0`): the type of the other
     (r.nullconst && !l.nullconst && t == l.ty) || (l.nullconst && !r.nullconst && t == r.ty) ||
     (l.nullconst && r.nullconst && (t == l.ty || t == r.ty)) ||
     (!l.nullconst && !r.nullconst &&
      -- pointers to compatible types: pointer to the composite type, with all qualifiers of both
      ((lb != .void && rb != .void && compatible lb rb && t == .ptr (ql.union qr) (composite lb rb)) ||
      -- pointer to object type and pointer to void: pointer to (qualified) void
       ((lb == .void || rb == .void) && !lb.isFunc && !rb.isFunc && t == .ptr (ql.union qr) .void)))
   | _, _ => false)

/-- is the cast `(t) e` a null pointer constant, given that `e` is an integer constant expression
with value 0 or a null pointer constant (6.3.2.3p3: "…or such an expression cast to type `void *`")?
Only the *unqualified* `void *` qualifies. -/
def castNullconst (t : Ty) (e : Operand) : Bool :=
  e.nullconst && (isIntegerT t || t == .ptr Qual.none .void)

/-- 6.5.3.4p5: `sizeof`/`_Alignof` have type `size_t` -/
def sizeofType : Ty := .arith (.basic sizeT)

/-- 6.5.2.3p3-4: `E.m` / `E->m` has the type of the member, "so-qualified" by the qualifiers of
the structure object; an lvalue if `->` or if `E` is one -/
def memberQual (objq mq : Qual) : Qual := objq.union mq

/-- 6.3.2.1p3-4: array → pointer to element (element qualifiers kept), function → pointer to it -/
def decayTy (t : Ty) (q : Qual) : Ty :=
  match t with
  | .arr aq _ _ base => .ptr (aq.union q) base
  | .func .. => .ptr q t
  | _ => t

/-! ## 6.7.2.2 enumerations -/

/-- the underlying type is implementation-defined but "shall be capable of representing the values
of all the members"; GCC/clang (and cproc) take `unsigned int` if no enumerator is negative, else
`int`, then the `long` types -/
def enumBaseOk (cs : Bool) (b : Basic) (lo hi : Int) : Prop :=
  inRange (rangeB cs b) lo ∧ inRange (rangeB cs b) hi

end CprocVerif.Spec

namespace CprocVerif.Spec
open CprocVerif.Types

/-- how cproc hands an integer to `typehasint`: the 64-bit two's complement pattern `i` of the value
and whether it is to be read as signed (`e->type->u.basic.issigned`) -/
def decode (i : Nat) (sign : Bool) : Int :=
  if sign ∧ i ≥ 2 ^ 63 then (i : Int) - 2 ^ 64 else (i : Int)

end CprocVerif.Spec

namespace CprocVerif.Spec
open CprocVerif.Types

/-! ## Unary operators, casts, assignment, comma, calls, member access (6.5.2–6.5.4, 6.5.16–17)

`…Ok … res` = "the expression is valid and `res` describes it" (type, and where C11 says so:
lvalue-ness, qualifiers, bit-field width, null-pointer-constant-ness). -/

/-- the operand designated by an lvalue/function designator before array/function decay -/
def undecayed (e : Operand) : Ty × Qual :=
  match e.decayedFrom with
  | some p => p
  | none => (e.ty, e.qual)

def isBitfield (e : Operand) : Bool := e.decayedFrom.isNone && e.width.isSome

def unaryOk (cs : Bool) (op : UnOp) (e : Operand) (res : Operand) : Bool :=
  match op with
  -- 6.5.3.3: arithmetic operand (integer for `~`); the result has the promoted type
  | .plus | .minus =>
    (match e.ty with
     | .arith a => if isIntegerTy a then res.ty == .arith (intPromote cs a e.width) else res.ty == e.ty
     | _ => false)
  | .bnot =>
    (match e.ty with
     | .arith a => isIntegerTy a && res.ty == .arith (intPromote cs a e.width)
     | _ => false)
  | .lnot => e.ty.isScalar && res.ty == Ty.int
  -- 6.5.3.4: not a function type, incomplete type or bit-field; result `size_t`
  | .sizeofE | .alignofE =>
    !isBitfield e && !(undecayed e).1.incomplete && !(undecayed e).1.isFunc && res.ty == sizeofType
  -- 6.5.3.2p1,3: function designator or lvalue that is not a bit-field; "pointer to type"
  | .addr =>
    ((e.decayedFrom.isSome || e.lvalue || (undecayed e).1.isFunc)) && !isBitfield e &&
      res.ty == .ptr (undecayed e).2 (undecayed e).1
  -- 6.5.3.2p2,4: pointer operand; the result designates the object/function (then 6.3.2.1 decay)
  | .deref =>
    (match e.ty with
     | .ptr q b => res.ty == decayTy b q &&
        (b.isFunc || (match b with | .arr .. => true | _ => false) || (res.qual == q && res.lvalue))
     | _ => false)
  -- 6.5.2.4, 6.5.3.1: modifiable lvalue of real or pointer type; the type of the operand
  | .preinc | .predec | .postinc | .postdec =>
    e.lvalue && !e.qual.c && (e.ty.isArith || e.ty.isPtr) && res.ty == e.ty

/-- 6.5.4: cast to void or between scalar types; the result has the named type (unqualified) -/
def isFloatingT (t : Ty) : Bool :=
  match t with
  | .arith a => !isIntegerTy a
  | _ => false

def castOk (t : Ty) (e : Operand) (res : Operand) : Bool :=
  (t == .void ||
    (t.isScalar && e.ty.isScalar &&
      -- 6.5.4p4: no conversion between pointer and floating types
      !(t.isPtr && isFloatingT e.ty) && !(isFloatingT t && e.ty.isPtr))) &&
  res.ty == t && (t == .void || res.nullconst == castNullconst t e)

/-- 6.5.16p3: "the type of an assignment expression is the type the left operand would have after
lvalue conversion"; not an lvalue -/
def assignOk (l : Operand) (res : Operand) : Bool :=
  l.lvalue && !l.qual.c && res.ty == l.ty && !res.lvalue

/-- 6.5.17: the comma operator has the type of its right operand; not an lvalue -/
def commaOk (r : Operand) (res : Operand) : Bool := res.ty == r.ty && !res.lvalue

/-- 6.5.2.2: called expression of type pointer to function returning `T`; the result has type `T`;
argument count agrees with the prototype (DEVIATION D3: there is always a prototype) -/
def callOk (f : Operand) (nargs : Nat) (res : Operand) : Bool :=
  match f.ty with
  | .ptr _ (.func _ ret params vararg) =>
    (if vararg then decide (params.length ≤ nargs) else decide (params.length = nargs)) && res.ty == ret
  | _ => false

/-- 6.5.2.3 -/
def memberOk (arrow : Bool) (e : Operand) (mty : Ty) (mq : Qual) (res : Operand) : Bool :=
  let objq : Option Qual :=
    if arrow then (match e.ty with | .ptr q (.struct _) => some q | .ptr q (.union _) => some q | _ => none)
    else if e.ty.isStructUnion then some e.qual else none
  match objq with
  | some q => res.ty == decayTy mty (memberQual q mq) &&
      (mty.isFunc || (match mty with | .arr .. => true | _ => false) ||
        (res.qual == memberQual q mq && res.lvalue == (arrow || e.lvalue)))
  | none => false

end CprocVerif.Spec

namespace CprocVerif.Spec
open CprocVerif.Types

/-! ## 6.7.3p9: qualified array types

"If the specification of an array type includes any type qualifiers, the element type is
so-qualified, not the array type."  In the type AST the qualifiers of a referenced/element type are
stored in the parent node, so `ptr q (arr aq … T)` and `ptr {} (arr (aq ∪ q) … T)` are two spellings
of the same C type ("pointer to array of q-qualified T").  `normalize` pushes such qualifiers
down to the innermost element type; C11 compatibility is `Compat` on normal forms. -/

/-- add `q` to the (innermost) element type of an array type -/
def addElemQual (q : Qual) : Ty → Ty
  | .arr aq len pq e =>
    match e with
    | .arr .. => .arr Qual.none len pq (addElemQual (aq.union q) e)
    | _ => .arr (aq.union q) len pq e
  | t => t

mutual
def normalize : Ty → Ty
  | .ptr q b =>
    match normalize b with
    | .arr aq len pq e => .ptr Qual.none (addElemQual q (.arr aq len pq e))
    | b' => .ptr q b'
  | .arr aq len pq e =>
    match normalize e with
    | .arr aq' len' pq' e' => .arr Qual.none len pq (addElemQual aq (.arr aq' len' pq' e'))
    | e' => .arr aq len pq e'
  | .func q r ps v => .func q (normalize r) (normalizeL ps) v
  | t => t
def normalizeL : List Ty → List Ty
  | [] => []
  | t :: ts => normalize t :: normalizeL ts
end

/-- compatibility of the C types the two ASTs denote -/
def compatibleN (a b : Ty) : Bool := compatible (normalize a) (normalize b)

end CprocVerif.Spec

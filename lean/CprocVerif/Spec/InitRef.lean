import CprocVerif.Model.Init

/-!
# Reference for C11 6.7.9 (p11–p21): which writes an initialiser denotes

A recursive, type-directed reading of the standard, sharing only the data types (`Ty`, `Ini`,
`Expr`, `Init`) and the scalar conversion with the model — no cursor stack, no sorted list:

* p11/p13/p14–15: a scalar takes one expression (optionally in braces), converted as by
  assignment; a struct/union may be initialised by an expression of compatible type; a character
  array (or an array of an integer type compatible with the literal's element type) by a string
  literal, optionally in braces.
* p16–p17: a brace-enclosed list initialises the members of *its* current object in order
  (`loopB`); a designation `[i]` / `.m` (through anonymous members) restarts at that sub-object and
  initialisation "continues forward in order, beginning with the next subobject after that
  described by the designator" (`desigPath` followed by `contAgg` at each level it went through).
* p20: brace elision — a sub-aggregate whose initialiser does not begin with `{` takes "only
  enough initializers from the list" (`contAgg` returns the unconsumed rest); for a contained union
  only the first member.
* p19: later initialisers override earlier ones *for the same subobject*, "all subobjects that are
  not initialized explicitly shall be initialized implicitly": a braced initialiser for a
  sub-object that already received writes first re-zeroes the whole sub-object (`zeroIfDirty`),
  and initialising a different member of a union than the one initialised before re-zeroes the
  union (`enter`).  gcc 12 and clang 14 both implement exactly this reading.
* p22: an array of unknown size gets its size from the largest indexed element (`top`).

The result is the ordered list of writes; `Spec/Image.lean` turns it into bytes.
`fuel` bounds the recursion (every call consumes one unit; `ref` supplies enough).
-/

namespace CprocVerif.InitRef
open CprocVerif.Init

structure Place where
  ty : Ty
  off : Nat := 0
  before : Nat := 0
  after : Nat := 0
  /-- the outermost array of unknown size: any index is allowed -/
  unb : Bool := false
  /-- nesting depth of the object (outermost = 0) -/
  depth : Nat := 0
deriving Inhabited

structure RSt where
  log : List Init := []
  /-- unions that have an initialised member: (offset, size, member index, nesting depth) -/
  act : List (Nat × Nat × Nat × Nat) := []
  /-- bytes of the outermost array of unknown size that are in use -/
  top : Nat := 0
  nswitch : Nat := 0
  nreinit : Nat := 0
deriving Inhabited

def Members.get? : Members → Nat → Option (Option String × Ty × Nat × Nat × Nat)
  | .nil, _ => none
  | .cons n t o b a _, 0 => some (n, t, o, b, a)
  | .cons _ _ _ _ _ r, k + 1 => Members.get? r k

/-- sub-object number `pos` of the object at `pl`; `positional` = reached by counting (a union
then has only its first member), not by a designator. -/
def childAt (pl : Place) (pos : Nat) (positional : Bool) : Option Place :=
  match pl.ty with
  | .scalar _ _ => none
  | .array n e => if pl.unb || pos < n then some { ty := e, off := pl.off + pos * e.size, depth := pl.depth + 1 } else none
  | .agg isUnion _ _ ms =>
    if isUnion && positional && pos ≠ 0 then none else
    match Members.get? ms pos with
    | some (_, t, o, b, a) => some { ty := t, off := pl.off + o, before := b, after := a, depth := pl.depth + 1 }
    | none => none

mutual
  /-- the member positions leading to `name`, through anonymous members. -/
  def pathTy (name : String) : Ty → Option (List Nat)
    | .agg _ _ _ ms => pathMs name ms 0
    | _ => none
  def pathMs (name : String) : Members → Nat → Option (List Nat)
    | .nil, _ => none
    | .cons (some n) _ _ _ _ r, k => if n = name then some [k] else pathMs name r (k + 1)
    | .cons none t _ _ _ r, k =>
      match pathTy name t with
      | some p => some (k :: p)
      | none => pathMs name r (k + 1)
end

def resolve (t : Ty) (d : Desig) : Except String (List Nat) :=
  match d, t with
  | .idx n, .array _ _ => .ok [n]
  | .idx _, _ => .error "index designator is only valid for array types"
  | .fld name, .agg _ _ _ _ =>
    match pathTy name t with
    | some p => .ok p
    | none => .error "has no member named"
  | .fld _, _ => .error "member designator only valid for struct/union types"

def bitOverlap (i : Init) (off size : Nat) : Bool := i.lo < 8 * (off + size) && 8 * off < i.hi

/-- the recorded union lies inside `[off, off+size)` at nesting depth `≥ depth`. -/
def inside (off size depth : Nat) (e : Nat × Nat × Nat × Nat) : Bool :=
  off ≤ e.1 && e.1 + e.2.1 ≤ off + size && depth ≤ e.2.2.2

/-- p19: a braced initialiser (re)initialises the whole sub-object. -/
def zeroIfDirty (st : RSt) (off size depth : Nat) : RSt :=
  if st.log.any (bitOverlap · off size) then
    { st with log := st.log ++ [⟨off, off + size, 0, 0, .int size 0⟩],
              act := st.act.filter (fun e => !inside off size depth e), nreinit := st.nreinit + 1 }
  else st

/-- about to initialise sub-object `pos` of the object at `pl`: a union holds one member. -/
def enter (st : RSt) (pl : Place) (pos : Nat) : RSt :=
  match pl.ty with
  | .agg true _ size _ =>
    match st.act.find? (fun e => e.1 == pl.off && e.2.1 == size && e.2.2.2 == pl.depth) with
    | some (_, _, m, _) =>
      if m = pos then st else
        { st with log := st.log ++ [⟨pl.off, pl.off + size, 0, 0, .int size 0⟩],
                  act := (pl.off, size, pos, pl.depth) :: st.act.filter (fun e => !inside pl.off size pl.depth e),
                  nswitch := st.nswitch + 1 }
    | none => { st with act := (pl.off, size, pos, pl.depth) :: st.act }
  | _ => st

def wr (st : RSt) (i : Init) : RSt := { st with log := st.log ++ [i] }

/-- note that element `pos` of the outermost array of unknown size exists. -/
def grow (st : RSt) (pl : Place) (pos : Nat) : RSt :=
  match pl.ty with
  | .array _ e => if pl.unb then { st with top := max st.top ((pos + 1) * e.size) } else st
  | _ => st

mutual
  /-- initialise the object at `pl` from the initialiser `ini` that heads a list whose remaining
  items are `rest`; returns the items not consumed. -/
  def initOne : Nat → Place → Ini → Items → RSt → Except String (Items × RSt)
    | 0, _, _, _, _ => .error "fuel"
    | fuel + 1, pl, .list its, rest, st =>
      match braced fuel pl its st with
      | .ok st' => .ok (rest, st')
      | .error e => .error e
    | fuel + 1, pl, .expr e, rest, st =>
      match pl.ty, e with
      | .scalar size k, e =>
        match convScalar size k e with
        | some v => .ok (rest, wr st ⟨pl.off, pl.off + size, pl.before, pl.after, v⟩)
        | none => .error "exprassign: incompatible initializer"
      | .array n (.scalar es (.int cls _)), .str w scls cs =>
        if !(isChar cls && isChar scls) && cls ≠ scls then
          .error "cannot initialize array with string literal of different width"
        else
          let size := if pl.unb then w * cs.length else n * es
          let st := if pl.unb then { st with top := max st.top size } else st
          .ok (rest, wr st ⟨pl.off, pl.off + size, 0, 0, .str w cs⟩)
      | .agg isU tag size ms, .agg etag =>
        if tag = etag then .ok (rest, wr st ⟨pl.off, pl.off + size, 0, 0, .other⟩)
        else contAgg fuel pl 0 (.cons [] (.expr e) rest) st
      | _, _ => contAgg fuel pl 0 (.cons [] (.expr e) rest) st
  /-- p20: initialise sub-objects `pos`, `pos+1`, … of the object at `pl` from undesignated items
  while there are any; returns the rest. -/
  def contAgg : Nat → Place → Nat → Items → RSt → Except String (Items × RSt)
    | 0, _, _, _, _ => .error "fuel"
    | _ + 1, _, _, .nil, st => .ok (.nil, st)
    | _ + 1, _, _, .cons (d :: ds) i rest, st => .ok (.cons (d :: ds) i rest, st)
    | fuel + 1, pl, pos, .cons [] i rest, st =>
      match childAt pl pos true with
      | none => .ok (.cons [] i rest, st)
      | some ch =>
        match initOne fuel ch i rest (grow (enter st pl pos) pl pos) with
        | .ok (rest', st') => contAgg fuel pl (pos + 1) rest' st'
        | .error e => .error e
  /-- p16: `{ its }` for the object at `pl`. -/
  def braced : Nat → Place → Items → RSt → Except String RSt
    | 0, _, _, _ => .error "fuel"
    | fuel + 1, pl, its, st =>
      -- a braced scalar is a plain override of that scalar; only aggregates are re-zeroed
      let st := match pl.ty with
        | .scalar _ _ => st
        | _ => zeroIfDirty st pl.off (if pl.unb then 0 else pl.ty.size) pl.depth
      match pl.ty, its with
      | .scalar _ _, .nil => .ok st
      | .scalar size k, .cons [] (.expr e) .nil =>
        match convScalar size k e with
        | some v => .ok (wr st ⟨pl.off, pl.off + size, pl.before, pl.after, v⟩)
        | none => .error "exprassign: incompatible initializer"
      | .scalar _ _, .cons [] (.list _) _ => .error "nested braces around scalar initializer"
      | .scalar _ _, .cons (_ :: _) _ _ => .error "designator in scalar initializer"
      | .scalar _ _, .cons [] (.expr _) (.cons _ _ _) => .error "too many initializers for type"
      | .array n (.scalar es (.int cls _)), .cons [] (.expr (.str w scls cs)) .nil =>
        -- p14: "optionally enclosed in braces"
        initOne fuel pl (.expr (.str w scls cs)) .nil st |>.map (·.2)
      | _, its => loopB fuel pl 0 its st
  /-- the items of a brace-enclosed list, the current object being the one at `pl`. -/
  def loopB : Nat → Place → Nat → Items → RSt → Except String RSt
    | 0, _, _, _, _ => .error "fuel"
    | _ + 1, _, _, .nil, st => .ok st
    | fuel + 1, pl, pos, .cons [] i rest, st =>
      match childAt pl pos true with
      | none => .error "too many initializers for type"
      | some ch =>
        match initOne fuel ch i rest (grow (enter st pl pos) pl pos) with
        | .ok (rest', st') => loopB fuel pl (pos + 1) rest' st'
        | .error e => .error e
    | fuel + 1, pl, _, .cons (d :: ds) i rest, st =>
      match resolve pl.ty d with
      | .error e => .error e
      | .ok [] => .error "empty path"
      | .ok (p :: ps) =>
        match childAt pl p false with
        | none => .error "index designator is larger than array length"
        | some ch =>
          match desigPath fuel ch ps ds i rest (grow (enter st pl p) pl p) with
          | .ok (rest', st') => loopB fuel pl (p + 1) rest' st'
          | .error e => .error e
  /-- p17: follow the (resolved) positions `ps`, then the remaining designators `ds`, initialise
  the designated sub-object from `i`, and continue forward at every level on the way back. -/
  def desigPath : Nat → Place → List Nat → List Desig → Ini → Items → RSt → Except String (Items × RSt)
    | 0, _, _, _, _, _, _ => .error "fuel"
    | fuel + 1, pl, [], [], i, rest, st => initOne fuel pl i rest st
    | fuel + 1, pl, [], d :: ds, i, rest, st =>
      match resolve pl.ty d with
      | .error e => .error e
      | .ok ps => if ps = [] then .error "empty path" else desigPath fuel pl ps ds i rest st
    | fuel + 1, pl, p :: ps, ds, i, rest, st =>
      match childAt pl p false with
      | none => .error "index designator is larger than array length"
      | some ch =>
        match desigPath fuel ch ps ds i rest (enter st pl p) with
        | .ok (rest', st') => contAgg fuel pl (p + 1) rest' st'
        | .error e => .error e
end

structure Result where
  size : Nat
  writes : List Init
  nswitch : Nat
  nreinit : Nat
deriving Inhabited

/-- The writes denoted by `T x = ini;` (`inc`: `T` is an array of unknown size). -/
def ref (t : Ty) (inc : Bool) (ini : Ini) : Except String Result :=
  match initOne 1000000 { ty := t, unb := inc } ini .nil {} with
  | .error e => .error e
  | .ok (.cons _ _ _, _) => .error "too many initializers for type"
  | .ok (.nil, st) =>
    if inc && st.top = 0 then .error "array of unknown size has empty initializer"
    else .ok ⟨if inc then st.top else t.size, st.log, st.nswitch, st.nreinit⟩

end CprocVerif.InitRef

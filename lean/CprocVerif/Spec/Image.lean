import CprocVerif.Model.Init

/-!
# The image C prescribes for an initialised object (C11 6.7.9p10, p19, p21)

An object of `size` bytes starts as all zero bits (static storage: 6.7.9p10; anything not
initialised explicitly: p19/p21).  Each initialiser then *writes* the bit range
`[8·start + before, 8·stop − after)` of the object, little-endian; later writes win.  Nothing else
changes.  This file shares only the data types `Init`, `Val`, `Cell` with the model — no list
surgery, no accumulator.
-/

namespace CprocVerif.Image
open CprocVerif.Init

/-- the number whose bit `k` (`k < n`) is `f k`. -/
def ofBits : Nat → (Nat → Bool) → Nat
  | 0, _ => 0
  | n + 1, f => (if f 0 then 1 else 0) + 2 * ofBits n (fun k => f (k + 1))

/-- the value of a byte cell (an address byte has no known bits). -/
def Cell.toNat : Cell → Nat
  | .byte n => n
  | .rel _ _ _ => 0

/-- byte `k` of the object representation of a value that occupies whole bytes.
Strings: element `k / w`, byte `k % w` of it; past the literal the array is zero (6.7.9p21),
a literal longer than the array is cut off (p14). -/
def valCell (v : Val) (k : Nat) : Cell :=
  match v with
  | .int _ u => .byte (u / 2 ^ (8 * k) % 256)
  | .flt _ b => .byte (b / 2 ^ (8 * k) % 256)
  | .addr s o => .rel s o k
  | .str w cs => .byte (cs.getD (k / w) 0 / 2 ^ (8 * (k % w)) % 256)
  | .other => .byte 0

/-- does the write `i` touch byte `j`? -/
def touches (i : Init) (j : Nat) : Prop := i.lo < 8 * j + 8 ∧ 8 * j < i.hi

instance (i : Init) (j : Nat) : Decidable (touches i j) := by unfold touches; exact inferInstance

/-- byte `j` after write `i`, given the byte before. -/
def writeCell (i : Init) (j : Nat) (old : Cell) : Cell :=
  if touches i j then
    match i.val with
    | .int _ u =>
      .byte (ofBits 8 fun k =>
        if i.lo ≤ 8 * j + k ∧ 8 * j + k < i.hi then u.testBit (8 * j + k - i.lo) else (Cell.toNat old).testBit k)
    | v => valCell v (j - i.start)
  else old

def zeros (size : Nat) : List Cell := List.replicate size (.byte 0)

def write (img : List Cell) (i : Init) : List Cell := img.mapIdx (fun j c => writeCell i j c)

/-- The image of an object of `size` bytes after the writes `inits`, in order. -/
def image (size : Nat) (inits : List Init) : List Cell := inits.foldl write (zeros size)

/-- byte `j` of the image, directly. -/
def cellAt (inits : List Init) (j : Nat) : Cell := inits.foldl (fun c i => writeCell i j c) (.byte 0)

end CprocVerif.Image

/-! ## The hypotheses of the image theorem, as executable checks

(`Lemmas/InitDec.lean` proves that `true` implies the `Prop` versions used by the theorems; the
driver reports them for every parsed initialiser so that the check can measure how much of the
tested population the theorem covers.) -/
namespace CprocVerif.Image
open CprocVerif.Init

def disjB (a b : Init) : Bool := decide (a.hi ≤ b.lo) || decide (b.hi ≤ a.lo)
def insideB (a b : Init) : Bool := decide (b.lo ≤ a.lo) && decide (a.hi ≤ b.hi)

def patchOKB (a b : Init) : Bool :=
  match a.val, b.val with
  | .str w _, .int _ _ =>
    (w == 1 || w == 2 || w == 4) && a.before == 0 && a.after == 0 && b.before == 0 && b.after == 0 &&
      b.stop == b.start + w && decide (a.start ≤ b.start) && decide (b.stop ≤ a.stop) && (b.start - a.start) % w == 0
  | _, _ => false

def lamB (a b : Init) : Bool := disjB a b || insideB a b || (insideB b a && patchOKB a b)

def wfB (size : Nat) (i : Init) : Bool :=
  decide (i.lo < i.hi) && decide (i.stop ≤ size) &&
  match i.val with
  | .int w _ => (if i.before == 0 && i.after == 0 then w == i.stop - i.start else decide (i.stop - i.start ≤ 8))
  | .flt w _ => i.before == 0 && i.after == 0 && w == i.stop - i.start
  | .addr _ _ => i.before == 0 && i.after == 0 && i.stop - i.start == 8
  | .str w _ => i.before == 0 && i.after == 0 && (w == 1 || w == 2 || w == 4) && (i.stop - i.start) % w == 0
  | .other => false

def laminarB : List Init → Bool
  | [] => true
  | a :: l => l.all (fun b => lamB a b) && laminarB l

def clearRelB (x : Init) (a b : Nat) : Bool := x.within a b || decide (x.hi ≤ 8 * a) || decide (8 * b ≤ x.lo)

def evsOKB (size : Nat) (prev : List Init) : List Ev → Bool
  | [] => true
  | .add i :: es => prev.all (fun o => lamB o i) && wfB size i && evsOKB size (prev ++ [i]) es
  | .clear a b :: es => prev.all (fun o => clearRelB o a b) && evsOKB size (prev.filter (fun o => !o.within a b)) es

end CprocVerif.Image
